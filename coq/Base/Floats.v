(* Base/Floats.v - Go's float64 / float32 on Coq.Floats.SpecFloat (pure Gallina,
   round to nearest even), the decimal reader of strconv.ParseFloat on the plain
   decimal grammar, the shortest 'f' rendering of strconv.AppendFloat on the
   exact-decimal domain, a canonical text form, and the two facts DeepEqual's
   symmetry and reflexivity need.  Validated by the `floats` stream. *)
From Coq Require Import ZArith Bool String Ascii List Lia Floats.SpecFloat.
From Verif Require Import Util Ints Strconv.
Import ListNotations.
Local Open Scope Z_scope.

Definition f64 := spec_float.

Definition norm64 (m e : Z) : spec_float := binary_normalize 53 1024 m e false.
Definition norm32 (m e : Z) : spec_float := binary_normalize 24 128 m e false.

Definition f64_of_Z (z : Z) : spec_float := norm64 z 0.

(* float32(x) for a float64 x, and float64(y) for a float32 y (exact, re-canonicalised) *)
Definition to_f32 (x : spec_float) : spec_float :=
  match x with
  | S754_finite s m e => binary_normalize 24 128 (cond_Zopp s (Zpos m)) e s
  | _ => x
  end.
Definition to_f64 (x : spec_float) : spec_float :=
  match x with
  | S754_finite s m e => binary_normalize 53 1024 (cond_Zopp s (Zpos m)) e s
  | _ => x
  end.

Definition f64_sub := SFsub 53 1024.
Definition f64_abs := SFabs.
Definition f64_leb := SFleb.
Definition f64_ltb := SFltb.
Definition f64_eqb := SFeqb.        (* Go's == : NaN differs from everything, +0 == -0 *)

(* value m * 10^e10 correctly rounded to binary64 *)
Definition f64_of_decimal (neg : bool) (m : Z) (e10 : Z) : spec_float :=
  if m =? 0 then S754_zero neg
  else if 0 <=? e10 then
    (if 400 <? e10 then S754_infinity neg
     else binary_normalize 53 1024 (cond_Zopp neg (m * 10 ^ e10)) 0 neg)
  else if e10 <? -1200 then S754_zero neg
  else
    let '(q, e', l) := SFdiv_core_binary 53 1024 m 0 (10 ^ (- e10)) 0 in
    binary_round_aux 53 1024 neg q e' l.

(* inspector.FloatPrecision = 1e-3 *)
Definition float_precision : spec_float := Eval vm_compute in f64_of_decimal false 1 (-3).

(* equal.go: EqualFloat64(a, b, opts) with the effective tolerance *)
Definition equal_float64 (a b prec : spec_float) : bool := f64_leb (f64_abs (f64_sub a b)) prec.

(* ---------- strconv.ParseFloat(s, 64) on the plain decimal grammar ----------
   sign? ( digits [ "." digits? ] | "." digits ) ( [eE] sign? digits )?   plus
   inf / infinity / nan (case-insensitive; a sign only in front of inf).
   Hexadecimal floats and underscores are outside the modelled domain
   ([pf_domain] says so); None = error (syntax, or out of range). *)
Fixpoint take_digits (s : string) (acc : Z) (n : Z) : Z * Z * string :=
  match s with
  | String c r => if is_digit c then take_digits r (acc * 10 + (code c - 48)) (n + 1) else (acc, n, s)
  | EmptyString => (acc, n, s)
  end.

Fixpoint lower_string (s : string) : string :=
  match s with EmptyString => EmptyString | String c r => String (lower c) (lower_string r) end.

Definition parse_float (s : string) : option spec_float :=
  let ls := lower_string s in
  if (ls =? "nan")%string then Some S754_nan else
  let '(neg, body) :=
    match s with
    | String c r => if code c =? 45 then (true, r) else if code c =? 43 then (false, r) else (false, s)
    | _ => (false, s)
    end in
  let lb := lower_string body in
  if (lb =? "inf")%string || (lb =? "infinity")%string then Some (S754_infinity neg) else
  let '(ip, ni, r1) := take_digits body 0 0 in
  let '(m, nf, r2, sawdot) :=
    match r1 with
    | String c r => if code c =? 46 then let '(m', nf', r') := take_digits r ip 0 in (m', nf', r', true)
                    else (ip, 0, r1, false)
    | _ => (ip, 0, r1, false)
    end in
  if (ni + nf =? 0) then None else
  let exp_part : option (Z * string) :=
    match r2 with
    | String c r =>
      if code (lower c) =? 101 then
        let '(eneg, r') :=
          match r with
          | String c' r'' => if code c' =? 45 then (true, r'') else if code c' =? 43 then (false, r'') else (false, r)
          | _ => (false, r)
          end in
        let '(ev, ne, r3) := take_digits r' 0 0 in
        if ne =? 0 then None else Some (if eneg then - ev else ev, r3)
      else Some (0, r2)
    | _ => Some (0, r2)
    end in
  match exp_part with
  | None => None
  | Some (ev, rest) =>
    match rest with
    | EmptyString =>
      let f := f64_of_decimal neg m (ev - nf) in
      match f with S754_infinity _ => None | _ => Some f end
    | _ => None
    end
  end.

Fixpoint pf_domain (s : string) : bool :=
  match s with
  | EmptyString => true
  | String c r =>
    let l := code (lower c) in
    negb ((l =? 120) || (l =? 112) || (l =? 95)) && pf_domain r      (* no x, p, _ *)
  end.

(* assign_builtin.go: ^[-+]?[\d]*\.?[\d]+([eE][-+]?[\d]+)?$ *)
Definition re_dec_float (s : string) : bool :=
  let body := strip_sign s in
  let '(_, ni, r1) := take_digits body 0 0 in
  (* greedy [\d]* then optional dot then [\d]+ ; the regex engine may also give digits back *)
  let after_frac (r : string) (need : bool) : option string :=
    let '(_, nf, r') := take_digits r 0 0 in
    if need && (nf =? 0) then None else Some r' in
  let tail_ok (r : string) : bool :=
    match r with
    | EmptyString => true
    | String c r' =>
      if code (lower c) =? 101 then
        let b := strip_sign r' in nonempty b && all_digits b
      else false
    end in
  match r1 with
  | String c r =>
    if code c =? 46 then match after_frac r true with Some r' => tail_ok r' | None => false end
    else (0 <? ni) && tail_ok r1
  | EmptyString => 0 <? ni
  end.

Definition assign_atof (s : string) : option spec_float :=
  if re_dec_float s then parse_float s else None.

(* ---------- canonical text: sign, odd mantissa, binary exponent ---------- *)
Fixpoint strip2 (fuel : nat) (m e : Z) : Z * Z :=
  match fuel with
  | O => (m, e)
  | S f => if Z.even m && negb (m =? 0) then strip2 f (m / 2) (e + 1) else (m, e)
  end.

Definition pr_float (x : spec_float) : string :=
  match x with
  | S754_zero s => if s then "F-0" else "F+0"
  | S754_infinity s => if s then "F-inf" else "F+inf"
  | S754_nan => "Fnan"
  | S754_finite s m e =>
    let '(m', e') := strip2 (Z.to_nat (Z.log2 (Zpos m)) + 1) (Zpos m) e in
    ((if s then "F-" else "F+") ++ Z_to_string m' ++ "p" ++ Z_to_string e')%string
  end.

(* ---------- strconv.AppendFloat(f, 'f', -1, 64) on the exact-decimal domain ----------
   finite values whose exact decimal expansion has at most 15 significant digits:
   there the shortest round-tripping text is the exact expansion.  None = outside. *)
Fixpoint count_digits (fuel : nat) (n : Z) : Z :=
  match fuel with O => 0 | S f => if n =? 0 then 0 else 1 + count_digits f (n / 10) end.
Fixpoint strip10 (fuel : nat) (n : Z) : Z :=
  match fuel with O => n | S f => if (n mod 10 =? 0) && negb (n =? 0) then strip10 f (n / 10) else n end.

Fixpoint pad_left (k : nat) (s : string) : string :=
  match k with O => s | S k' => String "0"%char (pad_left k' s) end.

Fixpoint drop_zeros (l : list ascii) : list ascii :=
  match l with
  | c :: r => if code c =? 48 then drop_zeros r else l
  | [] => []
  end.
Definition rstrip_zeros (t : string) : string :=
  string_of_list_ascii (rev (drop_zeros (rev (list_ascii_of_string t)))).

Definition render_float (x : spec_float) : option string :=
  match x with
  | S754_zero s => Some (if s then "-0" else "0")%string
  | S754_infinity s => Some (if s then "-Inf" else "+Inf")%string
  | S754_nan => Some "NaN"%string
  | S754_finite s m e =>
    let sign := (if s then "-" else "")%string in
    if 0 <=? e then
      let v := Zpos m * 2 ^ e in
      if v <? 2 ^ 53 then Some (sign ++ Z_to_string v)%string else None
    else
      let k := - e in                          (* value = m / 2^k = m * 5^k / 10^k *)
      if 60 <? k then None else
      let n := Zpos m * 5 ^ k in               (* k fractional digits *)
      let sig := strip10 80 n in
      if 15 <? count_digits 80 sig then None else
      let ip := n / 10 ^ k in
      let fp := n mod 10 ^ k in
      (* fractional part: k digits, trailing zeros removed *)
      let fs := Z_to_string fp in
      let fs := pad_left (Z.to_nat k - String.length fs)%nat fs in
      let fs := rstrip_zeros fs in
      Some (sign ++ Z_to_string ip ++ (match fs with EmptyString => "" | _ => "." ++ fs end))%string
  end.

(* ---------- facts (for every format) ---------- *)
Section Sym.
Variables prec emax : Z.

Lemma abs_bra s1 s2 m e l :
  SFabs (binary_round_aux prec emax s1 m e l) = SFabs (binary_round_aux prec emax s2 m e l).
Proof.
  unfold binary_round_aux.
  destruct (shr_fexp prec emax m e l) as [mrs' e'].
  destruct (shr_fexp prec emax _ e' loc_Exact) as [mrs'' e''].
  destruct (shr_m mrs''); try reflexivity.
  destruct (Zle_bool e'' (emax - prec)); reflexivity.
Qed.

Lemma abs_br s1 s2 m e :
  SFabs (binary_round prec emax s1 m e) = SFabs (binary_round prec emax s2 m e).
Proof. unfold binary_round. destruct (shl_align _ _ _) as [mz ez]. apply abs_bra. Qed.

Lemma abs_bn_opp m e z :
  SFabs (binary_normalize prec emax m e z) = SFabs (binary_normalize prec emax (- m) e z).
Proof. destruct m; simpl; try reflexivity; apply abs_br. Qed.

Theorem abs_sub_sym a b : SFabs (SFsub prec emax a b) = SFabs (SFsub prec emax b a).
Proof.
  destruct a as [sa|sa| |sa ma ea], b as [sb|sb| |sb mb eb]; simpl; try reflexivity.
  - destruct sa, sb; reflexivity.
  - destruct sa, sb; reflexivity.
  - rewrite Z.min_comm.
    set (x := cond_Zopp sa _). set (y := cond_Zopp sb _).
    replace (y - x) with (- (x - y)) by lia. apply abs_bn_opp.
Qed.

Definition finite (a : spec_float) : bool :=
  match a with S754_zero _ | S754_finite _ _ _ => true | _ => false end.

Theorem sub_self a : finite a = true -> SFabs (SFsub prec emax a a) = S754_zero false.
Proof.
  destruct a as [s|s| |s m e]; simpl; try discriminate; intros _.
  - destruct s; reflexivity.
  - rewrite Z.sub_diag. reflexivity.
Qed.
End Sym.

Lemma equal_float64_sym a b p : equal_float64 a b p = equal_float64 b a p.
Proof. unfold equal_float64, f64_abs, f64_sub. rewrite (abs_sub_sym 53 1024 a b). reflexivity. Qed.

Lemma equal_float64_refl a p :
  finite a = true -> SFleb (S754_zero false) p = true -> equal_float64 a a p = true.
Proof. intros F P. unfold equal_float64, f64_abs, f64_sub. rewrite sub_self by exact F. exact P. Qed.
