(* Base/Util.v - printing helpers, PRNG and small list utilities shared by the
   executable models and the case generators.  Nothing here is about /repo. *)
From Coq Require Import ZArith NArith List String Ascii Bool Lia.
Import ListNotations.
Local Open Scope string_scope.

(* ---------- decimal rendering ---------- *)
Definition digit_char (n : N) : ascii := ascii_of_N (48 + n).

Fixpoint pos_digits (fuel : nat) (n : N) (acc : string) : string :=
  match fuel with
  | O => acc
  | S f =>
    let acc' := String (digit_char (N.modulo n 10)) acc in
    let q := N.div n 10 in
    if N.eqb q 0 then acc' else pos_digits f q acc'
  end.

(* enough fuel: number of binary digits + 1 *)
Definition N_to_string (n : N) : string := pos_digits (S (N.to_nat (N.size n))) n "".
Definition nat_to_string (n : nat) : string := N_to_string (N.of_nat n).
Definition Z_to_string (z : Z) : string :=
  match z with
  | Z0 => "0"
  | Zpos p => N_to_string (Npos p)
  | Zneg p => String "-" (N_to_string (Npos p))
  end.

(* ---------- hex rendering of byte lists ---------- *)
Definition hex_digit (n : N) : ascii :=
  if N.ltb n 10 then ascii_of_N (48 + n) else ascii_of_N (87 + n).
Definition hex_of_ascii (c : ascii) : string :=
  let n := N_of_ascii c in
  String (hex_digit (N.div n 16)) (String (hex_digit (N.modulo n 16)) "").
Fixpoint hex_of_bytes (l : list ascii) : string :=
  match l with [] => "" | c :: r => hex_of_ascii c ++ hex_of_bytes r end.

Fixpoint join (sep : string) (l : list string) : string :=
  match l with
  | [] => ""
  | [x] => x
  | x :: r => x ++ sep ++ join sep r
  end.

Definition bytes_of_string (s : string) : list ascii := list_ascii_of_string s.
Definition string_of_bytes (l : list ascii) : string := string_of_list_ascii l.

(* ---------- a small deterministic PRNG (64-bit LCG, Knuth's MMIX constants) ---------- *)
Definition rng := N.
Definition rng_mod : N := 18446744073709551616%N.
Definition rng_next (s : rng) : rng :=
  N.modulo (s * 6364136223846793005 + 1442695040888963407)%N rng_mod.
(* a number in [0,n) and the next state; high bits are the good ones *)
Definition rng_pick (s : rng) (n : N) : N * rng :=
  let s' := rng_next s in
  (if N.eqb n 0 then 0%N else N.modulo (N.shiftr s' 33) n, s').
Definition rng_nat (s : rng) (n : nat) : nat * rng :=
  let '(k, s') := rng_pick s (N.of_nat n) in (N.to_nat k, s').
Definition rng_of_seed (seed : Z) : rng := rng_next (N.modulo (Z.abs_N seed + 88172645463325252)%N rng_mod).

Definition pick_list {A} (s : rng) (d : A) (l : list A) : A * rng :=
  let '(k, s') := rng_nat s (List.length l) in (nth k l d, s').

(* ---------- misc ---------- *)
Definition streq (a b : string) : bool := String.eqb a b.

Fixpoint count_occ_b {A} (eqb : A -> A -> bool) (l : list A) (x : A) : nat :=
  match l with [] => 0 | y :: r => (if eqb x y then 1 else 0) + count_occ_b eqb r x end.

Fixpoint upd_nth {A} (n : nat) (x : A) (l : list A) : list A :=
  match l, n with
  | [], _ => []
  | _ :: r, O => x :: r
  | y :: r, S k => y :: upd_nth k x r
  end.

Lemma upd_nth_length {A} n (x : A) l : List.length (upd_nth n x l) = List.length l.
Proof. revert n; induction l as [|y r IH]; intros [|n]; simpl; auto. Qed.

Lemma nth_error_upd_nth_eq {A} n (x : A) l : n < List.length l -> nth_error (upd_nth n x l) n = Some x.
Proof.
  revert n; induction l as [|y r IH]; intros [|n] H; simpl in *; try lia; auto.
  apply IH; lia.
Qed.

Lemma nth_error_upd_nth_neq {A} n m (x : A) l : n <> m -> nth_error (upd_nth n x l) m = nth_error l m.
Proof.
  revert n m; induction l as [|y r IH]; intros [|n] [|m] H; simpl in *; auto; try congruence.
Qed.
