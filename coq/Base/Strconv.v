(* Base/Strconv.v - the slices of Go's strconv (go1.23) and of the regular
   expressions in assign_builtin.go that the inspectors rest on, integers and
   booleans.  Only "value or error" is modelled, not which error.
   Validated against the real strconv by the `strconv` correspondence stream. *)
From Coq Require Import ZArith Bool String Ascii List Lia.
From Verif Require Import Util Ints.
Import ListNotations.
Local Open Scope Z_scope.

Definition code (c : ascii) : Z := Z.of_N (N_of_ascii c).
Definition is_digit (c : ascii) : bool := (48 <=? code c) && (code c <=? 57).
Definition lower (c : ascii) : ascii :=
  if (65 <=? code c) && (code c <=? 90) then ascii_of_N (N_of_ascii c + 32) else c.

(* value of a digit character in bases up to 36 *)
Definition digit_val (c : ascii) : option Z :=
  let x := code c in
  if is_digit c then Some (x - 48)
  else let l := code (lower c) in
       if (97 <=? l) && (l <=? 122) then Some (l - 97 + 10) else None.

Definition is_underscore (c : ascii) : bool := code c =? 95.

(* strconv.underscoreOK *)
Inductive usaw := UBegin | UDigit | UUnder | UOther.
Fixpoint uok_loop (s : string) (hex : bool) (saw : usaw) : bool :=
  match s with
  | EmptyString => match saw with UUnder => false | _ => true end
  | String c r =>
    if is_digit c || (hex && (97 <=? code (lower c)) && (code (lower c) <=? 102)) then uok_loop r hex UDigit
    else if is_underscore c then
      match saw with UDigit => uok_loop r hex UUnder | _ => false end
    else match saw with UUnder => false | _ => uok_loop r hex UOther end
  end.

Definition strip_sign (s : string) : string :=
  match s with
  | String c r => if (code c =? 45) || (code c =? 43) then r else s
  | _ => s
  end.

Definition underscore_ok (s : string) : bool :=
  let s := strip_sign s in
  match s with
  | String c0 (String c1 r) =>
    let l := code (lower c1) in
    if (code c0 =? 48) && ((l =? 98) || (l =? 111) || (l =? 120))
    then uok_loop r (l =? 120) UDigit
    else uok_loop s false UBegin
  | _ => uok_loop s false UBegin
  end.

(* the digit loop of ParseUint on unbounded Z: None on a character that is not a
   digit of the base; underscores are skipped only when base0 *)
Fixpoint pu_loop (s : string) (base : Z) (base0 : bool) (n : Z) (under : bool) : option (Z * bool) :=
  match s with
  | EmptyString => Some (n, under)
  | String c r =>
    if is_underscore c && base0 then pu_loop r base base0 n true
    else match digit_val c with
         | Some d => if d <? base then pu_loop r base base0 (n * base + d) under else None
         | None => None
         end
  end.

(* strconv.ParseUint(s, base, bitSize) for base in {0, 2..36}, result bounded by maxv *)
Definition parse_uint (s : string) (base : Z) (maxv : Z) : option Z :=
  match s with
  | EmptyString => None
  | String c0 r0 =>
    let '(b, body, base0) :=
      if base =? 0 then
        if code c0 =? 48 then
          match r0 with
          | String c1 (String c2 r2) =>
            let l := code (lower c1) in
            if l =? 98 then (2, String c2 r2, true)
            else if l =? 111 then (8, String c2 r2, true)
            else if l =? 120 then (16, String c2 r2, true)
            else (8, r0, true)
          | _ => (8, r0, true)
          end
        else (10, s, true)
      else (base, s, false) in
    match pu_loop body b base0 0 false with
    | Some (n, under) =>
      if n <=? maxv then (if under && negb (underscore_ok s) then None else Some n) else None
    | None => None
    end
  end.

(* strconv.ParseInt(s, base, bitSize) *)
Definition parse_int (s : string) (base : Z) (bitsz : Z) : option Z :=
  match s with
  | EmptyString => None
  | String c r =>
    let neg := code c =? 45 in
    let body := if neg || (code c =? 43) then r else s in
    match parse_uint body base (2 ^ bitsz - 1) with
    | Some un =>
      let cutoff := 2 ^ (bitsz - 1) in
      if neg then (if un <=? cutoff then Some (- un) else None)
      else (if un <? cutoff then Some un else None)
    | None => None
    end
  end.

(* strconv.Atoi: optional sign and decimal digits, int64 range *)
Definition atoi (s : string) : option Z := parse_int s 10 64.

(* strconv.ParseBool *)
Definition parse_bool (s : string) : option bool :=
  if (s =? "1")%string || (s =? "t")%string || (s =? "T")%string || (s =? "TRUE")%string
     || (s =? "true")%string || (s =? "True")%string then Some true
  else if (s =? "0")%string || (s =? "f")%string || (s =? "F")%string || (s =? "FALSE")%string
     || (s =? "false")%string || (s =? "False")%string then Some false
  else None.

(* the conversion snippets of default_snippets.go: ParseInt(x, 0, 0) then T(t) *)
Definition snippet_int (k : ikind) (s : string) : option Z :=
  match parse_int s 0 64 with Some z => Some (wrap k z) | None => None end.
Definition snippet_uint (k : ikind) (s : string) : option Z :=
  match parse_uint s 0 (2 ^ 64 - 1) with Some z => Some (wrap k z) | None => None end.

(* ---------- recognisers of assign_builtin.go ---------- *)
Fixpoint all_digits (s : string) : bool :=
  match s with EmptyString => true | String c r => is_digit c && all_digits r end.
Definition nonempty (s : string) : bool := match s with EmptyString => false | _ => true end.

(* ^[-+]?[\d]+$ *)
Definition re_dec_int (s : string) : bool :=
  let b := strip_sign s in nonempty b && all_digits b.
(* ^[+]?[\d]+$ *)
Definition re_dec_uint (s : string) : bool :=
  let b := match s with String c r => if code c =? 43 then r else s | _ => s end in
  nonempty b && all_digits b.

(* assign_builtin.go atoi / atou *)
Definition assign_atoi (s : string) : option Z :=
  if re_dec_int s then parse_int s 10 64 else None.
Definition assign_atou (s : string) : option Z :=
  if re_dec_uint s then parse_uint s 10 (2 ^ 64 - 1) else None.

