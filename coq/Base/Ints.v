(* Base/Ints.v - Go's fixed-width integer kinds over unbounded Z with explicit
   wrap-around where Go converts (amd64: int and uint are 64 bit). *)
From Coq Require Import ZArith Bool String List Lia.
Import ListNotations.
Local Open Scope Z_scope.

Inductive ikind := KInt | KInt8 | KInt16 | KInt32 | KInt64 | KUint | KUint8 | KUint16 | KUint32 | KUint64.

Definition ikind_eqb (a b : ikind) : bool :=
  match a, b with
  | KInt, KInt | KInt8, KInt8 | KInt16, KInt16 | KInt32, KInt32 | KInt64, KInt64
  | KUint, KUint | KUint8, KUint8 | KUint16, KUint16 | KUint32, KUint32 | KUint64, KUint64 => true
  | _, _ => false
  end.

Definition is_signed (k : ikind) : bool :=
  match k with KInt | KInt8 | KInt16 | KInt32 | KInt64 => true | _ => false end.

Definition bits (k : ikind) : Z :=
  match k with
  | KInt8 | KUint8 => 8 | KInt16 | KUint16 => 16 | KInt32 | KUint32 => 32
  | KInt | KInt64 | KUint | KUint64 => 64
  end.

Definition kmin (k : ikind) : Z := if is_signed k then - 2 ^ (bits k - 1) else 0.
Definition kmax (k : ikind) : Z := if is_signed k then 2 ^ (bits k - 1) - 1 else 2 ^ bits k - 1.
Definition in_range (k : ikind) (z : Z) : bool := (kmin k <=? z) && (z <=? kmax k).

(* Go's conversion T(z) between integer types: reduce modulo 2^bits into T's range *)
Definition wrap (k : ikind) (z : Z) : Z :=
  let m := 2 ^ bits k in
  let r := z mod m in
  if is_signed k then (if r <? 2 ^ (bits k - 1) then r else r - m) else r.

Definition ikind_name (k : ikind) : string :=
  match k with
  | KInt => "int" | KInt8 => "int8" | KInt16 => "int16" | KInt32 => "int32" | KInt64 => "int64"
  | KUint => "uint" | KUint8 => "uint8" | KUint16 => "uint16" | KUint32 => "uint32" | KUint64 => "uint64"
  end%string.

Definition all_ikinds : list ikind :=
  [KInt; KInt8; KInt16; KInt32; KInt64; KUint; KUint8; KUint16; KUint32; KUint64].

Lemma bits_pos k : 0 < bits k.
Proof. destruct k; simpl; lia. Qed.

Lemma wrap_in_range k z : in_range k (wrap k z) = true.
Proof.
  unfold in_range, wrap, kmin, kmax.
  assert (H : 0 < 2 ^ bits k) by (apply Z.pow_pos_nonneg; destruct k; simpl; lia).
  assert (E : 2 ^ bits k = 2 * 2 ^ (bits k - 1)).
  { replace (bits k) with (Z.succ (bits k - 1)) at 1 by lia. rewrite Z.pow_succ_r; [reflexivity|destruct k; simpl; lia]. }
  pose proof (Z.mod_pos_bound z (2 ^ bits k) H) as B.
  destruct (is_signed k).
  - destruct (Z.ltb_spec (z mod 2 ^ bits k) (2 ^ (bits k - 1))); apply andb_true_iff; split; apply Z.leb_le; lia.
  - apply andb_true_iff; split; apply Z.leb_le; lia.
Qed.

Lemma wrap_id k z : in_range k z = true -> wrap k z = z.
Proof.
  unfold in_range, wrap, kmin, kmax. intros H. apply andb_true_iff in H. destruct H as (H1 & H2).
  apply Z.leb_le in H1, H2.
  assert (P : 0 < 2 ^ bits k) by (apply Z.pow_pos_nonneg; destruct k; simpl; lia).
  assert (E : 2 ^ bits k = 2 * 2 ^ (bits k - 1)).
  { replace (bits k) with (Z.succ (bits k - 1)) at 1 by lia. rewrite Z.pow_succ_r; [reflexivity|destruct k; simpl; lia]. }
  destruct (is_signed k).
  - destruct (Z.ltb_spec z 0).
    + replace (z mod 2 ^ bits k) with (z + 2 ^ bits k).
      * destruct (Z.ltb_spec (z + 2 ^ bits k) (2 ^ (bits k - 1))); lia.
      * apply Z.mod_unique with (-1); lia.
    + rewrite Z.mod_small by lia. destruct (Z.ltb_spec z (2 ^ (bits k - 1))); lia.
  - apply Z.mod_small; lia.
Qed.
