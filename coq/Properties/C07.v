(* Properties/C07.v - statements only.
   C07: values handed out through an accumulating buffer stay intact and never
   overlap.  [run true] is the buffer with handed-out sub-slices cut with
   cap = len (the code after the "fix:" commit); [run false] is the buffer of
   the pinned commit (buf[off:]). *)
From Coq Require Import List Arith Bool Ascii String Lia.
From Verif Require Import Util Buffer BufferInv.
Import ListNotations.

(* Every history over one buffer - Bufferize, BufferizeString, Acquire/append/
   Release, buffered Assign conversions, CopyTo-style field sequences, client
   overwrite / append / unbuffered re-fill of handed-out slices, Reset - from
   any initial capacity and under ANY growth policy (each operation carries its
   own oracle [extra]): every value handed out since the last Reset still reads
   exactly what its holder is entitled to. *)
Theorem C07_content_stable : forall size ops k x,
  nth_error (st_log (run true size ops)) k = Some x -> hd_live x = true ->
  read (st_heap (run true size ops)) (hd_sl x) = hd_want x.
Proof. exact content_stable. Qed.
Print Assumptions C07_content_stable.

(* ... and no two live handed-out values overlap, spare capacity included. *)
Theorem C07_no_overlap : forall size ops,
  any_overlap (live (st_log (run true size ops))) = false.
Proof. exact no_overlap. Qed.
Print Assumptions C07_no_overlap.

(* The full invariant (well-formed slices, contents, frontier, pairwise
   disjointness) holds in every reachable state. *)
Theorem C07_inv_reachable : forall size ops, Inv (run true size ops).
Proof. exact run_inv. Qed.
Print Assumptions C07_inv_reachable.

(* [hd_want] is not a loophole: the content a holder is entitled to is what it
   was handed, and only the holder's own client operations on that very value
   change it. *)
Theorem C07_want_only_by_owner : forall tight st o k x,
  nth_error (st_log st) k = Some x -> targets o k = false -> o <> OReset ->
  exists x', nth_error (st_log (step tight st o)) k = Some x' /\ hd_want x' = hd_want x /\ hd_live x' = hd_live x.
Proof. exact want_only_by_owner. Qed.
Print Assumptions C07_want_only_by_owner.

(* The handed-out value is what was asked for. *)
Theorem C07_handout_is_input : forall size ops d e,
  let st := run true size (ops ++ [OBufferize d e]) in
  exists x, nth_error (st_log st) (List.length (st_log (run true size ops))) = Some x /\
            hd_want x = d /\ hd_live x = true /\ read (st_heap st) (hd_sl x) = d.
Proof. exact handout_is_input. Qed.
Print Assumptions C07_handout_is_input.

(* A destination that is not fresh makes no difference: a CopyTo into the object
   that received an earlier CopyTo, and a buffered Assign into a field that still
   holds an earlier value, hand out NEW regions exactly as they do for a fresh
   destination - so the theorems above cover the earlier values, still held
   elsewhere, of every history that uses destinations again. *)
Theorem C07_used_destination_as_fresh : forall tight st fs k d e,
  step tight st (OCopyInto fs e) = step tight st (OCopyTo fs e) /\
  step tight st (OAssignBytesInto k d e) = step tight st (OAssignBytes d e).
Proof. intros; split; reflexivity. Qed.
Print Assumptions C07_used_destination_as_fresh.

(* CopyTo of the BUILT-IN inspectors (StringAnyMapInspector on nested map[string]any with
   string / *string / []byte / *[]byte values on every level, StringsInspector on []string /
   [][]byte) is, value by value, "the source stays where it is, outside the buffer; one
   Bufferize / BufferizeString hands out the copy" - whatever the nesting, and for EVERY order
   in which the map is walked (each order is a token list).  So the theorems above cover
   every source text and every copy of such a CopyTo, on all levels, together with everything
   else handed out by the same buffer. *)
Theorem C07_builtin_copy_is_bufferize_sequence : forall tight st,
  (forall reuse ts e, step tight st (OCopyMap reuse ts e)
                      = fold_left (step tight) (expand_items (items_of_toks ts) e) st) /\
  (forall reuse ss ds l e, step tight st (OCopyStrings reuse ss ds l e)
                      = fold_left (step tight) (expand_items (items_of_strings ss ds l) e) st).
Proof. exact builtin_copy_is_bufferize_sequence. Qed.
Print Assumptions C07_builtin_copy_is_bufferize_sequence.

(* SOURCES WITH SPARE CAPACITY.  A []byte the client owns outside the buffer - empty but
   allocated (what a pooled object holds after x = x[:0]), or filled below its capacity - is
   observed over its WHOLE capacity, in an array of its own; C07_no_overlap and
   C07_content_stable therefore say: whatever is handed out afterwards - by Bufferize of that
   very value, by a CopyTo whose source fields hold it, once or several times - never lies in
   the source's array, spare capacity included, and the source reads what its owner wrote. *)
Theorem C07_source_extent_is_capacity : forall tight st d spare,
  exists x, st_log (step tight st (OSourceCap d spare)) = st_log st ++ [x] /\
            hd_want x = d /\ hd_live x = true /\ hd_str x = false /\
            s_arr (hd_sl x) = h_next (st_heap st) /\
            hand_lo x = 0 /\ s_len (hd_sl x) = List.length d /\ hand_hi x = List.length d + spare.
Proof. exact source_cap_extent. Qed.
Print Assumptions C07_source_extent_is_capacity.

Theorem C07_pairwise_disjoint : forall size ops i j x y,
  i <> j ->
  nth_error (st_log (run true size ops)) i = Some x -> nth_error (st_log (run true size ops)) j = Some y ->
  hd_live x = true -> hd_live y = true -> disj x y.
Proof. exact pairwise_disjoint. Qed.
Print Assumptions C07_pairwise_disjoint.

(* A copy whose source fields ARE observed values (generated CopyTo of an object holding them,
   StringAnyMapInspector / StringsInspector / StaticInspector CopyTo) hands out exactly what the
   copy of their contents hands out: the place, the length and the capacity of a source do not
   matter, nor does the inspector or the freshness of the destination.  An emptied value
   (x = x[:0]) is the unbuffered re-fill with nothing.  So every theorem above covers these
   histories. *)
Theorem C07_copy_of_observed_is_copy_of_content : forall tight st v reuse ks e xs,
  held (st_log st) ks = Some xs -> via_ok v xs = true ->
  step tight st (OCopyHeld v reuse ks e) = step tight st (OCopyTo (held_fields v xs) e).
Proof. exact held_copy_is_copyto. Qed.
Print Assumptions C07_copy_of_observed_is_copy_of_content.

Theorem C07_truncate_is_empty_refill : forall tight st k,
  step tight st (CTruncate k) = step tight st (CSetUnbuf k [] 0).
Proof. exact truncate_is_empty_refill. Qed.
Print Assumptions C07_truncate_is_empty_refill.

(* Non-vacuity: a concrete history with growth, client appends and overwrites. *)
Local Open Scope char_scope.
Definition demo_ops : list op :=
  [OBufferize ["a"; "b"] 0; OBufferizeString ["c"; "d"] 3; CAppend 0 ["X"] 1;
   OAssignBytes ["4"; "2"] 0; CWrite 2 0 "9"; CSetUnbuf 0 ["Z"] 0;
   OCopyTo [(true, ["i"; "d"]); (false, ["n"])] 2].
Example C07_demo :
  map (fun x => (hd_want x, read (st_heap (run true 3 demo_ops)) (hd_sl x))) (st_log (run true 3 demo_ops))
  = [(["Z"], ["Z"]); (["c"; "d"], ["c"; "d"]); (["9"; "2"], ["9"; "2"]); (["i"; "d"], ["i"; "d"]); (["n"], ["n"])].
Proof. vm_compute. reflexivity. Qed.

(* Non-vacuity with destinations used again: the value handed out by the first
   CopyTo (index 1, "fg") is re-filled by its holder, the destination receives a
   shorter and then a longer value, a buffered Assign goes into the field of
   value 3; every holder still reads its own content and nothing overlaps. *)
Definition reuse_ops : list op :=
  [OCopyTo [(true, ["e"]); (false, ["f"; "g"])] 0; CSetUnbuf 1 ["7"] 0;
   OCopyInto [(true, ["h"]); (false, ["i"])] 1; OCopyInto [(true, ["j"]); (false, ["k"; "l"; "m"])] 0;
   OAssignBytesInto 3 ["4"; "2"] 0; CWrite 3 0 "!"].
Example C07_demo_reuse :
  (map (fun x => (hd_want x, read (st_heap (run true 2 reuse_ops)) (hd_sl x))) (st_log (run true 2 reuse_ops)),
   any_overlap (live (st_log (run true 2 reuse_ops))))
  = ([(["e"], ["e"]); (["7"], ["7"]); (["h"], ["h"]); (["!"], ["!"]); (["j"], ["j"]);
      (["k"; "l"; "m"], ["k"; "l"; "m"]); (["4"; "2"], ["4"; "2"])], false).
Proof. vm_compute. reflexivity. Qed.

(* Non-vacuity with a nested map: text on the outer level and in a nested *map, a []string
   copied to [][]byte, a watched source; the client then overwrites a source and a copy - the
   other one of each pair keeps its content, nothing overlaps. *)
Definition builtin_ops : list op :=
  [OBufferizeString ["c"; "d"] 0;
   OCopyMap false [TText false false ["p"]; TOpen 1; TText true true ["q"; "r"]; TOther; TClose] 1;
   OCopyStrings false true false [["g"; "h"]; []] 0;
   CWrite 1 0 "!"; CWrite 2 0 "?"; OSource false ["u"]; OBufferizeFrom 9 0; CSetUnbuf 9 ["7"; "8"] 0].
Example C07_demo_builtin :
  (map (fun x => (hd_want x, read (st_heap (run true 4 builtin_ops)) (hd_sl x))) (st_log (run true 4 builtin_ops)),
   any_overlap (live (st_log (run true 4 builtin_ops))))
  = ([(["c"; "d"], ["c"; "d"]); (["!"], ["!"]); (["?"], ["?"]); (["q"; "r"], ["q"; "r"]); (["q"; "r"], ["q"; "r"]);
      (["g"; "h"], ["g"; "h"]); (["g"; "h"], ["g"; "h"]); ([], []); ([], []); (["7"; "8"], ["7"; "8"]); (["u"], ["u"])],
     false).
Proof. vm_compute. reflexivity. Qed.

(* Non-vacuity with sources that have spare capacity: an empty-but-allocated source (capacity 8)
   and a half-filled one are copied twice each (Bufferize of the value itself; generated CopyTo and
   StringsInspector.CopyTo of objects holding them), a handed-out value is emptied and fed back;
   then the copies and the sources are grown within their capacities: every holder reads its own
   content, nothing overlaps. *)
Definition spare_ops : list op :=
  [OSourceCap [] 8; OSourceCap ["a"; "b"] 6; OBufferizeFrom 0 0; OBufferizeFrom 0 0;
   OCopyHeld VGenerated false [0; 1] 0; OCopyHeld (VStrings false) true [1; 0] 2;
   CAppend 2 ["x"] 0; CAppend 3 ["y"] 0; CAppend 0 ["S"; "R"; "C"] 0; CAppend 1 ["!"] 0;
   CTruncate 5; OBufferizeFrom 5 0; CAppend 5 ["p"; "q"] 0; CSetUnbuf 4 ["7"] 0].
Example C07_demo_spare :
  (map (fun x => (hd_want x, read (st_heap (run true 0 spare_ops)) (hd_sl x))) (st_log (run true 0 spare_ops)),
   any_overlap (live (st_log (run true 0 spare_ops))))
  = ([(["S"; "R"; "C"], ["S"; "R"; "C"]); (["a"; "b"; "!"], ["a"; "b"; "!"]); (["x"], ["x"]); (["y"], ["y"]);
      (["7"], ["7"]); (["p"; "q"], ["p"; "q"]); (["a"; "b"], ["a"; "b"]); ([], []); ([], [])], false).
Proof. vm_compute. reflexivity. Qed.

(* The pinned commit (buf[off:], capacity to the end of the buffer) violates
   the property: two Bufferize calls, then the client appends one byte to the
   first value - the second one changes under its holder. *)
Definition loose_witness : list op :=
  [OBufferize ["a"; "b"] 0; OBufferize ["c"; "d"] 0; CAppend 0 ["X"] 0].
Theorem C07_refuted_loose :
  exists size ops k x,
    nth_error (st_log (run false size ops)) k = Some x /\ hd_live x = true /\
    read (st_heap (run false size ops)) (hd_sl x) <> hd_want x.
Proof.
  exists 16, loose_witness, 1.
  eexists. split; [vm_compute; reflexivity|]. split; [reflexivity|].
  vm_compute. discriminate.
Qed.
Print Assumptions C07_refuted_loose.

Theorem C07_refuted_loose_overlap :
  exists size ops, any_overlap (live (st_log (run false size ops))) = true.
Proof. exists 16, loose_witness. vm_compute. reflexivity. Qed.
Print Assumptions C07_refuted_loose_overlap.
