(* Properties/C16.v - statements only.
   C16: the static inspector treats scalars, strings and bytes like the native
   values.  [sarg] is an operand (a value of one of the 15 kinds or of another
   type; by value, behind a pointer, or a typed nil pointer); [denotes a = Some v]
   says it was passed by value or by (non-nil) pointer and denotes v; [wf_val]:
   integers lie within their Go type, len <= cap.  The s_* functions are the
   case-by-case model of static.go (Model/Static.v) at revision [cur] = the code
   as it is today; [pinned] is the code before the four "fix:" commits.  The
   right-hand sides come from Spec/StaticSpec.v. *)
From Coq Require Import ZArith Bool String Ascii List Floats.SpecFloat.
From Verif Require Import Util Ints Strconv Floats Static StaticSpec StaticFacts StaticProofs.
Import ListNotations.
Local Open Scope Z_scope.

(* Get and GetTo hand back the very interface value they were given (a pointer
   stays that pointer), for every operand, with a nil error. *)
Theorem C16_get_identity : forall a, s_get a = Ret (a, None) /\ s_getto a = Ret (a, None).
Proof. exact get_identity. Qed.
Print Assumptions C16_get_identity.

(* Compare: whenever the operand text parses for the kind of the value, *result
   is the native comparison - for every kind, form, value, operator and text. *)
Theorem C16_compare_native : forall a v op right res0 b,
  denotes a = Some v -> wf_val v -> spec_compare v op right = Some b ->
  s_compare a op right res0 = Ret b.
Proof. exact compare_native. Qed.
Print Assumptions C16_compare_native.

(* ... and when it does not parse, *result keeps what it held and the error is nil. *)
Theorem C16_compare_unparsable : forall a v op right res0,
  denotes a = Some v -> wf_val v -> spec_compare v op right = None ->
  s_compare a op right res0 = Ret res0.
Proof. exact compare_unparsable. Qed.
Print Assumptions C16_compare_unparsable.

(* DeepEqual gives the same outcome in both argument orders: ALL operand pairs,
   typed nil pointers (same panic) and foreign types included, any fuel. *)
Theorem C16_deq_sym : forall fuel l r, s_deq cur fuel l r = s_deq cur fuel r l.
Proof. exact deq_sym. Qed.
Print Assumptions C16_deq_sym.

(* Within one family DeepEqual is true exactly for equal values: booleans,
   signed, unsigned (as numbers, across widths), floats (equal or within 1e-3,
   across widths), text (strings and byte slices by content). *)
Theorem C16_deq_family : forall fuel l r x y b,
  denotes l = Some x -> denotes r = Some y -> wf_val x -> wf_val y ->
  spec_equal x y = Some b -> s_deq cur fuel l r = Ret b.
Proof. exact deq_family. Qed.
Print Assumptions C16_deq_family.

(* DeepEqual of operands that denote values always returns; and no operands at
   all make the current code recurse without end. *)
Theorem C16_deq_returns : forall fuel l r,
  passed l = true -> passed r = true -> exists b, s_deq cur fuel l r = Ret b.
Proof. exact deq_returns. Qed.
Print Assumptions C16_deq_returns.

Theorem C16_deq_never_diverges : forall fuel l r, s_deq cur fuel l r <> Diverge.
Proof. exact deq_never_diverges. Qed.
Print Assumptions C16_deq_never_diverges.

(* Copy: an equal value of the same kind that shares no bytes with the source,
   for every array identity append may return ([fresh] not the source's) and
   every capacity it may choose. *)
Theorem C16_copy_fresh : forall fresh extra a v,
  denotes a = Some v -> family_of v <> FamOther -> array_of v <> Some fresh ->
  exists w, s_copy fresh extra a = Ret (Some w, None) /\ same_value v w = true /\ shares w v = false.
Proof. exact copy_fresh. Qed.
Print Assumptions C16_copy_fresh.

(* CopyTo into a pointer to the same kind: the target receives an equal value
   whose bytes live in the buffer, never in the source. *)
Theorem C16_copyto_fresh : forall fresh extra src dst b v w,
  denotes src = Some v -> family_of v <> FamOther -> dst = APtr w -> same_kind v w = true ->
  array_of v <> Some fresh -> array_of v <> Some (b_aid b) ->
  exists w' b', s_copyto fresh extra src dst b = Ret (None, APtr w', b') /\
                same_value v w' = true /\ shares w' v = false.
Proof. exact copyto_fresh. Qed.
Print Assumptions C16_copyto_fresh.

(* Length / Capacity: len and cap of strings and byte slices, 0 for every other kind. *)
Theorem C16_lencap : forall a v,
  denotes a = Some v ->
  s_length a = Ret (match spec_len v with Some n => n | None => 0 end) /\
  s_capacity a = Ret (match spec_cap v with Some n => n | None => 0 end).
Proof. exact lencap. Qed.
Print Assumptions C16_lencap.

(* Reset through a pointer leaves the zero value of the same kind in the target,
   for all 15 kinds; by value nothing changes. *)
Theorem C16_reset_zeroes : forall v,
  family_of v <> FamOther ->
  exists w, s_reset cur (APtr v) = Ret (APtr w) /\ same_kind v w = true /\ is_zero w = true.
Proof. exact reset_zeroes. Qed.
Print Assumptions C16_reset_zeroes.

Theorem C16_reset_by_value : forall v, s_reset cur (AVal v) = Ret (AVal v).
Proof. exact reset_by_value. Qed.
Print Assumptions C16_reset_by_value.

(* An operand of any other type (by value, by pointer, typed nil pointer):
   false, zero, the unsupported-type error, or nothing. *)
Theorem C16_foreign : forall a,
  arg_family a = FamOther ->
  (forall op right res0, s_compare a op right res0 = Ret false) /\
  (forall fuel r, s_deq cur fuel a r = Ret false) /\
  (forall fuel l, s_deq cur fuel l a = Ret false) /\
  (forall fresh extra, s_copy fresh extra a = Ret (None, Some EUnsupported)) /\
  (forall fresh extra dst b, s_copyto fresh extra a dst b = Ret (Some EUnsupported, dst, b)) /\
  s_length a = Ret 0 /\ s_capacity a = Ret 0 /\
  s_reset cur a = Ret a.
Proof. exact foreign. Qed.
Print Assumptions C16_foreign.

(* ---------- non-vacuity ---------- *)
Local Open Scope string_scope.
Definition f14 : spec_float := Eval vm_compute in match parse_float "1.4" with Some f => f | None => S754_nan end.
Definition f10005 : spec_float := Eval vm_compute in match parse_float "1.0005" with Some f => f | None => S754_nan end.
Definition one : spec_float := Eval vm_compute in f64_of_Z 1.

Example C16_compare_demo :
  spec_compare (VInt KInt8 (-5)) OpLt "0x10" = Some true /\
  s_compare (APtr (VInt KInt8 (-5))) OpLt "0x10" false = Ret true /\
  spec_compare (VF32 (to_f32 f14)) OpLt "1.4" = Some true /\          (* float32(1.4) widened is below 1.4 *)
  spec_compare (VInt KUint8 200) OpEq "-1" = None /\
  s_compare (AVal (VInt KUint8 200)) OpEq "-1" true = Ret true.
Proof. vm_compute. repeat split; reflexivity. Qed.

Example C16_deq_demo :
  spec_equal (VInt KInt8 7) (VInt KInt64 7) = Some true /\
  s_deq cur 0 (AVal (VInt KInt8 7)) (APtr (VInt KInt64 7)) = Ret true /\
  spec_equal (VF32 (to_f32 one)) (VF64 f10005) = Some true /\
  s_deq cur 0 (AVal (VStr 1 "ab")) (APtr (VBytes 2 "ab" 9)) = Ret true /\
  s_deq cur 0 (AVal (VInt KInt 1)) (AVal (VF64 f14)) = Ret false /\
  s_deq cur 0 (AVal (VF64 f14)) (AVal (VInt KInt 1)) = Ret false /\
  s_deq cur 0 (AVal (VStr 1 "a")) (AVal (VInt KInt 1)) = Ret false /\
  s_deq cur 0 (AVal (VF64 (S754_infinity false))) (APtr (VF32 (S754_infinity false))) = Ret true.
Proof. vm_compute. repeat split; reflexivity. Qed.

Example C16_copy_demo :
  s_copy 4 3 (APtr (VBytes 1 "ab" 9)) = Ret (Some (VBytes 4 "ab" 5), None) /\
  s_copyto 4 0 (AVal (VStr 1 "ab")) (APtr (VStr 2 "old")) {| b_aid := 3; b_data := "xy"; b_cap := 64 |}
    = Ret (None, APtr (VStr 3 "ab"), {| b_aid := 3; b_data := "xyab"; b_cap := 64 |}) /\
  s_reset cur (APtr (VBytes 1 "ab" 9)) = Ret (APtr (VBytes 1 "" 9)) /\
  s_reset cur (APtr (VStr 1 "ab")) = Ret (APtr (VStr 0 "")).
Proof. vm_compute. repeat split; reflexivity. Qed.

(* ---------- what the pinned code (before the fix commits) violated ---------- *)

(* 1. DeepEqual with a text operand on the left and anything that is not text on
   the right never returns: indString and indBytes call each other.  For every
   fuel - an unbounded statement - and every such pair, on every revision that
   lacks the two DeepEqual repairs; the witness is DeepEqual("a", 1). *)
Theorem C16_refuted_text_diverges : forall v fuel l r,
  fx_text v = false -> fx_mixed v = false -> is_text l = true -> is_text r = false ->
  s_deq v fuel l r = Diverge.
Proof. exact pinned_text_diverges. Qed.
Print Assumptions C16_refuted_text_diverges.

Theorem C16_refuted_text_diverges_witness : forall fuel,
  s_deq pinned fuel (AVal (VStr 1 "a")) (AVal (VInt KInt 1)) = Diverge /\
  s_deq pinned fuel (AVal (VInt KInt 1)) (AVal (VStr 1 "a")) = Ret false.
Proof.
  intros fuel. split.
  - apply pinned_text_diverges; reflexivity.
  - reflexivity.
Qed.
Print Assumptions C16_refuted_text_diverges_witness.

(* 2. integer against float depended on the argument order: DeepEqual(1, 1.4) was
   true, DeepEqual(1.4, 1) false. *)
Theorem C16_refuted_mixed_order :
  exists fuel l r, s_deq pinned fuel l r = Ret true /\ s_deq pinned fuel r l = Ret false.
Proof. exists 4%nat, (AVal (VInt KInt 1)), (AVal (VF64 f14)). vm_compute. split; reflexivity. Qed.
Print Assumptions C16_refuted_mixed_order.

(* 3. Reset through *string and *[]byte left the target as it was. *)
Theorem C16_refuted_reset_text :
  exists v, family_of v <> FamOther /\
            forall w, s_reset pinned (APtr v) = Ret (APtr w) -> is_zero w = false.
Proof.
  exists (VStr 1 "a"). split; [discriminate|].
  intros w H. vm_compute in H. inversion H. reflexivity.
Qed.
Print Assumptions C16_refuted_reset_text.

Theorem C16_refuted_reset_bytes :
  s_reset pinned (APtr (VBytes 1 "ab" 9)) = Ret (APtr (VBytes 1 "ab" 9)).
Proof. reflexivity. Qed.
Print Assumptions C16_refuted_reset_bytes.

(* 4. equal infinities were unequal (Inf - Inf is NaN, never within the tolerance). *)
Theorem C16_refuted_inf :
  exists x y, spec_equal x y = Some true /\ s_deq pinned 4 (AVal x) (AVal y) = Ret false.
Proof.
  exists (VF64 (S754_infinity false)), (VF64 (S754_infinity false)). vm_compute. split; reflexivity.
Qed.
Print Assumptions C16_refuted_inf.
