(* Properties/C19.v - statements only.
   C19: Assign stores the canonical conversion or fails leaving the target
   untouched.

   [assign strfix dcap buf dst src] (Model/Assign.v) is AssignBuf(dst, src, buf)
   - Assign(dst, src) when [buf = None] - as the six registered functions of
   assign_builtin.go compute it; [strfix = true] is the code after the "fix:"
   commit (unbuffered scalar -> *string converts into a fresh slice), [false]
   the pinned commit.  [conv_src], [expect], [silent], [owners_allowed]
   (Spec/AssignSpec.v) are written from the property text; [rf] is "the decimal
   rendering of a float64", tied to Floats.render_float (AppendFloat 'f' -1 64 on
   the exact-decimal domain) by the explicit hypothesis [rendered rf src], needed
   only when a float meets a text destination.  [wf_source]: integer values lie in
   the range of their Go type, float32 values are float32 values.
   All statements quantify over every destination kind, source kind, form,
   value, destination capacity and buffer content. *)
From Coq Require Import ZArith Bool String Ascii List Floats.SpecFloat.
From Verif Require Import Util Ints Strconv Floats AssignVal Assign AssignSpec AssignText AssignMatrix AssignThms
     AssignSeqVal AssignSeq AssignSeqSpec AssignSeqThms.
Import ListNotations.
Local Open Scope Z_scope.

(* The conversion matrix.  For every destination (16 pointer kinds and foreign
   ones), every source that carries a value (16 kinds, value and pointer form)
   or is of a foreign type, every value, with and without buffer: where the
   property text decides (not [silent]: the two readings of AssignSpec agree),
   Assign returns true and stores the canonical conversion, or returns false and
   leaves the destination as it was. *)
Theorem C19_matrix : forall rf dcap buf dst src,
  wf_source src -> not_nil src = true -> (text_dest dst = true -> rendered rf src) ->
  (forall old, dst = DPtr old -> silent (kind_of old) src = false) ->
  result (assign true dcap buf dst src) =
  Some (match dst with
        | DPtr old => match conv_src rf Strict (kind_of old) src with
                      | Some v => (true, DPtr v)
                      | None => (false, dst)
                      end
        | DForeign => (false, dst)
        end).
Proof. exact matrix. Qed.
Print Assumptions C19_matrix.

(* On the silent inputs too (a numeral that does not fit the destination type, "+5"
   into an unsigned, "1." into a float) the code does what one of the two readings
   says - never anything else. *)
Theorem C19_two_readings : forall rf dcap buf dst src,
  wf_source src -> not_nil src = true -> (text_dest dst = true -> rendered rf src) ->
  result (assign true dcap buf dst src) = Some (expect rf Strict dst src) \/
  result (assign true dcap buf dst src) = Some (expect rf Lenient dst src).
Proof. exact two_readings. Qed.
Print Assumptions C19_two_readings.

(* Value and pointer form of a source: the same outcome (result, owner, buffer), in
   both versions of the code. *)
Theorem C19_forms_equal : forall strfix dcap buf dst v,
  assign strfix dcap buf dst (SVal v) = assign strfix dcap buf dst (SPtr v).
Proof. exact forms_equal. Qed.
Print Assumptions C19_forms_equal.

(* Text destinations are replaced, not extended: whatever they held ([old]), after
   any source that carries a value they hold exactly the text of that value. *)
Theorem C19_replaces : forall rf dcap buf old src v ok d own b,
  text_dest (DPtr old) = true -> value_of src = Some v -> wf_sval v -> rendered rf src ->
  assign true dcap buf (DPtr old) src = Done ok d own b ->
  ok = true /\ d = DPtr (mk_like old (text_of rf v)).
Proof. exact replaces. Qed.
Print Assumptions C19_replaces.

(* A false return leaves destination and buffer as they were. *)
Theorem C19_untouched_on_failure : forall strfix dcap buf dst src d own b,
  assign strfix dcap buf dst src = Done false d own b -> d = dst /\ b = buf.
Proof. exact untouched_on_failure. Qed.
Print Assumptions C19_untouched_on_failure.

(* With a buffer the produced text lives in the buffer: a scalar rendered into a
   string or bytes destination is the part of the buffer that follows the buffer's
   previous content, which is preserved. *)
Theorem C19_buffered_lives_in_buffer : forall rf dcap pre old src v,
  text_dest (DPtr old) = true -> value_of src = Some v -> text_kind (kind_of v) = false ->
  wf_sval v -> rendered rf src ->
  assign true dcap (Some pre) (DPtr old) src =
  Done true (DPtr (mk_like old (text_of rf v))) (OBuf (String.length pre)) (Some (pre ++ text_of rf v)%string).
Proof. exact buffered_lives_in_buffer. Qed.
Print Assumptions C19_buffered_lives_in_buffer.

(* Ownership in general: after every successful assign the (owner, buffer) pair is one
   the specification admits (no text stored for non-text destinations; a rendered
   scalar in place or fresh without a buffer, in the buffer with one). *)
Theorem C19_owner_allowed : forall rf dcap buf dst src v' own b,
  wf_source src -> not_nil src = true -> (text_dest dst = true -> rendered rf src) ->
  assign true dcap buf dst src = Done true (DPtr v') own b ->
  In (own, b) (owners_allowed (kind_of v') src buf (stored_text (DPtr v'))).
Proof. exact owner_allowed. Qed.
Print Assumptions C19_owner_allowed.

(* ---------- refuted on the current tree: typed nil pointer sources ---------- *)
(* [not_nil] in the statements above is the sub-domain; outside it the property
   ("no conversion applies -> false, destination untouched") fails: *)
Theorem C19_refuted_nil_source :
  exists dcap buf dst src rf,
    wf_source src /\
    expect rf Strict dst src = (false, dst) /\ expect rf Lenient dst src = (false, dst) /\
    assign true dcap buf dst src = Panicked NilDeref.
Proof.
  exists 0, None, (DPtr (VInt KInt 99)), (SNil (KI KInt)), (fun _ => ""%string).
  repeat split; vm_compute; reflexivity.
Qed.
Print Assumptions C19_refuted_nil_source.

(* ... and exactly how: every typed nil pointer source panics in every destination,
   except ( *bool)(nil) into a destination that is neither bool nor text. *)
Theorem C19_nil_source : forall strfix dcap buf dst k,
  assign strfix dcap buf dst (SNil k) =
  if nil_refused dst k then Done false dst ONone buf else Panicked NilDeref.
Proof. exact nil_source. Qed.
Print Assumptions C19_nil_source.

(* ---------- refuted at the pinned commit, repaired by the fix commit ---------- *)
(* Assign(&s, 42) with s == "old" stored "old42". *)
Theorem C19_refuted_str_appends :
  exists dcap dst src rf,
    wf_source src /\ rendered rf src /\
    expect rf Strict dst src = (true, DPtr (VStr "42")) /\
    assign false dcap None dst src = Done true (DPtr (VStr "old42")) OFresh None.
Proof.
  exists 0, (DPtr (VStr "old")), (SVal (VInt KInt 42)), (fun _ => ""%string).
  repeat split; vm_compute; reflexivity.
Qed.
Print Assumptions C19_refuted_str_appends.

(* The pinned commit behaves like the fixed one everywhere else, so all the
   statements above hold for it outside [appending_case]. *)
Theorem C19_old_code_elsewhere : forall dcap buf dst src,
  appending_case buf dst src = false ->
  assign false dcap buf dst src = assign true dcap buf dst src.
Proof. exact old_code_elsewhere. Qed.
Print Assumptions C19_old_code_elsewhere.

(* ---------- histories: reused sources, reused destinations, one buffer ---------- *)
(* Calls come in sequences over objects that come back: one []byte rewritten in place
   between the calls, one *string pointed at other text, one *int holding another number,
   one destination variable assigned again, one accumulating buffer.  [run_seq]
   (Model/AssignSeq.v) is the single call iterated on the values present at each step -
   the model has no other state - and [seq_allowed] (Spec/AssignSeqSpec.v) the histories
   the property admits: every step an admissible single call ([step_allowed]: [expect] in
   one of the two readings, an admissible buffer content) on the destination the step
   before left ([DstReuse]) or on the one the step names ([DstFresh]).  Every history of
   any length over well-formed non-nil sources is admissible, and never panics. *)
Theorem C19_history : forall rf dm l cur buf,
  Forall (step_ok rf) l ->
  exists ts, run_seq true dm cur buf l = map sdone ts /\ In ts (seq_allowed rf dm cur buf l).
Proof. intros rf dm l cur buf. apply seq_meets. Qed.
Print Assumptions C19_history.

(* what membership in [seq_allowed] says, step by step: the head is an admissible single
   call on the current destination and buffer, the tail an admissible history from what
   the head left *)
Theorem C19_history_steps : forall rf dm cur buf st r t ts,
  In (t :: ts) (seq_allowed rf dm cur buf (st :: r)) ->
  In t (step_allowed rf (step_dest dm cur st) (h_src st) buf) /\
  In ts (seq_allowed rf dm (Some (snd (fst t))) (snd t) r).
Proof. exact seq_allowed_cons. Qed.
Print Assumptions C19_history_steps.

(* the histories are run with destination capacity 0: the capacity decides the ownership
   class of a stored text only, which a history does not observe *)
Theorem C19_history_cap_irrelevant : forall strfix c1 c2 buf dst src,
  sout_of (assign strfix c1 buf dst src) = sout_of (assign strfix c2 buf dst src).
Proof. exact cap_irrelevant. Qed.
Print Assumptions C19_history_cap_irrelevant.

(* ---------- non-vacuity and the silent inputs ---------- *)
Definition rf0 (f : spec_float) : string := match render_float f with Some t => t | None => ""%string end.
Definition f64_2_5 : spec_float := f64_of_decimal false 25 (-1).

(* the hypotheses are satisfiable: a float inside the exact-decimal domain, rendered into
   a string destination through a pre-filled buffer *)
Example C19_ex_rendered : rendered rf0 (SPtr (VF64 f64_2_5)) /\ render_float f64_2_5 = Some "2.5"%string.
Proof. split; vm_compute; reflexivity. Qed.
Example C19_ex_float_to_string :
  assign true 0 (Some "prefix"%string) (DPtr (VStr "old")) (SPtr (VF64 f64_2_5))
  = Done true (DPtr (VStr "2.5")) (OBuf 6) (Some "prefix2.5"%string).
Proof. vm_compute. reflexivity. Qed.
Example C19_ex_wf_f32 : wf_sval (VF32 (to_f32 f64_2_5)) /\ wf_sval (VInt KInt8 (-128)).
Proof. split; vm_compute; reflexivity. Qed.
(* "old" <- 42 without a buffer: replaced, freshly allocated *)
Example C19_ex_str_replaced :
  assign true 0 None (DPtr (VStr "old")) (SVal (VInt KInt 42)) = Done true (DPtr (VStr "42")) OFresh None.
Proof. vm_compute. reflexivity. Qed.
(* a bytes destination with room is NOT overwritten in place (its array may be shared with whoever supplied the old content:
   bytes are assigned by reference); fix 53615f7, before which the owner here was OOld *)
Example C19_ex_bytes_in_place :
  assign true 3 None (DPtr (VBytes "old")) (SVal (VInt KUint8 42)) = Done true (DPtr (VBytes "42")) OFresh None.
Proof. vm_compute. reflexivity. Qed.
(* same family wraps, another family is refused *)
Example C19_ex_wrap :
  result (assign true 0 None (DPtr (VInt KInt8 99)) (SVal (VInt KInt64 300))) = Some (true, DPtr (VInt KInt8 44)) /\
  result (assign true 0 None (DPtr (VInt KUint8 99)) (SVal (VInt KInt64 300))) = Some (false, DPtr (VInt KUint8 99)) /\
  result (assign true 0 None (DPtr (VF64 f64_2_5)) (SVal (VInt KInt 3))) = Some (false, DPtr (VF64 f64_2_5)).
Proof. repeat split; vm_compute; reflexivity. Qed.
(* the silent inputs, and which reading the code takes *)
Example C19_ex_silent :
  silent (KI KInt8) (SVal (VStr "300")) = true /\
  result (assign true 0 None (DPtr (VInt KInt8 99)) (SVal (VStr "300"))) = Some (true, DPtr (VInt KInt8 44)) /\
  silent (KI KUint) (SVal (VStr "+5")) = true /\
  result (assign true 0 None (DPtr (VInt KUint 99)) (SVal (VStr "+5"))) = Some (false, DPtr (VInt KUint 99)) /\
  silent KF64 (SVal (VBytes "1.")) = true /\
  result (assign true 0 None (DPtr (VF64 f64_2_5)) (SVal (VBytes "1."))) = Some (false, DPtr (VF64 f64_2_5)) /\
  silent KF32 (SPtr (VStr "1e39")) = true /\
  result (assign true 0 None (DPtr (VF32 f64_2_5)) (SPtr (VStr "1e39"))) = Some (true, DPtr (VF32 (S754_infinity false))) /\
  silent (KI KInt8) (SVal (VStr "127")) = false /\ silent KF32 (SVal (VStr "0.1")) = false.
Proof. repeat split; vm_compute; reflexivity. Qed.
(* a history: one source object holding "123", then "456", then "-7x", into one reused int16
   that held 5 - stored 123, stored 456, refused with 456 kept; one admissible history *)
Definition hist_ex : list hstep :=
  [ {| h_dst := DPtr (VInt KInt16 5); h_src := SVal (VBytes "123") |};
    {| h_dst := DPtr (VInt KInt16 5); h_src := SVal (VBytes "456") |};
    {| h_dst := DPtr (VInt KInt16 5); h_src := SVal (VBytes "-7x") |} ].
Example C19_ex_history :
  Forall (step_ok rf0) hist_ex /\
  run_seq true DstReuse None None hist_ex =
    [SDone true (DPtr (VInt KInt16 123)) None; SDone true (DPtr (VInt KInt16 456)) None;
     SDone false (DPtr (VInt KInt16 456)) None] /\
  (forall ts, In ts (seq_allowed rf0 DstReuse None None hist_ex) ->
     ts = [(true, DPtr (VInt KInt16 123), None); (true, DPtr (VInt KInt16 456), None);
           (false, DPtr (VInt KInt16 456), None)]) /\
  run_seq true DstFresh None None hist_ex =
    [SDone true (DPtr (VInt KInt16 123)) None; SDone true (DPtr (VInt KInt16 456)) None;
     SDone false (DPtr (VInt KInt16 5)) None].
Proof.
  split; [repeat constructor|]. split; [vm_compute; reflexivity|]. split; [|vm_compute; reflexivity].
  intros ts I. vm_compute in I. repeat (destruct I as [I|I]; [symmetry; exact I|]). destruct I.
Qed.
