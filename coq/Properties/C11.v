(* Properties/C11.v - statements only.
   C11: DeepEqual options: excluded fields never matter, listed fields always do.
   [deq_must_check] models inspector.DEQMustCheck (options.go), [eff_prec] the tolerance of EqualFloat64/32
   (equal.go), [deep_equal_with_options] the emitted method (Model/Deq.v; the emitter after the fix: commits of
   findings/C11.txt - the pinned emitter compared the nil-ness of a pointer field before it consulted the options).
   A field's option name is the dotted chain of struct field names leading to it; [seqv sh skip tol] is the
   structural identity of the text that ignores every field q with [skip q] together with everything below it
   (Spec/DeqSpec.v); [field_compared], [tolerance_of] are the text's decision table and tolerance. *)
From Coq Require Import List Bool String Ascii ZArith Arith Floats.SpecFloat.
From Verif Require Import Util Ints Floats Node GoSrc Value Outcome Deq DeqSpec DeqKeys DeqPaths DeqSound DeqSym DeqRefl DeqMain DeqForms
                          Shapes EnumVal GenUnits GenDeq GenC11.
Import ListNotations.

(* The decision function, for ALL options and paths:
   nil -> check; a non-empty Exclude -> check iff not listed there (Filter is then ignored);
   otherwise a non-empty Filter -> check iff listed; otherwise check. *)
Theorem C11_decision : forall q o,
  deq_must_check q o =
  match o with
  | None => true
  | Some o => if negb (Nat.eqb (List.length (o_excl o)) 0) then negb (listed q (o_excl o))
              else if negb (Nat.eqb (List.length (o_filt o)) 0) then listed q (o_filt o)
              else true
  end.
Proof. exact must_check_table. Qed.
Print Assumptions C11_decision.

Theorem C11_decision_is_spec : forall q o, deq_must_check q o = field_compared (opts_spec o) q.
Proof. exact must_check_spec. Qed.
Print Assumptions C11_decision_is_spec.

(* nil options mean the default comparison - and so do options with no Exclude, no Filter and no positive Precision *)
Theorem C11_nil_is_default : forall n sh la ra, deep_equal_with_options n sh la ra None = deep_equal n sh la ra.
Proof. exact nil_is_default. Qed.
Print Assumptions C11_nil_is_default.

Theorem C11_empty_is_default : forall n sh la ra o,
  o_excl o = [] -> o_filt o = [] -> SFltb (S754_zero false) (o_prec o) = false ->
  deep_equal_with_options n sh la ra (Some o) = deep_equal n sh la ra.
Proof. exact empty_is_default. Qed.
Print Assumptions C11_empty_is_default.

(* A positive Precision replaces the default float tolerance (a zero, negative or NaN one does not), and the code
   of a float field is exactly |l - r| <= that tolerance unless the field is not compared. *)
Theorem C11_precision : forall o,
  (SFltb (S754_zero false) (o_prec o) = true -> eff_prec (Some o) = o_prec o) /\
  (SFltb (S754_zero false) (o_prec o) = false -> eff_prec (Some o) = float_precision) /\
  eff_prec None = float_precision /\
  eff_prec (Some o) = tolerance_of (opts_spec (Some o)).
Proof.
  intros o. split; [apply precision_positive|]. split; [apply precision_default|]. split; [reflexivity|apply tolerance_spec].
Qed.
Print Assumptions C11_precision.

Theorem C11_precision_float_field : forall sh o tn tu nm pk pki chld mk mv sl hb hc path depth a b,
  is_float_name tu = true ->
  deq sh o (Node typeBasic tn tu nm pk pki false chld mk mv sl hb hc) (Some typeStruct) path depth (VFloat a) (VFloat b) =
  equal_float64 a b (eff_prec o) || negb (deq_must_check (deq_path path nm depth) o).
Proof. exact float_field_code. Qed.
Print Assumptions C11_precision_float_field.

(* With an Exclude set the result does not depend on the excluded fields: for EVERY well-formed node and all values
   that are identical outside the excluded fields (inside them anything may differ, pointer nil-ness included) the
   answer is true ... *)
Theorem C11_exclude_independent : forall n o a b,
  wfroot n = true -> finv a = true -> o_excl o <> [] ->
  seqv false (excluded o) None n "" a b = true ->
  deep_equal_with_options n false (APtr (Some a)) (APtr (Some b)) (Some o) = inl true.
Proof. exact exclude_independent. Qed.
Print Assumptions C11_exclude_independent.

(* ... and a difference outside them still compares unequal. *)
Theorem C11_exclude_sees_outside : forall n o a b,
  wfroot n = true -> kok a = true -> kok b = true -> o_excl o <> [] ->
  seqv false (excluded o) (Some (eff_prec (Some o))) n "" a b = false ->
  deep_equal_with_options n false (APtr (Some a)) (APtr (Some b)) (Some o) = inl false.
Proof. exact exclude_sees_outside. Qed.
Print Assumptions C11_exclude_sees_outside.

(* With only a Filter set exactly the listed fields, reached through listed ancestors, can make the result false:
   values identical on those compare equal whatever else differs, and a difference in one of them is seen. *)
Theorem C11_filter_exact : forall n o a b,
  wfroot n = true -> finv a = true -> kok a = true -> kok b = true -> o_excl o = [] -> o_filt o <> [] ->
  (seqv false (unlisted o) None n "" a b = true ->
   deep_equal_with_options n false (APtr (Some a)) (APtr (Some b)) (Some o) = inl true) /\
  (seqv false (unlisted o) (Some (eff_prec (Some o))) n "" a b = false ->
   deep_equal_with_options n false (APtr (Some a)) (APtr (Some b)) (Some o) = inl false).
Proof.
  intros n o a b W FA KA KB E NE. split; intros H; [apply filter_only_listed | apply filter_listed_count]; auto.
Qed.
Print Assumptions C11_filter_exact.

(* The verdict column of the correspondence stream, for every option set. *)
Theorem C11_meets_demand : forall n o a b,
  wfroot n = true -> finv a = true -> kok a = true -> kok b = true ->
  meets (deep_equal_with_options n false (APtr (Some a)) (APtr (Some b)) o) (c11_demand (opts_spec o) n a b).
Proof. exact deep_equal_meets_c11. Qed.
Print Assumptions C11_meets_demand.

(* ... in whatever form (T, *T, **T) either operand is handed over. *)
Theorem C11_meets_demand_every_form : forall n o lf rf a b,
  In lf value_forms -> In rf value_forms ->
  wfroot n = true -> finv a = true -> kok a = true -> kok b = true ->
  meets (deep_equal_with_options n false (arg_of_form lf a) (arg_of_form rf b) o) (c11_demand (opts_spec o) n a b).
Proof. exact deep_equal_meets_c11_forms. Qed.
Print Assumptions C11_meets_demand_every_form.

(* The emitted code reads the options only through DEQMustCheck and the tolerance. *)
Theorem C11_options_only_through_decision : forall sh o1 o2,
  (forall q, deq_must_check q o1 = deq_must_check q o2) -> eff_prec o1 = eff_prec o2 ->
  forall n par path depth l r, deq sh o1 n par path depth l r = deq sh o2 n par path depth l r.
Proof. exact deq_opts_ext. Qed.
Print Assumptions C11_options_only_through_decision.

Local Open Scope string_scope.

(* the generator's option conversion is the one the theorems speak about *)
Example C11_to_spec_is_opts_spec : forall o, GenDeq.to_spec o = opts_spec o.
Proof. intros [o|]; reflexivity. Qed.

(* Non-vacuity and the behaviour the pinned emitter got wrong (pointer nil-ness under Exclude / Filter). *)
Example C11_demo :
  let fin := TNamed "Fin" (TStruct [("In", TScalar SF64); ("Ok", TScalar SBool)]) in
  let n := GenDeq.root_node ("T", TStruct [("Id", TScalar SString); ("Finance", TPtr fin); ("H", TMap (TScalar SString) (TPtr fin))]) in
  let f := fun x b => VPtr (Some (VStruct [VFloat x; VBool b])) in
  let a := VStruct [VStr "a"; f (Floats.norm64 1 0) true; VMap false [(VStr "k", f (Floats.norm64 1 0) true)]] in
  let nilfin := VStruct [VStr "a"; VPtr None; VMap false [(VStr "k", f (Floats.norm64 1 0) true)]] in
  let shifted := VStruct [VStr "a"; f (SFadd 53 1024 (Floats.norm64 1 0) d10) true; VMap false [(VStr "k", f (Floats.norm64 1 0) true)]] in
  let inmap := VStruct [VStr "a"; f (Floats.norm64 1 0) true; VMap false [(VStr "k", f (Floats.norm64 1 0) false)]] in
  let run := fun o x y => deep_equal_with_options n false (APtr (Some x)) (APtr (Some y)) o in
  wfroot n = true /\ wtb n a = true /\
  run (ex ["Finance"]) a nilfin = inl true /\            (* excluded: nil vs set does not matter *)
  run (ex ["Id"]) a nilfin = inl false /\                (* a difference outside the excluded field *)
  run (fi ["Id"]) a nilfin = inl true /\                 (* not listed: cannot make the result false *)
  run (fi ["Finance"]) a nilfin = inl false /\
  run (fi ["Finance.In"]) a shifted = inl true /\        (* listed, but not reached through a listed ancestor *)
  run (fi ["Finance"; "Finance.In"]) a shifted = inl false /\
  run (Some (DeqOpts p_hi [] [])) a shifted = inl true /\       (* Precision 0.1 above the 0.01 gap *)
  run (Some (DeqOpts p_lo [] [])) a shifted = inl false /\
  run (Some (DeqOpts p_neg [] [])) a shifted = inl false /\     (* not positive: default 1e-3 *)
  run (ex ["H.Ok"]) a inmap = inl true /\                (* keys and indices are not part of option names *)
  run (ex ["H.In"]) a inmap = inl false /\
  run (Some (DeqOpts zero ["Finance"] ["Id"])) a nilfin = inl true.   (* both: Exclude decides *)
Proof. vm_compute. repeat split; reflexivity. Qed.

(* A field of a NAMED slice / map type with struct elements is compared like its literal-typed twin: the option names
   of the element fields stay relative to the OUTER root ("NL.A"), a root-level name ("A") is unrelated. *)
Example C11_named_collection_paths :
  let n := GenDeq.root_node ("T", TStruct [("A", TScalar (SInt KInt32)); ("NL", TNamed "NLeaves" (TSlice Shapes.leaf));
                                           ("NML", TNamed "NLeafMap" (TMap (TScalar SString) (TPtr Shapes.leaf)))]) in
  let lf := fun z => VStruct [VInt z; VStr "s"; VBytes false [] 0; VFloat (Floats.norm64 0 0)] in
  let a := VStruct [VInt 1; VSlice false [lf 5%Z] 0; VMap false [(VStr "k", VPtr (Some (lf 7%Z)))]] in
  let b := VStruct [VInt 1; VSlice false [lf 6%Z] 0; VMap false [(VStr "k", VPtr (Some (lf 7%Z)))]] in     (* NL[0].A differs *)
  let c := VStruct [VInt 1; VSlice false [lf 5%Z] 0; VMap false [(VStr "k", VPtr (Some (lf 8%Z)))]] in     (* NML["k"].A differs *)
  let run := fun o x y => deep_equal_with_options n false (APtr (Some x)) (APtr (Some y)) o in
  wfroot n = true /\ wtb n a = true /\
  run (ex ["NL.A"]) a b = inl true /\ run (ex ["A"]) a b = inl false /\ run (ex ["NL"]) a b = inl true /\
  run (ex ["NL.S"]) a b = inl false /\
  run (fi ["NL"; "NL.A"]) a b = inl false /\ run (fi ["NL.A"]) a b = inl true /\ run (fi ["NL"; "A"]) a b = inl true /\
  run (ex ["NML.A"]) a c = inl true /\ run (ex ["A"]) a c = inl false /\ run (fi ["NML"; "NML.A"]) a c = inl false.
Proof. vm_compute. repeat split; reflexivity. Qed.

(* the units of the stream are those of C05 (Example C05_stream_in_domain); here the multi-field structs *)
Example C11_units_wellformed :
  forallb (fun b => wfroot (GenDeq.root_node ("M", b))) multi = true.
Proof. vm_compute. reflexivity. Qed.
