(* Properties/C08.v - statements only.
   C08: Reset empties a value; Reset-then-CopyTo reuse leaves no trace of old contents.
   [reset_method] / [copyto_method] are the models of the generated Reset and CopyTo
   (Model/InsReset.v, Model/InsCopy.v: the emitters after the fix: commits listed there),
   [is_empty] / [equiv_nilempty] the notions of the property text (Spec/EmptySpec.v),
   [wfn] the well-formedness both parsers establish, [wtb] typing of a value tree,
   [gov]: the keys of every map in the tree are pairwise different (it is a Go value). *)
From Coq Require Import List Bool String Ascii ZArith Arith.
From Verif Require Import Util Ints Node GoSrc Value Outcome InsReset InsCopy EmptySpec LCSound ResetCopySound
  Shapes EnumVal GenUnits GenC10 GenC08.
Import ListNotations.

(* Reset through a pointer returns nil and leaves the value empty - every scalar zero, every
   string, byte slice, slice and map of length zero, at every depth reachable through non-nil
   pointers - for EVERY well-formed node (no bound on nesting) and every prior content. *)
Theorem C08_reset_empty : forall n v, wfn n = true -> wtb n v = true ->
  reset_method n (APtr (Some v)) = Ret (Some (reset n v)) None /\
  is_empty (reset n v) = true /\ wtb n (reset n v) = true.
Proof. intros n v W T. destruct (reset_sound n W v T) as (A & B). repeat split; assumption. Qed.
Print Assumptions C08_reset_empty.

(* One cycle on ANY destination: Reset then CopyTo gives the source up to the identifications. *)
Theorem C08_one_cycle : forall n d s, wfn n = true -> wtb n d = true -> wtb n s = true -> gov n s = true ->
  equiv_nilempty (cpy n (reset n d) s) s.
Proof. intros n d s W D S G. exact (proj2 (cycle_one n d s W D S G)). Qed.
Print Assumptions C08_one_cycle.

(* For EVERY history of Reset-then-CopyTo cycles on one destination (any list of sources, any
   initial destination), the destination after the k-th cycle is structurally identical to the
   k-th source once nil and all-empty parts are identified: nothing of earlier cycles survives,
   nothing is lost.  By induction on the source list. *)
Theorem C08_cycles : forall n srcs d0 k s, wfn n = true -> wtb n d0 = true ->
  Forall (fun s => wtb n s = true /\ gov n s = true) srcs ->
  nth_error srcs k = Some s ->
  equiv_nilempty (fold_left (cycle n) (firstn (S k) srcs) d0) s.
Proof. intros n srcs d0 k s W D F N. exact (proj2 (cycles_sound n W srcs d0 D F k s N)). Qed.
Print Assumptions C08_cycles.

(* The same through the method models: every call of the history returns nil (none panics),
   the destination is empty after every Reset and equivalent to its source after every CopyTo. *)
Theorem C08_cycles_methods : forall n srcs d0, wfn n = true -> wtb n d0 = true ->
  Forall (fun s => wtb n s = true /\ gov n s = true) srcs ->
  exists st, run_cycles n d0 srcs = Some st /\
    List.length st = List.length srcs /\
    Forall (fun p => is_empty (fst p) = true) st /\
    Forall2 (fun p s => equiv_nilempty (snd p) s) st srcs.
Proof. intros n srcs d0 W D F. exact (run_cycles_sound n W srcs d0 D F). Qed.
Print Assumptions C08_cycles_methods.

(* No panic (feeds C02): Reset and CopyTo through non-nil pointers return, for every value. *)
Theorem C08_no_panic : forall n d s,
  (exists r e, reset_method n (APtr (Some d)) = Ret r e) /\
  (exists r e, copyto_method n (APtr (Some s)) (APtr (Some d)) = Ret r e).
Proof. intros n d s. split; eexists; eexists; reflexivity. Qed.
Print Assumptions C08_no_panic.

(* Non-vacuity: the root node of every supported unit of the representative set is well formed,
   and every value variant the stream uses is well typed and a Go value. *)
Example C08_units_inhabit :
  forallb (fun u => let n := root_node u in
                    wfn n && negb (n_ptr n) && forallb (fun v => wtb n v && gov n v) (variants n))
          (supported_units 0) = true.
Proof. vm_compute. reflexivity. Qed.

Local Open Scope string_scope.
(* a dense value, then a sparse one, into the same destination: the second cycle leaves no
   trace of the first; the retained pointer to a zeroed struct is identified with nil *)
Example C08_demo :
  let n := root_node ("T", TStruct [("P", TPtr Shapes.leaf); ("L", TSlice (TScalar SString)); ("M", TMap (TScalar SString) (TScalar (SInt KInt32)))]) in
  let lf := VStruct [VInt 7; VStr "abc"; VBytes false (bytes_of_string "xy") 3; VFloat (Floats.norm64 3 (-1))] in
  let dense := VStruct [VPtr (Some lf); VSlice false [VStr "a"; VStr "b"] 1; VMap false [(VStr "k", VInt 1)]] in
  let sparse := VStruct [VPtr None; VSlice true [] 0; VMap false [(VStr "q", VInt 2)]] in
  wtb n dense = true /\ wtb n sparse = true /\
  is_empty (reset n dense) = true /\
  fold_left (cycle n) [dense; sparse] (zero_val n) =
    VStruct [VPtr (Some (VStruct [VInt 0; VStr ""; VBytes false [] 2; VFloat (Floats.norm64 0 0)]));
             VSlice false [] 2; VMap false [(VStr "q", VInt 2)]] /\
  canon true (fold_left (cycle n) [dense; sparse] (zero_val n)) = canon true sparse.
Proof. vm_compute. repeat split; reflexivity. Qed.
