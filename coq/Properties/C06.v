(* Properties/C06.v - statements only.
   C06: Copy is equal to its source and shares no mutable memory with it.
   [copy_method] / [copyto_method] / [cpy] are the models of the generated Copy, CopyTo and cpy
   (Model/InsCopy.v: the emitters after the fix: commits listed there), [seq_nilempty] is
   structural identity up to nil-versus-empty collections and [is_blank] an empty destination
   (Spec/EmptySpec.v), [wfn] / [wtb] / [gov] as in Properties/C08.v. *)
From Coq Require Import List Bool String Ascii ZArith Arith.
From Verif Require Import Util Ints Node GoSrc Value Outcome InsReset InsCopy EmptySpec LCSound ResetCopySound CopyAlloc
  Deq DeqSpec DeqKeys DeqPaths DeqMain CopyEqual Shapes EnumVal GenUnits GenC10 GenC08 GenC06 GenC06b.
Import ListNotations.

(* Copy returns nil and a value structurally identical to the source up to nil-versus-empty
   collections (pointers: nil exactly where the source is nil), for EVERY well-formed node and
   every Go value of its type; the source may be passed as T or *T. *)
Theorem C06_structure : forall n v form, wfn n = true -> wtb n v = true -> gov n v = true ->
  (form = "v" \/ form = "p")%string ->
  copy_method n (arg_of_form form v) = Ret (Some (cpy n (zero_val n) v)) None /\
  seq_nilempty (cpy n (zero_val n) v) v /\ wtb n (cpy n (zero_val n) v) = true.
Proof.
  intros n v form W T G F. destruct (copy_fresh n v W T G) as (A & B).
  split; [destruct F as [-> | ->]; reflexivity|]. split; assumption.
Qed.
Print Assumptions C06_structure.

(* CopyTo into ANY empty destination - nil or empty collections with whatever capacity, no
   pointer - gives the same. *)
Theorem C06_copyto_empty_destination : forall n d v, wfn n = true -> wtb n d = true -> wtb n v = true -> gov n v = true ->
  is_blank d = true ->
  copyto_method n (APtr (Some v)) (APtr (Some d)) = Ret (Some (cpy n d v)) None /\
  seq_nilempty (cpy n d v) v.
Proof. intros n d v W D T G E. split; [reflexivity|]. exact (copy_into_blank n d v W D T G E). Qed.
Print Assumptions C06_copyto_empty_destination.

(* An empty destination that kept pointers to zeroed values (what Reset leaves) gives the source
   up to C08's wider identification. *)
Theorem C06_copyto_reset_destination : forall n d v, wfn n = true -> wtb n d = true -> wtb n v = true -> gov n v = true ->
  is_empty d = true -> equiv_nilempty (cpy n d v) v.
Proof.
  intros n d v W D T G E. destruct (cpy_sound n W d v D T) as (_ & B). exact (B true G E).
Qed.
Print Assumptions C06_copyto_reset_destination.

(* Copy is equal to its source: the model of the generated DeepEqual (Model/Deq.v, C05) answers true for
   source and copy - for EVERY root node both developments accept ([wfroot] is C05's, [wfn] ours), every Go
   value with finite floats ([finv]; an infinite float is not even equal to itself, C05_refuted_refl_infinity)
   and valid map keys ([kok], C05's reading; [gov], ours), on the domain without non-empty pointer-keyed
   maps ([npk]).  Composition of C06_structure with C05_copy_equal through [seq_of_canon]
   (Proofs/CopyEqual.v): the same normal form implies C05's structural identity. *)
Theorem C06_equal : forall n v, wfroot n = true -> wfn n = true -> wtb n v = true -> gov n v = true ->
  finv v = true -> kok v = true -> npk n v = true ->
  deep_equal n false (APtr (Some v)) (APtr (Some (cpy n (zero_val n) v))) = inl true.
Proof. exact copy_deep_equal. Qed.
Print Assumptions C06_equal.

(* ... and the same for CopyTo into any empty destination. *)
Theorem C06_equal_copyto : forall n d v, wfroot n = true -> wfn n = true -> wtb n d = true -> wtb n v = true -> gov n v = true ->
  finv v = true -> kok v = true -> npk n v = true -> is_blank d = true ->
  deep_equal n false (APtr (Some v)) (APtr (Some (cpy n d v))) = inl true.
Proof. exact copyto_deep_equal. Qed.
Print Assumptions C06_equal_copyto.

(* Outside that domain the statement is false: pointer keys are compared by identity, a copy's keys are its
   own allocations (C05 records this as a decision, C05_refuted_copy_equal_pointer_keys). *)
Theorem C06_refuted_equal_pointer_keys : exists n v,
  wfroot n = true /\ wfn n = true /\ wtb n v = true /\ gov n v = true /\ finv v = true /\ kok v = true /\
  seq_nilempty (cpy n (zero_val n) v) v /\
  deep_equal n false (APtr (Some v)) (APtr (Some (cpy n (zero_val n) v))) = inl false.
Proof.
  exists (root_node ("T"%string, TStruct [("F"%string, TMap (TPtr (TScalar (SInt KInt32))) (TScalar SString))])),
         (VStruct [VMap false [(VPtr (Some (VInt 1)), VStr "a")]]).
  vm_compute. repeat split; reflexivity.
Qed.
Print Assumptions C06_refuted_equal_pointer_keys.

(* Source and copy share no mutable memory, as far as a model of value TREES can say it: of the
   allocations the statements of cpy put into the result ([cpy_allocs], Model/InsCopy.v) none is
   a stored reference of the source - each is fresh, the destination's own, or a slice handed out
   by the byte buffer (pairwise disjoint, capacity included, and never the caller's bytes: C07_no_overlap,
   C07_handout_is_input).  For every node and all values; the native address-overlap and mutation
   oracle of the stream is what ties this to the real code. *)
Theorem C06_disjoint : forall n d v, ~ In OSrc (cpy_allocs n d v).
Proof. exact cpy_allocs_no_src. Qed.
Print Assumptions C06_disjoint.

(* No panic (feeds C02): Copy of a value or through a non-nil pointer, CopyTo through non-nil pointers. *)
Theorem C06_no_panic : forall n d v,
  (exists r e, copy_method n (AVal v) = Ret r e) /\ (exists r e, copy_method n (APtr (Some v)) = Ret r e) /\
  (exists r e, copyto_method n (AVal v) (APtr (Some d)) = Ret r e).
Proof. intros n d v. repeat split; eexists; eexists; reflexivity. Qed.
Print Assumptions C06_no_panic.

(* Non-vacuity: every value variant of every supported unit of the representative set satisfies the
   hypotheses, and so do the two destinations the stream copies into. *)
Example C06_units_inhabit :
  forallb (fun u => let n := root_node u in
                    wfn n && forallb (fun v => wtb n v && gov n v) (variants n) &&
                    is_blank (zero_val n) && wtb n (zero_val n) &&
                    is_blank (blank_of n (last (variants n) (VInt 0))) && wtb n (blank_of n (last (variants n) (VInt 0))))
          (supported_units 0) = true.
Proof. vm_compute. reflexivity. Qed.

(* Non-vacuity of C06_equal on the units of the stream: every root is accepted by both developments, every
   value variant has finite floats and valid keys, [npk] is exactly the complement of the stream's `ptrkeys`
   tag, and the prediction [deq3] of the stream is the verdict of C05's model on (source, copy). *)
Example C06_equal_inhabited :
  forallb (fun u => let n := root_node u in
    wfroot n && forallb (fun v => finv v && kok v && Bool.eqb (npk n v) (negb (has_ptrkeys n v)) &&
                                  match deep_equal n false (APtr (Some v)) (APtr (Some (cpy n (zero_val n) v))) with
                                  | inl b => String.eqb (deq3 n v) (if b then "1" else "0")
                                  | inr _ => false
                                  end) (variants n))
          (supported_units 0) = true.
Proof. vm_compute. reflexivity. Qed.

(* The same two non-vacuity statements on the check's own units (Gen/GenC06b.v: maps whose values are structs held
   BY VALUE that own pointers, slices and maps) and the values of stream c06b (variants and shifted variants): every
   unit is in the supported fragment and accepted by both developments, every value satisfies the hypotheses of
   C06_structure and C06_equal (no pointer keys among them), the stream's prediction is C05's verdict. *)
Example C06_own_units_inhabit :
  forallb (fun u => let n := root_node u in
                    sup_root (snd u) && wfn n && wfroot n &&
                    forallb (fun v => wtb n v && gov n v && finv v && kok v && npk n v && negb (has_ptrkeys n v) &&
                                      match deep_equal n false (APtr (Some v)) (APtr (Some (cpy n (zero_val n) v))) with
                                      | inl b => b && String.eqb (deq3 n v) "1"
                                      | inr _ => false
                                      end) (GenC06b.values n) &&
                    is_blank (blank_of n (last (variants n) (VInt 0))) && wtb n (blank_of n (last (variants n) (VInt 0))))
          GenC06b.bunits = true.
Proof. vm_compute. reflexivity. Qed.

Local Open Scope string_scope.
(* a map entry held by value whose members are pointers: every pointer target of the copy is a fresh allocation
   (a per-entry temporary that started as a shallow copy of the ranged value would keep the source's) *)
Example C06_by_value_entry_allocates :
  let n := root_node ("V", TMap (TScalar (SInt KInt32)) Shapes.pflat) in
  let pt := VStruct [VFloat (Floats.norm64 3 (-1)); VInt 5; VBool true] in
  let v := VMap false [(VInt 1, VStruct [VPtr (Some (VInt 5)); VPtr (Some pt); VInt 7])] in
  wfn n = true /\ wtb n v = true /\ gov n v = true /\
  cpy n (zero_val n) v = v /\
  cpy_allocs n (zero_val n) v = [OFresh; OFresh; OFresh].
Proof. vm_compute. repeat split; reflexivity. Qed.

(* Known (findings/C06.txt): the generated DeepEqual does not report a faithful copy equal when the
   value holds a non-empty map with pointer keys (keys are looked up by identity; C05 records this as a
   decision: C05_refuted_copy_equal_pointer_keys).  [deq3] is the verdict the stream predicts - and
   observes - for DeepEqual(source, copy). *)
Example C06_refuted_deepequal_pointer_keys :
  let n := root_node ("T", TStruct [("F", TMap (TPtr (TScalar (SInt KInt32))) (TScalar SString))]) in
  let v := VStruct [VMap false [(VPtr (Some (VInt 1)), VStr "a")]] in
  wfn n = true /\ wtb n v = true /\ gov n v = true /\
  canon false (cpy n (zero_val n) v) = canon false v /\ deq3 n v = "0".
Proof. vm_compute. repeat split; reflexivity. Qed.

(* a nil pointer-to-scalar field is copied as nil, and DeepEqual (since fix 96581be of its emitter) sees it equal *)
Example C06_nil_pointer_scalar :
  let n := root_node ("T", TStruct [("F", TPtr (TScalar SBool))]) in
  let v := VStruct [VPtr None] in
  wfn n = true /\ wtb n v = true /\ gov n v = true /\
  cpy n (zero_val n) v = v /\ deq3 n v = "1".
Proof. vm_compute. repeat split; reflexivity. Qed.

(* pointer to scalar: the copy gets its own target (the pinned generator copied the pointer);
   an empty source slice leaves the fresh destination nil; map entries are written into a fresh map *)
Example C06_demo :
  let n := root_node ("T", TStruct [("P", TPtr (TScalar (SInt KInt32))); ("L", TSlice (TScalar SString)); ("M", TMap (TScalar SString) (TPtr Shapes.leaf))]) in
  let lf := VStruct [VInt 7; VStr "abc"; VBytes false (bytes_of_string "xy") 3; VFloat (Floats.norm64 3 (-1))] in
  let v := VStruct [VPtr (Some (VInt 5)); VSlice false [] 2; VMap false [(VStr "k", VPtr (Some lf)); (VStr "z", VPtr None)]] in
  wtb n v = true /\ gov n v = true /\
  copy_method n (AVal v) =
    Ret (Some (VStruct [VPtr (Some (VInt 5)); VSlice true [] 0;
                        VMap false [(VStr "k", VPtr (Some (VStruct [VInt 7; VStr "abc"; VBytes false (bytes_of_string "xy") 0; VFloat (Floats.norm64 3 (-1))])));
                                    (VStr "z", VPtr None)]])) None /\
  count_bytes n v = 7%Z /\
  cpy_allocs n (zero_val n) v = [OFresh; OFresh; OBuf; OFresh; OBuf; OBuf; OBuf].
Proof. vm_compute. repeat split; reflexivity. Qed.
