(* Properties/C02.v - statements only.
   C02: no inspector call panics or aborts, whatever value, path or argument it gets.
   One statement per inspector family, each over the family's model (the code AFTER the fix:
   commits, the header fixes of builder C12 included), with the domain it holds on spelled out;
   for each remaining panic class a [C02_refuted_*] witness (open finding in findings/C02.txt).

   Argument forms of generated methods ([arg], Model/Outcome.v): T, *T, **T, typed nil *T,
   **T to a nil *T, nil **T, the untyped nil, a foreign type.  [arg_wt n a]: the value the
   argument carries - if it carries one - is a value of the type ([wtb]: nil pointers, nil and
   empty maps and slices, nil elements at any depth are all values of the type). *)
From Coq Require Import List Bool String Ascii ZArith Arith Sorting.Permutation Floats.SpecFloat.
From Verif Require Import Util Ints Strconv Floats Node GoSrc Value Outcome Nav.
From Verif Require LC LCSound Get GetSound Cmp CmpSound Loop LoopSpec LoopSound LoopKeys SetEmit SetSpec SetSound Deq InsCopy InsReset Api
  NoPanicGen ReflectIns NoPanicReflect Static StaticSpec StaticProofs NoPanicStatic Strings StringsOps NoPanicStrings
  StrAnyMap StrAnyMapNav StrAnyMapSet StrAnyMapCopy AssignVal Assign AssignSpec AssignThms NoPanicAssign Shapes GenUnits GenC09 GenC02.
Import ListNotations.

(* ===================== generated inspectors ===================== *)
Section Generated.
Import LC LCSound Get GetSound Cmp CmpSound Loop LoopSpec LoopSound LoopKeys SetEmit SetSpec SetSound Deq InsCopy InsReset Api NoPanicGen
  Shapes GenUnits.

(* ALL methods in one statement ([exec], Model/Api.v: Get, GetTo, Compare, Loop, Length, Capacity,
   DeepEqual[WithOptions] with the argument on either side, Copy, CopyTo with the argument as source
   or as destination, Reset, Set/SetWithBuffer): for EVERY well-formed node (no bound on nesting),
   EVERY argument form, every path (any length, any segments), operator, operand text, iterator
   script, options, other operand, assigned value of the modelled domain: the answer is not a panic.
   [call_dom]: Loop - the iteration order is a permutation and every key of the denoted map is
   rendered to a text that parses back ([keys_ok]: excludes a nil pointer key, see the refutation);
   Set - the node is in the sound fragment of C03 ([sound_set], [root_ok]). *)
Theorem C02_generated_no_panic : forall n c a,
  wfn n = true -> n_ptr n = false -> arg_wt n a -> call_dom n a c -> answer_ok (fst (exec n c a)).
Proof. exact exec_no_panic. Qed.
Print Assumptions C02_generated_no_panic.

(* ... and method by method, with what else is known of the outcome. *)
(* Get / GetTo: no panic, the only error is the parse error of a key or index segment *)
Theorem C02_get : forall n a path buf,
  wfn n = true -> n_ptr n = false -> arg_wt n a -> gsafe (get_to false n a path buf).
Proof. exact get_to_forms. Qed.
Print Assumptions C02_get.

(* Compare: all 9 operators, any operand text *)
Theorem C02_compare : forall n a op right path res0,
  wfn n = true -> n_ptr n = false -> arg_wt n a -> CmpSound.safe (compare n a op right path res0).
Proof. exact compare_forms. Qed.
Print Assumptions C02_compare.

Theorem C02_length_capacity : forall fn n a path res0,
  wfn n = true -> n_ptr n = false -> arg_wt n a -> nopanic (length_capacity fn n a path res0).
Proof. exact length_capacity_forms. Qed.
Print Assumptions C02_length_capacity.

(* Loop: any iterator script (wants keys or not, Break / Continue / anything else per round) *)
Theorem C02_loop : forall sc ord n a path,
  (forall l, Permutation (ord l) l) ->
  wfn n = true -> n_ptr n = false -> arg_wt n a -> loop_keys_ok n a path ->
  nopanic (loop_method sc ord n a path).
Proof. exact loop_forms. Qed.
Print Assumptions C02_loop.

(* [keys_ok] holds for every map with string, integer or bool keys that has no nil pointer key *)
Theorem C02_loop_domain_plain_keys : forall kn vn kvs,
  n_typ kn = typeBasic ->
  (n_typn kn = "string"%string /\ n_typu kn = "string"%string) \/
  (exists i, n_typn kn = ikind_name i /\ n_typu kn = ikind_name i) ->
  forallb (fun kv => wtb kn (fst kv)) kvs = true ->
  (forall kv, In kv kvs -> fst kv <> VPtr None) ->
  keys_ok (LMap kn vn kvs).
Proof. exact keys_ok_plain. Qed.
Print Assumptions C02_loop_domain_plain_keys.

(* Set / SetWithBuffer: [set_method] is the emitted body (with the empty-path guard) on the object
   the header's x designates - the object behind a *T or **T, or the copy `x = &v` of an argument
   passed by value; assigned values: every scalar kind, string, []byte, in value or pointer form,
   with or without buffer.  On the sound fragment of C03 it returns. *)
Theorem C02_set_body : forall s buf n v path,
  wfn n = true -> sound_set n = true -> root_ok n = true -> wtb n v = true ->
  exists v' e, set_method n v path s buf = Ret v' e.
Proof. exact set_method_no_panic. Qed.
Print Assumptions C02_set_body.

Theorem C02_set : forall s buf n a path,
  wfn n = true -> sound_set n = true -> root_ok n = true -> arg_wt n a ->
  match set_with_buffer n a path s buf with Some o => nopanic o | None => True end.
Proof. exact set_forms. Qed.
Print Assumptions C02_set.

(* DeepEqual / DeepEqualWithOptions: every pair of argument forms, any values (typed or not), any options *)
Theorem C02_deep_equal : forall n sh la ra o, exists b, deep_equal_with_options n sh la ra o = inl b.
Proof. exact deep_equal_forms. Qed.
Print Assumptions C02_deep_equal.

(* Copy, CopyTo, Reset: every argument form on either side, any node, any value *)
Theorem C02_copy_reset : forall n a b,
  nopanic (copy_method n a) /\ nopanic (copyto_method n a b) /\ nopanic (reset_method n a).
Proof. intros n a b. split; [apply copy_forms|split; [apply copyto_forms|apply reset_forms]]. Qed.
Print Assumptions C02_copy_reset.

(* Refuted: Loop over a map with a nil pointer key panics as soon as the iterator wants the key
   (`*k` in the key rendering; open finding loop_nil_pointer_key, C09's nil_pointer_key). *)
Theorem C02_refuted_loop_nil_pointer_key :
  exists n v path sc,
    wfn n = true /\ n_ptr n = false /\ wtb n v = true /\
    loop_method sc GenC09.id_ord n (APtr (Some v)) path = Panic PNilDeref /\
    ~ keys_ok (denoted n v path).
Proof.
  exists (GenC09.root_node ("T"%string, TStruct [("F"%string, TMap (TPtr Shapes.t_string) Shapes.t_int32)])),
         (VStruct [VMap false [(VPtr None, VInt 7%Z)]]), ["F"%string], GenC09.noscript.
  split; [vm_compute; reflexivity|]. split; [vm_compute; reflexivity|]. split; [vm_compute; reflexivity|].
  split; [vm_compute; reflexivity|].
  intros K. assert (D : denoted (GenC09.root_node ("T"%string, TStruct [("F"%string, TMap (TPtr Shapes.t_string) Shapes.t_int32)]))
                                (VStruct [VMap false [(VPtr None, VInt 7%Z)]]) ["F"%string] =
                        LMap (Node typeBasic "string" "string" "" "" "" true [] None None None true true)
                             (Node typeBasic "int32" "int32" "" "" "" false [] None None None false false)
                             [(VPtr None, VInt 7%Z)]) by (vm_compute; reflexivity).
  rewrite D in K. cbn [keys_ok] in K. inversion K as [|x l H _]; subst.
  destruct H as (t & R & _). vm_compute in R. discriminate R.
Qed.
Print Assumptions C02_refuted_loop_nil_pointer_key.

(* Non-vacuity: every unit the hostile stream runs is in the domain of all statements above, and
   every value variant (nil pointers, nil / empty collections, nil elements) is a value of its type. *)
Example C02_units_in_domain :
  forallb (fun u => let n := GenC02.rootn u in
                    wfn n && negb (n_ptr n) && sound_set n && root_ok n &&
                    forallb (fun v => wtb n v) (EnumVal.variants n)) (supported_units 0) = true.
Proof. vm_compute. reflexivity. Qed.

(* typed nil roots in all three forms, on every method: they return (the header fixes) *)
Example C02_demo_nil_roots :
  let n := GenC02.rootn ("T"%string, TStruct [("F"%string, TSlice Shapes.leaf); ("M"%string, TMap Shapes.t_string (TPtr Shapes.leaf))]) in
  forallb (fun a =>
    match get_to false n a ["F"; "0"; "S"]%string None, get_to false n a [] None, compare n a OEq "x" ["F"; "0"; "S"]%string false,
          length_capacity FLen n a ["M"; "k"]%string 7, loop_method GenC09.noscript GenC09.id_ord n a ["F"]%string,
          copy_method n a, copyto_method n (APtr (Some (zero_val n))) a, reset_method n a, deep_equal n false a a
    with
    | Ret _ _, Ret _ _, Ret _ _, Ret _ _, Ret _ _, Ret _ _, Ret _ _, Ret _ _, inl _ => true
    | _, _, _, _, _, _, _, _, _ => false
    end) [APtr None; APtrPtr (Some None); APtrPtr None; ANil; AForeign] = true.
Proof. vm_compute. reflexivity. Qed.
End Generated.

(* ===================== Assign / AssignBuf ===================== *)
Section AssignFamily.
Import AssignVal Assign AssignSpec AssignThms NoPanicAssign.
Local Open Scope Z_scope.

(* every destination kind (and foreign destinations), every source that carries a value - 16 kinds,
   value and pointer form - or is of a foreign type, with and without buffer: Assign returns
   ([rendered]: a float source meets a text destination only inside the exact-decimal rendering
   domain, the model makes no prediction outside) *)
Theorem C02_assign : forall rf dcap buf dst src,
  wf_source src -> not_nil src = true -> (text_dest dst = true -> rendered rf src) ->
  exists ok d own b, assign true dcap buf dst src = Done ok d own b.
Proof. exact assign_returns. Qed.
Print Assumptions C02_assign.

(* Refuted: a typed nil pointer source panics in every destination, except ( *bool)(nil) into a
   destination that is neither bool nor text (open finding assign_nil_source; C19's nil-pointer-source) *)
Theorem C02_refuted_assign_nil_source : forall dcap buf dst k,
  nil_refused dst k = false -> assign true dcap buf dst (SNil k) = Panicked NilDeref.
Proof. intros dcap buf dst k H. rewrite nil_source, H. reflexivity. Qed.
Print Assumptions C02_refuted_assign_nil_source.

Example C02_refuted_assign_nil_source_witness :
  assign true 0 None (DPtr (VInt KInt 99)) (SNil (KI KInt)) = Panicked NilDeref.
Proof. vm_compute. reflexivity. Qed.
End AssignFamily.

(* ===================== static inspector ===================== *)
Section StaticFamily.
Import Static StaticSpec StaticProofs NoPanicStatic.
Local Open Scope Z_scope.

(* operands passed by value or by non-nil pointer (15 kinds and foreign types): every method returns.
   Get, GetTo, Set, SetWithBuffer, Loop never look at the operand at all. *)
Theorem C02_static_no_panic : forall a v op right res0 fresh extra fuel r,
  denotes a = Some v -> wf_val v -> passed r = true ->
  ret (s_get a) /\ ret (s_getto a) /\ ret (s_set a r) /\ ret (s_setwithbuffer a r) /\ ret (s_loop a) /\
  ret (s_compare a op right res0) /\ ret (s_deq cur fuel a r) /\ ret (s_deq cur fuel r a) /\
  ret (s_copy fresh extra a) /\ ret (s_length a) /\ ret (s_capacity a) /\ ret (s_reset cur a).
Proof.
  intros a v op right res0 fresh extra fuel r D W P.
  assert (PA : passed a = true) by (destruct a; [reflexivity|reflexivity|discriminate D]).
  repeat split; try (eexists; reflexivity).
  - exact (compare_returns a v op right res0 D W).
  - exact (deq_returns fuel a r PA P).
  - exact (deq_returns fuel r a P PA).
  - exact (copy_returns fresh extra a PA).
  - exact (proj1 (lc_returns a PA)).
  - exact (proj2 (lc_returns a PA)).
  - exact (reset_returns a PA).
Qed.
Print Assumptions C02_static_no_panic.

(* DeepEqual never recurses without end (it did at the pinned commit: C16_refuted_text_diverges) *)
Theorem C02_static_deq_terminates : forall fuel l r, s_deq cur fuel l r <> Diverge.
Proof. exact deq_never_diverges. Qed.
Print Assumptions C02_static_deq_terminates.

(* Refuted: a typed nil pointer operand of one of the 15 kinds is dereferenced by Compare (when the
   right operand parses), DeepEqual, Copy, Length / Capacity of text, Reset
   (open finding static_nil_pointer_operand) *)
Theorem C02_refuted_static_nil_pointer_operand :
  s_compare (ANil (KI KInt)) OpEq "1" false = Panic NilDeref /\
  (forall fuel, s_deq cur fuel (ANil (KI KInt)) (AVal (VInt KInt 1)) = Panic NilDeref) /\
  s_copy 0 0 (ANil KStr) = Panic NilDeref /\
  s_length (ANil KBytes) = Panic NilDeref /\
  s_reset cur (ANil KF64) = Panic NilDeref.
Proof.
  split; [vm_compute; reflexivity|]. split; [intros fuel; rewrite deq_fuel; vm_compute; reflexivity|].
  repeat split; vm_compute; reflexivity.
Qed.
Print Assumptions C02_refuted_static_nil_pointer_operand.
End StaticFamily.

(* ===================== strings inspector ===================== *)
Section StringsFamily.
Import Strings StringsOps NoPanicStrings.
Local Open Scope Z_scope.

(* EVERY argument - a []string / [][]byte by value or by pointer (nil and empty sequences included), a
   typed nil *[]string / *[][]byte, a foreign type -, any path, operator, operand, iterator, other
   operand, source, destination, assigned value (a typed nil *string / *[]byte included): every method
   of the code that tests pointers against nil ([v_nil_ptr w = true], in particular [fixed]) returns *)
Theorem C02_strings_no_panic : forall w x y path o right it v nid dst,
  v_nil_ptr w = true ->
  nopanic (si_get_to w x path) /\ nopanic (si_compare w x o right path) /\ nopanic (si_loop w x it path) /\
  nopanic (si_length w x path) /\ nopanic (si_capacity w x path) /\
  nopanic (si_deep_equal w x y) /\ nopanic (si_deep_equal w y x) /\
  nopanic (si_set_with_buffer w x v path nid) /\
  nopanic (si_copy w x nid) /\ nopanic (si_copy_to w x dst nid) /\ nopanic (si_copy_to w y x nid) /\ nopanic (si_reset w x).
Proof.
  intros w x y path o right it v nid dst N.
  pose proof (safe_fixed w x N) as G. pose proof (safe_fixed w y N) as GY. pose proof (safe_fixed w dst N) as D.
  pose proof (tval_safe_fixed w v N) as T.
  repeat split;
    [apply get_to_np|apply compare_np|apply loop_np|apply length_np|apply capacity_np|apply deep_equal_np|apply deep_equal_np
    |apply set_np|apply copy_np|apply copy_to_np|apply copy_to_np|apply reset_np]; assumption.
Qed.
Print Assumptions C02_strings_no_panic.

(* the code before the nil tests (any version): no panic as long as no typed nil pointer is handed in -
   x, y and dst anything else (foreign types included), v not a typed nil *string / *[]byte *)
Theorem C02_strings_no_panic_without_nil_pointers : forall w x y path o right it v nid dst,
  (forall r, x <> ANilPtr r) -> (forall r, y <> ANilPtr r) -> (forall r, dst <> ANilPtr r) -> tval_ok v = true ->
  nopanic (si_get_to w x path) /\ nopanic (si_compare w x o right path) /\ nopanic (si_loop w x it path) /\
  nopanic (si_length w x path) /\ nopanic (si_capacity w x path) /\
  nopanic (si_deep_equal w x y) /\ nopanic (si_deep_equal w y x) /\
  nopanic (si_set_with_buffer w x v path nid) /\
  nopanic (si_copy w x nid) /\ nopanic (si_copy_to w x dst nid) /\ nopanic (si_reset w x).
Proof.
  intros w x y path o right it v nid dst NX NY ND TV.
  pose proof (safe_not_nil w x NX) as G. pose proof (safe_not_nil w y NY) as GY. pose proof (safe_not_nil w dst ND) as D.
  pose proof (tval_safe_ok w v TV) as T.
  repeat split;
    [apply get_to_np|apply compare_np|apply loop_np|apply length_np|apply capacity_np|apply deep_equal_np|apply deep_equal_np
    |apply set_np|apply copy_np|apply copy_to_np|apply reset_np]; assumption.
Qed.
Print Assumptions C02_strings_no_panic_without_nil_pointers.

(* what the repaired code answers for a typed nil pointer.  Every read - Get, Compare, Loop, Length,
   Capacity, either operand of DeepEqual, the source of Copy / CopyTo - treats it as the nil slice of that
   representation handed in by value: it finds nothing and reports no error of its own (two nil pointers,
   and a nil pointer and an empty sequence, are equal) *)
Theorem C02_strings_nil_pointer_reads_as_nil_slice : forall w r path o right it y dst nid, v_nil_ptr w = true ->
  si_get_to w (ANilPtr r) path = si_get_to w (AVal (nil_sq r)) path /\
  si_compare w (ANilPtr r) o right path = si_compare w (AVal (nil_sq r)) o right path /\
  si_loop w (ANilPtr r) it path = si_loop w (AVal (nil_sq r)) it path /\
  si_length w (ANilPtr r) path = si_length w (AVal (nil_sq r)) path /\
  si_capacity w (ANilPtr r) path = si_capacity w (AVal (nil_sq r)) path /\
  si_deep_equal w (ANilPtr r) y = si_deep_equal w (AVal (nil_sq r)) y /\
  si_deep_equal w y (ANilPtr r) = si_deep_equal w y (AVal (nil_sq r)) /\
  si_copy w (ANilPtr r) nid = si_copy w (AVal (nil_sq r)) nid /\
  si_copy_to w (ANilPtr r) dst nid = si_copy_to w (AVal (nil_sq r)) dst nid.
Proof. exact nil_pointer_reads_as_nil_slice. Qed.
Print Assumptions C02_strings_nil_pointer_reads_as_nil_slice.

(* nothing is written through it: Set leaves it alone, Reset and CopyTo (whatever the source) refuse the
   nil destination with the unsupported-type error *)
Theorem C02_strings_nil_pointer_not_written : forall w r src v path nid, v_nil_ptr w = true ->
  (exists e, si_set_with_buffer w (ANilPtr r) v path nid = Ret (ANilPtr r, nid) e) /\
  si_reset w (ANilPtr r) = Ret (ANilPtr r) (Some EUnsupported) /\
  si_copy_to w src (ANilPtr r) nid = Ret (ANilPtr r, nid) (Some EUnsupported).
Proof. exact nil_pointer_not_written. Qed.
Print Assumptions C02_strings_nil_pointer_not_written.

(* a typed nil *string / *[]byte handed to Set is no text: nothing is stored, whatever the sequence *)
Theorem C02_strings_nil_text_ignored : forall w x v path nid,
  v_nil_ptr w = true -> tval_ok v = false ->
  exists e, si_set_with_buffer w x v path nid = Ret (x, nid) e.
Proof. exact nil_text_ignored. Qed.
Print Assumptions C02_strings_nil_text_ignored.

Definition one_elem : sq := {| q_rep := SS; q_nil := false; q_elems := [ {| e_id := 1; e_data := []; e_cap := 0 |} ]; q_cap := Some 1 |}.

(* a foreign type is refused by every method *)
Theorem C02_strings_foreign : forall w path o right it v nid,
  nopanic (si_get_to w AForeign path) /\ nopanic (si_compare w AForeign o right path) /\ nopanic (si_loop w AForeign it path) /\
  nopanic (si_length w AForeign path) /\ nopanic (si_capacity w AForeign path) /\
  nopanic (si_set_with_buffer w AForeign v path nid) /\ nopanic (si_copy w AForeign nid) /\ nopanic (si_reset w AForeign).
Proof.
  intros w path o right it v nid.
  repeat split; try exact I;
    try (destruct path as [|p [|q r]]; exact I).
Qed.
Print Assumptions C02_strings_foreign.

(* Refuted for the code before the nil tests (repaired by the fix: commit of findings/C02.txt,
   strings_nil_pointer): a typed nil *[]string / *[][]byte was dereferenced by sp() in every method that
   reads its argument, by Reset, and as CopyTo destination when there was something to copy; a typed nil
   *string / *[]byte as assigned value was dereferenced by Set - and the repaired code returns on the
   same inputs *)
Theorem C02_refuted_strings_nil_pointer :
  (si_get_to before_nilfix (ANilPtr SS) ["0"%string] = Panic NilDeref /\
   si_length before_nilfix (ANilPtr PP) [] = Panic NilDeref /\
   si_reset before_nilfix (ANilPtr SS) = Panic NilDeref /\
   si_copy_to before_nilfix (AVal one_elem) (ANilPtr SS) 0 = Panic NilDeref /\
   si_set_with_buffer before_nilfix (APtr one_elem) (TStringPtr None) ["0"%string] 0 = Panic NilDeref) /\
  (si_get_to fixed (ANilPtr SS) ["0"%string] = Ret None None /\
   si_length fixed (ANilPtr PP) [] = Ret NotWritten None /\
   si_reset fixed (ANilPtr SS) = Ret (ANilPtr SS) (Some EUnsupported) /\
   si_copy_to fixed (AVal one_elem) (ANilPtr SS) 0 = Ret (ANilPtr SS, 0) (Some EUnsupported) /\
   si_set_with_buffer fixed (APtr one_elem) (TStringPtr None) ["0"%string] 0 = Ret (APtr one_elem, 0) None).
Proof. repeat split; vm_compute; reflexivity. Qed.
Print Assumptions C02_refuted_strings_nil_pointer.
End StringsFamily.

(* ===================== map[string]any inspector ===================== *)
Section StrAnyMapFamily.
Import StrAnyMap StrAnyMapNav StrAnyMapSet StrAnyMapCopy.

(* every tree - nil maps, nil pointers to maps and pointers to nil pointers at any depth, foreign
   values -, every path, operator, operand, iterator control, assigned value: no method panics *)
Theorem C02_stranymap_no_panic : forall p x c right ctl v pk,
  get true p x <> Panic pk /\ length true p x <> Panic pk /\ capacity true p x <> Panic pk /\
  compare true p x c right <> Panic pk /\ loop true p x ctl <> Panic pk /\
  snd (set true p x v) <> Panic pk /\ snd (copy true x) <> Panic pk.
Proof.
  intros p x c right ctl v pk.
  destruct (reads_never_panic p x c right ctl pk) as (A & B & C & D & E).
  repeat split; try assumption; [apply set_never_panics|apply copy_never_panics].
Qed.
Print Assumptions C02_stranymap_no_panic.
End StrAnyMapFamily.

(* ===================== reflect inspector ===================== *)
Section ReflectFamily.
Import ReflectIns NoPanicReflect.

(* Get / GetTo (the only methods that look at their argument; the others are empty stubs,
   DeepEqual is reflect.DeepEqual, Unmarshal is encoding/json): with the bounds test of the fix:
   commit, for EVERY node, argument form, value (typed or not) and path - no panic *)
Theorem C02_reflect_no_panic : forall n a path k, rget true n a path <> Some (RPanic k).
Proof. exact rget_fixed_no_panic. Qed.
Print Assumptions C02_reflect_no_panic.

(* Refuted at the pinned commit (repaired; findings/C02.txt): `v.Index(idx)` unchecked - an index
   outside [0, len) panics; it is the only panic and the two versions agree elsewhere *)
Theorem C02_refuted_reflect_index : exists n v path,
  wtb n v = true /\ rget false n (AVal v) path = Some (RPanic PIndex) /\ rget true n (AVal v) path = Some (ROk RNone).
Proof.
  exists (GenC02.rootn ("T"%string, TStruct [("F"%string, TSlice Shapes.t_int32)])), (VStruct [VSlice false [VInt 1%Z] 0]), ["F"; "5"]%string.
  repeat split; vm_compute; reflexivity.
Qed.
Print Assumptions C02_refuted_reflect_index.

Theorem C02_reflect_pinned_only_index : forall path d,
  (exists k, rwalk false d path = RPanic k /\ k = PIndex) \/ rwalk false d path = rwalk true d path.
Proof.
  intros path d. destruct (rwalk_versions path d) as [(k & E)|E]; [left|right; exact E].
  exists k. split; [exact E|exact (rwalk_pinned_only_index path d k E)].
Qed.
Print Assumptions C02_reflect_pinned_only_index.

Local Open Scope string_scope.
Example C02_demo_reflect :
  let n := GenC02.rootn ("T"%string, TStruct [("F"%string, TSlice Shapes.leaf); ("M"%string, TMap Shapes.t_int32 (TPtr Shapes.leaf))]) in
  let lf := VStruct [VInt 7%Z; VStr "abc"; VBytes false [] 0; VFloat (Floats.norm64 3 (-1))] in
  let v := VStruct [VSlice false [lf] 0; VMap false [(VInt 1%Z, VPtr (Some lf)); (VInt 2%Z, VPtr None)]] in
  option_map (fun o => match o with ROk d => rfinal d | _ => "!" end) (rget true n (APtr (Some v)) ["F"; "0"; "S"]%string) = Some "s616263"%string /\
  option_map (fun o => match o with ROk d => rfinal d | _ => "!" end) (rget true n (APtrPtr (Some (Some v))) ["M"; "1"; "A"]%string) = Some "7"%string /\
  option_map (fun o => match o with ROk d => rfinal d | _ => "!" end) (rget true n (AVal v) ["M"; "2"; "A"]%string) = Some "none"%string /\
  option_map (fun o => match o with ROk d => rfinal d | _ => "!" end) (rget true n (AVal v) ["M"; "2"]%string) = Some "nil"%string /\
  rget true n (AVal v) ["F"; "-1"]%string = Some (ROk RNone) /\ rget false n (AVal v) ["F"; "-1"]%string = Some (RPanic PIndex) /\
  rget true n (APtr None) ["F"]%string = Some (ROk RNone).
Proof. vm_compute. repeat split; reflexivity. Qed.

(* DEFINED types are inside the theorem's quantifier (it is over every node): a map keyed by `type C02Lang string`
   is searched by the `%v` text of its keys - entry found, absent key, nil map; a defined `type C02Blob []byte` is
   not a []byte (the type assertion goes by identity), it is indexed.  Units: GenC02.defined_units, run by c02reflect. *)
Definition rfin (o : option rout) : option string := option_map (fun o => match o with ROk d => rfinal d | _ => "!" end) o.
Example C02_demo_reflect_defined :
  let n := GenC02.rootn ("T"%string, TStruct [("Titles"%string, TMap GenC02.d_lang GenC02.d_code); ("Blob"%string, GenC02.d_blob);
                                              ("B"%string, Shapes.t_bytes)]) in
  let v := VStruct [VMap false [(VStr "en", VInt 7%Z)]; VSlice false [VInt 65%Z] 0; VBytes false ["A"%char] 0] in
  let z := VStruct [VMap true []; VSlice true [] 0; VBytes true [] 0] in
  rfin (rget true n (AVal v) ["Titles"; "en"]%string) = Some "7"%string /\
  rfin (rget true n (APtr (Some v)) ["Titles"; "de"]%string) = Some "none"%string /\
  rfin (rget true n (AVal z) ["Titles"; "en"]%string) = Some "none"%string /\
  rfin (rget true n (AVal v) ["Blob"; "0"]%string) = Some "65"%string /\
  rfin (rget true n (AVal v) ["B"; "0"]%string) = Some "b41"%string.
Proof. vm_compute. repeat split; reflexivity. Qed.
End ReflectFamily.
