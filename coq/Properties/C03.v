(* Properties/C03.v - statements only.
   C03: Set stores the value at the path and changes nothing else.
   [set_method] is the model of the emitted Set / SetWithBuffer on the value behind a *T
   (Model/SetEmit.v: writeNode in set mode AFTER the six fix: commits of findings/C03.txt;
   [set_method_old] is the emitter before the last of them, e955906),
   [nav] the native navigation (Spec/Nav.v), [offb E] the frame relation of Spec/SetSpec.v:
   everything off the path is what it was (containers and entries on the path possibly created),
   the element the path ends at related by E.  [E_end s buf] is what happens there: a scalar,
   string or bytes element holds the leaf conversion of the assigned value (nothing behind a nil
   pointer), a container is what it was or has been created.  [sound_set] is the decidable
   fragment: no []byte and no map held by value as slice element, no []byte as map value.  (A map
   entry that is a struct held by value may have any fields since e955906.) *)
From Coq Require Import List Bool String Ascii ZArith Arith Floats.SpecFloat.
From Verif Require Import Util Ints Floats Node GoSrc Value Outcome Nav LCSound SetEmit SetSpec SetSound SetMono SetGet SetHist SetHistSound Shapes GenUnits GenC03 GenC03x GenC03b.
From Verif Require Buffer ConvTexts.
Import ListNotations.
Local Open Scope string_scope.

(* For EVERY well-formed node of the sound fragment (no bound on nesting), every well-typed value,
   every path - resolving or not, with unknown fields, absent keys, indexes out of range,
   unparsable segments, nil pointers on the way - and every assigned value of the modelled domain,
   with or without a buffer: the call does not panic, nothing off the path changes, and the
   element at the end of the path (when the path ends at one) holds exactly the converted value. *)
Theorem C03_frame_and_store : forall s buf n v path,
  wfn n = true -> sound_set n = true -> root_ok n = true -> wtb n v = true ->
  match set_method n v path s buf with
  | Ret v' _ => offb (E_end s buf) n path v v' = true
  | _ => False
  end.
Proof. exact set_method_sound. Qed.
Print Assumptions C03_frame_and_store.

(* Set then get.  The path denotes an existing scalar, string or bytes element [en] (not behind a
   nil pointer: its content is x) and the assigned value converts to the element's type
   ([conv] of Spec/SetSpec.v gives c): after Set / SetWithBuffer, with or without a buffer,
   reading that path in the new object yields the converted value (equal canonical text; for a
   pointer element a pointer to it). *)
Theorem C03_set_then_get : forall s buf n v path en ev x c,
  wfn n = true -> sound_set n = true -> root_ok n = true -> wtb n v = true ->
  nav n v path = NElem en ev -> is_leaf_node en = true ->
  ev = (if n_ptr en then VPtr (Some x) else x) ->
  conv en (aval_of_src s) = Some c ->
  exists v' e ev', set_method n v path s buf = Ret v' e /\
                   nav n v' path = NElem en ev' /\
                   val_eqb ev' (if n_ptr en then VPtr (Some c) else c) = true.
Proof. exact set_then_get. Qed.
Print Assumptions C03_set_then_get.

(* The frame clause alone, as the stream judges it on the real objects ([frame_ok]: the end of the
   path is free): whatever the path and the value, no element off the path changes. *)
Theorem C03_frame : forall s buf n v path v' e,
  wfn n = true -> sound_set n = true -> root_ok n = true -> wtb n v = true ->
  set_method n v path s buf = Ret v' e -> frame_ok n path v v' = true.
Proof.
  intros s buf n v path v' e W SD RO WT R.
  pose proof (set_method_sound s buf n v path W SD RO WT) as G. rewrite R in G.
  exact (frame_of_store s buf n path v v' G).
Qed.
Print Assumptions C03_frame.

(* no panic for well-typed values (feeds C02) *)
Theorem C03_no_panic : forall s buf n v path,
  wfn n = true -> sound_set n = true -> root_ok n = true -> wtb n v = true ->
  exists v' e, set_method n v path s buf = Ret v' e.
Proof. exact set_method_no_panic. Qed.
Print Assumptions C03_no_panic.

(* HISTORIES.  Several Set / SetWithBuffer calls on one object, in any order, on any paths, with any
   assigned values, buffered or not ([hstep], Model/SetHist.v; [hstep_run] is [set_method]): every
   call returns, keeps the object well-typed, and meets the demand on the object the calls before
   it left ([call_ok], Proofs/SetHistSound.v): nothing off ITS path changes - so whatever the
   earlier calls stored elsewhere is what it was -, the end of its path holds the converted value
   (set then get), for every call of the history.  [lnok]: no scalar node is named like the bytes
   leaf (true of every parsed declaration; C03_units_leafnames). *)
Theorem C03_history : forall steps n v,
  wfn n = true -> sound_set n = true -> root_ok n = true -> lnok n = true -> wtb n v = true ->
  hist_ok n v steps.
Proof. exact hist_sound. Qed.
Print Assumptions C03_history.

(* The same by position, in the terms the histories of the stream c03 print ([run_hist]: the outcome of every
   call): the j-th call is made on the object the first j calls left, and its printed outcome is a
   return that meets the demand there. *)
Theorem C03_history_every_call : forall steps n v j st,
  wfn n = true -> sound_set n = true -> root_ok n = true -> lnok n = true -> wtb n v = true ->
  nth_error steps j = Some st ->
  exists vb v' e,
    hist_final n v (firstn j steps) = Some vb /\ wtb n vb = true /\
    nth_error (run_hist n v steps) j = Some (Ret v' e) /\
    hstep_run n vb st = Ret v' e /\ call_ok n vb st (Ret v' e).
Proof. exact hist_every_call. Qed.
Print Assumptions C03_history_every_call.

(* One call keeps a well-typed object well-typed (what lets the one-call theorems be iterated). *)
Theorem C03_set_keeps_type : forall s buf n v path v' e,
  wfn n = true -> lnok n = true -> wtb n v = true ->
  set_method n v path s buf = Ret v' e -> wtb n v' = true.
Proof. exact set_method_wt. Qed.
Print Assumptions C03_set_keeps_type.

(* The buffer's side of a history (why the object's history is the one-call model iterated, and
   what a shared buffer must never break): whatever happened to the ByteBuffer before ([pre]: any
   operations of Model/Buffer.v - fresh, presized, used, reset), after any sequence [cs] of buffered
   conversions (AssignToStr / AssignToBytes: acquire, append the rendered text, release, store a
   view of the new region) the text handed out by the k-th conversion still reads as it was
   rendered - for every k, hence after every prefix of the sequence too. *)
Theorem C03_history_texts_stable : forall cs pre size k isstr d e,
  nth_error cs k = Some (isstr, d, e) ->
  exists x,
    nth_error (Buffer.st_log (Buffer.run true size (pre ++ ConvTexts.conv_ops cs)))
              (List.length (Buffer.st_log (Buffer.run true size pre)) + k) = Some x /\
    Buffer.hd_str x = isstr /\ Buffer.hd_live x = true /\
    Buffer.read (Buffer.st_heap (Buffer.run true size (pre ++ ConvTexts.conv_ops cs))) (Buffer.hd_sl x) = d.
Proof. exact ConvTexts.conv_texts_stable. Qed.
Print Assumptions C03_history_texts_stable.

(* What the emitter did BEFORE fix e955906 ([set_method_old]; finding nested_in_map_entry, now fixed):
   below a non-scalar field of a struct that is held BY VALUE in a map the assignment went to a copy
   of the entry that was never stored back - the call returned nil and the object was what it had
   been, although the text fixes another one.  The repaired emitter ([set_method]) keeps the
   store-back of the entry pending for all the code below it and yields exactly the demanded
   object; the node is inside the sound fragment now, so the theorems above cover it.  (The stream
   c03x runs the real generated inspectors of such types, Gen/GenC03x.v.) *)
Theorem C03_refuted_nested_in_map_entry : exists n v path s,
  wfn n = true /\ root_ok n = true /\ wtb n v = true /\ sound_set n = true /\
  set_method_old n v path s true = Ret v None /\
  exists o, set_demand n v path (aval_of s) = Some o /\ o <> v /\
            set_method n v path s true = Ret o None.
Proof.
  exists (root_node ("T", TMap (TScalar SString) (TNamed "Rec" (TStruct [("N", Shapes.leaf)])))),
         (VMap false [(VStr "a", VStruct [VStruct [VInt 1; VStr ""; VBytes true [] 0; VFloat (S754_zero false)]])]),
         ["a"; "N"; "A"], (SrcInt KInt32 9).
  vm_compute. repeat split; try reflexivity. eexists. split; [reflexivity|]. split; [discriminate|reflexivity].
Qed.
Print Assumptions C03_refuted_nested_in_map_entry.

(* Non-vacuity: the root node of every supported unit of the representative set (the nodes the
   correspondence stream runs the generated code of) is in the sound fragment. *)
Example C03_units_sound :
  forallb (fun u => wfn (root_node u) && sound_set (root_node u) && root_ok (root_node u)) (supported_units 0) = true.
Proof. vm_compute. reflexivity. Qed.

(* the own units of the stream c03x (structs held by value as map entries with nested structs,
   pointers, slices and maps below them) are well-formed and inside the sound fragment *)
Example C03_xunits_sound :
  forallb (fun u => wfn (root_node u) && root_ok (root_node u) && sound_set (root_node u)) xunits = true.
Proof. vm_compute. reflexivity. Qed.

(* the two own units of the stream c03b (an element of every integer and float kind outside the
   representative ones, as field, pointer field, slice element and map value: the places of the
   boundary sweep) are inside the sound fragment *)
Example C03_bunits_sound :
  forallb (fun u => wfn (root_node u) && sound_set (root_node u) && root_ok (root_node u)) bunits = true.
Proof. vm_compute. reflexivity. Qed.

(* set then get, frame, creation on the path - on a concrete object *)
Example C03_demo :
  let n := root_node ("T", TStruct [("A", TScalar (SInt KInt32)); ("M", TMap (TScalar SString) Shapes.leaf); ("L", TSlice (TScalar (SInt KInt8)))]) in
  let v := VStruct [VInt 5; VMap true []; VSlice false [VInt 1; VInt 2] 0] in
  wtb n v = true /\
  set_method n v ["L"; "1"] (SrcInt KInt64 300) false = Ret (VStruct [VInt 5; VMap true []; VSlice false [VInt 1; VInt 44] 0]) None /\
  set_method n v ["M"; "k"; "A"] (SrcStr "-7") true =
    Ret (VStruct [VInt 5; VMap false [(VStr "k", VStruct [VInt (-7); VStr ""; VBytes true [] 0; VFloat (S754_zero false)])];
                  VSlice false [VInt 1; VInt 2] 0]) None /\
  set_method n v ["A"] (SrcInt KUint8 9) false = Ret v None /\
  set_method n v ["L"; "x"] (SrcInt KInt8 9) false = Ret v (Some EParse).
Proof. vm_compute. repeat split; reflexivity. Qed.

(* the nodes of every unit the streams run are free of scalar nodes named like the bytes leaf *)
Example C03_units_leafnames :
  forallb (fun u => lnok (root_node u)) (supported_units 0 ++ xunits ++ bunits) = true.
Proof. vm_compute. reflexivity. Qed.

(* a history on a concrete object: two buffered conversions into different text elements and a
   third one back into the first; each call leaves the text of the other element alone *)
Example C03_history_demo :
  let n := root_node ("T", TStruct [("N", Shapes.leaf); ("M", TMap (TScalar SString) (TScalar SString))]) in
  let v := VStruct [VStruct [VInt 1; VStr "ns"; VBytes false [] 0; VFloat (S754_zero false)]; VMap true []] in
  let steps := [mk_hstep ["N"; "S"] (SrcInt KInt64 1234567) true; mk_hstep ["M"; "k"] (SrcInt KUint16 65535) true;
                mk_hstep ["N"; "B"] (SrcInt KInt32 (-42)) false; mk_hstep ["N"; "S"] (SrcBool true) true] in
  wtb n v = true /\
  map (fun o => match o with Ret x _ => dump x | _ => "?" end) (run_hist n v steps) =
  [ dump (VStruct [VStruct [VInt 1; VStr "1234567"; VBytes false [] 0; VFloat (S754_zero false)]; VMap true []]);
    dump (VStruct [VStruct [VInt 1; VStr "1234567"; VBytes false [] 0; VFloat (S754_zero false)]; VMap false [(VStr "k", VStr "65535")]]);
    dump (VStruct [VStruct [VInt 1; VStr "1234567"; VBytes false (bytes_of_string "-42") 0; VFloat (S754_zero false)]; VMap false [(VStr "k", VStr "65535")]]);
    dump (VStruct [VStruct [VInt 1; VStr "true"; VBytes false (bytes_of_string "-42") 0; VFloat (S754_zero false)]; VMap false [(VStr "k", VStr "65535")]]) ].
Proof. vm_compute. split; reflexivity. Qed.
