(* Properties/C17.v - statements only.
   C17: the Strings inspector behaves like the []string / [][]byte sequence it wraps.

   Vocabulary (Model/Strings.v, Spec/StringsSpec.v, Proofs/StringsOps.v):
     arg            a Go argument: AVal s / APtr s (the slice by value / by pointer), ANilPtr, AForeign
     good x         x is a []string or [][]byte, by value or by non-nil pointer
     abs x          the abstract sequence (list of element texts) x wraps
     elem_at a i    the element index i addresses (0 <= i < len), or nothing
     atoi p         Go's strconv.Atoi on the path segment p (Base/Strconv.v, validated against the real one)
     ver            which strings.go is modelled: [fixed] = after the "fix:" commits, [pinned] = before; the theorems that
                    do not depend on the version are stated for every [w]
   Every theorem is for all sequences, both representations, both argument forms, all
   indices / path segments; nothing is bounded. *)
From Coq Require Import ZArith NArith List Bool Ascii String Lia.
From Verif Require Import Util Strconv Strings StringsSpec StringsOps StringsHist StringsKeys StringsMain StringsStorage.
Import ListNotations.
Local Open Scope Z_scope.

(* ---------- element addressing: Get, Compare, Length, Capacity ---------- *)
(* Get yields a reference to element i itself (&ss[i] / &pp[i]) and it reads the element's text. *)
Theorem C17_get_addresses : forall w x p i t,
  good x = true -> atoi p = Some i -> elem_at (abs x) i = Some t ->
  si_get_to w x [p] = Ret (Some (mkref (rep_of x) i)) None /\ deref x (mkref (rep_of x) i) = Some t.
Proof. exact get_addresses. Qed.
Print Assumptions C17_get_addresses.

(* Compare stores the native comparison of element i with the operand, for each of the six operators
   (holds for the pinned code too). *)
Theorem C17_compare_addresses : forall w x p i t,
  good x = true -> atoi p = Some i -> elem_at (abs x) i = Some t ->
  forall c r, si_compare w x (op_of c) r [p] = Ret (Some (native_cmp c t r)) None.
Proof. exact compare_addresses. Qed.
Print Assumptions C17_compare_addresses.

Theorem C17_length_addresses : forall w x p i t,
  good x = true -> atoi p = Some i -> elem_at (abs x) i = Some t ->
  si_length w x [p] = Ret (Wrote (Z.of_nat (List.length t))) None.
Proof. exact length_addresses. Qed.
Print Assumptions C17_length_addresses.

(* Capacity: the capacity of the []byte element i; a string element has no capacity and nothing is stored. *)
Theorem C17_capacity_addresses : forall w x p i t,
  good x = true -> atoi p = Some i -> elem_at (abs x) i = Some t ->
  match rep_of x with
  | PP => exists e, znth (elems_of x) i = Some e /\ e_data e = t /\ si_capacity w x [p] = Ret (Wrote (e_cap e)) None
  | SS => si_capacity w x [p] = Ret NotWritten None
  end.
Proof. exact capacity_addresses. Qed.
Print Assumptions C17_capacity_addresses.

(* ---------- Set: exactly element i, a buffered copy, the empty text included ---------- *)
(* The result wraps the sequence with element i replaced; form, representation, nil-ness, capacity
   and length are unchanged; element i is the fresh buffered allocation [nid]; every other element
   is the very same element (same bytes, same allocation, same capacity). *)
Theorem C17_set_exact : forall x ptr t p i nid,
  good x = true -> atoi p = Some i -> in_range (abs x) i = true ->
  exists x', si_set_with_buffer fixed x (own_text (rep_of x) ptr t) [p] nid = Ret (x', nid + 1) None /\
    abs x' = replace_at (abs x) i (t_data t) /\
    shape x' = shape x /\
    znth (elems_of x') i = Some (buffered nid (t_data t)) /\
    forall j, j <> i -> znth (elems_of x') j = znth (elems_of x) j.
Proof. exact set_exact_fixed. Qed.
Print Assumptions C17_set_exact.

(* The pinned code ignores the empty text ... *)
Theorem C17_refuted_set_empty :
  exists x ptr t p i nid, good x = true /\ atoi p = Some i /\ in_range (abs x) i = true /\
    forall x' n e, si_set_with_buffer pinned x (own_text (rep_of x) ptr t) [p] nid = Ret (x', n) e ->
                   abs x' <> replace_at (abs x) i (t_data t).
Proof. exact refuted_set_empty. Qed.
Print Assumptions C17_refuted_set_empty.

(* ... and is exact on non-empty texts (any version). *)
Theorem C17_set_exact_nonempty : forall w x ptr t p i nid,
  good x = true -> atoi p = Some i -> in_range (abs x) i = true -> t_data t <> [] ->
  exists x', si_set_with_buffer w x (own_text (rep_of x) ptr t) [p] nid = Ret (x', nid + 1) None /\
    abs x' = replace_at (abs x) i (t_data t) /\
    shape x' = shape x /\
    znth (elems_of x') i = Some (buffered nid (t_data t)) /\
    forall j, j <> i -> znth (elems_of x') j = znth (elems_of x) j.
Proof. exact set_exact_nonempty. Qed.
Print Assumptions C17_set_exact_nonempty.

(* ---------- outside the range: addresses nothing, changes nothing ---------- *)
Theorem C17_out_of_range_noop : forall w x p i,
  good x = true -> atoi p = Some i -> elem_at (abs x) i = None ->
  si_get_to w x [p] = Ret None None /\
  (forall o r, si_compare fixed x o r [p] = Ret None None) /\
  si_length w x [p] = Ret NotWritten None /\
  si_capacity w x [p] = Ret NotWritten None /\
  (forall w' v nid, si_set_with_buffer w' x v [p] nid = Ret (x, nid) None).
Proof. exact out_of_range_noop. Qed.
Print Assumptions C17_out_of_range_noop.

(* The pinned Compare stores a result for an index >= len ... *)
Theorem C17_refuted_compare_out_of_range :
  exists x p i o r, good x = true /\ atoi p = Some i /\ elem_at (abs x) i = None /\
    si_compare pinned x o r [p] = Ret (Some true) None.
Proof. exact refuted_compare_out_of_range. Qed.
Print Assumptions C17_refuted_compare_out_of_range.

(* ... but not for a negative one (any version). *)
Theorem C17_compare_negative_noop : forall w x o r p i,
  good x = true -> atoi p = Some i -> i < 0 -> si_compare w x o r [p] = Ret None None.
Proof. exact compare_negative_noop. Qed.
Print Assumptions C17_compare_negative_noop.

(* A segment Atoi rejects: the error is returned, nothing is stored, nothing changes. *)
Theorem C17_unparsable_noop : forall w x p,
  good x = true -> atoi p = None ->
  si_get_to w x [p] = Ret None (Some EAtoi) /\
  (forall o r, si_compare w x o r [p] = Ret None (Some EAtoi)) /\
  si_length w x [p] = Ret NotWritten (Some EAtoi) /\
  si_capacity w x [p] = Ret NotWritten (Some EAtoi) /\
  (forall v nid, si_set_with_buffer w x v [p] nid = Ret (x, nid) (Some EAtoi)).
Proof. exact unparsable_noop. Qed.
Print Assumptions C17_unparsable_noop.

(* ---------- Loop: all elements, in order, decimal keys ---------- *)
Theorem C17_loop_order_keys : forall w x, good x = true ->
  exists vs, si_loop w x it_all [] = Ret vs None /\
    map (visit_text x) vs = loop_all (abs x) /\
    List.length vs = List.length (abs x) /\
    forall k, (k < List.length (abs x))%nat ->
      nth_error vs k = Some {| vi_key := Some (Z_to_string (Z.of_nat k)); vi_val := mkref (rep_of x) (Z.of_nat k) |}.
Proof. exact loop_order_keys. Qed.
Print Assumptions C17_loop_order_keys.

(* the key text parses back to the index (all of Go's non-negative int) *)
Theorem C17_loop_keys_parse : forall j : nat, Z.of_nat j < 2 ^ 63 -> atoi (Z_to_string (Z.of_nat j)) = Some (Z.of_nat j).
Proof. exact atoi_decimal_index. Qed.
Print Assumptions C17_loop_keys_parse.

(* an iterator that breaks in round b (and says Continue before) sees exactly rounds 0..b *)
Theorem C17_loop_break : forall w x want b, good x = true -> (b < List.length (abs x))%nat ->
  si_loop w x {| it_want := want; it_ctl := fun k => if Nat.eqb k b then CtlBrk else CtlCnt |} [] =
  Ret (firstn (S b) (loop_from (mkref (rep_of x)) {| it_want := want; it_ctl := fun _ => CtlNone |} 0 (List.length (abs x)))) None.
Proof. exact loop_break. Qed.
Print Assumptions C17_loop_break.

(* ---------- DeepEqual ---------- *)
(* true exactly when the two wrapped sequences are equal, whatever the representations and forms;
   two empty sequences included *)
Theorem C17_deq_iff : forall x y, good x = true -> good y = true ->
  exists b, si_deep_equal fixed x y = Ret b None /\ (b = true <-> abs x = abs y).
Proof. exact deq_iff_fixed. Qed.
Print Assumptions C17_deq_iff.

Theorem C17_refuted_deq_empty :
  exists x y, good x = true /\ good y = true /\ abs x = abs y /\ si_deep_equal pinned x y = Ret false None.
Proof. exact refuted_deq_empty. Qed.
Print Assumptions C17_refuted_deq_empty.

Theorem C17_deq_iff_nonempty : forall w x y, good x = true -> good y = true ->
  abs x <> [] \/ abs y <> [] ->
  exists b, si_deep_equal w x y = Ret b None /\ (b = true <-> abs x = abs y).
Proof. exact deq_iff_nonempty. Qed.
Print Assumptions C17_deq_iff_nonempty.

(* the specification's equality is equality *)
Theorem C17_spec_equal_is_equality : forall a b, seq_equal a b = true <-> a = b.
Proof. exact seq_equal_iff. Qed.
Print Assumptions C17_spec_equal_is_equality.

(* ---------- CopyTo / Copy ---------- *)
(* the destination keeps its elements and gains, in order, one copy per source element; every
   copy is a fresh allocation (ids nid .. nid+len-1, pairwise different, cap = len), so it
   shares no bytes with any source element allocated before *)
Theorem C17_copyto_appends_fresh : forall w src d nid, good src = true ->
  exists d' cs,
    si_copy_to w src (APtr d) nid = Ret (APtr d', nid + zlen (elems_of src)) None /\
    q_elems d' = q_elems d ++ cs /\ q_rep d' = q_rep d /\
    abs_elems cs = abs src /\
    (forall c, In c cs -> nid <= e_id c < nid + zlen (elems_of src)) /\
    NoDup (map e_id cs) /\
    (forall c, In c cs -> e_cap c = zlen (e_data c)) /\
    ((forall e, In e (elems_of src) -> e_id e < nid) ->
     forall c e, In c cs -> In e (elems_of src) -> e_id c <> e_id e).
Proof. exact copyto_appends_fresh. Qed.
Print Assumptions C17_copyto_appends_fresh.

Theorem C17_copyto_by_value_refused : forall w src s nid, good src = true ->
  si_copy_to w src (AVal s) nid = Ret (AVal s, nid) (Some EMustPointer).
Proof. exact copy_to_by_value. Qed.
Print Assumptions C17_copyto_by_value_refused.

Theorem C17_copy_equal : forall w x nid, good x = true ->
  exists d, si_copy w x nid = Ret (d, nid + zlen (elems_of x)) None /\ q_rep d = SS /\ abs_elems (q_elems d) = abs x.
Proof. exact copy_equal. Qed.
Print Assumptions C17_copy_equal.

(* ---------- Reset ---------- *)
Theorem C17_reset : forall w s,
  exists s', si_reset w (APtr s) = Ret (APtr s') None /\ q_elems s' = [] /\
             q_rep s' = q_rep s /\ q_cap s' = q_cap s /\ q_nil s' = q_nil s.
Proof. exact reset_truncates. Qed.
Print Assumptions C17_reset.

Theorem C17_reset_by_value_refused : forall w s, si_reset w (AVal s) = Ret (AVal s) (Some EMustPointer).
Proof. exact reset_val. Qed.
Print Assumptions C17_reset_by_value_refused.

(* ---------- a foreign dynamic type ---------- *)
(* not demanded by C17 (C12 speaks about it); recorded because the model and the harness cover it *)
Theorem C17_foreign_refused : forall w,
  (forall p, si_get_to w AForeign p = Ret None None) /\
  (forall v p nid, si_set_with_buffer w AForeign v p nid = Ret (AForeign, nid) None) /\
  (forall o r p, si_compare w AForeign o r p = Ret None None) /\
  (forall it p, si_loop w AForeign it p = Ret [] None) /\
  (forall p, si_length w AForeign p = Ret NotWritten None) /\
  (forall p, si_capacity w AForeign p = Ret NotWritten None) /\
  (forall y, si_deep_equal w AForeign y = Ret false None) /\
  (forall x, good x = true -> si_deep_equal w x AForeign = Ret false None) /\
  (forall d nid, si_copy_to w AForeign d nid = Ret (d, nid) (Some EUnsupported)) /\
  (forall x nid, good x = true -> si_copy_to w x AForeign nid = Ret (AForeign, nid) (Some EUnsupported)) /\
  si_reset w AForeign = Ret AForeign None.
Proof. exact foreign_refused. Qed.
Print Assumptions C17_foreign_refused.

(* ---------- histories ---------- *)
(* Any list of Set / Get / Compare / Length / Capacity / Loop / DeepEqual / CopyTo (either
   direction) / Reset calls on one value: the wrapped sequence after the history is the abstract
   sequence after the corresponding abstract history, and every call along the way shows what the
   specification says it shows (SAny where the property is silent). *)
Theorem C17_histories : forall ops st, good (h_arg st) = true ->
  abs (h_arg (hrun fixed ops st)) = srun (is_ptr (h_arg st)) (map to_sop ops) (abs (h_arg st)) /\
  Forall2 sobs_ok (strace (is_ptr (h_arg st)) (map to_sop ops) (abs (h_arg st))) (atrace fixed ops st) /\
  good (h_arg (hrun fixed ops st)) = true /\
  is_ptr (h_arg (hrun fixed ops st)) = is_ptr (h_arg st) /\
  rep_of (h_arg (hrun fixed ops st)) = rep_of (h_arg st).
Proof. exact history_sim. Qed.
Print Assumptions C17_histories.

(* Stored bytes are never rewritten: after any history (any number of calls, texts of any length) every
   element of the value is an element it had before - same allocation, same bytes, same capacity - or
   lives in an allocation handed out during the history.  Hence "exactly element i": no call stores into
   the storage of another element, however long ago that was stored, and what was read from an element
   reads the same for ever. *)
Theorem C17_histories_keep_storage : forall w ops st,
  h_nid st <= h_nid (hrun w ops st) /\
  forall e, In e (elems_of (h_arg (hrun w ops st))) -> In e (elems_of (h_arg st)) \/ h_nid st <= e_id e.
Proof. exact history_keeps_storage. Qed.
Print Assumptions C17_histories_keep_storage.

(* ---------- non-vacuity ---------- *)
Local Open Scope string_scope.
Definition demo_pp : arg :=
  APtr {| q_rep := PP; q_nil := false;
          q_elems := [ {| e_id := 1; e_data := bytes_of_string "foo"; e_cap := 8 |};
                       {| e_id := 2; e_data := []; e_cap := 0 |};
                       {| e_id := 3; e_data := bytes_of_string "bar"; e_cap := 3 |} ];
          q_cap := Some 4 |}.

Example C17_demo_hypotheses :
  good demo_pp = true /\ atoi "2" = Some 2 /\ elem_at (abs demo_pp) 2 = Some (bytes_of_string "bar") /\
  in_range (abs demo_pp) 2 = true /\ atoi "3" = Some 3 /\ elem_at (abs demo_pp) 3 = None /\
  atoi "-1" = Some (-1) /\ elem_at (abs demo_pp) (-1) = None /\ atoi "1x" = None /\ atoi "" = None.
Proof. vm_compute. repeat split; reflexivity. Qed.

Definition demo_ops : list hop :=
  [HSet false [] "0"; HCompare OpEq [] "0"; HSet true (bytes_of_string "xyz") "1"; HSet false (bytes_of_string "q") "3";
   HGet "1"; HLength ["1"]; HCompare OpLt (bytes_of_string "zz") "5"; HLoop;
   HCopyOut SS; HReset; HDeepEqual (AVal (nil_sq SS)); HCopyFrom (AVal (ss_of [(7, "a"); (8, "")])); HLength ["0"]].

Example C17_demo_history :
  abs (h_arg (hrun fixed demo_ops {| h_arg := demo_pp; h_nid := 10 |})) = [bytes_of_string "a"; []] /\
  atrace fixed demo_ops {| h_arg := demo_pp; h_nid := 10 |} =
  [SDone; SCmp (Some true); SDone; SDone; SElem (Some (1, bytes_of_string "xyz")); SLen (Some 3); SCmp None;
   SVisits [("0", []); ("1", bytes_of_string "xyz"); ("2", bytes_of_string "bar")];
   SCopied [[]; bytes_of_string "xyz"; bytes_of_string "bar"]; SDone; SBool true; SDone; SLen (Some 1)].
Proof. vm_compute. split; reflexivity. Qed.
