(* Properties/C13.v - statements only.
   C13: generation is deterministic and target-independent; shipped output is current.
   Determinism of the emitted TEXT and byte-identity of the shipped files are
   observed (translation validation in the `units` stream and the shipped-output
   comparison); the theorem part is the agreement of the two parsers, which is
   what makes the targets agree: [C13_parsers_agree] for ALL well-formed declarations
   (any nesting depth, any names; Proofs/ParserAgree.v), and the older exhaustive check
   of the depth<=2 enumeration, which the general theorem's premise covers entirely
   ([C13_premise_covers_enumeration]). *)
From Coq Require Import List Bool String Ascii ZArith Arith.
From Verif Require Import Util Ints Node GoSrc Shapes GenUnits ParserFacts ParserAgree.
Import ListNotations.
Local Open Scope string_scope.

(* The go/ast parser (directory and file targets) and the go/types parser (package target)
   build the SAME type tree - hence the same XML dump and the same emitter input - for every
   supported unit of the exhaustive depth<=2 enumeration (bound: [supported_units 1]). *)
Theorem C13_parsers_agree_enumerated : forall u, In u (supported_units 1) ->
  ast_nodes_of u = loader_nodes_of u.
Proof.
  intros u Hu. apply parsers_agree_sound. revert u Hu. apply forallb_forall. vm_compute. reflexivity.
Qed.
Print Assumptions C13_parsers_agree_enumerated.

Theorem C13_same_xml_enumerated : forall u, In u (supported_units 1) ->
  map xml (ast_nodes_of u) = map xml (loader_nodes_of u).
Proof. intros u Hu. rewrite (C13_parsers_agree_enumerated u Hu). reflexivity. Qed.
Print Assumptions C13_same_xml_enumerated.

(* Outside the supported fragment the parsers do differ: a named []byte field gets hasBytes
   from the AST parser only (that shape does not compile, so it is a C14 finding). *)
Definition blob_unit : string * ty := ("T", TStruct [("F", TNamed "Blob" (TSlice (TScalar SByte)))]).
Theorem C13_refuted_named_bytes : parsers_agree_b blob_unit = false /\ sup_root (snd blob_unit) = false.
Proof. vm_compute. split; reflexivity. Qed.
Print Assumptions C13_refuted_named_bytes.

(* ---------- the unbounded theorem ----------
   The two parsers build the same node for EVERY root declaration `type n body` - no bound on
   nesting depth, any identifiers, any package name - under two decidable premises:
   * the import path is not empty (with an empty path the loader parser does not strip
     qualifiers at all, the printed names keep a leading ".");
   * [pwf_root n body] (Proofs/ParserAgree.v): the root is a struct, a map or a slice (a slice not
     called "[]byte"), and every type below it is well-formed: no pointer to a pointer; an unnamed
     map type mentions at most one named type in its printed form (strings.Replace(.., 1) removes
     ONE qualifier); struct literals only as definitions of named types; named types have
     non-empty names and are not defined as pointers; a named slice used outside a pointer does
     not print as "[]byte".
   Nothing is assumed about '.' or any other character in the import path, the package name or
   the identifiers: the first occurrence of `imp ++ "."` in a printed type is the qualifier of
   its first named reference because everything printed before it is dot-free. *)
Theorem C13_parsers_agree : forall pkg imp n body,
  String.eqb imp "" = false -> pwf_root n body = true ->
  parse_ast_decl pkg imp n body = parse_loader_decl pkg imp n body.
Proof. exact parsers_agree_wf. Qed.
Print Assumptions C13_parsers_agree.

(* whole units: every declaration is a well-formed root or a named scalar (never eligible) *)
Theorem C13_parsers_agree_units : forall u,
  forallb pwf_decl (decls_of_root (fst u) (snd u)) = true -> ast_nodes_of u = loader_nodes_of u.
Proof. exact units_agree. Qed.
Print Assumptions C13_parsers_agree_units.

Theorem C13_same_xml : forall pkg imp n body,
  String.eqb imp "" = false -> pwf_root n body = true ->
  xml (parse_ast_decl pkg imp n body) = xml (parse_loader_decl pkg imp n body).
Proof. intros pkg imp n body I W. rewrite (C13_parsers_agree pkg imp n body I W). reflexivity. Qed.
Print Assumptions C13_same_xml.

(* the premises hold for every unit of the enumerated supported fragment: its import path, its
   root, and all the declarations it brings along *)
Example C13_premise_covers_enumeration :
  forallb (fun u => negb (String.eqb (imp_of (fst u)) "") && pwf_root (fst u) (snd u) &&
                    forallb pwf_decl (decls_of_root (fst u) (snd u))) (supported_units 1) = true.
Proof. vm_compute. reflexivity. Qed.

(* ... and far beyond it: deeper nesting, an import path with dots, alias chains *)
Example C13_premise_deep :
  String.eqb "github.com/koykov/inspector/testobj" "" = false /\
  pwf_root "Deep" (TMap t_string (TSlice (TMap t_int32 (TSlice (TPtr (TMap (TPtr t_string) (TSlice (TPtr leaf)))))))) = true /\
  pwf_root "S" (TStruct [("A", TNamed "Alias" mid); ("B", TPtr (TNamed "Blob" t_bytes)); ("C", TSlice (TSlice (TSlice item)))]) = true.
Proof. vm_compute. repeat split. Qed.

(* the premises are not decoration: without each of them the parsers differ *)
Example C13_needs_import_path :
  let body := TStruct [("F", TSlice leaf)] in
  pwf_root "T" body = true /\ parse_ast_decl "p" "" "T" body <> parse_loader_decl "p" "" "T" body.
Proof. split; [reflexivity|]. intros H. vm_compute in H. discriminate H. Qed.

Example C13_needs_one_reference :
  let body := TStruct [("F", TMap kind leaf)] in
  pwf_root "T" body = false /\ parse_ast_decl "p" "gen/p" "T" body <> parse_loader_decl "p" "gen/p" "T" body.
Proof. split; [reflexivity|]. intros H. vm_compute in H. discriminate H. Qed.

Example C13_needs_single_pointer :
  let body := TStruct [("F", TPtr (TPtr t_int32))] in
  pwf_root "T" body = false /\ parse_ast_decl "p" "gen/p" "T" body <> parse_loader_decl "p" "gen/p" "T" body.
Proof. split; [reflexivity|]. intros H. vm_compute in H. discriminate H. Qed.

Example C13_needs_named_nonempty :
  let body := TStruct [("F", TNamed "" (TSlice t_int32))] in
  pwf_root "T" body = false /\ parse_ast_decl "p" "gen/p" "T" body <> parse_loader_decl "p" "gen/p" "T" body.
Proof. split; [reflexivity|]. intros H. vm_compute in H. discriminate H. Qed.

Example C13_needs_no_named_bytes : pwf_root (fst blob_unit) (snd blob_unit) = false.
Proof. reflexivity. Qed.

Example C13_needs_struct_map_or_slice_root :
  pwf_root "Kind" t_int32 = false /\
  parse_ast_decl "p" "gen/p" "Kind" t_int32 <> parse_loader_decl "p" "gen/p" "Kind" t_int32.
Proof. split; [reflexivity|]. intros H. vm_compute in H. discriminate H. Qed.
