(* Properties/C13.v - statements only.
   C13: generation is deterministic and target-independent; shipped output is current.
   Determinism of the emitted TEXT and byte-identity of the shipped files are
   observed (translation validation in the `units` stream and the shipped-output
   comparison); the theorem part is the agreement of the two parsers, which is
   what makes the targets agree. *)
From Coq Require Import List Bool String Ascii ZArith Arith.
From Verif Require Import Util Ints Node GoSrc Shapes GenUnits ParserFacts.
Import ListNotations.
Local Open Scope string_scope.

(* The go/ast parser (directory and file targets) and the go/types parser (package target)
   build the SAME type tree - hence the same XML dump and the same emitter input - for every
   supported unit of the exhaustive depth<=2 enumeration (bound: [supported_units 1]). *)
Theorem C13_parsers_agree_enumerated : forall u, In u (supported_units 1) ->
  ast_nodes_of u = loader_nodes_of u.
Proof.
  intros u Hu. apply parsers_agree_sound. revert u Hu. apply forallb_forall. vm_compute. reflexivity.
Qed.
Print Assumptions C13_parsers_agree_enumerated.

Theorem C13_same_xml_enumerated : forall u, In u (supported_units 1) ->
  map xml (ast_nodes_of u) = map xml (loader_nodes_of u).
Proof. intros u Hu. rewrite (C13_parsers_agree_enumerated u Hu). reflexivity. Qed.
Print Assumptions C13_same_xml_enumerated.

(* Outside the supported fragment the parsers do differ: a named []byte field gets hasBytes
   from the AST parser only (that shape does not compile, so it is a C14 finding). *)
Definition blob_unit : string * ty := ("T", TStruct [("F", TNamed "Blob" (TSlice (TScalar SByte)))]).
Theorem C13_refuted_named_bytes : parsers_agree_b blob_unit = false /\ sup_root (snd blob_unit) = false.
Proof. vm_compute. split; reflexivity. Qed.
Print Assumptions C13_refuted_named_bytes.
