(* Properties/C10.v - placeholder, replaced below by the real statements *)
From Verif Require Import LC.
