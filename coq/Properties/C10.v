(* Properties/C10.v - statements only.
   C10: Length and Capacity report len and cap of the addressed element.
   [length_capacity] is the model of the emitted Length/Capacity methods
   (Model/LC.v, the emitter after the five fix: commits), [nav] the native
   navigation of Spec/Nav.v, [lc_demand] the demand of the property text
   (Spec/LCSpec.v), [wfn] the well-formedness both parsers establish. *)
From Coq Require Import List Bool String Ascii ZArith Arith.
From Verif Require Import Util Ints Node GoSrc Value Outcome Nav LC LCSpec LCSound ParserWf Shapes GenUnits GenC10.
Import ListNotations.

(* For EVERY well-formed node (no bound on nesting), every well-typed value and every path,
   Length/Capacity through a pointer meet the demand: len/cap of the element the path denotes,
   0 when it denotes nothing or runs into a nil pointer, possibly the parse error when a
   segment cannot be parsed for the type at its position. *)
Theorem C10_length_capacity : forall fn n v path res0,
  wfn n = true -> n_ptr n = false -> wtb n v = true ->
  meets (length_capacity fn n (APtr (Some v)) path res0) (lc_demand fn n v path).
Proof. exact length_capacity_sound. Qed.
Print Assumptions C10_length_capacity.

(* The same for every root declaration of the grammar (struct, map or slice body; any nesting
   depth): what the generator's parser builds is well-formed, so the theorem applies to it. *)
Theorem C10_for_every_declared_type : forall fn pkg imp name body v path res0,
  wf_ty body = true -> (match body with TStruct _ | TMap _ _ | TSlice _ => True | _ => False end) ->
  wtb (parse_ast_decl pkg imp name body) v = true ->
  meets (length_capacity fn (parse_ast_decl pkg imp name body) (APtr (Some v)) path res0)
        (lc_demand fn (parse_ast_decl pkg imp name body) v path).
Proof.
  intros fn pkg imp name body v path res0 W R WT.
  apply length_capacity_sound; [apply parse_ast_wfn; exact W| |exact WT].
  destruct body; try contradiction; reflexivity.
Qed.
Print Assumptions C10_for_every_declared_type.

(* ... they never panic, and the only error is the parse error. *)
Theorem C10_only_parse_error_no_panic : forall fn n v path res0,
  wfn n = true -> n_ptr n = false -> wtb n v = true ->
  safe (length_capacity fn n (APtr (Some v)) path res0).
Proof. exact length_capacity_safe. Qed.
Print Assumptions C10_only_parse_error_no_panic.

(* The demand spelled out for the three clauses of the property. *)
Theorem C10_len : forall n v path res0 en ev x,
  wfn n = true -> n_ptr n = false -> wtb n v = true ->
  nav n v path = NElem en ev -> strip_ptrs 3 ev = Some x ->
  (match x with VStr _ | VBytes _ _ _ | VSlice _ _ _ | VMap _ _ => True | _ => False end) ->
  type_bad n path = false ->
  length_capacity FLen n (APtr (Some v)) path res0 = Ret (v_len x) None.
Proof.
  intros n v path res0 en ev x W P WT NV SP SH TB.
  pose proof (length_capacity_sound FLen n v path res0 W P WT) as M.
  rewrite lc_demand_dem, NV, TB in M. unfold dem in M. cbn [dem0] in M. rewrite SP in M.
  destruct x; try contradiction; exact M.
Qed.
Print Assumptions C10_len.

Theorem C10_cap : forall n v path res0 en ev x,
  wfn n = true -> n_ptr n = false -> wtb n v = true ->
  nav n v path = NElem en ev -> strip_ptrs 3 ev = Some x ->
  (match x with VBytes _ _ _ | VSlice _ _ _ => True | _ => False end) ->
  type_bad n path = false ->
  length_capacity FCap n (APtr (Some v)) path res0 = Ret (v_cap x) None.
Proof.
  intros n v path res0 en ev x W P WT NV SP SH TB.
  pose proof (length_capacity_sound FCap n v path res0 W P WT) as M.
  rewrite lc_demand_dem, NV, TB in M. unfold dem in M. cbn [dem0] in M. rewrite SP in M.
  destruct x; try contradiction; exact M.
Qed.
Print Assumptions C10_cap.

Theorem C10_nothing : forall fn n v path res0 w,
  wfn n = true -> n_ptr n = false -> wtb n v = true ->
  nav n v path = NNone w -> type_bad n path = false ->
  length_capacity fn n (APtr (Some v)) path res0 = Ret 0%Z None.
Proof.
  intros fn n v path res0 w W P WT NV TB.
  pose proof (length_capacity_sound fn n v path res0 W P WT) as M.
  rewrite lc_demand_dem, NV, TB in M. exact M.
Qed.
Print Assumptions C10_nothing.

(* Non-vacuity: the root node of every supported unit of the representative set is
   well-formed (these are the nodes the correspondence stream runs the generated code of). *)
Example C10_units_wellformed :
  forallb (fun u => wfn (root_node u) && negb (n_ptr (root_node u))) (supported_units 0) = true.
Proof. vm_compute. reflexivity. Qed.

Local Open Scope string_scope.
Example C10_demo :
  let n := root_node ("T", TStruct [("F", TMap (TScalar SString) (TSlice Shapes.leaf))]) in
  let v := VStruct [VMap false [(VStr "k", VSlice false [VStruct [VInt 1; VStr "abc"; VBytes false [] 4; VFloat (Floats.norm64 0 0)]] 2)]] in
  wtb n v = true /\
  length_capacity FLen n (APtr (Some v)) ["F"; "k"; "0"; "S"] 77 = Ret 3%Z None /\
  length_capacity FCap n (APtr (Some v)) ["F"; "k"] 77 = Ret 3%Z None /\
  length_capacity FCap n (APtr (Some v)) ["F"; "k"; "0"; "B"] 77 = Ret 4%Z None /\
  length_capacity FLen n (APtr (Some v)) ["F"; "zz"; "0"] 77 = Ret 0%Z None.
Proof. vm_compute. repeat split; reflexivity. Qed.
