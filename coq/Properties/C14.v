(* Properties/C14.v - statements only.
   C14: every supported declaration set yields complete, compiling inspectors.
   What can be a theorem here is the part that is about the generator's
   decisions (which types get a file, which name); that the emitted text is
   gofmt-clean and accepted by the Go compiler is established per program by
   gofmt and the Go compiler in the `units` stream (translation validation). *)
From Coq Require Import List Bool String Ascii ZArith Arith.
From Verif Require Import Util Ints Node GoSrc Shapes GenUnits ParserFacts LCSound ParserWf.
Import ListNotations.
Local Open Scope string_scope.

(* A root declaration that is a struct, a map or a slice is eligible exactly when its name
   does not look like an unnamed collection type (for every name and body, no bound). *)
Definition is_root_body (b : ty) : bool :=
  match b with TStruct _ | TMap _ _ | TSlice _ => true | _ => false end.

Lemma eligible_root pkg imp n b : is_root_body b = true ->
  eligible (parse_ast_decl pkg imp n b) = negb (looks_unnamed n).
Proof. destruct b; simpl; try discriminate; intros _; reflexivity. Qed.

Theorem C14_eligible_root : forall pkg imp n b, is_root_body b = true ->
  eligible (parse_ast_decl pkg imp n b) = negb (looks_unnamed n).
Proof. exact eligible_root. Qed.
Print Assumptions C14_eligible_root.

(* Every declared type of the grammar - any nesting depth; field names distinct, map keys
   (pointers to) builtin scalars - is parsed by the go/ast parser model into a well-formed node:
   the premise [wfn] of every emitter theorem (C01 C03 C04 C05 C06 C08 C09 C10 C11 C12) holds
   for what the generator builds from ANY declaration, not only for the enumerated ones. *)
Theorem C14_parsed_nodes_wellformed : forall pkg imp n body,
  wf_ty body = true -> wfn (parse_ast_decl pkg imp n body) = true.
Proof. exact parse_ast_wfn. Qed.
Print Assumptions C14_parsed_nodes_wellformed.

(* Scalars never get an inspector. *)
Theorem C14_scalar_not_eligible : forall pkg imp n k, eligible (parse_ast_decl pkg imp n (TScalar k)) = false.
Proof. intros; reflexivity. Qed.
Print Assumptions C14_scalar_not_eligible.

(* Black-listed and repeated names are never selected, whatever the declaration list. *)
Lemma select_spec bl : forall ns seen n, In n (select bl seen ns) ->
  mem_str (n_name n) bl = false /\ mem_str (n_name n) seen = false /\ eligible n = true.
Proof.
  induction ns as [|m r IH]; intros seen n H; simpl in H; [contradiction|].
  destruct (eligible m && negb (mem_str (n_name m) seen) && negb (mem_str (n_name m) bl)) eqn:C.
  - destruct H as [<-|H].
    + apply andb_true_iff in C. destruct C as (C & C3). apply andb_true_iff in C. destruct C as (C1 & C2).
      apply negb_true_iff in C2, C3. auto.
    + destruct (IH _ _ H) as (A & B & E). repeat split; auto.
      simpl in B. apply orb_false_iff in B. tauto.
  - apply IH; exact H.
Qed.

Theorem C14_blacklist : forall bl ns seen n, In n (select bl seen ns) ->
  mem_str (n_name n) bl = false /\ mem_str (n_name n) seen = false /\ eligible n = true.
Proof. exact select_spec. Qed.
Print Assumptions C14_blacklist.

(* Over every supported unit of the exhaustive depth<=2 enumeration (the bound is the
   enumeration [supported_units 1]): the files of a unit are pairwise distinct - exactly one
   file per eligible type. *)
Theorem C14_one_file_per_type_enumerated : forall u, In u (supported_units 1) ->
  nodup_str (files_of (ast_nodes_of u)) = true.
Proof.
  apply forallb_forall. vm_compute. reflexivity.
Qed.
Print Assumptions C14_one_file_per_type_enumerated.

(* Without a bound it is false: two exported types whose names differ only in case share a file. *)
Theorem C14_refuted_case_collision :
  exists ds : declset,
    let ns := select [] [] (map (fun d => parse_ast_decl "p" "gen/p" (fst d) (snd d)) ds) in
    List.length ns = 2 /\ nodup_str (files_of ns) = false.
Proof. exists collide. vm_compute. split; reflexivity. Qed.
Print Assumptions C14_refuted_case_collision.

(* non-vacuity: the supported fragment of the quick enumeration has several hundred units (564 when this was written) *)
Example C14_supported_nonempty : Nat.leb 500 (List.length (supported_units 0)) = true.
Proof. vm_compute. reflexivity. Qed.
