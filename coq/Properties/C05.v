(* Properties/C05.v - statements only.
   C05: DeepEqual is structural equality: reflexive, symmetric, sees every change.
   [deep_equal] / [deep_equal_with_options] are the model of the emitted methods (Model/Deq.v: header +
   the code of writeNodeDEQ, the emitter after the two fix: commits of findings/C05.txt and C11.txt);
   [seqv] is the structural identity of the property text (Spec/DeqSpec.v) with its two float readings:
   [seq_strict] = the same floats, [seq_tol] = equal or within the tolerance; [wfroot] = a root node as both
   parsers produce it (field names are identifiers, element nodes are unnamed, []byte only as a field);
   [kok] = every map has valid, pairwise different keys (what a Go map is); [finv] = finite floats;
   [sh] = both operands are one and the same object (pointer map keys compare by identity). *)
From Coq Require Import List Bool String Ascii ZArith Arith Floats.SpecFloat.
From Verif Require Import Util Ints Floats Node GoSrc Value Outcome Deq DeqSpec DeqKeys DeqPaths DeqSound DeqSym DeqRefl DeqMain DeqForms
                          Shapes EnumVal GenUnits GenDeq GenC05.
Import ListNotations.

(* Reflexive: for EVERY well-formed node (no bound on nesting) and every well-typed value with finite floats,
   the value compared with itself is equal - under nil options (DeepEqual) and under any options. *)
Theorem C05_refl : forall n o a,
  wfroot n = true -> wtb n a = true -> finv a = true -> kok a = true ->
  deep_equal_with_options n true (APtr (Some a)) (APtr (Some a)) o = inl true.
Proof. exact deep_equal_refl. Qed.
Print Assumptions C05_refl.

(* Symmetric: the same answer (or the same panic of the header) in both argument orders, for every pair of values -
   floats closer than the tolerance, NaN and infinities included -, every argument form and every options. *)
Theorem C05_sym : forall n sh o la ra,
  akok la = true -> akok ra = true ->
  deep_equal_with_options n sh la ra o = deep_equal_with_options n sh ra la o.
Proof. exact deep_equal_sym. Qed.
Print Assumptions C05_sym.

(* A structurally identical value (same scalars, strings, bytes, lengths, key sets, pointer nil-ness) compares equal. *)
Theorem C05_copy_equal : forall n sh a b,
  wfroot n = true -> finv a = true -> seq_strict sh n a b = true ->
  deep_equal n sh (APtr (Some a)) (APtr (Some b)) = inl true.
Proof. exact deep_equal_copy. Qed.
Print Assumptions C05_copy_equal.

(* Sees every change: whenever the two values differ in a scalar, string or bytes element (floats: by more than the
   tolerance), in a collection's length or key set, or in the nil-ness of a pointer - at one position or at many -
   the answer is false. *)
Theorem C05_sees_change : forall n sh a b,
  wfroot n = true -> kok a = true -> kok b = true -> seq_tol sh default_tol n a b = false ->
  deep_equal n sh (APtr (Some a)) (APtr (Some b)) = inl false.
Proof. exact deep_equal_sees. Qed.
Print Assumptions C05_sees_change.

(* The verdict column of the correspondence stream is this function of the two spec relations. *)
Theorem C05_meets_demand : forall n sh a b,
  wfroot n = true -> finv a = true -> kok a = true -> kok b = true ->
  meets (deep_equal n sh (APtr (Some a)) (APtr (Some b))) (c05_demand sh n a b).
Proof. exact deep_equal_meets_c05. Qed.
Print Assumptions C05_meets_demand.

(* The answer does not depend on the form either operand is handed over in: T, *T or **T (the forms
   [value_forms] = v, p, pp of the correspondence stream) in any combination, under any options, answer what the
   (pointer, pointer) call of the theorems above answers - so reflexivity, copy-equality and change detection
   hold for every one of the 3 x 3 combinations, as the argument-form matrix of the stream demands. *)
Theorem C05_form_independent : forall n sh o lf rf a b,
  In lf value_forms -> In rf value_forms ->
  deep_equal_with_options n sh (arg_of_form lf a) (arg_of_form rf b) o =
  deep_equal_with_options n sh (APtr (Some a)) (APtr (Some b)) o.
Proof. exact deep_equal_form_ptr. Qed.
Print Assumptions C05_form_independent.

Theorem C05_meets_demand_every_form : forall n sh lf rf a b,
  In lf value_forms -> In rf value_forms ->
  wfroot n = true -> finv a = true -> kok a = true -> kok b = true ->
  meets (deep_equal n sh (arg_of_form lf a) (arg_of_form rf b)) (c05_demand sh n a b).
Proof. exact deep_equal_meets_c05_forms. Qed.
Print Assumptions C05_meets_demand_every_form.

(* The order in which `range` visits the left map cannot change the answer. *)
Theorem C05_map_order_irrelevant : forall rec lk lk' rk,
  Permutation.Permutation lk lk' -> deq_entries rec lk rk = deq_entries rec lk' rk.
Proof. exact deq_entries_perm. Qed.
Print Assumptions C05_map_order_irrelevant.

Local Open Scope string_scope.

(* Why the premises are there. *)
(* finite floats: an infinite float field is not equal to itself (Inf - Inf is NaN, and NaN <= tolerance is false) *)
Theorem C05_refuted_refl_infinity : exists n a,
  wfroot n = true /\ wtb n a = true /\ kok a = true /\
  deep_equal n true (APtr (Some a)) (APtr (Some a)) <> inl true.
Proof.
  exists (root_node ("T", TStruct [("F", TScalar SF64)])), (VStruct [VFloat (S754_infinity false)]).
  vm_compute. repeat split; discriminate.
Qed.
Print Assumptions C05_refuted_refl_infinity.

(* pointer keys compare by identity: an independently built copy of a non-empty pointer-keyed map has other keys
   and compares unequal (decision recorded in Spec/DeqSpec.v: such a copy is not "structurally identical") *)
Theorem C05_refuted_copy_equal_pointer_keys : exists n a,
  wfroot n = true /\ wtb n a = true /\ finv a = true /\ kok a = true /\ val_eqb a a = true /\
  deep_equal n false (APtr (Some a)) (APtr (Some a)) = inl false /\
  deep_equal n true (APtr (Some a)) (APtr (Some a)) = inl true.
Proof.
  exists (root_node ("T", TMap (TPtr (TScalar (SInt KInt32))) (TScalar SString))), (VMap false [(VPtr (Some (VInt 1)), VStr "x")]).
  vm_compute. repeat split; reflexivity.
Qed.
Print Assumptions C05_refuted_copy_equal_pointer_keys.

(* Non-vacuity, on every unit the stream runs (emit_units 0) in one computation: the root is well-formed; every value
   variant is well-typed, has finite floats and valid keys; every mutant still has valid keys; and every mutation of
   a listed kind (the within-tolerance float shift and nil <-> empty aside) is a difference in the sense of the text
   unless it did not change the value (a shift of 0.01 is absorbed by 2^60). *)
Example C05_stream_in_domain :
  let us := emit_units 0 in
  forallb (fun u => let n := GenDeq.root_node u in
    wfroot n && forallb (fun a => wtb n a && finv a && kok a && forallb (fun m : mutn => kok (snd m)) (muts n a)) (variants n)) us &&
  forallb (fun u => let n := GenDeq.root_node u in
    forallb (fun a =>
      forallb (fun m : mutn => let '(t, _, b) := m in
         String.eqb t "f01" || String.eqb t "nilempty" || negb (seq_tol false default_tol n a b) || seq_strict false n a b)
        (muts n a)) (variants n)) us = true.
Proof. vm_compute. reflexivity. Qed.

Example C05_demo :
  let n := GenDeq.root_node ("T", TStruct [("A", TScalar (SInt KInt32)); ("M", TMap (TScalar SString) (TPtr Shapes.leaf)); ("P", TPtr (TScalar SF64))]) in
  let lf := fun z f => VPtr (Some (VStruct [VInt z; VStr "s"; VBytes false [] 0; VFloat f])) in
  let a := VStruct [VInt 1; VMap false [(VStr "k", lf 5%Z (Floats.norm64 3 (-1))); (VStr "j", VPtr None)]; VPtr (Some (VFloat (Floats.norm64 1 0)))] in
  let b := VStruct [VInt 1; VMap false [(VStr "j", VPtr None); (VStr "k", lf 5%Z (Floats.norm64 3 (-1)))]; VPtr (Some (VFloat (Floats.norm64 1 0)))] in
  let c := VStruct [VInt 1; VMap false [(VStr "j", VPtr None); (VStr "k", lf 6%Z (Floats.norm64 3 (-1)))]; VPtr (Some (VFloat (Floats.norm64 1 0)))] in
  let d := VStruct [VInt 1; VMap false [(VStr "j", VPtr None); (VStr "k", lf 5%Z (Floats.norm64 3 (-1)))]; VPtr None] in
  wfroot n = true /\ wtb n a = true /\
  deep_equal n false (APtr (Some a)) (APtr (Some b)) = inl true /\
  deep_equal n false (APtr (Some a)) (APtr (Some c)) = inl false /\
  deep_equal n false (APtr (Some d)) (APtr (Some a)) = inl false /\
  deep_equal n false (APtr None) (APtr None) = inl true /\
  deep_equal n false ANil ANil = inl false.
Proof. vm_compute. repeat split; reflexivity. Qed.

(* Non-vacuity of the form theorems: the nine combinations of the stream's matrix are value forms, and on a named
   map root a changed element is seen, and an independent copy accepted, in every one of them. *)
Example C05_forms_demo :
  let n := GenDeq.root_node ("T", TMap (TScalar SString) (TScalar (SInt KInt32))) in
  let a := VMap false [(VStr "a", VInt 1)] in
  let b := VMap false [(VStr "a", VInt 2)] in
  List.length form_pairs = 9%nat /\
  forallb (fun p : string * string => existsb (String.eqb (fst p)) value_forms && existsb (String.eqb (snd p)) value_forms) form_pairs = true /\
  forallb (fun p : string * string =>
    match deep_equal n false (arg_of_form (fst p) a) (arg_of_form (snd p) b),
          deep_equal n false (arg_of_form (fst p) a) (arg_of_form (snd p) a) with
    | inl false, inl true => true
    | _, _ => false
    end) form_pairs = true.
Proof. vm_compute. repeat split; reflexivity. Qed.

(* ---- tie to the source, re-checked on every run: the default tolerance of the specification is the library's
   FloatPrecision constant (Gen/SourceFacts.v, regenerated from /repo by harness/cmd/srcfacts before the build). *)
From Verif Require SourceFacts SnippetTable.

Theorem C05_default_tolerance_is_the_source : parse_float SourceFacts.src_float_precision = Some default_tol.
Proof. exact SnippetTable.default_tol_is_source. Qed.
Print Assumptions C05_default_tolerance_is_the_source.
