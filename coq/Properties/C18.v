(* Properties/C18.v - statements only.
   C18: the map[string]any inspector follows key paths through nested maps.

   [any] (Model/StrAnyMap.v): nil, bool, ten integer kinds, string, []byte with
   spare capacity, a map held as map / *map / **map with its entries, the six
   nil holders; floats, *string and *[]byte are outside the modelled domain.
   [abs] turns a value into the abstract [tree] of Spec/StrAnyMapSpec.v (a nil
   holder is a map without entries); [tnav], [tset], [tlen], [tcap], [tcmp],
   [tpairs], [strip], [treset], [copy_of] are the specification.
   The first argument [true] of every model function selects the code after the
   "fix:" commits of KNOWN_FINDINGS; [false] is the pinned commit.
   All statements are for ALL trees (no depth bound), all paths, all histories. *)
From Coq Require Import ZArith NArith List String Ascii Bool.
From Verif Require Import Util Ints StrAnyMap StrAnyMapSpec StrAnyMapAbs
  StrAnyMapNav StrAnyMapSet StrAnyMapCopy StrAnyMapRefuted
  StrAnyMapStore StrAnyMapHeap StrAnyMapHeapFrame.
Import ListNotations.
Local Open Scope string_scope.

(* ================= path following ================= *)

(* Get returns the node the path denotes. *)
Theorem C18_get_follows_path : forall p x,
  match tnav (abs x) p with
  | NFound t => exists y, get true p x = Ok (Some y) /\ abs y = t
  | NAbsent => get true p x = Ok None
  | NNonMap => get true p x = Err EUnsupported
  end.
Proof. exact get_follows. Qed.
Print Assumptions C18_get_follows_path.

(* Length reports the length of the addressed node. *)
Theorem C18_length_follows_path : forall p x,
  length true p x =
  match tnav (abs x) p with
  | NFound t => Ok (tlen t)
  | NAbsent => Ok None
  | NNonMap => Err EUnsupported
  end.
Proof. exact length_follows. Qed.
Print Assumptions C18_length_follows_path.

(* Capacity reports the capacity of the addressed node (byte slices only). *)
Theorem C18_capacity_follows_path : forall p x,
  capacity true p x =
  match tnav (abs x) p with
  | NFound t => Ok (tcap t)
  | NAbsent => Ok None
  | NNonMap => Err EUnsupported
  end.
Proof. exact capacity_follows. Qed.
Print Assumptions C18_capacity_follows_path.

(* Compare applies the native comparison to the addressed leaf. *)
Theorem C18_compare_follows_path : forall p x c right, p <> [] ->
  compare true p x c right =
  match tnav (abs x) p with
  | NFound t => Ok (tcmp t (cop_num c) right)
  | NAbsent => Ok None
  | NNonMap => Err EUnsupported
  end.
Proof. exact compare_follows. Qed.
Print Assumptions C18_compare_follows_path.

(* Loop hands the iterator the entries of the addressed map, stopping after a
   Break; a leaf cannot be iterated. *)
Theorem C18_loop_follows_path : forall p x ctl,
  match tnav (abs x) p with
  | NFound (TMap _ es) => exists vis, loop true p x ctl = Ok vis /\ abs_es vis = tvisit es ctl
  | NFound (TLeaf _) => loop true p x ctl = Err EUnsupported
  | NAbsent => loop true p x ctl = Ok []
  | NNonMap => loop true p x ctl = Err EUnsupported
  end.
Proof. exact loop_follows. Qed.
Print Assumptions C18_loop_follows_path.

(* ... every entry exactly once when the iterator never breaks. *)
Theorem C18_loop_visits_all : forall es ctl, (forall c, In c ctl -> c <> CtlBrk) -> tvisit es ctl = es.
Proof. exact tvisit_all. Qed.
Print Assumptions C18_loop_visits_all.

(* Absent keys yield no value and no error - in all five reading operations. *)
Theorem C18_absent_no_error : forall p x c right ctl,
  tnav (abs x) p = NAbsent ->
  get true p x = Ok None /\ length true p x = Ok None /\ capacity true p x = Ok None /\
  compare true p x c right = Ok None /\ loop true p x ctl = Ok [].
Proof. exact absent_no_error. Qed.
Print Assumptions C18_absent_no_error.

(* Stepping through a non-map yields the unsupported-type error. *)
Theorem C18_non_map_unsupported : forall p x c right ctl,
  tnav (abs x) p = NNonMap ->
  get true p x = Err EUnsupported /\ length true p x = Err EUnsupported /\
  capacity true p x = Err EUnsupported /\ compare true p x c right = Err EUnsupported /\
  loop true p x ctl = Err EUnsupported.
Proof. exact non_map_unsupported. Qed.
Print Assumptions C18_non_map_unsupported.

(* ================= Set ================= *)

(* Set is the specification's [tset]: it creates or replaces the addressed
   leaf, creates the intermediate maps, and answers a step through a non-map
   with the unsupported-type error - leaving the tree exactly as it was.
   [settable]: every nil holder in the tree is a non-nil *map / **map -> *map
   ending in a nil map - Set makes the map and stores it through the pointer;
   trees without nil holders ([nonil], C18_nonil_settable) are the special case. *)
Theorem C18_set_exact : forall p x v, settable x = true -> p <> [] ->
  match tset (abs x) p (stored (abs v)) with
  | SetOk t' => exists x', set true p x v = (x', Ok tt) /\ abs x' = t'
  | SetNonMap => set true p x v = (x, Err EUnsupported)
  end.
Proof. exact set_exact. Qed.
Print Assumptions C18_set_exact.

Theorem C18_nonil_settable : forall x, nonil x = true -> settable x = true.
Proof. exact nonil_settable. Qed.
Print Assumptions C18_nonil_settable.

Theorem C18_set_error_leaves_tree : forall p x v e, settable x = true ->
  snd (set true p x v) = Err e -> e = EUnsupported /\ fst (set true p x v) = x.
Proof. exact set_error_unchanged. Qed.
Print Assumptions C18_set_error_leaves_tree.

(* What [tset] means: afterwards the path leads to the value ... *)
Theorem C18_set_hits : forall p t v t', tset t p v = SetOk t' -> tnav t' p = NFound v.
Proof. exact tset_hits. Qed.
Print Assumptions C18_set_hits.

(* ... and every path off it (neither a prefix of the other) leads where it led. *)
Theorem C18_set_frame : forall p t v t' q, tset t p v = SetOk t' -> off_path p q = true -> tnav t' q = tnav t q.
Proof. exact tset_frame. Qed.
Print Assumptions C18_set_frame.

Theorem C18_set_frame_model : forall p x v q, settable x = true -> off_path p q = true ->
  tnav (abs (fst (set true p x v))) q = tnav (abs x) q.
Proof. exact set_frame_model. Qed.
Print Assumptions C18_set_frame_model.

(* Strings and bytes are copied into the buffer: reading the path back yields
   [bufferized v] itself - for a string / byte slice the buffer's memory
   ([OBuf]), never the caller's, bytes cut to their length. *)
Theorem C18_set_copies_into_buffer : forall p x v, settable x = true -> p <> [] ->
  snd (set true p x v) = Ok tt ->
  get true p (fst (set true p x v)) = Ok (Some (bufferized v)).
Proof. exact set_then_get. Qed.
Print Assumptions C18_set_copies_into_buffer.

(* ================= Copy, CopyTo, Reset ================= *)

(* Copy yields a tree equal to the source ... *)
Theorem C18_copy_equal : forall x, is_map x = true ->
  snd (copy true x) = Ok tt /\ copy_of (abs x) (abs (fst (copy true x))).
Proof. exact copy_equal. Qed.
Print Assumptions C18_copy_equal.

(* ... none of whose maps, strings and byte slices is the caller's memory -
   whatever the origins in the source, since no method looks at them. *)
Theorem C18_copy_fresh : forall x, fresh (fst (copy true x)) = true.
Proof. exact copy_fresh. Qed.
Print Assumptions C18_copy_fresh.

Theorem C18_copy_ignores_origins : forall x, copy true (to_caller x) = copy true x.
Proof. exact copy_ignores_origins. Qed.
Print Assumptions C18_copy_ignores_origins.

(* CopyTo into a caller's map held by pointer: old entries gone, equal to the
   source, every entry fresh. *)
Theorem C18_copyto_equal_fresh : forall o f es od df des, df <> FVal ->
  copy_to true (AMap o f es) (AMap od df des) = (AMap od df (cpy es), Ok tt) /\
  copy_of (abs (AMap o f es)) (abs (AMap od df (cpy es))) /\
  fresh_es (cpy es) = true.
Proof. exact copy_to_equal. Qed.
Print Assumptions C18_copyto_equal_fresh.

(* CopyTo from EVERY source that is a map - a nil map, by value or behind a nil
   or nil-pointing pointer, is an empty one - into every destination there is a
   pointer to ([fillable]: a map held by pointer, or a non-nil pointer to a nil
   map, which gets a map made for it): no error, equal to the source, fresh.
   A destination POINTER that is nil (nil *map, nil **map, **map -> nil *map)
   leaves nothing to store through: CopyTo does nothing and returns nil, as every
   method of this inspector does on a nil pointer; such destinations are outside
   the statement. *)
Theorem C18_copyto_any_source : forall src dst, is_map src = true -> fillable dst = true ->
  snd (copy_to true src dst) = Ok tt /\
  copy_of (abs src) (abs (fst (copy_to true src dst))) /\
  fresh_es (src_entries (fst (copy_to true src dst))) = true.
Proof. exact copy_to_any. Qed.
Print Assumptions C18_copyto_any_source.

(* Reset empties the map ... *)
Theorem C18_reset_empties : forall x, is_map x = true ->
  snd (reset true x) = Ok tt /\ root_entries (abs (fst (reset true x))) = [] /\
  exists h, abs (fst (reset true x)) = TMap h [].
Proof. exact reset_empties. Qed.
Print Assumptions C18_reset_empties.

(* ... in place: the holder that was passed, in each of the three forms. *)
Theorem C18_reset_in_place : forall o f es, fst (reset true (AMap o f es)) = AMap o f [].
Proof. exact reset_in_place. Qed.
Print Assumptions C18_reset_in_place.

(* ================= histories ================= *)

(* Any sequence of Set / Get / Length / Capacity / Compare / Loop / Copy /
   Reset on one tree: the real state is, abstractly, the specification's state
   (so every read in the history reports what the theorems above say about the
   abstract tree), and the tree stays in the domain of C18_set_exact. *)
Theorem C18_history : forall ops x, settable x = true -> forallb op_ok ops = true ->
  abs (fold_left (step true) ops x) = fold_left tstep ops (abs x) /\
  settable (fold_left (step true) ops x) = true.
Proof. exact history_abs. Qed.
Print Assumptions C18_history.

(* Keys stay pairwise distinct (the association list stays a map). *)
Theorem C18_history_keys_distinct : forall ops x, wf x = true -> forallb op_wf ops = true ->
  wf (fold_left (step true) ops x) = true.
Proof. exact history_wf. Qed.
Print Assumptions C18_history_keys_distinct.

(* No operation of the fixed code panics, nil holders included. *)
Theorem C18_reads_never_panic : forall p x c right ctl pk,
  get true p x <> Panic pk /\ length true p x <> Panic pk /\ capacity true p x <> Panic pk /\
  compare true p x c right <> Panic pk /\ loop true p x ctl <> Panic pk.
Proof. exact reads_never_panic. Qed.
Print Assumptions C18_reads_never_panic.

Theorem C18_set_never_panics : forall p x v pk, snd (set true p x v) <> Panic pk.
Proof. exact set_never_panics. Qed.
Print Assumptions C18_set_never_panics.

Theorem C18_copy_never_panics : forall x pk, snd (copy true x) <> Panic pk.
Proof. exact copy_never_panics. Qed.
Print Assumptions C18_copy_never_panics.

(* ================= nested maps shared between trees and holders ================= *)
(* Go maps are references: Get hands out the very map a tree holds and Set
   stores a map as it is, so one map object can be part of several trees and be
   held by the caller.  Model/StrAnyMapHeap.v is the model of the same methods
   over a store of map objects ([obj st m] = the entries of object m, a node is
   a leaf or [SMap form m]); [view fuel st y] is the tree holder y sees,
   [reaches fuel st y a] says that y's references lead to object a (or out of
   the store).  Spec/StrAnyMapStore.v is the property's text on such stores.
   All statements are for ALL stores (cyclic ones included), paths and holders. *)

(* Reset empties the map in place: exactly the object its argument holds ... *)
Theorem C18_share_reset_exact : forall st x, h_reset st x = (s_reset st x, Ok tt).
Proof. exact h_reset_is_spec. Qed.
Print Assumptions C18_share_reset_exact.

Theorem C18_share_reset_empties_addressed : forall st h a, a < List.length st ->
  obj (fst (h_reset st (SMap h a))) a = [].
Proof. exact heap_reset_empties. Qed.
Print Assumptions C18_share_reset_empties_addressed.

(* ... and no other object - in particular not the nested maps of the emptied one *)
Theorem C18_share_reset_frame : forall st h a m, m <> a ->
  obj (fst (h_reset st (SMap h a))) m = obj st m.
Proof. exact reset_frame. Qed.
Print Assumptions C18_share_reset_frame.

(* so whoever does not hold the addressed object (directly or nested) sees what it saw *)
Theorem C18_share_reset_holders : forall fuel st h a y,
  reaches fuel st y a = false ->
  view fuel (fst (h_reset st (SMap h a))) y = view fuel st y.
Proof. exact reset_holder_frame. Qed.
Print Assumptions C18_share_reset_holders.

(* Set writes one object: the one the path addresses ([s_target]); every other
   object that existed is untouched (objects made for intermediate maps are new) *)
Theorem C18_share_set_frame : forall p st x v m, m < List.length st -> s_target st x p <> Some m ->
  obj (fst (h_set st p x v)) m = obj st m.
Proof. exact set_frame. Qed.
Print Assumptions C18_share_set_frame.

Theorem C18_share_set_holders : forall fuel st p x v a y,
  s_target st x p = Some a -> reaches fuel st y a = false ->
  view fuel (fst (h_set st p x v)) y = view fuel st y.
Proof. exact set_holder_frame. Qed.
Print Assumptions C18_share_set_holders.

(* Set is the specification's [s_set] (the addressed entry created or replaced,
   a chain of new maps where keys are absent, a map value stored as the object
   it is) whenever the path does not run through the same map object twice *)
Theorem C18_share_set_exact : forall p st x v, p <> [] ->
  NoDup (path_objs st p x) -> Forall (fun m => m < List.length st) (path_objs st p x) ->
  match s_set st x p (sstored v) with
  | SSetOk st' => h_set st p x v = (st', Ok tt)
  | SSetNonMap => h_set st p x v = (st, Err EUnsupported)
  end.
Proof. exact set_is_spec. Qed.
Print Assumptions C18_share_set_exact.

(* CopyTo writes the destination's object only ... *)
Theorem C18_share_copyto_frame : forall st src dst m, m < List.length st ->
  (forall h, dst <> SMap h m) ->
  obj (fst (h_copy_to st src dst)) m = obj st m.
Proof. exact copy_to_frame. Qed.
Print Assumptions C18_share_copyto_frame.

Theorem C18_share_copyto_holders : forall fuel st src hd md y,
  reaches fuel st y md = false ->
  view fuel (fst (h_copy_to st src (SMap hd md))) y = view fuel st y.
Proof. exact copy_to_holder_frame. Qed.
Print Assumptions C18_share_copyto_holders.

(* ... and fills it with fresh nested maps: nothing that existed is reachable through its entries *)
Theorem C18_share_copyto_fresh : forall st hs ms hd md fuel a,
  hd <> HVal -> md < List.length st -> a < List.length st ->
  forall kv, In kv (obj (fst (h_copy_to st (SMap hs ms) (SMap hd md))) md) ->
  reaches fuel (fst (h_copy_to st (SMap hs ms) (SMap hd md))) (snd kv) a = false.
Proof. exact copy_to_fresh. Qed.
Print Assumptions C18_share_copyto_fresh.

(* Copy changes no object and returns a map that reaches nothing that existed *)
Theorem C18_share_copy_frame : forall st x m, m < List.length st ->
  obj (fst (fst (h_copy st x))) m = obj st m.
Proof. exact copy_frame. Qed.
Print Assumptions C18_share_copy_frame.

Theorem C18_share_copy_holders : forall fuel st x y,
  reaches fuel st y (List.length st) = false ->
  view fuel (fst (fst (h_copy st x))) y = view fuel st y.
Proof. exact copy_holder_frame. Qed.
Print Assumptions C18_share_copy_holders.

Theorem C18_share_copy_fresh : forall st x fuel a, a < List.length st ->
  reaches fuel (fst (fst (h_copy st x))) (snd (fst (h_copy st x))) a = false.
Proof. exact copy_fresh_heap. Qed.
Print Assumptions C18_share_copy_fresh.

(* non-vacuity: tree A = {a: *{b: 15}}, tree B = {x: 1}; the nested map of A is
   obtained with Get, stored into B, then A is reset: A is empty, B still reads
   the leaf through "moved", and the path hypothesis of C18_share_set_exact holds *)
Definition share_demo : store :=
  [ [("b", SLeaf (LInt KInt 15))]; [("a", SMap HPtr 0)]; [("x", SLeaf (LInt KInt 1))] ].

Example C18_share_demo :
  h_get share_demo ["a"] (SMap HVal 1) = Ok (Some (SMap HPtr 0)) /\
  NoDup (path_objs share_demo ["moved"] (SMap HVal 2)) /\
  (let st1 := fst (h_set share_demo ["moved"] (SMap HVal 2) (SMap HPtr 0)) in
   let st2 := fst (h_reset st1 (SMap HVal 1)) in
   reaches 4 st1 (SMap HVal 2) 1 = false /\
   view 4 st2 (SMap HVal 1) = TMap HVal [] /\
   view 4 st2 (SMap HVal 2) =
     TMap HVal [("x", TLeaf (LInt KInt 1)); ("moved", TMap HPtr [("b", TLeaf (LInt KInt 15))])] /\
   h_length st2 ["moved"] (SMap HVal 2) = Ok (Some 1%Z)).
Proof.
  split; [reflexivity|]. split; [repeat constructor; simpl; tauto|].
  vm_compute. repeat split; reflexivity.
Qed.

(* ================= non-vacuity ================= *)
(* the shape of /repo's own test value: map -> map -> map, map -> *map -> **map *)
Definition demo : any :=
  AMap OCaller FVal
    [("foo", AMap OCaller FVal [("noptr", AMap OCaller FVal [("str", AStr OCaller "my string"); ("int", AInt KInt 15)])]);
     ("bar", AMap OCaller FPtr [("dptr", AMap OCaller FPtr2 [("nested", ABytes OCaller "some bytes" 6)])]);
     ("str", AStr OCaller "some string")].

Example C18_demo_hypotheses : nonil demo = true /\ settable demo = true /\ wf demo = true /\ is_map demo = true.
Proof. vm_compute. auto. Qed.

(* nil maps behind pointers: var m map[string]any; Set(&m, ...); CopyTo(src, &m, buf); CopyTo(nil map, &dst, buf) *)
Example C18_demo_nil_map_behind_pointer :
  settable (ANilMap NPtrMap) = true /\ fillable (ANilMap NPtr2PtrMap) = true /\
  set true ["a"; "b"] (ANilMap NPtrMap) (AStr OCaller "s") =
    (AMap OMake FPtr [("a", AMap OMake FVal [("b", AStr OBuf "s")])], Ok tt) /\
  copy_to true demo (ANilMap NPtr2PtrMap) = (AMap OMake FPtr2 (cpy (src_entries demo)), Ok tt) /\
  copy_to true (ANilMap NPtr) (AMap OOther FPtr [("old", AInt KInt 9)]) = (AMap OOther FPtr [], Ok tt) /\
  (* a nil destination pointer: nothing to store through, no error *)
  copy_to true demo (ANilMap NPtr) = (ANilMap NPtr, Ok tt).
Proof. vm_compute. repeat split; reflexivity. Qed.

Example C18_demo_reads :
  get true ["bar"; "dptr"; "nested"] demo = Ok (Some (ABytes OCaller "some bytes" 6)) /\
  capacity true ["bar"; "dptr"; "nested"] demo = Ok (Some 16%Z) /\
  length true ["foo"; "noptr"] demo = Ok (Some 2%Z) /\
  compare true ["foo"; "noptr"; "int"] demo OpLt "100" = Ok (Some true) /\
  tnav (abs demo) ["foo"; "nope"; "x"] = NAbsent /\
  tnav (abs demo) ["str"; "x"] = NNonMap.
Proof. vm_compute. repeat split; reflexivity. Qed.

Example C18_demo_set_creates_intermediate_maps :
  tset (abs demo) ["new"; "deeper"; "leaf"] (stored (abs (ABytes OCaller "v" 3))) =
    SetOk (abs (fst (set true ["new"; "deeper"; "leaf"] demo (ABytes OCaller "v" 3)))) /\
  get true ["new"; "deeper"] (fst (set true ["new"; "deeper"; "leaf"] demo (ABytes OCaller "v" 3)))
    = Ok (Some (AMap OMake FVal [("leaf", ABytes OBuf "v" 0)])) /\
  off_path ["new"; "deeper"; "leaf"] ["bar"; "dptr"] = true.
Proof. vm_compute. repeat split; reflexivity. Qed.

Example C18_demo_history :
  forallb op_ok [OSet ["foo"; "noptr"; "int"] (AInt KInt 20); OCopy; OSet ["str"; "x"] ANil; OReset; OSet ["a"; "b"] (AStr OCaller "s")] = true /\
  abs (fold_left (step true)
         [OSet ["foo"; "noptr"; "int"] (AInt KInt 20); OCopy; OSet ["str"; "x"] ANil; OReset; OSet ["a"; "b"] (AStr OCaller "s")] demo)
  = TMap HVal [("a", TMap HVal [("b", TLeaf (LStr "s"))])].
Proof. vm_compute. split; reflexivity. Qed.

(* ================= refuted: the pinned commit (repaired by the fix commits) ================= *)

(* A nil pointer to a map anywhere on the way made every method panic. *)
Theorem C18_refuted_nil_pointer_panics :
  exists x p v,
    get false p x = Panic PNilDeref /\ snd (set false p x v) = Panic PNilDeref /\
    snd (copy false x) = Panic PNilDeref.
Proof.
  exists w_nilptr, ["a"; "b"], (AInt KInt 1).
  destruct pinned_nil_pointer_panics as [H1 [_ [H3 [H4 _]]]]. auto.
Qed.
Print Assumptions C18_refuted_nil_pointer_panics.

(* Capacity with a path ended in Length. *)
Theorem C18_refuted_capacity_is_length :
  exists x p t, tnav (abs x) p = NFound t /\ capacity false p x <> Ok (tcap t).
Proof.
  exists w_cap, ["a"; "n"], (TLeaf (LBytes "ab" 6)).
  split; [vm_compute; reflexivity|vm_compute; discriminate].
Qed.
Print Assumptions C18_refuted_capacity_is_length.

(* Reset of a map passed by value did nothing and said nothing. *)
Theorem C18_refuted_reset_by_value :
  exists x, is_map x = true /\ snd (reset false x) = Ok tt /\ abs (fst (reset false x)) <> treset (abs x).
Proof.
  exists w_flat. destruct pinned_reset_by_value as [H1 H2]. rewrite H1. auto.
Qed.
Print Assumptions C18_refuted_reset_by_value.

(* Set through a pointer to a nil map stored nothing and reported no error. *)
Theorem C18_refuted_set_nil_map_pointer :
  exists x p v t', p <> [] /\ settable x = true /\ tset (abs x) p (stored (abs v)) = SetOk t' /\
                   set false p x v = (x, Ok tt) /\ abs x <> t'.
Proof.
  exists w_nilmap, ["a"; "b"], (AInt KInt 1). eexists.
  destruct pinned_set_through_nil_map_pointer_is_silent_noop as [H1 [H2 [H3 _]]].
  split; [discriminate|]. split; [reflexivity|]. split; [exact H2|]. split; [exact H1|exact H3].
Qed.
Print Assumptions C18_refuted_set_nil_map_pointer.

(* CopyTo into a pointer to a nil map copied nothing and reported no error. *)
Theorem C18_refuted_copyto_nil_dst :
  exists src dst, is_map src = true /\ fillable dst = true /\ snd (copy_to false src dst) = Ok tt /\
                  ~ copy_of (abs src) (abs (fst (copy_to false src dst))).
Proof.
  exists w_flat, (ANilMap NPtrMap). destruct pinned_copyto_nil_dst_copies_nothing as [H1 [H2 _]].
  rewrite H1. auto.
Qed.
Print Assumptions C18_refuted_copyto_nil_dst.

(* CopyTo from a nil map left the destination's old entries in place. *)
Theorem C18_refuted_copyto_nil_src :
  exists src dst, is_map src = true /\ fillable dst = true /\ snd (copy_to false src dst) = Ok tt /\
                  ~ copy_of (abs src) (abs (fst (copy_to false src dst))).
Proof.
  exists (ANilMap NMap), w_dst. destruct pinned_copyto_nil_src_keeps_old_entries as [H1 [H2 _]].
  rewrite H1. auto.
Qed.
Print Assumptions C18_refuted_copyto_nil_src.

(* ================= refuted: the current code on nil holders (open finding) ================= *)

(* [settable] in C18_set_exact is necessary: a Set whose path reaches a nil map
   held by value, or a nil pointer, has no pointer to store a map through; it
   stores nothing and reports no error. *)
Theorem C18_refuted_set_nil_holder :
  exists x p v t', p <> [] /\ tset (abs x) p (stored (abs v)) = SetOk t' /\
                   set true p x v = (x, Ok tt) /\ abs x <> t'.
Proof.
  exists w_nilval, ["a"; "b"], (AInt KInt 1). eexists.
  destruct set_through_nil_holder_is_silent_noop as [H1 [H2 [H3 _]]].
  split; [discriminate|]. split; [exact H2|]. split; [exact H1|exact H3].
Qed.
Print Assumptions C18_refuted_set_nil_holder.
