(* Properties/C15.v - statements only.
   C15: generated reads use no reflection, no allocation, and alias the live element.
   Partial: the aliasing clause is a theorem about the Get model (proved with C01);
   the imports of every generated file are compared with the finite set below on
   every run (no "reflect"); allocation counts are decided by the Go compiler's
   escape analysis, which no model here describes: they are measured. *)
From Coq Require Import List Bool String Ascii ZArith Arith.
From Verif Require Import Util Ints Node Value Outcome Nav LCSound Get GetSpec GetLive GetLoc.
Import ListNotations.
Local Open Scope string_scope.

(* The reference GetTo returns for a path made only of struct fields, non-nil pointers and
   struct-slice indices denotes the live element itself (not a copy), at the access path of
   the element native navigation reaches - for every well-formed node, value and such path. *)
Theorem C15_alias_is_live : forall n v path l,
  wfn n = true -> n_ptr n = false -> wtb n v = true -> live_loc n v path = Some l ->
  exists r y, get false n (APtr (Some v)) path = Ret (Some r) None /\ final r = Some (y, l, false).
Proof. exact get_live. Qed.
Print Assumptions C15_alias_is_live.

Theorem C15_alias_is_the_element : forall n v path l,
  wfn n = true -> wtb n v = true -> live_loc n v path = Some l ->
  exists en ev x, nav n v path = NElem en ev /\ fin ev = Some x /\ val_at v l = Some x.
Proof. intros n v path l W. exact (live_loc_sound n W v path l). Qed.
Print Assumptions C15_alias_is_the_element.

(* Every import an emitter can register (compiler.go: writeType, regImport call sites and the
   snippet registry of inspector.go); "<pkg>" stands for the declaring package and "<pkg>_ins"
   for the inspector package of a nested struct's package.  The check compares the import list of
   every generated file with this set. *)
Definition emitter_imports : list string :=
  ["github.com/koykov/inspector"; "<pkg>"; "<pkg>_ins"; "encoding/json"; "strconv"; "bytes";
   "github.com/koykov/byteconv"; "github.com/koykov/x2bytes"].

Theorem C15_no_reflect_import : ~ In "reflect" emitter_imports.
Proof. intros H. simpl in H. repeat (destruct H as [H|H]; [discriminate|]). exact H. Qed.
Print Assumptions C15_no_reflect_import.
