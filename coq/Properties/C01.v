(* Properties/C01.v - statements only.
   C01: generated Get/GetTo return exactly the element the path denotes
   (and the aliasing clause of C15: the reference is the live element on paths of struct
   fields, non-nil pointers and struct-slice indices).
   [get] / [get_to] are the model of the emitted Get / GetTo methods (Model/Get.v;
   [false] = the emitter after the fix: commit, [true] = the pinned emitter), [nav] the native
   navigation of Spec/Nav.v, [get_demand] the demand of the property text (Spec/GetSpec.v),
   [wfn] the well-formedness both parsers establish (Proofs/LCSound.v). *)
From Coq Require Import List Bool String Ascii ZArith Arith.
From Verif Require Import Util Ints Node GoSrc Value Outcome Nav LCSpec LCSound Get GetSpec GetSound GetLive GetLoc GetClauses
  Shapes GenUnits GenC01.
Import ListNotations.

(* For EVERY well-formed node (no bound on nesting), every well-typed value and every path,
   Get through a pointer answers one of the answers the property admits: the element the path
   denotes (what the reference finally denotes = what the element finally denotes); nothing when
   the path denotes no element (for an absent map key also what native navigation reaches from the
   zero value of the element type); the parse error for a segment that cannot be parsed. *)
Theorem C01_get_meets_demand : forall n v path,
  wfn n = true -> n_ptr n = false -> wtb n v = true ->
  meets (get false n (APtr (Some v)) path) (get_demand n v path).
Proof. exact get_sound. Qed.
Print Assumptions C01_get_meets_demand.

(* The demand is silent only where the property is: on paths that continue past a scalar,
   string or bytes element. *)
Theorem C01_silent_only_past_leaf : forall n v path,
  wfn n = true -> n_ptr n = false -> wtb n v = true ->
  get_demand n v path = None -> past_leaf n path = true.
Proof. intros n v path W _ WT. exact (silent_only_past_leaf n v path W WT). Qed.
Print Assumptions C01_silent_only_past_leaf.

(* Clause 1: the path resolves - a reference to (or copy of) exactly that element, nil error. *)
Theorem C01_resolves : forall n v path en ev x,
  wfn n = true -> n_ptr n = false -> wtb n v = true ->
  nav n v path = NElem en ev -> fin ev = Some x -> past_leaf n path = false ->
  exists r lv, get false n (APtr (Some v)) path = Ret (Some r) None /\ obs_of_buf (Some r) = BVal x lv.
Proof. intros n v path en ev x W P WT. exact (get_resolves n v path W P WT en ev x). Qed.
Print Assumptions C01_resolves.

(* ... an element that is itself a nil pointer: a reference to that nil pointer, or nothing. *)
Theorem C01_nil_element : forall n v path en ev,
  wfn n = true -> n_ptr n = false -> wtb n v = true ->
  nav n v path = NElem en ev -> fin ev = None -> past_leaf n path = false ->
  exists b, get false n (APtr (Some v)) path = Ret b None /\ (obs_of_buf b = BNil \/ b = None).
Proof. intros n v path en ev W P WT. exact (get_nil_element n v path W P WT en ev). Qed.
Print Assumptions C01_nil_element.

(* Clause 2: unknown field, index outside [0,len), nil pointer on the way - no value, with a nil
   error; in particular never another part of the object such as the enclosing container. *)
Theorem C01_no_element : forall n v path w,
  wfn n = true -> n_ptr n = false -> wtb n v = true ->
  nav n v path = NNone w -> w <> WAbsentKey -> w <> WPointerKey ->
  past_leaf n path = false -> type_bad n path = false ->
  get false n (APtr (Some v)) path = Ret None None.
Proof. intros n v path w W P WT. exact (get_no_element n v path W P WT w). Qed.
Print Assumptions C01_no_element.

(* ... absent map key (a pointer-typed key cannot be named by a text): no value, or one of the
   zero-value answers. *)
Theorem C01_absent_key : forall n v path w,
  wfn n = true -> n_ptr n = false -> wtb n v = true ->
  nav n v path = NNone w -> (w = WAbsentKey \/ w = WPointerKey) ->
  past_leaf n path = false -> type_bad n path = false ->
  exists b e, get false n (APtr (Some v)) path = Ret b e /\
              ((b = None /\ e = None) \/ exists z, In z (absent_zero n v path) /\ want_ok z e (obs_of_buf b)).
Proof. intros n v path w W P WT. exact (get_absent_key n v path W P WT w). Qed.
Print Assumptions C01_absent_key.

(* Clause 3: a key or index segment that cannot be parsed for its type yields the parse error. *)
Theorem C01_bad_segment : forall n v path,
  wfn n = true -> n_ptr n = false -> wtb n v = true ->
  nav n v path = NBad -> past_leaf n path = false ->
  exists b, get false n (APtr (Some v)) path = Ret b (Some EParse).
Proof. intros n v path W P WT. exact (get_bad_segment n v path W P WT). Qed.
Print Assumptions C01_bad_segment.

(* GetTo never panics and its only error is the parse error - for every path, also the
   unspecified ones, whatever *buf held. *)
Theorem C01_only_parse_error_no_panic : forall n v path buf,
  wfn n = true -> n_ptr n = false -> wtb n v = true ->
  gsafe (get_to false n (APtr (Some v)) path buf).
Proof. exact get_to_safe. Qed.
Print Assumptions C01_only_parse_error_no_panic.

(* GetTo with a pre-filled buffer stores exactly what Get returns, and leaves *buf untouched where
   Get returns nothing (every node, every argument form). *)
Theorem C01_getto_is_get : forall n a path b,
  get_to false n a path b = subst b (get false n a path).
Proof. exact get_to_buf. Qed.
Print Assumptions C01_getto_is_get.

(* C15, aliasing clause: on a path made only of struct fields, non-nil pointers and struct-slice
   indices the stored reference finally denotes an object that is not a copy and sits at access
   path l of the argument - and l is the place of the element native navigation reaches. *)
Theorem C15_live_alias : forall n v path l,
  wfn n = true -> n_ptr n = false -> wtb n v = true -> live_loc n v path = Some l ->
  exists r y, get false n (APtr (Some v)) path = Ret (Some r) None /\ final r = Some (y, l, false).
Proof. exact get_live. Qed.
Print Assumptions C15_live_alias.

Theorem C15_live_place_is_the_element : forall n v path l,
  wfn n = true -> wtb n v = true -> live_loc n v path = Some l ->
  exists en ev x, nav n v path = NElem en ev /\ fin ev = Some x /\ val_at v l = Some x.
Proof. intros n v path l W. exact (live_loc_sound n W v path l). Qed.
Print Assumptions C15_live_place_is_the_element.

(* The pinned emitter (legacy = true: `*buf = &x.F` emitted after the nested block) violated the
   property: a path ending on a slice element returned the enclosing slice. Repaired by the fix:
   commit recorded in findings/C01.txt; the same witness on the repaired emitter is in C01_demo. *)
Local Open Scope string_scope.
Definition w_node : node := root_node ("T", TStruct [("F", TSlice Shapes.leaf)]).
Definition w_val : val := VStruct [VSlice false [VStruct [VInt 1; VStr "abc"; VBytes false [] 4; VFloat (Floats.norm64 0 0)]] 0].
Theorem C01_pinned_emitter_refuted_container :
  wfn w_node = true /\ wtb w_node w_val = true /\
  ~ meets (get true w_node (APtr (Some w_val)) ["F"; "0"]) (get_demand w_node w_val ["F"; "0"]) /\
  exists r, get true w_node (APtr (Some w_val)) ["F"; "0"] = Ret (Some r) None /\
            obs_of_buf (Some r) = BVal (VSlice false [VStruct [VInt 1; VStr "abc"; VBytes false [] 4; VFloat (Floats.norm64 0 0)]] 0) true.
Proof.
  split; [vm_compute; reflexivity|]. split; [vm_compute; reflexivity|]. split.
  - vm_compute. intros (w & [<-|[]] & OK). inversion OK.
  - eexists. split; vm_compute; reflexivity.
Qed.
Print Assumptions C01_pinned_emitter_refuted_container.

(* Non-vacuity: the root node of every supported unit of the representative set is well-formed
   (these are the nodes the correspondence stream runs the generated code of). *)
Example C01_units_wellformed :
  forallb (fun u => wfn (root_node u) && negb (n_ptr (root_node u))) (supported_units 0) = true.
Proof. vm_compute. reflexivity. Qed.

Example C01_demo :
  let n := root_node ("T", TStruct [("F", TSlice Shapes.leaf); ("M", TMap (TScalar SString) (TPtr Shapes.leaf)); ("P", TPtr Shapes.leaf)]) in
  let lf := VStruct [VInt 1; VStr "abc"; VBytes false [] 4; VFloat (Floats.norm64 0 0)] in
  let v := VStruct [VSlice false [lf] 0; VMap false [(VStr "k", VPtr (Some lf))]; VPtr None] in
  wtb n v = true /\
  (* a slice element: the live element, not the slice *)
  option_map (fun r => (final r)) (match get false n (APtr (Some v)) ["F"; "0"] with Ret b None => b | _ => None end)
    = Some (Some (lf, [SField 0; SIdx 0], false)) /\
  live_loc n v ["F"; "0"; "S"] = Some [SField 0; SIdx 0; SField 1] /\
  (* a map entry is a local copy, the struct its pointer leads to is live *)
  option_map (fun r => (final r)) (match get false n (APtr (Some v)) ["M"; "k"; "A"] with Ret b None => b | _ => None end)
    = Some (Some (VInt 1, [SField 1; SKey (VStr "k"); SDeref; SField 0], false)) /\
  get false n (APtr (Some v)) ["M"; "zz"] = Ret None None /\
  get false n (APtr (Some v)) ["F"; "7"] = Ret None None /\
  get false n (APtr (Some v)) ["F"; "0"; "Zz"] = Ret None None /\
  get false n (APtr (Some v)) ["P"; "A"] = Ret None None /\
  get false n (APtr (Some v)) ["F"; "x!"] = Ret None (Some EParse).
Proof. vm_compute. repeat split; reflexivity. Qed.

(* ---- tie to the source, re-checked on every run: the conversions of path segments are the library's own snippets.
   Gen/SourceFacts.v is regenerated from /repo by harness/cmd/srcfacts before the build (lib/srcfacts.py). *)
From Verif Require Snippets SourceFacts SnippetTable.

Theorem C01_snippet_table_is_the_source : Snippets.table_matches SourceFacts.snippet_facts = true.
Proof. exact SnippetTable.table_is_source. Qed.
Print Assumptions C01_snippet_table_is_the_source.

Theorem C01_key_conversion_is_the_table : forall kn k seg,
  node_skind kn = Some k -> k <> SByte ->
  conv_key kn seg = Snippets.run_conv (Snippets.conv_of_skind k) k seg.
Proof. exact SnippetTable.conv_key_table. Qed.
Print Assumptions C01_key_conversion_is_the_table.

Theorem C01_index_conversion_is_the_table : forall seg,
  option_map VInt (conv_index seg) = Snippets.run_conv (Snippets.conv_of_skind (SInt KInt)) (SInt KInt) seg.
Proof. exact SnippetTable.conv_index_table. Qed.
Print Assumptions C01_index_conversion_is_the_table.
