(* Properties/C04.v - placeholder while the proofs are developed *)
From Coq Require Import List Bool String ZArith.
From Verif Require Import Node Value Outcome Cmp CmpSpec Shapes GenUnits GenC04.
Example C04_placeholder : True. Proof. exact I. Qed.
