(* Properties/C04.v - statements only.
   C04: Compare equals the native comparison of the addressed element.
   [compare] is the model of the emitted Compare method (Model/Cmp.v: writeNode in cmp mode +
   writeCmp + the header, the emitter after the four fix: commits of findings/C04.txt),
   [nav] the native navigation of Spec/Nav.v, [cmp_demand] the demand of the property text
   (Spec/CmpSpec.v), [wfn] the well-formedness both parsers establish, [csound] the sub-domain
   "[]byte nodes occur as struct fields only" (everything the generator compiles is inside). *)
From Coq Require Import List Bool String Ascii ZArith Arith Floats.SpecFloat.
From Verif Require Import Util Ints Strconv Floats Node GoSrc Value Outcome Nav Cmp CmpSpec LCSound CmpLeaf CmpSound Shapes GenUnits GenC04.
Import ListNotations.

(* For EVERY well-formed node (no bound on nesting), every well-typed value, every path, every
   operator and every operand text, Compare through a pointer meets the demand: the native
   comparison with the parsed operand on an existing scalar / string / bytes element, the
   nil-ness for "nil" on a pointer-typed element, an error for an unparsable operand, result
   untouched (or the zero value compared, below an absent key) when the path denotes nothing. *)
Theorem C04_compare : forall n v op right path res0,
  wfn n = true -> csound n = true -> is_leaf n = false -> n_ptr n = false -> wtb n v = true ->
  meets (compare n (APtr (Some v)) op right path res0) res0 (cmp_demand n v path op right).
Proof. exact compare_sound. Qed.
Print Assumptions C04_compare.

(* ... it never panics, and the only error is the parse error (no sub-domain needed). *)
Theorem C04_only_parse_error_no_panic : forall n v op right path res0,
  wfn n = true -> n_ptr n = false -> wtb n v = true ->
  safe (compare n (APtr (Some v)) op right path res0).
Proof. exact compare_safe. Qed.
Print Assumptions C04_only_parse_error_no_panic.

(* The demand spelled out for the clauses of the property.  [x] is the scalar the element
   denotes: the element itself, or what a non-nil pointer element points to. *)
Definition denotes (en : node) (ev x : val) (right : string) : Prop :=
  (n_ptr en = false /\ ev = x) \/ (n_ptr en = true /\ ev = VPtr (Some x) /\ String.eqb right "nil" = false).

Lemma demand_elem n v path op right en ev :
  nav n v path = NElem en ev -> cmp_demand n v path op right = elem_demand en ev op right.
Proof.
  intros NV. unfold cmp_demand. rewrite (nav_elem_past _ _ _ _ _ NV), NV. reflexivity.
Qed.

Lemma demand_leaf en ev x op right k :
  denotes en ev x right -> spec_kind en = Some k -> elem_demand en ev op right = leaf_demand k x op right.
Proof.
  unfold elem_demand. intros [(P & ->)|(P & -> & NN)] SK; rewrite P, SK; [reflexivity|rewrite NN; reflexivity].
Qed.

(* native comparison: the operand parses for the element's kind and fits its range *)
Theorem C04_native : forall n v op right path res0 en ev x k r b,
  wfn n = true -> csound n = true -> is_leaf n = false -> n_ptr n = false -> wtb n v = true ->
  nav n v path = NElem en ev -> denotes en ev x right -> spec_kind en = Some k ->
  parse_operand k right = OpVal r -> native op x r = Some b ->
  compare n (APtr (Some v)) op right path res0 = Ret b None.
Proof.
  intros n v op right path res0 en ev x k r b W CS L P WT NV DN SK PO NA.
  pose proof (compare_sound n v op right path res0 W CS L P WT) as M.
  rewrite (demand_elem _ _ _ _ _ _ _ NV), (demand_leaf _ _ _ _ _ _ DN SK) in M.
  unfold leaf_demand in M. rewrite PO, NA in M. exact M.
Qed.
Print Assumptions C04_native.

(* "nil" with == / != on a pointer-typed element reports its nil-ness *)
Theorem C04_nil_operand : forall n v path res0 en ev,
  wfn n = true -> csound n = true -> is_leaf n = false -> n_ptr n = false -> wtb n v = true ->
  nav n v path = NElem en ev -> n_ptr en = true ->
  compare n (APtr (Some v)) OEq "nil" path res0 = Ret (is_nil_ptr ev) None /\
  compare n (APtr (Some v)) ONq "nil" path res0 = Ret (negb (is_nil_ptr ev)) None.
Proof.
  intros n v path res0 en ev W CS L P WT NV PE. split.
  - pose proof (compare_sound n v OEq "nil" path res0 W CS L P WT) as M.
    rewrite (demand_elem _ _ _ _ _ _ _ NV) in M. unfold elem_demand in M. rewrite PE in M. exact M.
  - pose proof (compare_sound n v ONq "nil" path res0 W CS L P WT) as M.
    rewrite (demand_elem _ _ _ _ _ _ _ NV) in M. unfold elem_demand in M. rewrite PE in M. exact M.
Qed.
Print Assumptions C04_nil_operand.

(* an unparsable operand returns the error *)
Theorem C04_unparsable : forall n v op right path res0 en ev x k,
  wfn n = true -> csound n = true -> is_leaf n = false -> n_ptr n = false -> wtb n v = true ->
  nav n v path = NElem en ev -> denotes en ev x right -> spec_kind en = Some k ->
  parse_operand k right = OpBad ->
  exists r, compare n (APtr (Some v)) op right path res0 = Ret r (Some EParse).
Proof.
  intros n v op right path res0 en ev x k W CS L P WT NV DN SK PO.
  pose proof (compare_sound n v op right path res0 W CS L P WT) as M.
  rewrite (demand_elem _ _ _ _ _ _ _ NV), (demand_leaf _ _ _ _ _ _ DN SK) in M.
  unfold leaf_demand in M. rewrite PO in M. exact M.
Qed.
Print Assumptions C04_unparsable.

(* a path that denotes nothing leaves the result untouched and returns no error ... *)
Theorem C04_no_element : forall n v op right path res0 w,
  wfn n = true -> csound n = true -> is_leaf n = false -> n_ptr n = false -> wtb n v = true ->
  nav n v path = NNone w -> w <> WAbsentKey -> w <> WPointerKey -> past_leaf n path = false ->
  compare n (APtr (Some v)) op right path res0 = Ret res0 None.
Proof.
  intros n v op right path res0 w W CS L P WT NV N1 N2 PL.
  pose proof (compare_sound n v op right path res0 W CS L P WT) as M.
  unfold cmp_demand in M. rewrite PL, NV in M. destruct w; try congruence; exact M.
Qed.
Print Assumptions C04_no_element.

(* ... or, for an absent map key only, compares the zero value of the element type *)
Theorem C04_absent_key : forall n v op right path res0,
  wfn n = true -> csound n = true -> is_leaf n = false -> n_ptr n = false -> wtb n v = true ->
  nav n v path = NNone WAbsentKey -> past_leaf n path = false ->
  compare n (APtr (Some v)) op right path res0 = Ret res0 None \/
  meets (compare n (APtr (Some v)) op right path res0) res0 (dem_of (navz n v path) op right).
Proof.
  intros n v op right path res0 W CS L P WT NV PL.
  pose proof (compare_sound n v op right path res0 W CS L P WT) as M.
  unfold cmp_demand in M. rewrite PL, NV in M. exact M.
Qed.
Print Assumptions C04_absent_key.

(* the zero-value navigation differs from the native one only below an absent (or unnameable) key *)
Theorem C04_zero_navigation_tight : forall n v path,
  nav n v path = NNone WAbsentKey \/ nav n v path = NNone WPointerKey \/ navz n v path = nav n v path.
Proof. intros n v path. destruct (navz_nav n v path) as [[A|A]|E]; auto. Qed.
Print Assumptions C04_zero_navigation_tight.

(* Outside the sub-domain the faithful model violates the property: a []byte stored in a map
   is never compared on the path that ends at it (its comparison sits under
   `if len(path) > depth`).  Such declarations are outside the supported fragment - the
   generator's output for them does not compile - so there is no run-time witness. *)
Local Open Scope string_scope.
Theorem C04_refuted_bytes_element : exists n v op right path res0,
  wfn n = true /\ is_leaf n = false /\ n_ptr n = false /\ wtb n v = true /\ csound n = false /\
  ~ meets (compare n (APtr (Some v)) op right path res0) res0 (cmp_demand n v path op right).
Proof.
  exists (root_node ("T", TMap (TScalar SString) Shapes.t_bytes)),
         (VMap false [(VStr "k", VBytes false (bytes_of_string "xy") 0)]), OEq, "xy", ["k"], false.
  vm_compute. repeat split; try reflexivity. intros H. discriminate H.
Qed.
Print Assumptions C04_refuted_bytes_element.

(* Non-vacuity: the root node of every supported unit of the representative set satisfies the
   premises (these are the nodes the correspondence stream runs the generated code of). *)
Example C04_units_in_domain :
  forallb (fun u => wfn (root_node u) && csound (root_node u) && negb (is_leaf (root_node u)) && negb (n_ptr (root_node u)))
          (supported_units 0) = true.
Proof. vm_compute. reflexivity. Qed.

Example C04_demo :
  let n := root_node ("T", TStruct [("F", TMap (TScalar (SInt KInt32)) (TPtr Shapes.leaf)); ("P", TPtr (TScalar (SInt KInt8)))]) in
  let leafv := VStruct [VInt 7; VStr "abc"; VBytes false (bytes_of_string "xy") 4; VFloat (Floats.norm64 3 (-1))] in
  let v := VStruct [VMap false [(VInt 1, VPtr (Some leafv)); (VInt 2, VPtr None)]; VPtr (Some (VInt 44))] in
  wtb n v = true /\
  compare n (APtr (Some v)) OGt "6" ["F"; "1"; "A"] false = Ret true None /\
  compare n (APtr (Some v)) OLtq "0x7" ["F"; "1"; "A"] false = Ret true None /\
  compare n (APtr (Some v)) OLt "abd" ["F"; "1"; "S"] false = Ret true None /\
  compare n (APtr (Some v)) ONq "xy" ["F"; "1"; "B"] true = Ret false None /\
  compare n (APtr (Some v)) OGtq "1.5" ["F"; "1"; "F"] false = Ret true None /\
  compare n (APtr (Some v)) OEq "nil" ["F"; "2"] false = Ret true None /\
  compare n (APtr (Some v)) OEq "nil" ["F"; "1"] true = Ret false None /\
  compare n (APtr (Some v)) OEq "7" ["F"; "2"; "A"] true = Ret true None /\
  compare n (APtr (Some v)) OEq "0" ["F"; "9"; "A"] false = Ret false None /\
  compare n (APtr (Some v)) OEq "44" ["P"] false = Ret true None /\
  compare n (APtr (Some v)) OEq "x!" ["P"] false = Ret false (Some EParse) /\
  compare n (APtr (Some v)) OEq "7" ["Zz"] true = Ret true None.
Proof. vm_compute. repeat split; reflexivity. Qed.

(* The range premise is needed: the conversion snippet wraps (int8(t)), so "300" equals 44. *)
Example C04_wrap_demo :
  let n := root_node ("T", TStruct [("F", TScalar (SInt KInt8))]) in
  compare n (APtr (Some (VStruct [VInt 44]))) OEq "300" ["F"] false = Ret true None /\
  parse_operand (LScalar (SInt KInt8)) "300" = OpRange.
Proof. vm_compute. split; reflexivity. Qed.

(* ---- tie to the source, re-checked on every run: the conversion of the operand is the library's own snippet for the
   leaf's kind, and "nil" is the library's Nil constant.  Gen/SourceFacts.v is regenerated from /repo by
   harness/cmd/srcfacts before the build (lib/srcfacts.py). *)
From Verif Require Snippets SourceFacts SnippetTable.

Theorem C04_snippet_table_is_the_source : Snippets.table_matches SourceFacts.snippet_facts = true.
Proof. exact SnippetTable.table_is_source. Qed.
Print Assumptions C04_snippet_table_is_the_source.

Theorem C04_operand_conversion_is_the_table : forall k right,
  conv_operand (LScalar k) right = Snippets.run_conv (Snippets.conv_of_skind k) k right.
Proof. exact SnippetTable.conv_operand_table. Qed.
Print Assumptions C04_operand_conversion_is_the_table.

Theorem C04_nil_word_is_the_source : SourceFacts.src_nil_word = "nil"%string.
Proof. exact SnippetTable.nil_word_is_source. Qed.
Print Assumptions C04_nil_word_is_the_source.
