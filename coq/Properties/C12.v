(* Properties/C12.v - same answer for T, *T and **T arguments; read operations never write.

   "Every read operation (Get, GetTo, Compare, Loop, Length, Capacity, DeepEqual, Copy's
    source) gives the same answer whether the value is passed by value, by pointer or by
    pointer-to-pointer, and never modifies the value it reads.  Operations that must write
    through their argument (Reset, CopyTo's destination) reject a by-value argument with the
    must-be-pointer error, and an argument of an unrelated type is refused (unsupported-type
    error, false, or no effect) without side effects."

   The statements are about the models of the generated methods (Model/LC, Get, Cmp, Loop,
   Deq, InsCopy, InsReset, SetEmit) under the one signature of Model/Api.v:
        exec n call arg = (answer, the argument afterwards).
   They hold for EVERY node n, every value, path, operand, iterator script, map order and
   option set - no well-formedness or typing premise is needed.  The models are those of the
   emitter after the fix: commits 1a38871, 9e61cd0, 7e52753, e113795 (nil pointer arguments);
   the correspondence stream c12 ties them to the generated code in all argument forms.

   Statements only; proofs in Proofs/FormsGet.v, Proofs/FormsMain.v, Proofs/GetBuf.v and Proofs/FormsSeq.v. *)
From Coq Require Import List Bool String Ascii ZArith Arith.
From Verif Require Import Util Ints Node GoSrc Value Outcome LC Get Cmp Loop Deq InsReset InsCopy SetEmit
  FormsSpec Api ApiSeq FormsGet FormsMain GetBuf FormsSeq Shapes GenUnits.
Import ListNotations.

(* ================= the same answer in the three forms ================= *)

(* every read operation at once: by value against by pointer, by pointer-to-pointer against by
   pointer.  [same_answer] is equality for every answer but a reference (Get/GetTo), where it
   is FormsSpec.same_ref_answer: same error, and the buffer untouched in both forms or holding
   references that finally denote the same value at the same access path; the by-value
   reference is a copy exactly where the by-pointer one is or the place lies inside the root
   object, which by value is a copy of the caller's. *)
Theorem C12_forms : forall n c v, is_read c = true ->
  same_answer (fst (exec n c (AVal v))) (fst (exec n c (APtr (Some v)))) /\
  fst (exec n c (APtrPtr (Some (Some v)))) = fst (exec n c (APtr (Some v))).
Proof. exact forms_all. Qed.
Print Assumptions C12_forms.

Theorem C12_forms_get : forall n v path,
  same_ref_answer (get false n (AVal v) path) (get false n (APtr (Some v)) path) /\
  get false n (APtrPtr (Some (Some v))) path = get false n (APtr (Some v)) path.
Proof. intros n v path. exact (forms_get_to n v path None). Qed.
Print Assumptions C12_forms_get.

Theorem C12_forms_getto : forall n v path buf,
  same_ref_answer (get_to false n (AVal v) path buf) (get_to false n (APtr (Some v)) path buf) /\
  get_to false n (APtrPtr (Some (Some v))) path buf = get_to false n (APtr (Some v)) path buf.
Proof. exact forms_get_to. Qed.
Print Assumptions C12_forms_getto.

(* what the caller sees of two such buffers: the same value (or nothing / nil in both), and a
   reference that is live by value is live by pointer *)
Theorem C12_forms_get_observed : forall bv bp, same_buf bv bp ->
  obs_value (obs_of_buf bv) = obs_value (obs_of_buf bp) /\
  (obs_live (obs_of_buf bv) = true -> obs_live (obs_of_buf bp) = true).
Proof. exact same_buf_obs. Qed.
Print Assumptions C12_forms_get_observed.

Theorem C12_forms_compare : forall n v op rgt path res0,
  compare n (AVal v) op rgt path res0 = compare n (APtr (Some v)) op rgt path res0 /\
  compare n (APtrPtr (Some (Some v))) op rgt path res0 = compare n (APtr (Some v)) op rgt path res0.
Proof. intros. apply forms_compare. Qed.
Print Assumptions C12_forms_compare.

Theorem C12_forms_loop : forall sc ord n v path,
  loop_method sc ord n (AVal v) path = loop_method sc ord n (APtr (Some v)) path /\
  loop_method sc ord n (APtrPtr (Some (Some v))) path = loop_method sc ord n (APtr (Some v)) path.
Proof. intros. apply forms_loop. Qed.
Print Assumptions C12_forms_loop.

Theorem C12_forms_length_capacity : forall fn n v path res0,
  length_capacity fn n (AVal v) path res0 = length_capacity fn n (APtr (Some v)) path res0 /\
  length_capacity fn n (APtrPtr (Some (Some v))) path res0 = length_capacity fn n (APtr (Some v)) path res0.
Proof. intros. apply forms_length_capacity. Qed.
Print Assumptions C12_forms_length_capacity.

(* DeepEqual: each operand in any of the three forms - nine combinations, one answer *)
Theorem C12_forms_deepequal : forall n sh o la ra a b,
  value_form la a -> value_form ra b ->
  deep_equal_with_options n sh la ra o = deep_equal_with_options n sh (APtr (Some a)) (APtr (Some b)) o.
Proof. exact forms_deep_equal. Qed.
Print Assumptions C12_forms_deepequal.

Theorem C12_forms_copy : forall n v,
  copy_method n (AVal v) = copy_method n (APtr (Some v)) /\
  copy_method n (APtrPtr (Some (Some v))) = copy_method n (APtr (Some v)).
Proof. intros. apply forms_copy. Qed.
Print Assumptions C12_forms_copy.

Theorem C12_forms_copyto_source : forall n v dst,
  copyto_method n (AVal v) dst = copyto_method n (APtr (Some v)) dst /\
  copyto_method n (APtrPtr (Some (Some v))) dst = copyto_method n (APtr (Some v)) dst.
Proof. intros. apply forms_copyto_source. Qed.
Print Assumptions C12_forms_copyto_source.

(* not demanded, recorded: the writers treat *T and **T alike - same answer, same tree stored *)
Theorem C12_writers_pointer_forms : forall n c v,
  fst (exec n c (APtrPtr (Some (Some v)))) = fst (exec n c (APtr (Some v))) /\
  (forall v', snd (exec n c (APtr (Some v))) = APtr (Some v') <->
              snd (exec n c (APtrPtr (Some (Some v)))) = APtrPtr (Some (Some v'))).
Proof. exact writers_pointer_forms. Qed.
Print Assumptions C12_writers_pointer_forms.

(* ================= read operations never write ================= *)

(* the argument afterwards is the argument: for every read call, every argument (all forms,
   nil and foreign included) *)
Theorem C12_reads_pure : forall n c a, is_read c = true -> snd (exec n c a) = a.
Proof. exact reads_pure. Qed.
Print Assumptions C12_reads_pure.

(* put the other way round: a call after which the argument differs is Reset, Set or CopyTo on
   its destination *)
Theorem C12_only_writers_change : forall n c a, snd (exec n c a) <> a ->
  (exists src, c = KCopyToDst src) \/ c = KReset \/ (exists path s buf, c = KSet path s buf).
Proof.
  intros n c a H. pose proof (only_writers_change n c a H) as R.
  destruct c; cbn in R; try discriminate R.
  - left. exists src. reflexivity.
  - right. left. reflexivity.
  - right. right. exists path, s, buf. reflexivity.
Qed.
Print Assumptions C12_only_writers_change.

(* an argument passed by value is a copy: no call changes it, the writers included *)
Theorem C12_by_value_unchanged : forall n c v, snd (exec n c (AVal v)) = AVal v.
Proof. exact by_value_unchanged. Qed.
Print Assumptions C12_by_value_unchanged.

(* ================= histories of read operations ================= *)

(* a caller makes many calls: on one object, on others, handing the same buffers from call to call
   (Model/ApiSeq.v: a history is a list of steps, each a call on one object of a store).  In a history
   of read calls - of any length, over any objects, in any order - every step leaves every object of
   the store as it was and answers what the same call answers alone on the untouched store *)
Theorem C12_read_history : forall h s, reads_only h = true ->
  run s h = map (fun st => (alone s st, s)) h.
Proof. exact read_history. Qed.
Print Assumptions C12_read_history.

(* hence the answers of a read history coincide whether its object is handed over by value, by
   pointer or by pointer-to-pointer, whatever the other objects of the store are *)
Theorem C12_read_history_forms : forall n v (rest : store) h, reads_only h = true ->
  Forall2 (fun x y => same_opt_answer (fst x) (fst y))
          (run ((n, AVal v) :: rest) h) (run ((n, APtr (Some v)) :: rest) h) /\
  map fst (run ((n, APtrPtr (Some (Some v))) :: rest) h) = map fst (run ((n, APtr (Some v)) :: rest) h).
Proof. exact history_forms. Qed.
Print Assumptions C12_read_history_forms.

(* ---------- histories that share ONE caller-owned result buffer ----------
   GetTo answers through a buffer of the caller (a pointer to an any), and callers hand the same buffer to call after call: the
   buffer then holds the answer of the call before - for a struct field a pointer INTO the object that call
   inspected.  [brun] (Model/ApiSeq.v) threads that buffer through the history next to the store: a step is a call
   with buffers of its own ([HCall], the histories above) or a GetTo that is handed the shared buffer ([HGetTo]). *)

(* the emitted GetTo only ever OVERWRITES *buf: whatever the buffer holds, the call answers what it answers with an
   empty buffer, "nothing stored" read as "the content is still there" (FormsSpec.rebuf) - for every node, argument
   and path.  In particular the content of the buffer is never read and nothing is stored through it *)
Theorem C12_read_history_getto_overwrites : forall n a path buf,
  get_to false n a path buf = rebuf buf (get_to false n a path None).
Proof. exact (get_to_buf false). Qed.
Print Assumptions C12_read_history_getto_overwrites.

(* a read history of any length over any store, whichever of its GetTo steps share the result buffer and whatever
   the buffer holds at the start, changes nothing but that buffer: every step leaves every object as it was and
   answers what the same call answers alone on the untouched store when handed the buffer as the steps before it
   left it ([btrace]) *)
Theorem C12_read_history_buffer : forall h s rb, breads_only h = true -> brun s rb h = btrace s rb h.
Proof. exact read_history_buf. Qed.
Print Assumptions C12_read_history_buffer.

(* ... and that answer is the answer of the call with an empty buffer of its own, the shared buffer left exactly as
   it was where that call stores nothing: no step depends on what the steps before it answered *)
Theorem C12_read_history_buffer_alone : forall s rb i path,
  balone s rb (i, HGetTo path) = option_map (rebuf_answer rb) (balone s None (i, HGetTo path)).
Proof. exact getto_shared_alone. Qed.
Print Assumptions C12_read_history_buffer_alone.

(* the histories above are the histories that never hand the shared buffer over *)
Theorem C12_read_history_buffer_own : forall h s rb,
  brun s rb (own_buffers h) = map (fun x => (fst x, snd x, rb)) (run s h).
Proof. exact brun_own_buffers. Qed.
Print Assumptions C12_read_history_buffer_own.

(* the three forms: object 0 by value against by pointer under buffers with the same content - the answers coincide
   step by step and so does what the buffer holds after every step; by pointer-to-pointer against by pointer the
   answers and the buffers are equal *)
Theorem C12_read_history_buffer_forms : forall n v (rest : store) h, breads_only h = true ->
  (forall bv bp, same_buf bv bp ->
     Forall2 (fun x y => same_opt_answer (fst (fst x)) (fst (fst y)) /\ same_buf (snd x) (snd y))
             (brun ((n, AVal v) :: rest) bv h) (brun ((n, APtr (Some v)) :: rest) bp h)) /\
  (forall rb,
     map (fun x => (fst (fst x), snd x)) (brun ((n, APtrPtr (Some (Some v))) :: rest) rb h) =
     map (fun x => (fst (fst x), snd x)) (brun ((n, APtr (Some v)) :: rest) rb h)).
Proof. intros n v rest h R. split; [apply history_forms_buf; exact R|apply history_ptrptr_buf; exact R]. Qed.
Print Assumptions C12_read_history_buffer_forms.

(* ================= the writers reject a by-value argument ================= *)

Theorem C12_by_value_rejected : forall n v,
  exec n KReset (AVal v) = (AnsVal (Ret (Some v) (Some by_value_error)), AVal v) /\
  (forall src w, value_form src w ->
     exec n (KCopyToDst src) (AVal v) = (AnsVal (Ret (Some v) (Some by_value_error)), AVal v)).
Proof. intros n v. split; [apply reset_by_value|intros src w; apply copyto_by_value]. Qed.
Print Assumptions C12_by_value_rejected.

(* CopyTo examines its source first: with a source that is itself refused (foreign type, nil)
   the by-value destination is rejected with that refusal's error; nothing changes either way *)
Theorem C12_by_value_rejected_any_source : forall n src v,
  exists o e, exec n (KCopyToDst src) (AVal v) = (AnsVal (Ret o (Some e)), AVal v) /\
              (e = by_value_error \/ e = EUnsupported).
Proof. exact copyto_by_value_any_source. Qed.
Print Assumptions C12_by_value_rejected_any_source.

(* ================= a foreign argument is refused, nothing changes ================= *)

(* per operation, one of the refusals FormsSpec.may_refuse allows (in fact: no effect for Get,
   GetTo, Compare, Loop; the unsupported-type error for Length, Capacity, Copy, CopyTo, Reset;
   false for DeepEqual, whichever operand is foreign and whatever the other one is), and the
   argument afterwards is the argument for EVERY call *)
Theorem C12_foreign_refused : forall n,
  (forall path, refused OGet None (get false n AForeign path)) /\
  (forall path buf, refused OGetTo buf (get_to false n AForeign path buf)) /\
  (forall op rgt path res0, refused OCompare res0 (compare n AForeign op rgt path res0)) /\
  (forall sc ord path, refused OLoop [] (loop_method sc ord n AForeign path)) /\
  (forall path res0, refused OLength res0 (length_capacity FLen n AForeign path res0)) /\
  (forall path res0, refused OCapacity res0 (length_capacity FCap n AForeign path res0)) /\
  (forall sh o other, refused_bool ODeepEqual (deep_equal_with_options n sh AForeign other o) /\
                      refused_bool ODeepEqual (deep_equal_with_options n sh other AForeign o)) /\
  refused OCopy None (copy_method n AForeign) /\
  (forall dst, refused OCopyToSrc None (copyto_method n AForeign dst)) /\
  (forall src w, value_form src w -> refused OCopyToDst None (copyto_method n src AForeign)) /\
  refused OReset None (reset_method n AForeign) /\
  (forall c, snd (exec n c AForeign) = AForeign).
Proof. exact foreign_refused. Qed.
Print Assumptions C12_foreign_refused.

(* ================= nil pointer arguments (the fixed headers) ================= *)

(* a typed-nil *T, a **T pointing at a nil *T and a nil **T are answered exactly like the nil
   interface by every method but DeepEqual (which counts them as nil operands), and nothing changes *)
Theorem C12_nil_pointer_like_nil : forall n c a, nil_pointer a -> not_deep_equal c = true ->
  exec n c a = (fst (exec n c ANil), a).
Proof. exact nil_pointer_like_nil. Qed.
Print Assumptions C12_nil_pointer_like_nil.

(* no header panics any more: nil pointers, the nil interface and foreign types in any argument
   position of any method, the other operand of DeepEqual / CopyTo arbitrary *)
Theorem C12_nil_and_foreign_safe : forall n c a, nil_pointer a \/ a = ANil \/ a = AForeign ->
  no_panic (fst (exec n c a)) /\ snd (exec n c a) = a.
Proof. exact nil_arguments_safe. Qed.
Print Assumptions C12_nil_and_foreign_safe.

(* ================= non-vacuity ================= *)
Local Open Scope string_scope.

Definition root_node (u : string * ty) : node := parse_ast_decl (pkg_of (fst u)) (imp_of (fst u)) (fst u) (snd u).
Definition demo_node : node :=
  root_node ("T", TStruct [("A", TScalar (SInt KInt32)); ("P", TPtr Shapes.leaf); ("M", TMap (TScalar SString) (TScalar (SInt KInt32)))]).
Definition demo_leaf : val := VStruct [VInt 5; VStr "ab"; VBytes false [] 0; VFloat (Floats.norm64 3 (-1))].
Definition demo_val : val := VStruct [VInt 7; VPtr (Some demo_leaf); VMap false [(VStr "k", VInt 9)]].

(* the wrapper does represent writes: Reset and CopyTo change an argument handed over by pointer,
   so C12_reads_pure is not true of every call *)
Example C12_writers_do_write :
  snd (exec demo_node KReset (APtr (Some demo_val))) <> APtr (Some demo_val) /\
  snd (exec demo_node (KCopyToDst (AVal demo_val)) (APtrPtr (Some (Some (zero_val demo_node)))))
    <> APtrPtr (Some (Some (zero_val demo_node))).
Proof. split; vm_compute; discriminate. Qed.

(* Get by value and by pointer: the same value; inside the root object the by-value reference is
   a copy (A), behind a pointer field it is live in both forms (P.A), a map entry is a copy in both *)
Example C12_demo_get :
  obs_of_buf (match get false demo_node (AVal demo_val) ["A"] with Ret b _ => b | _ => None end) = BVal (VInt 7) false /\
  obs_of_buf (match get false demo_node (APtr (Some demo_val)) ["A"] with Ret b _ => b | _ => None end) = BVal (VInt 7) true /\
  obs_of_buf (match get false demo_node (AVal demo_val) ["P"; "A"] with Ret b _ => b | _ => None end) = BVal (VInt 5) true /\
  obs_of_buf (match get false demo_node (APtrPtr (Some (Some demo_val))) ["P"; "A"] with Ret b _ => b | _ => None end) = BVal (VInt 5) true /\
  obs_of_buf (match get false demo_node (AVal demo_val) ["M"; "k"] with Ret b _ => b | _ => None end) = BVal (VInt 9) false /\
  obs_of_buf (match get false demo_node (APtr (Some demo_val)) ["M"; "k"] with Ret b _ => b | _ => None end) = BVal (VInt 9) false.
Proof. vm_compute. repeat split; reflexivity. Qed.

(* the other answers are not trivially equal because nothing happens: the calls below find things *)
Example C12_demo_answers :
  length_capacity FLen demo_node (AVal demo_val) ["M"] 77 = Ret 1%Z None /\
  compare demo_node (APtrPtr (Some (Some demo_val))) OEq "5" ["P"; "A"] false = Ret true None /\
  deep_equal demo_node false (AVal demo_val) (APtrPtr (Some (Some demo_val))) = inl true /\
  copy_method demo_node (AVal demo_val) = Ret (Some demo_val) None.
Proof. vm_compute. repeat split; reflexivity. Qed.

(* the fixed headers on the inputs that used to panic *)
Example C12_demo_nil_pointers :
  get false demo_node (APtr None) [] = Ret None None /\
  get false demo_node (APtrPtr (Some None)) ["A"] = Ret None None /\
  length_capacity FLen demo_node (APtrPtr None) ["M"] 77 = Ret 77%Z None /\
  compare demo_node (APtr None) OEq "7" ["A"] false = Ret false None /\
  deep_equal demo_node false (APtrPtr None) (APtr None) = inl true /\
  deep_equal demo_node false (APtrPtr None) (APtr (Some demo_val)) = inl false /\
  reset_method demo_node (APtr None) = Ret None (Some EUnsupported) /\
  copy_method demo_node (APtrPtr (Some None)) = Ret None (Some EUnsupported) /\
  copyto_method demo_node (APtr (Some demo_val)) (APtr None) = Ret None (Some EUnsupported).
Proof. vm_compute. repeat split; reflexivity. Qed.

(* a history that does something: Loop over the map of one object, Loop over a slice of another
   object, the first Loop again - the third step finds the entry the first one found *)
Definition demo_ints : node := root_node ("Ints", TSlice (TScalar (SInt KInt32))).
Definition demo_loop (path : list string) : call :=
  KLoop {| wants := fun _ => true; ctls := fun _ => CNone |} (fun l => l) path.
Example C12_demo_history :
  let s := [(demo_node, APtr (Some demo_val)); (demo_ints, APtr (Some (VSlice false [VInt 4; VInt 6] 0)))] in
  let entry := [ERequireKey true; ESetKey "k" "static"; ESetVal (VInt 9) "static"; EIterate CNone] in
  map fst (run s [(0, demo_loop ["M"]); (1, demo_loop []); (0, demo_loop ["M"])]%nat) =
  [ Some (AnsTrace (Ret entry None));
    Some (AnsTrace (Ret [ERequireKey true; ESetKey "0" "static"; ESetVal (VPtr (Some (VInt 4))) "static"; EIterate CNone;
                         ERequireKey true; ESetKey "1" "static"; ESetVal (VPtr (Some (VInt 6))) "static"; EIterate CNone] None));
    Some (AnsTrace (Ret entry None)) ] /\
  Forall (fun x => snd x = s) (run s [(0, demo_loop ["M"]); (1, demo_loop []); (0, demo_loop ["M"])]%nat).
Proof. vm_compute. split; [reflexivity|repeat constructor]. Qed.

(* a history that shares the result buffer and does something: GetTo of the field A (the buffer now holds a live
   reference INTO the object), GetTo of the map entry M.k of the same type with the same buffer (a reference to a
   local copy of the entry replaces it), GetTo of an absent entry (nothing stored: the buffer still holds the entry),
   GetTo of the element of another object; every object is as it was after every step *)
Example C12_demo_history_buffer :
  let s := [(demo_node, APtr (Some demo_val)); (demo_ints, APtr (Some (VSlice false [VInt 4; VInt 6] 0)))] in
  let h := [(0, HGetTo ["A"]); (0, HGetTo ["M"; "k"]); (0, HGetTo ["M"; "zz"]); (1, HGetTo ["1"])]%nat in
  map (fun x => obs_of_buf (snd x)) (brun s None h) =
    [BVal (VInt 7) true; BVal (VInt 9) false; BVal (VInt 9) false; BVal (VInt 6) false] /\
  Forall (fun x => snd (fst x) = s) (brun s None h).
Proof. vm_compute. split; [reflexivity|repeat constructor]. Qed.

(* the nodes the stream runs: every supported unit of the representative set has a root node *)
Example C12_units_nonempty : negb (Nat.eqb (List.length (emit_units 0)) 0) = true.
Proof. vm_compute. reflexivity. Qed.
