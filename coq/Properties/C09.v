(* Properties/C09.v - statements only.
   C09: Loop visits every element exactly once and honours Break and Continue.
   [loop_method] is the model of the emitted Loop method (Model/Loop.v, the emitter after the
   fix: commits of findings/C09.txt), [nav]/[denoted] the native navigation (Spec/Nav.v,
   Spec/LoopSpec.v), [spec_rounds] the callbacks the property text demands, [wfn] the
   well-formedness both parsers establish, [ord] the order in which `range` visits a map. *)
From Coq Require Import List Bool String Ascii ZArith Arith Sorting.Permutation.
From Verif Require Import Util Ints Node GoSrc Value Outcome Nav Loop LoopSpec LCSound LoopSound Shapes GenUnits.
Import ListNotations.

(* The demand of the property text, for EVERY well-formed node (no bound on nesting), every
   well-typed value, every path, every iterator script and every visiting order of maps. *)
Theorem C09_loop : forall sc ord n v path,
  (forall l, Permutation (ord l) l) ->
  wfn n = true -> n_ptr n = false -> wtb n v = true -> keys_ok (denoted n v path) ->
  LoopSpec.meets sc (loop_method sc ord n (APtr (Some v)) path) (loop_demand n v path).
Proof. exact loop_method_sound. Qed.
Print Assumptions C09_loop.
