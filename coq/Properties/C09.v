(* Properties/C09.v - statements only.
   C09: Loop visits every element exactly once and honours Break and Continue.
   [loop_method] is the model of the emitted Loop method (Model/Loop.v: the emitter after the
   three fix: commits of findings/C09.txt), [nav]/[denoted]/[loop_demand] the native navigation and
   the demand of the property text (Spec/Nav.v, Spec/LoopSpec.v), [spec_rounds] the callbacks
   demanded for a collection, [abstract] the reading of a concrete trace (key texts parsed back,
   handed values followed through pointers), [wfn] the well-formedness both parsers establish,
   [ord] the order in which `range` visits a map (an oracle: any permutation), [keys_ok] "every
   key of the denoted map is rendered to a text that parses back to it" - proved below for all
   string and integer keys, pointwise for float keys on the exact-decimal domain of render_float.
   Argument form: *T (the other forms are C12's). *)
From Coq Require Import List Bool String Ascii ZArith Arith Sorting.Permutation Floats.SpecFloat.
From Verif Require Import Util Ints Strconv Floats Node GoSrc Value Outcome Nav Loop LoopSpec LCSound LoopSound LoopKeys Api ApiSeq LoopHist Shapes EnumVal GenUnits GenC09.
Import ListNotations.

(* The demand of the property text, for EVERY well-formed node (no bound on nesting), every
   well-typed value, every path, every iterator script and every visiting order of maps. *)
Theorem C09_loop : forall sc ord n v path,
  (forall l, Permutation (ord l) l) ->
  wfn n = true -> n_ptr n = false -> wtb n v = true -> keys_ok (denoted n v path) ->
  LoopSpec.meets sc (loop_method sc ord n (APtr (Some v)) path) (loop_demand n v path).
Proof. exact loop_method_sound. Qed.
Print Assumptions C09_loop.

(* Slices: one round per element in index order, keys "0".."n-1" exactly, the element's value,
   the element type's inspector; stops right after Break; Continue proceeds. *)
Theorem C09_slice_trace : forall sc ord n v path el es,
  (forall l, Permutation (ord l) l) ->
  wfn n = true -> n_ptr n = false -> wtb n v = true ->
  denoted n v path = LSlice el es ->
  exists tr, loop_method sc ord n (APtr (Some v)) path = Ret tr None /\
             abstract slice_kabs tr = spec_rounds sc (spec_ins el) 0 (index_items 0 es).
Proof.
  intros sc ord n v path el es ORD W P WT D.
  pose proof (loop_method_exact sc ord n v path ORD W P WT) as E. rewrite D in E. apply E. exact I.
Qed.
Print Assumptions C09_slice_trace.

(* Maps: for EVERY visiting order, one round per entry in that order; the key text parses back
   to the entry's key, the value is the entry's value. *)
Theorem C09_map_trace : forall sc ord n v path kn vn kvs,
  (forall l, Permutation (ord l) l) ->
  wfn n = true -> n_ptr n = false -> wtb n v = true ->
  denoted n v path = LMap kn vn kvs ->
  Forall (fun kv => key_rt kn (fst kv)) kvs ->
  exists tr, loop_method sc ord n (APtr (Some v)) path = Ret tr None /\
             abstract (map_kabs kn) tr = spec_rounds sc (spec_ins vn) 0 (entry_items (ord kvs)).
Proof.
  intros sc ord n v path kn vn kvs ORD W P WT D K.
  pose proof (loop_method_exact sc ord n v path ORD W P WT) as E. rewrite D in E. apply E. exact K.
Qed.
Print Assumptions C09_map_trace.

(* Stronger than the text: a path that does not denote a collection produces no callbacks at all
   (in particular a path none of whose prefixes denotes one), and the only error is a parse error. *)
Theorem C09_no_collection_no_calls : forall sc ord n v path,
  (forall l, Permutation (ord l) l) ->
  wfn n = true -> n_ptr n = false -> wtb n v = true ->
  is_coll (denoted n v path) = false ->
  loop_method sc ord n (APtr (Some v)) path = Ret [] None \/
  loop_method sc ord n (APtr (Some v)) path = Ret [] (Some EParse).
Proof.
  intros sc ord n v path ORD W P WT D.
  pose proof (loop_method_exact sc ord n v path ORD W P WT) as E.
  destruct (denoted n v path); try discriminate; apply E; exact I.
Qed.
Print Assumptions C09_no_collection_no_calls.

(* No panic, no error but the parse error. *)
Theorem C09_no_panic : forall sc ord n v path,
  (forall l, Permutation (ord l) l) ->
  wfn n = true -> n_ptr n = false -> wtb n v = true -> keys_ok (denoted n v path) ->
  exists tr e, loop_method sc ord n (APtr (Some v)) path = Ret tr e /\ (e = None \/ e = Some EParse).
Proof. exact loop_method_safe. Qed.
Print Assumptions C09_no_panic.

(* ---------- the clauses of the text, on the demanded trace ---------- *)
(* exactly once per element: without a Break the handed values are the elements, in order *)
Theorem C09_every_element_once : forall sc ins items i,
  (forall j, j < List.length items -> ctls sc (i + j) <> CBrk) ->
  svals (spec_rounds sc ins i items) = map (fun kv => strip_ptrs 3 (snd kv)) items.
Proof. exact spec_rounds_all. Qed.
Print Assumptions C09_every_element_once.

(* ... and with keys wanted, the keys are the elements' keys, in order *)
Theorem C09_every_key_once : forall sc ins, (forall i, wants sc i = true) -> forall items i,
  (forall j, j < List.length items -> ctls sc (i + j) <> CBrk) ->
  skeys (spec_rounds sc ins i items) = map (fun kv => Some (fst kv)) items.
Proof. exact spec_rounds_keys. Qed.
Print Assumptions C09_every_key_once.

(* iteration stops right after the callback that returns Break *)
Theorem C09_break_stops : forall sc ins items i j,
  j < List.length items -> ctls sc (i + j) = CBrk ->
  spec_rounds sc ins i items = spec_rounds sc ins i (firstn (S j) items).
Proof. exact spec_rounds_break. Qed.
Print Assumptions C09_break_stops.

Theorem C09_break_count : forall sc ins items i j,
  j < List.length items -> ctls sc (i + j) = CBrk -> (forall k, k < j -> ctls sc (i + k) <> CBrk) ->
  siters (spec_rounds sc ins i items) = S j.
Proof. exact spec_rounds_iters_break. Qed.
Print Assumptions C09_break_count.

(* Continue behaves like proceeding *)
Theorem C09_continue_is_proceed : forall sc ins items i,
  map erase_cnt (spec_rounds sc ins i items) = spec_rounds (uncontinue sc) ins i items.
Proof. exact spec_rounds_continue. Qed.
Print Assumptions C09_continue_is_proceed.

(* keys are produced only when the iterator asks for them *)
Theorem C09_key_on_demand : forall sc ord n v path,
  (forall l, Permutation (ord l) l) ->
  wfn n = true -> n_ptr n = false -> wtb n v = true -> keys_ok (denoted n v path) ->
  (forall i, wants sc i = false) ->
  exists tr e, loop_method sc ord n (APtr (Some v)) path = Ret tr e /\ has_setkey tr = false.
Proof.
  intros sc ord n v path ORD W P WT KO NW.
  pose proof (loop_method_exact sc ord n v path ORD W P WT KO) as E.
  destruct (denoted n v path); simpl in E.
  - destruct E as (tr & -> & A). exists tr, None. split; auto.
    apply (abstract_nokeys slice_kabs). rewrite A. apply spec_rounds_nokeys. exact NW.
  - destruct E as (tr & -> & A). exists tr, None. split; auto.
    apply (abstract_nokeys (map_kabs kn)). rewrite A. apply spec_rounds_nokeys. exact NW.
  - destruct E as [->| ->]; eauto.
  - destruct E as [->| ->]; eauto.
Qed.
Print Assumptions C09_key_on_demand.

(* ---------- histories: many Loop calls, one caller-owned key buffer ---------- *)
(* A caller makes many Loop calls - over several collections of an object, over other objects - and hands
   the same key buffer to all of them.  [run] (Model/ApiSeq.v) threads a store of objects through the calls
   of a history.  For EVERY call of EVERY history of Loop calls (no bound on its length, any mix of objects,
   paths and iterator scripts): the store is as it was before the first call, the answer is the trace the call
   produces on the untouched object, and that trace meets the demand of the property.  The key buffer is not
   part of the state of the model (the emitted renderings copy the key text into the empty prefix of the
   buffer); that the real code keeps no tie between the buffer and an object is what the history cases of
   the stream observe (op lhist: one real buffer, every reported key looked up natively). *)
Theorem C09_history : forall ord s h,
  (forall l, Permutation (ord l) l) ->
  Forall (loop_step_ok ord s) h ->
  Forall2 (loop_step_meets ord s) h (run s h).
Proof. exact loop_history. Qed.
Print Assumptions C09_history.

(* ... every call answers what it answers as the only call *)
Theorem C09_history_alone : forall ord s h,
  Forall (loop_step_ok ord s) h -> map fst (run s h) = map (alone s) h.
Proof. exact loop_history_alone. Qed.
Print Assumptions C09_history_alone.

(* ---------- key texts parse back to the key ---------- *)
Theorem C09_key_roundtrip_string : forall kn k,
  n_typ kn = typeBasic -> n_typn kn = "string"%string -> n_typu kn = "string"%string ->
  wtb kn k = true -> k <> VPtr None -> key_rt kn k.
Proof. exact key_rt_string. Qed.
Print Assumptions C09_key_roundtrip_string.

(* all ten integer kinds, every in-range key (strconv.AppendInt/AppendUint base 10 read back
   with ParseInt/ParseUint base 0), by induction on the digits *)
Theorem C09_key_roundtrip_int : forall kn i k,
  n_typ kn = typeBasic -> n_typn kn = ikind_name i -> n_typu kn = ikind_name i ->
  wtb kn k = true -> k <> VPtr None -> key_rt kn k.
Proof. exact key_rt_int. Qed.
Print Assumptions C09_key_roundtrip_int.

Theorem C09_key_roundtrip_bool : forall kn k,
  n_typ kn = typeBasic -> n_typn kn = "bool"%string -> n_typu kn = "bool"%string ->
  wtb kn k = true -> k <> VPtr None -> key_rt kn k.
Proof. exact key_rt_bool. Qed.
Print Assumptions C09_key_roundtrip_bool.

Theorem C09_keys_ok_string_int : forall kn vn kvs,
  n_typ kn = typeBasic ->
  (n_typn kn = "string"%string /\ n_typu kn = "string"%string) \/
  (exists i, n_typn kn = ikind_name i /\ n_typu kn = ikind_name i) ->
  forallb (fun kv => wtb kn (fst kv)) kvs = true ->
  (forall kv, In kv kvs -> fst kv <> VPtr None) ->
  keys_ok (LMap kn vn kvs).
Proof. exact keys_ok_plain. Qed.
Print Assumptions C09_keys_ok_string_int.

(* decimal texts read back, for every number *)
Theorem C09_parse_int_decimal : forall z, (- 2 ^ 63 <= z < 2 ^ 63)%Z -> parse_int (Z_to_string z) 0 64 = Some z.
Proof. exact parse_int_decimal. Qed.
Print Assumptions C09_parse_int_decimal.

Local Open Scope string_scope.

(* float keys: pointwise on the exact-decimal domain (render_float is defined only there; outside
   it the model makes no prediction - KUnk - and the case generator does not go) *)
Definition f64key : node := Node typeBasic "float64" "float64" "" "" "" false [] None None None false false.
Definition f32key : node := Node typeBasic "float32" "float32" "" "" "" false [] None None None false false.
Example C09_key_roundtrip_float_samples :
  Forall (fun k => key_rt f64key k)
    [fl 3 (-1); fl 2 0; fl (-1001) (-3); fl 0 0; fl 1 40; fl (-5) (-2); VFloat (S754_zero true); VFloat S754_nan] /\
  Forall (fun k => key_rt f32key k) [fl 3 (-1); fl 2 0; fl (-5) (-2); fl 0 0].
Proof.
  split; repeat constructor; (eexists; split; [vm_compute; reflexivity|vm_compute; reflexivity]).
Qed.

(* ---------- where the emitted code deviates ---------- *)
(* A nil pointer key: `*k` panics as soon as the iterator wants the key (open finding nil_pointer_key). *)
Theorem C09_refuted_nil_pointer_key :
  exists n v path sc,
    wfn n = true /\ n_ptr n = false /\ wtb n v = true /\
    (exists kn vn kvs, denoted n v path = LMap kn vn kvs) /\
    loop_method sc id_ord n (APtr (Some v)) path = Panic PNilDeref.
Proof.
  exists (GenC09.root_node ("T", TStruct [("F", TMap (TPtr Shapes.t_string) Shapes.t_int32)])),
         (VStruct [VMap false [(VPtr None, VInt 7%Z)]]), ["F"], noscript.
  vm_compute. repeat split; try reflexivity. eexists _, _, _. reflexivity.
Qed.
Print Assumptions C09_refuted_nil_pointer_key.

(* ... the same value is iterated without a panic when the key is not wanted *)
Example C09_nil_pointer_key_not_wanted :
  loop_method (script_of "0" "") id_ord
    (GenC09.root_node ("T", TStruct [("F", TMap (TPtr Shapes.t_string) Shapes.t_int32)]))
    (APtr (Some (VStruct [VMap false [(VPtr None, VInt 7%Z)]]))) ["F"]
  = Ret [ERequireKey false; ESetVal (VInt 7%Z) "static"; EIterate CNone] None.
Proof. vm_compute. reflexivity. Qed.

(* ---------- non-vacuity ---------- *)
Example C09_units_wellformed :
  forallb (fun u => wfn (GenC09.root_node u) && negb (n_ptr (GenC09.root_node u))) (supported_units 0) = true.
Proof. vm_compute. reflexivity. Qed.

(* a path through a map entry to a slice of structs: the entry's slice is iterated, not the map;
   Break after the second element; the struct elements come with their own inspector *)
Example C09_demo :
  let n := GenC09.root_node ("T", TStruct [("F", TMap (TScalar SString) (TSlice Shapes.leaf))]) in
  let e (a : Z) := VStruct [VInt a; VStr "s"; VBytes false [] 0; VFloat (Floats.norm64 0 0)] in
  let v := VStruct [VMap false [(VStr "k", VSlice false [e 1%Z; e 2%Z; e 3%Z] 0); (VStr "j", VSlice false [e 9%Z] 0)]] in
  wtb n v = true /\
  denoted n v ["F"; "k"] = LSlice (match n_chld n with [f] => match n_mapv f with Some s => match n_slct s with Some l => l | None => n end | None => n end | _ => n end) [e 1%Z; e 2%Z; e 3%Z] /\
  loop_method (script_of "10" "CB") id_ord n (APtr (Some v)) ["F"; "k"] =
    Ret [ERequireKey true; ESetKey "0" "static"; ESetVal (VPtr (Some (e 1%Z))) "Leaf"; EIterate CCnt;
         ERequireKey false; ESetVal (VPtr (Some (e 2%Z))) "Leaf"; EIterate CBrk] None /\
  loop_method (script_of "1" "") id_ord n (APtr (Some v)) ["F"; "zz"] = Ret [] None /\
  loop_method (script_of "1" "") id_ord n (APtr (Some v)) ["F"; "k"; "0"; "S"] = Ret [] None.
Proof. vm_compute. repeat split; reflexivity. Qed.

(* bool keys (the emitted code compiles since the fourth fix) and pointer bool keys *)
Example C09_demo_bool_keys :
  let n := GenC09.root_node ("T", TStruct [("F", TMap (TScalar SBool) Shapes.t_int32); ("G", TMap (TPtr (TScalar SBool)) Shapes.t_string)]) in
  let v := VStruct [VMap false [(VBool true, VInt 1%Z); (VBool false, VInt 2%Z)]; VMap false [(VPtr (Some (VBool false)), VStr "no")]] in
  loop_method (script_of "1" "") id_ord n (APtr (Some v)) ["F"] =
    Ret [ERequireKey true; ESetKey "true" "static"; ESetVal (VInt 1%Z) "static"; EIterate CNone;
         ERequireKey true; ESetKey "false" "static"; ESetVal (VInt 2%Z) "static"; EIterate CNone] None /\
  loop_method (script_of "1" "") id_ord n (APtr (Some v)) ["G"] =
    Ret [ERequireKey true; ESetKey "false" "static"; ESetVal (VStr "no") "static"; EIterate CNone] None.
Proof. vm_compute. split; reflexivity. Qed.

(* a root map type on the empty path, integer keys *)
Example C09_demo_root_map :
  let n := GenC09.root_node ("T", TMap Shapes.t_int32 Shapes.t_string) in
  let v := VMap false [(VInt (-3)%Z, VStr "a"); (VInt 1%Z, VStr "b")] in
  keys_ok (denoted n v []) /\
  loop_method (script_of "1" "") id_ord n (APtr (Some v)) [] =
    Ret [ERequireKey true; ESetKey "-3" "static"; ESetVal (VStr "a") "static"; EIterate CNone;
         ERequireKey true; ESetKey "1" "static"; ESetVal (VStr "b") "static"; EIterate CNone] None.
Proof.
  split; [|vm_compute; reflexivity].
  apply keys_ok_plain; try reflexivity.
  - right. exists KInt32. split; reflexivity.
  - intros kv [<-|[<-|[]]]; discriminate.
Qed.

(* a history: a string-keyed map, a slice of the same object, an int-keyed map of another object, the
   string-keyed map again (Break after its first round) - the hypotheses of C09_history hold, and the last
   call still hands over the key "read" *)
Definition demo_hn : node :=
  Eval vm_compute in GenC09.root_node ("T", TStruct [("M", TMap Shapes.t_string Shapes.t_int32); ("L", TSlice Shapes.t_int32)]).
Definition demo_hv : val :=
  VStruct [VMap false [(VStr "read", VInt 35%Z); (VStr "rw", VInt 7%Z)]; VSlice false [VInt 4%Z; VInt 5%Z] 0].
Definition demo_hn2 : node := Eval vm_compute in GenC09.root_node ("U", TMap Shapes.t_int32 Shapes.t_string).
Definition demo_hv2 : val := VMap false [(VInt 2%Z, VStr "b")].
Definition demo_store : store := [(demo_hn, APtr (Some demo_hv)); (demo_hn2, APtr (Some demo_hv2))].
Definition demo_history : list step :=
  [(0, KLoop (script_of "1" "") id_ord ["M"]); (0, KLoop (script_of "1" "C") id_ord ["L"]);
   (1, KLoop (script_of "1" "") id_ord []); (0, KLoop (script_of "1" "B") id_ord ["M"])]%nat.

Example C09_demo_history :
  Forall (loop_step_ok id_ord demo_store) demo_history /\
  nth_error (map fst (run demo_store demo_history)) 3 =
    Some (Some (AnsTrace (Ret [ERequireKey true; ESetKey "read" "static"; ESetVal (VInt 35%Z) "static"; EIterate CBrk] None))).
Proof.
  split; [|vm_compute; reflexivity].
  assert (KM : keys_ok (denoted demo_hn demo_hv ["M"])).
  { change (denoted demo_hn demo_hv ["M"]) with (ltac:(let x := eval vm_compute in (denoted demo_hn demo_hv ["M"]) in exact x)).
    apply keys_ok_plain; try reflexivity.
    - left. split; reflexivity.
    - intros kv [<-|[<-|[]]]; discriminate. }
  assert (KU : keys_ok (denoted demo_hn2 demo_hv2 [])).
  { change (denoted demo_hn2 demo_hv2 []) with (ltac:(let x := eval vm_compute in (denoted demo_hn2 demo_hv2 []) in exact x)).
    apply keys_ok_plain; try reflexivity.
    - right. exists KInt32. split; reflexivity.
    - intros kv [<-|[]]; discriminate. }
  assert (KL : keys_ok (denoted demo_hn demo_hv ["L"])).
  { change (denoted demo_hn demo_hv ["L"]) with (ltac:(let x := eval vm_compute in (denoted demo_hn demo_hv ["L"]) in exact x)).
    exact I. }
  assert (OK0 : forall sc path, keys_ok (denoted demo_hn demo_hv path) ->
                loop_step_ok id_ord demo_store (0%nat, KLoop sc id_ord path)).
  { intros sc path K. apply (loop_step_ok_intro id_ord demo_store 0 sc path demo_hn demo_hv);
      [reflexivity|vm_compute; reflexivity|reflexivity|vm_compute; reflexivity|exact K]. }
  assert (OK1 : forall sc path, keys_ok (denoted demo_hn2 demo_hv2 path) ->
                loop_step_ok id_ord demo_store (1%nat, KLoop sc id_ord path)).
  { intros sc path K. apply (loop_step_ok_intro id_ord demo_store 1 sc path demo_hn2 demo_hv2);
      [reflexivity|vm_compute; reflexivity|reflexivity|vm_compute; reflexivity|exact K]. }
  unfold demo_history.
  apply Forall_cons; [exact (OK0 _ _ KM)|].
  apply Forall_cons; [exact (OK0 _ _ KL)|].
  apply Forall_cons; [exact (OK1 _ _ KU)|].
  apply Forall_cons; [exact (OK0 _ _ KM)|].
  apply Forall_nil.
Qed.
