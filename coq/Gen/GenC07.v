(* Gen/GenC07.v - case generator and canonical printers for the C07
   correspondence stream.  One case = one history over one buffer; the line
   carries the history, what the model (tight buffer) lets every holder read
   after every step, and what the specification entitles it to read. *)
From Coq Require Import List Arith Bool Ascii String ZArith NArith.
From Verif Require Import Util Buffer.
Import ListNotations.
Local Open Scope string_scope.

Definition tab : string := String (ascii_of_nat 9) "".

(* ---------- printing operations ---------- *)
Definition pr_field (f : bool * list ascii) : string :=
  (if fst f then "s" else "b") ++ hex_of_bytes (snd f).

(* a bool source renders as "true" / "false" *)
Definition is_boolean_text (d : list ascii) : bool :=
  String.eqb (string_of_bytes d) "true" || String.eqb (string_of_bytes d) "false".

(* the assign operations carry the integer whose decimal rendering is the data *)
Definition pr_op (o : op) : string :=
  match o with
  | OBufferize d _ => "B:" ++ hex_of_bytes d
  | OBufferizeString d _ => "S:" ++ hex_of_bytes d
  | OAcqRel d _ => "A:" ++ hex_of_bytes d
  | OAssignBytes d _ => (if is_boolean_text d then "YBb:" else "YB:") ++ string_of_bytes d
  | OAssignStr d _ => (if is_boolean_text d then "YSb:" else "YS:") ++ string_of_bytes d
  | OCopyTo fs _ => "C:" ++ join "," (map pr_field fs)
  | OReset => "R"
  | CWrite k i c => "W:" ++ nat_to_string k ++ ":" ++ nat_to_string i ++ ":" ++ hex_of_ascii c
  | CAppend k d _ => "P:" ++ nat_to_string k ++ ":" ++ hex_of_bytes d
  | CSetUnbuf k d _ => "U:" ++ nat_to_string k ++ ":" ++ string_of_bytes d
  | OBufferizeFrom k _ => "BF:" ++ nat_to_string k
  | OCopyInto fs _ => "CI:" ++ join "," (map pr_field fs)
  | OAssignBytesInto k d _ =>
    (if is_boolean_text d then "YIb:" else "YI:") ++ nat_to_string k ++ ":" ++ string_of_bytes d
  end.

(* ---------- printing observations ---------- *)
Definition pr_hand_with (content : hand -> list ascii) (x : hand) : string :=
  if hd_live x then (if hd_str x then "s" else "b") ++ hex_of_bytes (content x) else "-".

Definition pr_state_model (st : state) : string :=
  nat_to_string (s_len (st_bb st)) ++ ";" ++
  (if any_overlap (live (st_log st)) then "1" else "0") ++ ";" ++
  join "," (map (pr_hand_with (hand_reads (st_heap st))) (st_log st)).

(* what the property demands: every live holder reads its own content, nothing overlaps *)
Definition pr_state_spec (st : state) : string :=
  nat_to_string (s_len (st_bb st)) ++ ";0;" ++
  join "," (map (pr_hand_with hd_want) (st_log st)).

Fixpoint trace (tight : bool) (pr : state -> string) (st : state) (ops : list op) : list string :=
  match ops with
  | [] => []
  | o :: r => let st' := step tight st o in pr st' :: trace tight pr st' r
  end.

Definition has_client (ops : list op) : bool :=
  existsb (fun o => match o with CWrite _ _ _ | CAppend _ _ _ | CSetUnbuf _ _ _ | OBufferizeFrom _ _ => true | _ => false end) ops.
Definition has_reset (ops : list op) : bool :=
  existsb (fun o => match o with OReset => true | _ => false end) ops.
(* a CopyTo / buffered Assign into a destination that is not fresh *)
Definition has_reuse (ops : list op) : bool :=
  existsb (fun o => match o with OCopyInto _ _ | OAssignBytesInto _ _ _ => true | _ => false end) ops.

Definition case_line (id : string) (capname : string) (size : nat) (ops : list op) : string :=
  let tags := capname ++ (if has_client ops then ",client" else "") ++ (if has_reset ops then ",reset" else "") ++
              (if has_reuse ops then ",reuse" else "") in
  id ++ tab ++ tags ++ tab ++
  "cap=" ++ nat_to_string size ++ ";" ++ join ";" (map pr_op ops) ++ tab ++
  join "|" (trace true pr_state_model (init size) ops) ++ tab ++
  join "|" (trace true pr_state_spec (init size) ops).

(* ---------- exhaustive enumeration over a small alphabet ---------- *)
Definition b (s : string) : list ascii := bytes_of_string s.

Definition adds (o : op) : nat :=
  match o with
  | OBufferize _ _ | OBufferizeString _ _ | OAssignBytes _ _ | OAssignStr _ _ => 1
  | OCopyTo fs _ | OCopyInto fs _ => List.length fs
  | OBufferizeFrom _ _ | OAssignBytesInto _ _ _ => 1
  | _ => 0
  end.

Definition alphabet (n : nat) : list op :=
  [OBufferize (b "ab") 0; OBufferize (b "") 0; OBufferizeString (b "cd") 0; OAcqRel (b "xyz") 0;
   OAssignBytes (b "42") 0; OAssignStr (b "7") 0; OAssignBytes (b "true") 0; OAssignStr (b "false") 0; OCopyTo [(true, b "e"); (false, b "fg")] 0; OReset] ++
  (if Nat.eqb n 0 then [] else
     [CWrite (n - 1) 0 "!"%char; CAppend 0 (b "Q") 0; CAppend (n - 1) (b "QQQQQQQQQ") 0;
      CSetUnbuf 0 (b "5") 0; CSetUnbuf (n - 1) (b "123456789") 0; OBufferizeFrom (n - 1) 0; OBufferizeFrom 0 0;
      (* the destination object of the previous CopyTo is used again, with a shorter value that would fit in
         what its fields still hold, while the values handed out before stay with their holders *)
      OCopyInto [(true, b "h"); (false, b "i")] 0]).

Fixpoint enum (depth : nat) (n : nat) : list (list op) :=
  match depth with
  | O => [[]]
  | S d => flat_map (fun o => map (cons o) (enum d (n + adds o))) (alphabet n)
  end.

(* first data length, used as the "tight" initial capacity *)
Definition first_len (ops : list op) : nat :=
  match ops with
  | OBufferize d _ :: _ | OBufferizeString d _ :: _ | OAcqRel d _ :: _
  | OAssignBytes d _ :: _ | OAssignStr d _ :: _ => List.length d
  | OCopyTo ((_, d) :: _) _ :: _ | OCopyInto ((_, d) :: _) _ :: _ => List.length d
  | _ => 1
  end.

Definition caps_of (ops : list op) : list (string * nat) :=
  [("cap0", 0); ("capT", Nat.max 1 (first_len ops)); ("capR", 4096)].

(* ---------- random histories ---------- *)
Definition rnd_bytes (s : rng) (maxlen : nat) : list ascii * rng :=
  let '(n, s1) := rng_nat s (S maxlen) in
  (fix go (k : nat) (s : rng) (acc : list ascii) : list ascii * rng :=
     match k with
     | O => (acc, s)
     | S k' => let '(c, s') := rng_pick s 256 in go k' s' (ascii_of_N c :: acc)
     end) n s1 [].

Definition rnd_digits (s : rng) : list ascii * rng :=
  let '(v, s1) := rng_pick s 100000 in (bytes_of_string (N_to_string v), s1).

(* the field shapes the runner maps to a generated type: TestObject {Id, Name [, Finance.History[i].Comment]},
   TestHistory {Comment}, TestObject1 {ByteSlice, *ByteSlicePtr, NestedStruct.S, NestedStruct.B} *)
Definition shapes : list (list bool) :=
  [[true; false]; [true; false; false]; [false]; [false; false; true; false]].

Fixpoint rnd_fields (sh : list bool) (s : rng) : list (bool * list ascii) * rng :=
  match sh with
  | [] => ([], s)
  | k :: r => let '(d, s1) := rnd_bytes s 4 in let '(fs, s2) := rnd_fields r s1 in ((k, d) :: fs, s2)
  end.

Definition rnd_shape (s : rng) : list (bool * list ascii) * rng :=
  let '(i, s1) := rng_nat s (List.length shapes) in rnd_fields (nth i shapes [true; false]) s1.

Definition rnd_op (s : rng) (n : nat) : op * rng :=
  let '(c, s1) := rng_nat s (if Nat.eqb n 0 then 9 else 21) in
  match c with
  | 0 => let '(d, s2) := rnd_bytes s1 6 in (OBufferize d 0, s2)
  | 1 => let '(d, s2) := rnd_bytes s1 6 in (OBufferizeString d 0, s2)
  | 2 => let '(d, s2) := rnd_bytes s1 9 in (OAcqRel d 0, s2)
  | 3 => let '(d, s2) := rnd_digits s1 in let '(k, s3) := rng_nat s2 4 in
         (OAssignBytes (if Nat.eqb k 0 then b "true" else if Nat.eqb k 1 then b "false" else d) 0, s3)
  | 4 => let '(d, s2) := rnd_digits s1 in let '(k, s3) := rng_nat s2 4 in
         (OAssignStr (if Nat.eqb k 0 then b "false" else if Nat.eqb k 1 then b "true" else d) 0, s3)
  | 5 => let '(fs, s2) := rnd_shape s1 in (OCopyTo fs 0, s2)
  | 6 => let '(d, s2) := rnd_bytes s1 40 in (OBufferize d 0, s2)
  | 7 => let '(k, s2) := rng_nat s1 12 in
         (if Nat.eqb k 0 then OReset else OBufferize (b "") 0, s2)
  | 8 => let '(d, s2) := rnd_bytes s1 2 in (OBufferizeString d 0, s2)
  | 9 | 10 => let '(k, s2) := rng_nat s1 n in let '(i, s3) := rng_nat s2 4 in
         let '(c, s4) := rng_pick s3 256 in (CWrite k i (ascii_of_N c), s4)
  | 11 | 12 | 13 => let '(k, s2) := rng_nat s1 n in let '(d, s3) := rnd_bytes s2 5 in (CAppend k d 0, s3)
  | 14 => let '(k, s2) := rng_nat s1 n in let '(d, s3) := rnd_digits s2 in (CSetUnbuf k d 0, s3)
  | 15 | 16 => let '(k, s2) := rng_nat s1 n in (OBufferizeFrom k 0, s2)
  | 17 | 18 | 19 => let '(fs, s2) := rnd_shape s1 in (OCopyInto fs 0, s2)
  | _ => let '(k, s2) := rng_nat s1 n in let '(d, s3) := rnd_digits s2 in let '(j, s4) := rng_nat s3 6 in
         (OAssignBytesInto k (if Nat.eqb j 0 then b "true" else if Nat.eqb j 1 then b "false" else d) 0, s4)
  end.

Fixpoint rnd_ops (len : nat) (s : rng) (n : nat) : list op * rng :=
  match len with
  | O => ([], s)
  | S l => let '(o, s1) := rnd_op s n in
           let '(r, s2) := rnd_ops l s1 (n + adds o) in (o :: r, s2)
  end.

Fixpoint rnd_cases (count : nat) (s : rng) (idx : nat) : list string :=
  match count with
  | O => []
  | S c =>
    let '(len, s1) := rng_nat s 40 in
    let '(ops, s2) := rnd_ops (S len) s1 0 in
    let '(ci, s3) := rng_nat s2 3 in
    let '(cn, cv) := nth ci (caps_of ops) ("cap0", 0) in
    case_line ("r" ++ nat_to_string idx) cn cv ops :: rnd_cases c s3 (S idx)
  end.

Fixpoint number {A} (i : nat) (l : list A) : list (nat * A) :=
  match l with [] => [] | x :: r => (i, x) :: number (S i) r end.

(* tier 0 = quick, 1 = thorough *)
Definition cases (tier : Z) (seed : Z) : list string :=
  let depth := if Z.eqb tier 0 then 3 else 4 in
  let nrand := if Z.eqb tier 0 then 300 else 3000 in
  flat_map (fun p : nat * list op =>
              let '(i, ops) := p in
              map (fun c : string * nat => case_line ("e" ++ nat_to_string i ++ fst c) (fst c) (snd c) ops)
                  (caps_of ops))
           (number 0 (enum depth 0)) ++
  rnd_cases nrand (rng_of_seed seed) 0.
