(* Gen/GenC07.v - case generator and canonical printers for the C07
   correspondence stream.  One case = one history over one buffer; the line
   carries the history, what the model (tight buffer) lets every holder read
   after every step, and what the specification entitles it to read. *)
From Coq Require Import List Arith Bool Ascii String ZArith NArith.
From Verif Require Import Util Buffer.
Import ListNotations.
Local Open Scope string_scope.

Definition tab : string := String (ascii_of_nat 9) "".

(* ---------- printing operations ---------- *)
Definition pr_field (f : bool * list ascii) : string :=
  (if fst f then "s" else "b") ++ hex_of_bytes (snd f).

(* a bool source renders as "true" / "false" *)
Definition is_boolean_text (d : list ascii) : bool :=
  String.eqb (string_of_bytes d) "true" || String.eqb (string_of_bytes d) "false".

(* a map[string]any source, pre-order: s/S string / *string, b/B []byte / *[]byte, i another value,
   o0/o1/o2 a nested map / *map / **map opens, c it closes *)
Definition pr_tok (t : tok) : string :=
  match t with
  | TText false true d => "s" ++ hex_of_bytes d
  | TText true true d => "S" ++ hex_of_bytes d
  | TText false false d => "b" ++ hex_of_bytes d
  | TText true false d => "B" ++ hex_of_bytes d
  | TOther => "i"
  | TOpen n => "o" ++ nat_to_string n
  | TClose => "c"
  end.

(* how observed values are copied: g generated CopyTo, m map[string]any, ls / lb []string|[][]byte to
   *[]string / *[][]byte, t StaticInspector *)
Definition pr_via (v : via) : string :=
  match v with
  | VGenerated => "g"
  | VMap => "m"
  | VStrings true => "ls"
  | VStrings false => "lb"
  | VStatic => "t"
  end.

(* the assign operations carry the integer whose decimal rendering is the data *)
Definition pr_op (o : op) : string :=
  match o with
  | OBufferize d _ => "B:" ++ hex_of_bytes d
  | OBufferizeString d _ => "S:" ++ hex_of_bytes d
  | OAcqRel d _ => "A:" ++ hex_of_bytes d
  | OAssignBytes d _ => (if is_boolean_text d then "YBb:" else "YB:") ++ string_of_bytes d
  | OAssignStr d _ => (if is_boolean_text d then "YSb:" else "YS:") ++ string_of_bytes d
  | OCopyTo fs _ => "C:" ++ join "," (map pr_field fs)
  | OReset => "R"
  | CWrite k i c => "W:" ++ nat_to_string k ++ ":" ++ nat_to_string i ++ ":" ++ hex_of_ascii c
  | CAppend k d _ => "P:" ++ nat_to_string k ++ ":" ++ hex_of_bytes d
  | CSetUnbuf k d _ => "U:" ++ nat_to_string k ++ ":" ++ string_of_bytes d
  | OBufferizeFrom k _ => "BF:" ++ nat_to_string k
  | OCopyInto fs _ => "CI:" ++ join "," (map pr_field fs)
  | OAssignBytesInto k d _ =>
    (if is_boolean_text d then "YIb:" else "YI:") ++ nat_to_string k ++ ":" ++ string_of_bytes d
  | OSource isstr d => "X:" ++ (if isstr then "s" else "b") ++ hex_of_bytes d
  | OCopyMap reuse ts _ => (if reuse then "MI:" else "M:") ++ join "," (map pr_tok ts)
  | OCopyStrings reuse ss ds l _ =>
    (if reuse then "LI:" else "L:") ++ (if ss then "s" else "b") ++ (if ds then "s" else "b") ++ ":" ++
    join "," (map (fun d => "x" ++ hex_of_bytes d) l)
  | OSourceCap d spare => "XC:" ++ hex_of_bytes d ++ ":" ++ nat_to_string spare
  | CTruncate k => "T:" ++ nat_to_string k
  | OCopyHeld v reuse ks _ =>
    (if reuse then "HI:" else "H:") ++ pr_via v ++ ":" ++ join "," (map nat_to_string ks)
  end.

(* ---------- printing observations ---------- *)
Definition pr_hand_with (content : hand -> list ascii) (x : hand) : string :=
  if hd_live x then (if hd_str x then "s" else "b") ++ hex_of_bytes (content x) else "-".

Definition pr_state_model (st : state) : string :=
  nat_to_string (s_len (st_bb st)) ++ ";" ++
  (if any_overlap (live (st_log st)) then "1" else "0") ++ ";" ++
  join "," (map (pr_hand_with (hand_reads (st_heap st))) (st_log st)).

(* what the property demands: every live holder reads its own content, nothing overlaps *)
Definition pr_state_spec (st : state) : string :=
  nat_to_string (s_len (st_bb st)) ++ ";0;" ++
  join "," (map (pr_hand_with hd_want) (st_log st)).

Fixpoint trace (tight : bool) (pr : state -> string) (st : state) (ops : list op) : list string :=
  match ops with
  | [] => []
  | o :: r => let st' := step tight st o in pr st' :: trace tight pr st' r
  end.

Definition has_client (ops : list op) : bool :=
  existsb (fun o => match o with CWrite _ _ _ | CAppend _ _ _ | CSetUnbuf _ _ _ | OBufferizeFrom _ _ | CTruncate _ => true
                            | _ => false end) ops.
Definition has_reset (ops : list op) : bool :=
  existsb (fun o => match o with OReset => true | _ => false end) ops.
(* a CopyTo / buffered Assign into a destination that is not fresh *)
Definition has_reuse (ops : list op) : bool :=
  existsb (fun o => match o with OCopyInto _ _ | OAssignBytesInto _ _ _ | OCopyMap true _ _ | OCopyStrings true _ _ _ _ => true
                            | _ => false end) ops.
(* CopyTo of a built-in inspector (map[string]any, []string / [][]byte), or a source value under observation *)
Definition has_builtin (ops : list op) : bool :=
  existsb (fun o => match o with OCopyMap _ _ _ | OCopyStrings _ _ _ _ _ | OSource _ _ => true | _ => false end) ops.

(* a value with spare capacity under observation (a source made with it, or a value emptied by x = x[:0]) *)
Definition has_spare (ops : list op) : bool :=
  existsb (fun o => match o with OSourceCap _ _ | CTruncate _ => true | _ => false end) ops.
(* a copy whose source fields are observed values *)
Definition has_held (ops : list op) : bool :=
  existsb (fun o => match o with OCopyHeld _ _ _ _ => true | _ => false end) ops.

Definition case_line (id : string) (capname : string) (size : nat) (ops : list op) : string :=
  let tags := capname ++ (if has_client ops then ",client" else "") ++ (if has_reset ops then ",reset" else "") ++
              (if has_reuse ops then ",reuse" else "") ++ (if has_builtin ops then ",builtin" else "") ++
              (if has_spare ops then ",spare" else "") ++ (if has_held ops then ",held" else "") in
  id ++ tab ++ tags ++ tab ++
  "cap=" ++ nat_to_string size ++ ";" ++ join ";" (map pr_op ops) ++ tab ++
  join "|" (trace true pr_state_model (init size) ops) ++ tab ++
  join "|" (trace true pr_state_spec (init size) ops).

(* ---------- exhaustive enumeration over a small alphabet ---------- *)
Definition b (s : string) : list ascii := bytes_of_string s.

Definition adds (o : op) : nat :=
  match o with
  | OBufferize _ _ | OBufferizeString _ _ | OAssignBytes _ _ | OAssignStr _ _ => 1
  | OCopyTo fs _ | OCopyInto fs _ => List.length fs
  | OBufferizeFrom _ _ | OAssignBytesInto _ _ _ | OSource _ _ | OSourceCap _ _ => 1
  | OCopyHeld _ _ ks _ => List.length ks
  | OCopyMap _ ts _ => 2 * List.length (items_of_toks ts)
  | OCopyStrings _ _ _ l _ => 2 * List.length l
  | _ => 0
  end.

Definition alphabet (n : nat) : list op :=
  [OBufferize (b "ab") 0; OBufferize (b "") 0; OBufferizeString (b "cd") 0; OAcqRel (b "xyz") 0;
   OAssignBytes (b "42") 0; OAssignStr (b "7") 0; OAssignBytes (b "true") 0; OAssignStr (b "false") 0; OCopyTo [(true, b "e"); (false, b "fg")] 0; OReset] ++
  (if Nat.eqb n 0 then [] else
     [CWrite (n - 1) 0 "!"%char; CAppend 0 (b "Q") 0; CAppend (n - 1) (b "QQQQQQQQQ") 0;
      CSetUnbuf 0 (b "5") 0; CSetUnbuf (n - 1) (b "123456789") 0; OBufferizeFrom (n - 1) 0; OBufferizeFrom 0 0;
      (* the destination object of the previous CopyTo is used again, with a shorter value that would fit in
         what its fields still hold, while the values handed out before stay with their holders *)
      OCopyInto [(true, b "h"); (false, b "i")] 0]).

Fixpoint enum (depth : nat) (n : nat) : list (list op) :=
  match depth with
  | O => [[]]
  | S d => flat_map (fun o => map (cons o) (enum d (n + adds o))) (alphabet n)
  end.

(* first data length, used as the "tight" initial capacity *)
Definition first_len (ops : list op) : nat :=
  match ops with
  | OBufferize d _ :: _ | OBufferizeString d _ :: _ | OAcqRel d _ :: _
  | OAssignBytes d _ :: _ | OAssignStr d _ :: _ => List.length d
  | OCopyTo ((_, d) :: _) _ :: _ | OCopyInto ((_, d) :: _) _ :: _ => List.length d
  | OSource _ d :: _ | OCopyStrings _ _ _ (d :: _) _ :: _ | OSourceCap d _ :: _ => List.length d
  | OCopyMap _ ts _ :: _ => match items_of_toks ts with (_, _, d) :: _ => List.length d | [] => 1 end
  | _ => 1
  end.

Definition caps_of (ops : list op) : list (string * nat) :=
  [("cap0", 0); ("capT", Nat.max 1 (first_len ops)); ("capR", 4096)].

(* ---------- CopyTo of the built-in inspectors: [before] ++ [the copy] ++ [after] ---------- *)
Definition tS := TText false true.   (* string *)
Definition tSp := TText true true.   (* *string *)
Definition tB := TText false false.  (* []byte *)
Definition tBp := TText true false.  (* *[]byte *)

Definition builtin_copies : list op :=
  [ (* flat map *)
    OCopyMap false [tS (b "e"); tB (b "fg")] 0;
    (* text on the outer level, then in a nested map *)
    OCopyMap false [tS (b "e"); TOpen 0; tB (b "fg"); TClose] 0;
    (* a nested *map with a *string first, a *[]byte on the outer level after it *)
    OCopyMap false [TOpen 1; tSp (b "hi"); TClose; tBp (b "jk")] 0;
    (* no text on the outer level: **map, and a map inside it *)
    OCopyMap false [TOther; TOpen 2; tS (b "lm"); TOpen 0; tB (b "n"); TClose; TClose] 0;
    (* one []byte / string per level, three levels *)
    OCopyMap false [tB (b "p"); TOpen 0; tS (b "q"); TOpen 1; tB (b "r"); TClose; TClose] 0;
    (* []string / [][]byte to *[]string / *[][]byte, the four pairings *)
    OCopyStrings false true true [b "ab"; b ""; b "c"] 0;
    OCopyStrings false false false [b "de"; b "f"] 0;
    OCopyStrings false true false [b "gh"; b "i"] 0;
    OCopyStrings false false true [b "j"; b "kl"] 0 ].

(* what the buffer went through before: nothing; one value handed out; used and reset; a watched source *)
Definition builtin_before (tier1 : bool) : list (list op) :=
  [[]; [OBufferizeString (b "cd") 0]; [OBufferize (b "ab") 0; OReset]] ++
  (if tier1 then [[OSource false (b "uv")]; [OAcqRel (b "xyz") 0]; [OCopyTo [(true, b "e"); (false, b "fg")] 0]] else []).

(* n = number of values handed out so far; the copy's values are the last ones: ..., source, copy *)
Definition builtin_after (n : nat) : list op :=
  [OBufferize (b "ab") 0; OBufferizeString (b "cd") 0; OAcqRel (b "xyz") 0; OAssignBytes (b "42") 0;
   OCopyTo [(true, b "e"); (false, b "fg")] 0; OReset;
   CWrite (n - 1) 0 "!"%char; CWrite (n - 2) 0 "?"%char; CAppend (n - 1) (b "Q") 0; CAppend (n - 3) (b "QQQQQQQQQ") 0;
   CSetUnbuf (n - 1) (b "5") 0; CSetUnbuf (n - 2) (b "123456789") 0; OBufferizeFrom (n - 1) 0; OBufferizeFrom (n - 2) 0;
   OCopyInto [(true, b "h"); (false, b "i")] 0;
   OCopyMap true [TOpen 0; tS (b "st"); TClose; tB (b "u")] 0;
   OCopyStrings true false false [b "v"; b "wx"] 0].

Definition count_adds (ops : list op) : nat := fold_left (fun n o => n + adds o) ops 0.

Definition enum_builtin_with (two : bool) (befores : list (list op)) : list (list op) :=
  flat_map (fun pre : list op =>
    flat_map (fun c : op =>
      let n := count_adds (pre ++ [c])%list in
      flat_map (fun a : op =>
                  if two then map (fun a2 => (pre ++ [c; a; a2])%list) (builtin_after (n + adds a))
                  else [(pre ++ [c; a])%list])
               (builtin_after n))
      builtin_copies)
    befores.

(* quick: one operation after the copy; thorough: more pasts, and two operations after it *)
Definition enum_builtin (tier1 : bool) : list (list op) :=
  enum_builtin_with false (builtin_before tier1) ++
  (if tier1 then enum_builtin_with true (builtin_before false) else []).

(* ---------- sources with spare capacity: [source] ++ [copy; copy] ++ [after] ---------- *)
(* value 0 is a string of the client, value 1 the []byte under test:
   empty but allocated; filled below its capacity; filled to its capacity and emptied by x = x[:0];
   a value handed out by the buffer and emptied; a source without spare capacity (the base line) *)
Definition spare_sources : list (list op) :=
  [ [OSource true (b "id"); OSourceCap (b "") 8];
    [OSource true (b "id"); OSourceCap (b "ab") 6];
    [OSource true (b "id"); OSource false (b "uvw"); CTruncate 1];
    [OSource true (b "id"); OBufferize (b "ab") 0; CTruncate 1];
    [OSource true (b "id"); OSourceCap (b "ab") 0] ].

(* one copy of value 1 (with value 0 where the type has a string field) *)
Definition spare_copies (reuse : bool) : list op :=
  [ OBufferizeFrom 1 0;                          (* ByteBuffer.Bufferize of the value itself *)
    OCopyHeld VGenerated reuse [1] 0;            (* TestHistory{Comment} *)
    OCopyHeld VGenerated reuse [0; 1] 0;         (* TestObject{Id, Name} *)
    OCopyHeld VGenerated reuse [0; 1; 1] 0;      (* TestObject{Id, Name, Finance.History[i].Comment}: two fields hold it *)
    OCopyHeld VGenerated reuse [1; 1; 0; 1] 0;   (* TestObject1{ByteSlice, *ByteSlicePtr, NestedStruct.S, NestedStruct.B} *)
    OCopyHeld VMap reuse [0; 1] 0;
    OCopyHeld (VStrings false) reuse [1] 0;
    OCopyHeld (VStrings true) reuse [1; 1] 0;
    OCopyHeld VStatic reuse [1] 0 ].

(* n = number of values so far; the second copy's values are the last ones; value 1 is the source *)
Definition spare_after (n m : nat) : list op :=
  [ CAppend (n - 1) (b "Q") 0;          (* growth of the last copy *)
    CAppend (n - m - 1) (b "QQ") 0;      (* ... of the last value of the first copy *)
    CAppend 1 (b "Z") 0;                 (* ... of the source, inside its spare capacity *)
    CSetUnbuf (n - 1) (b "5") 0; CSetUnbuf 1 (b "123456789") 0;
    OBufferizeFrom (n - 1) 0; OBufferize (b "ab") 0 ].

Definition enum_spare (tier1 : bool) : list (list op) :=
  flat_map (fun src : list op =>
    flat_map (fun c1 : op =>
      flat_map (fun c2 : op =>
        let pre := (src ++ [c1; c2])%list in
        let n := count_adds pre in
        map (fun a => (pre ++ [a])%list) (spare_after n (adds c2)))
        (* the same copy again (into the destination used before), or the plain Bufferize of the value *)
        (if tier1 then spare_copies true
         else [match c1 with OCopyHeld v _ ks e => OCopyHeld v true ks e | o => o end;
               match c1 with OBufferizeFrom _ _ => OCopyHeld VGenerated false [1] 0 | _ => OBufferizeFrom 1 0 end]))
      (spare_copies false))
    spare_sources.

(* ---------- random histories ---------- *)
Definition rnd_bytes (s : rng) (maxlen : nat) : list ascii * rng :=
  let '(n, s1) := rng_nat s (S maxlen) in
  (fix go (k : nat) (s : rng) (acc : list ascii) : list ascii * rng :=
     match k with
     | O => (acc, s)
     | S k' => let '(c, s') := rng_pick s 256 in go k' s' (ascii_of_N c :: acc)
     end) n s1 [].

Definition rnd_digits (s : rng) : list ascii * rng :=
  let '(v, s1) := rng_pick s 100000 in (bytes_of_string (N_to_string v), s1).

(* the field shapes the runner maps to a generated type: TestObject {Id, Name [, Finance.History[i].Comment]},
   TestHistory {Comment}, TestObject1 {ByteSlice, *ByteSlicePtr, NestedStruct.S, NestedStruct.B} *)
Definition shapes : list (list bool) :=
  [[true; false]; [true; false; false]; [false]; [false; false; true; false]].

Fixpoint rnd_fields (sh : list bool) (s : rng) : list (bool * list ascii) * rng :=
  match sh with
  | [] => ([], s)
  | k :: r => let '(d, s1) := rnd_bytes s 4 in let '(fs, s2) := rnd_fields r s1 in ((k, d) :: fs, s2)
  end.

Definition rnd_shape (s : rng) : list (bool * list ascii) * rng :=
  let '(i, s1) := rng_nat s (List.length shapes) in rnd_fields (nth i shapes [true; false]) s1.

Definition rnd_op (s : rng) (n : nat) : op * rng :=
  let '(c, s1) := rng_nat s (if Nat.eqb n 0 then 9 else 21) in
  match c with
  | 0 => let '(d, s2) := rnd_bytes s1 6 in (OBufferize d 0, s2)
  | 1 => let '(d, s2) := rnd_bytes s1 6 in (OBufferizeString d 0, s2)
  | 2 => let '(d, s2) := rnd_bytes s1 9 in (OAcqRel d 0, s2)
  | 3 => let '(d, s2) := rnd_digits s1 in let '(k, s3) := rng_nat s2 4 in
         (OAssignBytes (if Nat.eqb k 0 then b "true" else if Nat.eqb k 1 then b "false" else d) 0, s3)
  | 4 => let '(d, s2) := rnd_digits s1 in let '(k, s3) := rng_nat s2 4 in
         (OAssignStr (if Nat.eqb k 0 then b "false" else if Nat.eqb k 1 then b "true" else d) 0, s3)
  | 5 => let '(fs, s2) := rnd_shape s1 in (OCopyTo fs 0, s2)
  | 6 => let '(d, s2) := rnd_bytes s1 40 in (OBufferize d 0, s2)
  | 7 => let '(k, s2) := rng_nat s1 12 in
         (if Nat.eqb k 0 then OReset else OBufferize (b "") 0, s2)
  | 8 => let '(d, s2) := rnd_bytes s1 2 in (OBufferizeString d 0, s2)
  | 9 | 10 => let '(k, s2) := rng_nat s1 n in let '(i, s3) := rng_nat s2 4 in
         let '(c, s4) := rng_pick s3 256 in (CWrite k i (ascii_of_N c), s4)
  | 11 | 12 | 13 => let '(k, s2) := rng_nat s1 n in let '(d, s3) := rnd_bytes s2 5 in (CAppend k d 0, s3)
  | 14 => let '(k, s2) := rng_nat s1 n in let '(d, s3) := rnd_digits s2 in (CSetUnbuf k d 0, s3)
  | 15 | 16 => let '(k, s2) := rng_nat s1 n in (OBufferizeFrom k 0, s2)
  | 17 | 18 | 19 => let '(fs, s2) := rnd_shape s1 in (OCopyInto fs 0, s2)
  | _ => let '(k, s2) := rng_nat s1 n in let '(d, s3) := rnd_digits s2 in let '(j, s4) := rng_nat s3 6 in
         (OAssignBytesInto k (if Nat.eqb j 0 then b "true" else if Nat.eqb j 1 then b "false" else d) 0, s4)
  end.

Fixpoint rnd_ops (len : nat) (s : rng) (n : nat) : list op * rng :=
  match len with
  | O => ([], s)
  | S l => let '(o, s1) := rnd_op s n in
           let '(r, s2) := rnd_ops l s1 (n + adds o) in (o :: r, s2)
  end.

Fixpoint rnd_cases (count : nat) (s : rng) (idx : nat) : list string :=
  match count with
  | O => []
  | S c =>
    let '(len, s1) := rng_nat s 40 in
    let '(ops, s2) := rnd_ops (S len) s1 0 in
    let '(ci, s3) := rng_nat s2 3 in
    let '(cn, cv) := nth ci (caps_of ops) ("cap0", 0) in
    case_line ("r" ++ nat_to_string idx) cn cv ops :: rnd_cases c s3 (S idx)
  end.

(* ---------- random histories with CopyTo of the built-in inspectors and watched sources ---------- *)
(* a random map[string]any, pre-order, nesting at most 3 deep, closed at the end *)
Fixpoint rnd_toks (fuel depth : nat) (s : rng) : list tok * rng :=
  match fuel with
  | O => (repeat TClose depth, s)
  | S f =>
    let '(c, s1) := rng_nat s 10 in
    match c with
    | 0 | 1 | 2 | 3 | 4 =>
      let '(k, s2) := rng_nat s1 4 in
      let '(d, s3) := rnd_bytes s2 5 in
      let '(r, s4) := rnd_toks f depth s3 in
      (TText (Nat.leb 2 k) (Nat.even k) d :: r, s4)
    | 5 => let '(r, s2) := rnd_toks f depth s1 in (TOther :: r, s2)
    | 6 | 7 =>
      if Nat.ltb depth 3 then
        let '(i, s2) := rng_nat s1 3 in
        let '(r, s3) := rnd_toks f (S depth) s2 in (TOpen i :: r, s3)
      else rnd_toks f depth s1
    | _ =>
      match depth with
      | O => rnd_toks f 0 s1
      | S dp => let '(r, s2) := rnd_toks f dp s1 in (TClose :: r, s2)
      end
    end
  end.

Fixpoint rnd_list (k : nat) (s : rng) : list (list ascii) * rng :=
  match k with
  | O => ([], s)
  | S k' => let '(d, s1) := rnd_bytes s 4 in let '(r, s2) := rnd_list k' s1 in (d :: r, s2)
  end.

Definition rnd_op2 (s : rng) (n : nat) : op * rng :=
  let '(c, s1) := rng_nat s 12 in
  match c with
  | 0 | 1 => let '(re, s2) := rng_nat s1 3 in let '(fu, s3) := rng_nat s2 8 in
             let '(ts, s4) := rnd_toks (S fu) 0 s3 in (OCopyMap (Nat.eqb re 0) ts 0, s4)
  | 2 => let '(re, s2) := rng_nat s1 3 in let '(k, s3) := rng_nat s2 4 in let '(cnt, s4) := rng_nat s3 4 in
         let '(l, s5) := rnd_list cnt s4 in (OCopyStrings (Nat.eqb re 0) (Nat.even k) (Nat.leb 2 k) l 0, s5)
  | 3 => let '(k, s2) := rng_nat s1 2 in let '(d, s3) := rnd_bytes s2 6 in (OSource (Nat.eqb k 0) d, s3)
  | _ => rnd_op s1 n
  end.

Fixpoint rnd_ops2 (len : nat) (s : rng) (n : nat) : list op * rng :=
  match len with
  | O => ([], s)
  | S l => let '(o, s1) := rnd_op2 s n in
           let '(r, s2) := rnd_ops2 l s1 (n + adds o) in (o :: r, s2)
  end.

Fixpoint rnd_cases2 (count : nat) (s : rng) (idx : nat) : list string :=
  match count with
  | O => []
  | S c =>
    let '(len, s1) := rng_nat s 24 in
    let '(ops, s2) := rnd_ops2 (S len) s1 0 in
    let '(ci, s3) := rng_nat s2 3 in
    let '(cn, cv) := nth ci (caps_of ops) ("cap0", 0) in
    case_line ("q" ++ nat_to_string idx) cn cv ops :: rnd_cases2 c s3 (S idx)
  end.

(* ---------- random histories with sources that have spare capacity, emptied values and copies of observed values ---------- *)
Fixpoint rnd_ks (cnt : nat) (n : nat) (s : rng) : list nat * rng :=
  match cnt with
  | O => ([], s)
  | S c => let '(k, s1) := rng_nat s n in let '(r, s2) := rnd_ks c n s1 in (k :: r, s2)
  end.

Definition rnd_via (s : rng) : via * rng :=
  let '(c, s1) := rng_nat s 8 in
  (match c with 0 | 1 | 2 => VGenerated | 3 => VMap | 4 => VStrings false | 5 => VStrings true | 6 => VStatic
           | _ => VGenerated end, s1).

Definition rnd_op3 (s : rng) (n : nat) : op * rng :=
  let '(c, s1) := rng_nat s (if Nat.eqb n 0 then 3 else 14) in
  match c with
  | 0 => let '(sp, s2) := rng_nat s1 9 in (OSourceCap (b "") sp, s2)
  | 1 => let '(d, s2) := rnd_bytes s1 5 in let '(sp, s3) := rng_nat s2 7 in (OSourceCap d sp, s3)
  | 2 => let '(d, s2) := rnd_bytes s1 3 in (OSource true d, s2)
  | 3 | 4 => let '(k, s2) := rng_nat s1 n in (CTruncate k, s2)
  | 5 | 6 | 7 =>
    let '(v, s2) := rnd_via s1 in
    let '(cnt, s3) := rng_nat s2 4 in
    let '(ks, s4) := rnd_ks (match v with VStatic => 1 | _ => S cnt end) n s3 in
    let '(re, s5) := rng_nat s4 3 in
    (OCopyHeld v (Nat.eqb re 0) ks 0, s5)
  | 8 => let '(k, s2) := rng_nat s1 n in (OBufferizeFrom k 0, s2)
  | 9 => let '(k, s2) := rng_nat s1 n in let '(d, s3) := rnd_bytes s2 3 in (CAppend k d 0, s3)
  | _ => rnd_op2 s1 n
  end.

Fixpoint rnd_ops3 (len : nat) (s : rng) (n : nat) : list op * rng :=
  match len with
  | O => ([], s)
  | S l => let '(o, s1) := rnd_op3 s n in
           let '(r, s2) := rnd_ops3 l s1 (n + adds o) in (o :: r, s2)
  end.

Fixpoint rnd_cases3 (count : nat) (s : rng) (idx : nat) : list string :=
  match count with
  | O => []
  | S c =>
    let '(len, s1) := rng_nat s 24 in
    let '(ops, s2) := rnd_ops3 (S len) s1 0 in
    let '(ci, s3) := rng_nat s2 3 in
    let '(cn, cv) := nth ci (caps_of ops) ("cap0", 0) in
    case_line ("p" ++ nat_to_string idx) cn cv ops :: rnd_cases3 c s3 (S idx)
  end.

Fixpoint number {A} (i : nat) (l : list A) : list (nat * A) :=
  match l with [] => [] | x :: r => (i, x) :: number (S i) r end.

(* tier 0 = quick, 1 = thorough *)
Definition cases (tier : Z) (seed : Z) : list string :=
  let depth := if Z.eqb tier 0 then 3 else 4 in
  let nrand := if Z.eqb tier 0 then 300 else 3000 in
  flat_map (fun p : nat * list op =>
              let '(i, ops) := p in
              map (fun c : string * nat => case_line ("e" ++ nat_to_string i ++ fst c) (fst c) (snd c) ops)
                  (caps_of ops))
           (number 0 (enum depth 0)) ++
  rnd_cases nrand (rng_of_seed seed) 0 ++
  flat_map (fun p : nat * list op =>
              let '(i, ops) := p in
              map (fun c : string * nat => case_line ("m" ++ nat_to_string i ++ fst c) (fst c) (snd c) ops)
                  (caps_of ops))
           (number 0 (enum_builtin (negb (Z.eqb tier 0)))) ++
  rnd_cases2 (if Z.eqb tier 0 then 60 else 1500) (rng_of_seed (seed + 7)%Z) 0 ++
  flat_map (fun p : nat * list op =>
              let '(i, ops) := p in
              map (fun c : string * nat => case_line ("s" ++ nat_to_string i ++ fst c) (fst c) (snd c) ops)
                  (if Z.eqb tier 0 then [("cap0", 0); ("capR", 4096)] else caps_of ops))
           (number 0 (enum_spare (negb (Z.eqb tier 0)))) ++
  rnd_cases3 (if Z.eqb tier 0 then 60 else 1500) (rng_of_seed (seed + 13)%Z) 0.
