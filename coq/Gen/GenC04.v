(* Gen/GenC04.v - the C04 stream: Compare of generated inspectors.
   Per unit x value variant x path: operands chosen by what the path denotes (following
   absent keys into the zero value) - equal to, adjacent to and far from the element, the
   boundaries of its kind, values outside its range, other accepted spellings (hex, octal,
   binary, underscores, signs, exponent forms), unparsable texts and "nil" - under the six
   operators and OpUnk / OpInc.  Operators rotate over the operands; the thorough tier runs all
   supported units (every scalar kind) with the same selection. *)
From Coq Require Import List Bool String Ascii ZArith Arith Floats.SpecFloat.
From Verif Require Import Util Ints Strconv Floats Node GoSrc Value Outcome Nav Cmp CmpSpec Shapes EnumVal GenUnits.
Import ListNotations.
Local Open Scope string_scope.

Definition root_node (u : string * ty) : node := parse_ast_decl (pkg_of (fst u)) (imp_of (fst u)) (fst u) (snd u).

(* ---------- observation text ---------- *)
Definition pr_b (b : bool) : string := if b then "t" else "f".

(* the two runs: *result preset to false and to true *)
Definition pr_obs (o1 o2 : out bool) : string :=
  match o1, o2 with
  | Panic k, _ | _, Panic k => "PANIC:" ++ pr_pkind k
  | Ret _ (Some e), _ | _, Ret _ (Some e) => "e=" ++ pr_err (Some e)
  | Ret a None, Ret b None | Ret a None, Fall b | Fall a, Ret b None | Fall a, Fall b => "e=nil;r=" ++ pr_b a ++ pr_b b
  end.

Fixpoint alts (d : cdemand) : option (list string) :=     (* None = silent *)
  match d with
  | DAny => None
  | DSet b => Some ["e=nil;r=" ++ pr_b b ++ pr_b b]
  | DKeep => Some ["e=nil;r=ft"]
  | DErr => Some ["e=parse"]
  | DOr a b => match alts a, alts b with Some x, Some y => Some (x ++ y)%list | _, _ => None end
  end.
Fixpoint dedup (l : list string) : list string :=
  match l with [] => [] | x :: r => if existsb (String.eqb x) r then dedup r else x :: dedup r end.
Definition pr_demand (d : cdemand) : string :=
  match alts d with None => "*" | Some l => join " || " (dedup l) end.

Definition out_kind (o1 o2 : out bool) : string :=
  match o1, o2 with
  | Panic k, _ | _, Panic k => "m:panic"
  | Ret _ (Some _), _ | _, Ret _ (Some _) => "m:err"
  | Ret a None, Ret b None | Ret a None, Fall b | Fall a, Ret b None | Fall a, Fall b =>
    if Bool.eqb a b then "m:set" else "m:keep"
  end.

Definition op_tag (o : cop) : string :=
  match o with OUnk => "op:unk" | OEq => "op:eq" | ONq => "op:nq" | OGt => "op:gt" | OGtq => "op:gtq"
             | OLt => "op:lt" | OLtq => "op:ltq" | OInc => "op:inc" | ODec => "op:dec" end.

Definition all_ops : list cop := [OEq; ONq; OGt; OGtq; OLt; OLtq; OUnk; OInc].

(* ---------- operands: (text, class) ---------- *)
Definition otag := (string * string)%type.

Definition int_operands (i : ikind) (z : Z) : list otag :=
  [(Z_to_string z, "r:equal"); (Z_to_string (z + 1), "r:adj"); (Z_to_string (z - 1), "r:adj");
   (Z_to_string (z + 1000), "r:far"); ("-77", "r:far");
   (Z_to_string (kmax i), "r:bound"); (Z_to_string (kmin i), "r:bound");
   (Z_to_string (kmax i + 1), "r:range"); (Z_to_string (kmin i - 1), "r:range");
   (Z_to_string (kmax i + 6), "r:range"); (Z_to_string (2 ^ bits i + z), "r:range");
   ("99999999999999999999", "r:range"); ("-99999999999999999999", "r:range");
   ("0x5", "r:alt"); ("0b101", "r:alt"); ("0o5", "r:alt"); ("05", "r:alt"); ("+5", "r:alt"); ("1_000", "r:alt"); ("0X7f", "r:alt");
   ("x!", "r:bad"); ("", "r:bad"); ("5.0", "r:bad"); ("1__0", "r:bad"); (" 5", "r:bad"); ("nil", "r:nil")].

Definition float_operands (f : spec_float) : list otag :=
  ((match render_float f with Some t => [(t, "r:equal")] | None => [] end) ++
  [("1.5", "r:far"); ("1.5000000000000002", "r:adj"); ("1.4999999999999998", "r:adj"); ("1.50000000000000001", "r:adj");
   ("1.5000001", "r:adj"); ("1.50000001", "r:adj"); ("-1.25", "r:far"); ("-1.2500000000000002", "r:adj");
   ("-125.125", "r:far"); ("-125.12500000000001", "r:adj"); ("1152921504606846976", "r:far"); ("1152921504606846977", "r:adj");
   ("1152921504606847200", "r:adj");
   ("0", "r:far"); ("-0", "r:far"); ("0.0000001", "r:adj"); ("5e-324", "r:bound"); ("1e-400", "r:bound");
   ("3.4028234663852886e38", "r:bound"); ("3.4028235677973366e38", "r:range"); ("1e39", "r:range"); ("-1e39", "r:range");
   ("1.7976931348623157e308", "r:bound"); ("1e400", "r:range");
   ("15e-1", "r:alt"); ("+1.5", "r:alt"); (".5", "r:alt"); ("1.", "r:alt"); ("1E2", "r:alt");
   ("inf", "r:alt"); ("-Inf", "r:alt"); ("+Infinity", "r:alt"); ("NaN", "r:alt");
   ("x!", "r:bad"); ("", "r:bad"); ("1e", "r:bad"); ("1.5.2", "r:bad"); ("--1", "r:bad"); ("nil", "r:nil")])%list.

Definition string_operands (s : string) : list otag :=
  [(s, "r:equal"); (s ++ "a", "r:adj"); (String.substring 0 (String.length s - 1) s, "r:adj");
   ("ab", "r:far"); ("aa", "r:adj"); ("ac", "r:adj"); ("b", "r:far"); ("zz", "r:far"); ("", "r:bound");
   (multibyte, "r:far"); ("AB", "r:far"); ("x;y", "r:far"); ("nil", "r:nil")].

Definition bool_operands : list otag :=
  [("true", "r:equal"); ("false", "r:equal"); ("1", "r:alt"); ("0", "r:alt"); ("t", "r:alt"); ("F", "r:alt");
   ("TRUE", "r:alt"); ("False", "r:alt"); ("yes", "r:bad"); ("tRUE", "r:bad"); ("", "r:bad"); ("2", "r:bad"); ("nil", "r:nil")].

Definition bytes_operands (d : list ascii) : list otag :=
  [(string_of_bytes d, "r:equal"); (string_of_bytes d ++ "z", "r:adj"); ("xy", "r:far"); ("xz", "r:adj"); ("x", "r:adj");
   ("", "r:bound"); ("nil", "r:nil")].

Definition byte_operands : list otag :=
  [("A", "r:equal"); ("65", "r:alt"); ("B", "r:adj"); ("", "r:bound"); ("0", "r:far"); ("nil", "r:nil")].

Definition general_operands : list otag :=
  [("nil", "r:nil"); ("0", "r:far"); ("x!", "r:bad"); ("", "r:bound"); ("false", "r:far"); ("5", "r:far")].

Definition dedup_ot (l : list otag) : list otag :=
  fold_left (fun acc x => if existsb (fun y => String.eqb (fst x) (fst y)) acc then acc else (acc ++ [x])%list) l [].

(* what the operands are chosen around: the element the path denotes (zero value below an absent key) *)
Definition operands_for (n : node) (v : val) (path : list string) : list otag * string :=
  match navz n v path with
  | NElem en ev =>
    let x := if n_ptr en then match ev with VPtr (Some y) => Some y | _ => None end else Some ev in
    let cls := if n_ptr en then (match x with Some _ => "el:ptrleaf" | None => "el:nilptr" end) else "el:leaf" in
    match spec_kind en with
    | None => (general_operands, if n_ptr en then "el:ptrcont" else "el:cont")
    | Some k =>
      let l :=
        match k, x with
        | LScalar (SInt i), Some (VInt z) => int_operands i z
        | LScalar (SInt i), _ => int_operands i 0
        | LScalar (SF32 | SF64), Some (VFloat f) => float_operands f
        | LScalar (SF32 | SF64), _ => float_operands (S754_zero false)
        | LScalar SString, Some (VStr s) => string_operands s
        | LScalar SString, _ => string_operands ""
        | LScalar SBool, _ => bool_operands
        | LScalar SByte, _ => byte_operands
        | LBytes, Some (VBytes _ d _) => bytes_operands d
        | LBytes, _ => bytes_operands []
        end in
      (dedup_ot l, cls)
    end
  | NNone _ => (general_operands, "el:none")
  | NBad => (general_operands, "el:badseg")
  | NUnspec => (general_operands, "el:past")
  end.

Definition hex_or_dash (s : string) : string :=
  match s with EmptyString => "-" | _ => hex_of_bytes (bytes_of_string s) end.

(* (operand, operator) pairs of one (value, path): one rotating operator per operand (every other
   operand of long lists, the choice rotating with the path) + all six operators on the first
   operand of every fifth (thorough: third) leaf path *)
Definition rot {A} (k : nat) (l : list A) (d : A) : A := nth (Nat.modulo k (List.length l)) l d.

Definition pairs (tier : Z) (sel : nat) (leaf silent : bool) (ops : list otag) : list (otag * cop) :=
  let idx := combine (seqn (List.length ops)) ops in
  let long := Nat.ltb 8 (List.length ops) in
  let keep := filter (fun io : nat * otag =>
                        negb long || negb leaf || Nat.eqb (Nat.modulo (fst io + sel) 2) 0
                        || String.eqb (snd (snd io)) "r:nil" || String.eqb (snd (snd io)) "r:equal") idx in
  let keep := if leaf then keep else
                if silent then filter (fun io : nat * otag => Nat.eqb (Nat.modulo (fst io + sel) 6) 0) keep else
                filter (fun io : nat * otag => Nat.ltb (Nat.modulo (fst io + sel) 3) 1 || Nat.eqb (fst io) 0) keep in
  (map (fun io : nat * otag => (snd io, rot (Nat.div (fst io + sel) 2 + sel + Nat.div (fst io) 7) all_ops OEq)) keep ++
  (if leaf && Nat.eqb (Nat.modulo sel (if Z.eqb tier 0 then 5 else 3)) 0
   then match ops with o :: _ => map (fun c => (o, c)) [OEq; ONq; OGt; OGtq; OLt; OLtq] | [] => [] end
   else []))%list.

Definition dedup_pairs (l : list (otag * cop)) : list (otag * cop) :=
  fold_left (fun acc x =>
               if existsb (fun y => String.eqb (fst (fst x)) (fst (fst y)) && Z.eqb (cop_num (snd x)) (cop_num (snd y))) acc
               then acc else (acc ++ [x])%list) l [].

Definition case_lines (tier : Z) (u : string * ty) : list string :=
  let n := root_node u in
  flat_map (fun iv : nat * val =>
    let '(vi, v) := iv in
    flat_map (fun jp : nat * tagged =>
      let '(j, (path, ptag)) := jp in
      let '(ops, cls) := operands_for n v path in
      let leaf := (String.eqb cls "el:leaf" || String.eqb cls "el:ptrleaf" || (String.eqb cls "el:nilptr" && Nat.eqb (Nat.modulo (vi + j) 3) 0))
                  && (negb (String.eqb ptag "absent") || Nat.eqb (Nat.modulo (vi + j) 4) 0) in
      map (fun oc : otag * cop =>
        let '((rgt, rtag), op) := oc in
        let o1 := compare n (APtr (Some v)) op rgt path false in
        let o2 := compare n (APtr (Some v)) op rgt path true in
        let opn := Z_to_string (cop_num op) in
        fst u ++ "." ++ nat_to_string vi ++ ".cmp." ++ path_text path ++ "." ++ opn ++ "." ++ hex_or_dash rgt ++ tab ++
        "cmp," ++ ptag ++ "," ++ cls ++ "," ++ op_tag op ++ "," ++ rtag ++ "," ++ out_kind o1 o2 ++ tab ++
        fst u ++ ";p;cmp;" ++ opn ++ ";" ++ hex_or_dash rgt ++ ";" ++ path_text path ++ ";" ++ pr_val true v ++ tab ++
        pr_obs o1 o2 ++ tab ++ pr_demand (cmp_demand n v path op rgt))
      (dedup_pairs (pairs tier (vi + j) leaf (String.eqb cls "el:cont" || String.eqb cls "el:past") ops)))
    (combine (seqn (List.length (paths n v))) (paths n v)))
  (combine (seqn (List.length (variants n))) (variants n)).

Definition cases (tier : Z) (seed : Z) : list string := flat_map (case_lines tier) (emit_units tier).
