(* Gen/Spellings.v - the ways an integer can be written as an operand text under
   Go's base-0 grammar (strconv.ParseInt/ParseUint with base 0), and the near
   misses of that grammar.  Enumeration helper shared by the c16 and strconv
   generators; nothing here says what a text means - that is Base/Strconv.v.

   For a number of magnitude m the forms are
     dec      plain decimal                                   15
     zdec     decimal digits behind a leading zero            015   (read as octal, or not a number: 019)
     oct0     octal digits behind a leading zero              017
     0o 0x 0b prefixed octal / hex / binary, both letter cases
     underscores in legal and illegal places                  1_5  0_17  0x_f  _15  15_  1__5  0_15
     blanks before / after                                    " 15"  "15 "
     padN...  zero padded to N characters (widths around the 18..20 digits of the 64-bit bounds)
     dec0     one more digit                                  150   (overflow next to the bounds)
   each with the sign of the number, and the common ones also with the other
   signs ("+15", "-15"; "+" and "-" are not part of an unsigned operand). *)
From Coq Require Import List Bool Ascii String ZArith NArith.
From Verif Require Import Util.
Import ListNotations.
Local Open Scope string_scope.

Fixpoint base_digits (fuel : nat) (base n : N) (acc : string) : string :=
  match fuel with
  | O => acc
  | S f =>
    let acc' := String (hex_digit (N.modulo n base)) acc in
    let q := N.div n base in
    if N.eqb q 0 then acc' else base_digits f base q acc'
  end.
(* enough fuel for every base >= 2: number of binary digits + 1 *)
Definition N_in_base (base n : N) : string := base_digits (S (N.to_nat (N.size n))) base n "".

Definition upper_char (c : ascii) : ascii :=
  let n := N_of_ascii c in if (N.leb 97 n && N.leb n 122)%bool then ascii_of_N (n - 32) else c.
Fixpoint upper (s : string) : string :=
  match s with EmptyString => "" | String c r => String (upper_char c) (upper r) end.

Fixpoint zeros (n : nat) : string := match n with O => "" | S k => String "0" (zeros k) end.
Definition pad_to (w : nat) (s : string) : string := zeros (w - String.length s) ++ s.
(* an underscore (or two) behind the first character *)
Definition under_after_first (u : string) (s : string) : string :=
  match s with String c r => String c (u ++ r) | EmptyString => u end.

(* (class, text) *)
Definition spelling : Type := (string * string)%type.

Definition width_name (w : nat) : string := nat_to_string w.

(* the forms of a magnitude, without sign *)
Definition forms (full : bool) (m : N) : list spelling :=
  let d := N_to_string m in
  let o := N_in_base 8 m in
  let h := N_in_base 16 m in
  let b := N_in_base 2 m in
  [("dec", d); ("zdec", "0" ++ d); ("oct0", "0" ++ o);
   ("0o", "0o" ++ o); ("0x", "0x" ++ h); ("0X", "0X" ++ upper h); ("0b", "0b" ++ b);
   ("0_oct", "0_" ++ o); ("0x_", "0x_" ++ h); ("d_d", under_after_first "_" d);
   ("_dec", "_" ++ d); ("dec_", d ++ "_"); ("0_dec", "0_" ++ d); ("d__d", under_after_first "__" d);
   ("dec0", d ++ "0")] ++
  flat_map (fun w => [("pad" ++ width_name w ++ "dec", pad_to w d); ("pad" ++ width_name w ++ "oct", pad_to w ("0" ++ o))])
           ([18; 19; 20] ++ (if full then [2; 3; 17; 21; 22; 23] else []))%list ++
  (if full
   then [("zzdec", "00" ++ d); ("oct00", "00" ++ o); ("0O", "0O" ++ o); ("0B", "0B" ++ b); ("0x0", "0x0" ++ h);
         ("0o_", "0o_" ++ o); ("0b_", "0b_" ++ b); ("0_x", "0_x" ++ h); ("0x__", "0x__" ++ h); ("hex", h); ("0xg", "0x" ++ h ++ "g");
         ("dec9", d ++ "9"); ("deca", d ++ "a"); ("dec.0", d ++ ".0"); ("dece0", d ++ "e0")]
   else []).

Definition ch1 (n : nat) : string := String (ascii_of_nat n) "".

(* every spelling of z: its forms under its own sign; the common forms under
   the other signs; blanks around the plain decimal *)
Definition spellings (full : bool) (z : Z) : list spelling :=
  let m := Z.abs_N z in
  let sg := if (z <? 0)%Z then "-" else "" in
  let fs := forms full m in
  let common := filter (fun p : spelling =>
                          existsb (String.eqb (fst p))
                                  (["dec"; "zdec"; "oct0"] ++ (if full then ["0x"; "0b"; "0o"; "d_d"; "pad18dec"; "pad19dec"; "pad19oct"; "pad20dec"] else []))%list)
                       fs in
  let others := if (z <? 0)%Z then [("plus", "+"); ("nosign", "")] else [("plus", "+"); ("minus", "-")] in
  let d := N_to_string m in
  map (fun p : spelling => (fst p, sg ++ snd p)) fs ++
  flat_map (fun s : spelling => map (fun p : spelling => (fst s ++ "-" ++ fst p, snd s ++ snd p)) common) others ++
  [("blank-dec", " " ++ sg ++ d); ("dec-blank", sg ++ d ++ " "); ("sign-blank", (if (z <? 0)%Z then "-" else "+") ++ " " ++ d)] ++
  (if full then [("tab-dec", ch1 9 ++ sg ++ d); ("dec-nl", sg ++ d ++ ch1 10); ("dec-nul", sg ++ d ++ ch1 0);
                 ("signsign", "--" ++ d); ("plusminus", "+-" ++ d); ("sign-only", (if (z <? 0)%Z then "-" else "+"))] else []).

(* one text once (the first class wins): "1_5" of a one-digit number is the number itself, etc. *)
Fixpoint dedup_sp (seen : list string) (l : list spelling) : list spelling :=
  match l with
  | [] => []
  | p :: r => if existsb (String.eqb (snd p)) seen then dedup_sp seen r else p :: dedup_sp (snd p :: seen) r
  end.
Definition spellings_of (full : bool) (z : Z) : list spelling := dedup_sp [] (spellings full z).

(* numbers around the widths where the 64-bit bounds lie: 18, 19 and 20 digits *)
Definition e18 : Z := 1000000000000000000.
Definition e19 : Z := 10000000000000000000.
