(* Gen/GenStrconv.v - validation stream for Base/Strconv.v: text inputs, and what
   ParseInt(s,0,0), ParseUint(s,0,0), Atoi, ParseBool and the two integer
   recognisers of assign_builtin.go yield. *)
From Coq Require Import List Arith Bool Ascii String ZArith NArith.
From Verif Require Import Util Ints Strconv Spellings.
Import ListNotations.
Local Open Scope string_scope.

Definition tab : string := String (ascii_of_nat 9) "".
Definition pr_oz (o : option Z) : string := match o with Some z => Z_to_string z | None => "err" end.
Definition pr_ob (o : option bool) : string := match o with Some true => "true" | Some false => "false" | None => "err" end.

Definition outcome (s : string) : string :=
  "pi=" ++ pr_oz (parse_int s 0 64) ++ ";pu=" ++ pr_oz (parse_uint s 0 (2 ^ 64 - 1)%Z) ++
  ";atoi=" ++ pr_oz (atoi s) ++ ";pb=" ++ pr_ob (parse_bool s) ++
  ";ai=" ++ pr_oz (assign_atoi s) ++ ";au=" ++ pr_oz (assign_atou s).

Definition case_line (id : string) (tag : string) (s : string) : string :=
  let o := outcome s in
  id ++ tab ++ tag ++ tab ++ hex_of_bytes (bytes_of_string s) ++ tab ++ o ++ tab ++ o.

Definition fixed : list string :=
  [""; "0"; "1"; "-1"; "+1"; "+"; "-"; "00"; "007"; "08"; "0x"; "0x1f"; "0X1F"; "0b101"; "0B2"; "0o17"; "0O8";
   "0_1"; "0x_1f"; "1_000"; "_1"; "1_"; "1__0"; "0_x1"; "-0x10"; "+0b1"; "- 1"; " 1"; "1 "; "1e3"; "1.5";
   "9223372036854775807"; "9223372036854775808"; "-9223372036854775808"; "-9223372036854775809";
   "18446744073709551615"; "18446744073709551616"; "99999999999999999999999"; "0xffffffffffffffff"; "0x10000000000000000";
   "0777"; "0o"; "0b"; "0x_"; "a"; "z"; "nil"; "true"; "True"; "TRUE"; "t"; "T"; "tRUE"; "false"; "False"; "FALSE"; "f"; "F";
   "+0"; "-0"; "0x7fffffffffffffff"; "-0x8000000000000000"; "-0x8000000000000001"; "1_2_3"; "0_0"; "0__0"; "0x1_"; "12a"; "٣"].

(* every base-0 spelling (Gen/Spellings.v) of small numbers, of numbers with 17..20 digits
   and of the 64-bit bounds: leading zeros, prefixes, underscores, signs, padding *)
Definition spelled_numbers (full : bool) : list Z :=
  [0; 7; 8; 15; 19; -19; e18 - 1; - e18; e19 - 1; e19; 9223372036854775807; -9223372036854775808; 18446744073709551615]%Z ++
  (if full then [1; -1; 9; 10; 63; 64; 100; -100; 255; 511; 512; e18 / 10 - 1; e18 / 10; e18; 1 - e18; 9223372036854775808;
                 -9223372036854775809; 18446744073709551616; - e19]%Z else []).
Definition spelled (full : bool) : list (string * string) :=
  dedup_sp [] (flat_map (fun z => map (fun p : spelling => ("spelling,sp=" ++ fst p, snd p)) (spellings full z)) (spelled_numbers full)).

Definition alphabet : string := "0123456789+-_xXbBoOaAfF. e".

Fixpoint rnd_string (len : nat) (s : rng) : string * rng :=
  match len with
  | O => ("", s)
  | S l => let '(k, s1) := rng_nat s (String.length alphabet) in
           let c := match String.get k alphabet with Some c => c | None => "0"%char end in
           let '(r, s2) := rnd_string l s1 in (String c r, s2)
  end.

Fixpoint rnd_cases (count : nat) (s : rng) (idx : nat) : list string :=
  match count with
  | O => []
  | S c => let '(len, s1) := rng_nat s 7 in
           let '(str, s2) := rnd_string len s1 in
           case_line ("r" ++ nat_to_string idx) "random" str :: rnd_cases c s2 (S idx)
  end.

Fixpoint number {A} (i : nat) (l : list A) : list (nat * A) :=
  match l with [] => [] | x :: r => (i, x) :: number (S i) r end.

Definition cases (tier : Z) (seed : Z) : list string :=
  map (fun p : nat * string => case_line ("f" ++ nat_to_string (fst p)) "fixed" (snd p)) (number 0 fixed) ++
  map (fun p : nat * (string * string) => case_line ("s" ++ nat_to_string (fst p)) (fst (snd p)) (snd (snd p)))
      (number 0 (spelled (negb (Z.eqb tier 0)))) ++
  rnd_cases (if Z.eqb tier 0 then 3000 else 30000) (rng_of_seed seed) 0.
