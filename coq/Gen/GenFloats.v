(* Gen/GenFloats.v - validation stream for Base/Floats.v: decimal texts, what
   ParseFloat / the float recogniser yield, subtraction, tolerance comparison,
   ordering, float32 conversion and 'f' rendering. *)
From Coq Require Import List Arith Bool Ascii String ZArith NArith Floats.SpecFloat.
From Verif Require Import Util Ints Strconv Floats.
Import ListNotations.
Local Open Scope string_scope.

Definition tab : string := String (ascii_of_nat 9) "".
Definition pr_of (o : option spec_float) : string := match o with Some f => pr_float f | None => "err" end.
Definition b01 (b : bool) : string := if b then "1" else "0".

Definition outcome (ta tb : string) (withrender : bool) : string :=
  let pa := parse_float ta in let pb := parse_float tb in
  "pa=" ++ pr_of pa ++ ";pb=" ++ pr_of pb ++ ";af=" ++ pr_of (assign_atof ta) ++
  match pa, pb with
  | Some a, Some b =>
    ";sub=" ++ pr_float (f64_sub a b) ++ ";le=" ++ b01 (equal_float64 a b float_precision) ++
    ";lt=" ++ b01 (f64_ltb a b) ++ ";eq=" ++ b01 (f64_eqb a b) ++
    ";f32=" ++ pr_float (to_f64 (to_f32 a)) ++
    (if withrender then ";rd=" ++ match render_float a with Some t => t | None => "?" end else "")
  | _, _ => ""
  end.

Definition in_render_domain (t : string) : bool :=
  match parse_float t with Some a => match render_float a with Some _ => true | None => false end | None => false end.

Definition case_line (id tag ta tb : string) : string :=
  let r := in_render_domain ta in
  let o := outcome ta tb r in
  id ++ tab ++ tag ++ tab ++ hex_of_bytes (bytes_of_string ta) ++ "," ++ hex_of_bytes (bytes_of_string tb) ++ ",R" ++ b01 r
     ++ tab ++ o ++ tab ++ o.

Definition fixed : list (string * string) :=
  [("0", "0"); ("-0", "0"); ("1", "1.001"); ("1", "1.0009"); ("1", "1.0011"); ("1.001", "1"); ("0.1", "0.2"); ("0.3", "0.1");
   ("1e3", "1000"); ("1E3", "1e+3"); ("1e-3", "0.001"); ("1.5", "1.5"); (".5", "0.5"); ("5.", "5"); ("1.e2", "100");
   ("", "1"); (".", "1"); ("e5", "1"); ("1e", "1"); ("1e+", "1"); ("+", "1"); ("-", "1"); ("1.2.3", "1"); ("1 ", "1"); (" 1", "1");
   ("inf", "1"); ("-inf", "inf"); ("+Inf", "Infinity"); ("infinity", "-INFINITY"); ("infi", "1"); ("infinit", "1"); ("infinityx", "1");
   ("nan", "1"); ("NaN", "nan"); ("+nan", "1"); ("-nan", "1");
   ("1e308", "1e308"); ("1.7976931348623157e308", "1"); ("1.7976931348623159e308", "1"); ("1e309", "1"); ("1e400", "1"); ("1e999999", "1");
   ("1e-323", "0"); ("4.9e-324", "0"); ("2.4e-324", "0"); ("2.5e-324", "0"); ("1e-400", "0"); ("1e-99999", "0"); ("0e999999", "0");
   ("9007199254740993", "9007199254740992"); ("9007199254740991", "1"); ("123456789012345678901234567890", "1");
   ("0.1000000000000000055511151231257827", "0.1"); ("2.2250738585072014e-308", "0"); ("2.2250738585072011e-308", "0");
   ("3.4028234663852886e38", "0"); ("3.4028235677973366e38", "0"); ("1e-45", "0"); ("7e-46", "0"); ("1.17549435e-38", "0");
   ("16777217", "16777216"); ("0.5", "0.25"); ("0.125", "3.75"); ("1234.5", "-1234.5"); ("100", "99.999"); ("100", "99.9989");
   ("-1.5e-3", "0"); ("001.500", "1.5"); ("+1.5", "1.5"); ("1d5", "1"); ("1,5", "1"); ("12a", "1"); ("0.001", "0"); ("0.0010000000000000002", "0")].

Definition pick_str (s : rng) (l : list string) : string * rng := pick_list s "" l.

Definition rnd_number (s : rng) : string * rng :=
  let '(sg, s1) := pick_str s [""; ""; "-"; "+"] in
  let '(ip, s2) := pick_str s1 ["0"; "1"; "7"; "12"; "100"; "999"; "1234"; "65536"; "16777216"; "123456789"; ""; "4503599627370496"; "3"; "42"] in
  let '(fp, s3) := pick_str s2 [""; ""; ".0"; ".5"; ".25"; ".125"; ".001"; ".0009"; ".0011"; ".1"; ".3"; ".999"; ".0625"; ".75"; "."; ".333333333333"] in
  let '(ep, s4) := pick_str s3 [""; ""; ""; "e0"; "e1"; "e-1"; "E2"; "e+3"; "e-3"; "e10"; "e-10"; "e22"; "e-22"; "e300"; "e-300"; "e"; "e-"] in
  (sg ++ ip ++ fp ++ ep, s4).

Definition garbage_alphabet : string := "0123456789+-. eEinfa,".
Fixpoint rnd_garbage (len : nat) (s : rng) : string * rng :=
  match len with
  | O => ("", s)
  | S l => let '(k, s1) := rng_nat s (String.length garbage_alphabet) in
           let c := match String.get k garbage_alphabet with Some c => c | None => "0"%char end in
           let '(r, s2) := rnd_garbage l s1 in (String c r, s2)
  end.

Fixpoint rnd_cases (count : nat) (s : rng) (idx : nat) : list string :=
  match count with
  | O => []
  | S c =>
    let '(k, s0) := rng_nat s 5 in
    let '(ta, s1) := if Nat.eqb k 0 then let '(len, s') := rng_nat s0 6 in rnd_garbage len s' else rnd_number s0 in
    let '(tb, s2) := rnd_number s1 in
    case_line ("r" ++ nat_to_string idx) (if Nat.eqb k 0 then "garbage" else "number") ta tb :: rnd_cases c s2 (S idx)
  end.

Fixpoint number {A} (i : nat) (l : list A) : list (nat * A) :=
  match l with [] => [] | x :: r => (i, x) :: number (S i) r end.

Definition cases (tier : Z) (seed : Z) : list string :=
  map (fun p : nat * (string * string) => case_line ("f" ++ nat_to_string (fst p)) "fixed" (fst (snd p)) (snd (snd p))) (number 0 fixed) ++
  rnd_cases (if Z.eqb tier 0 then 2000 else 20000) (rng_of_seed seed) 0.
