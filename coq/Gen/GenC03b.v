(* Gen/GenC03b.v - units of C03's own for the boundary sweep of Gen/GenC03.v (bnd_block): the
   shared emit units of the quick tier hold elements of the representative kinds only (bool, int32,
   uint64, byte, float64, string, and one int).  Here: one small unit per integer and float kind
   holding an element of that kind as struct field, pointer field, slice element and map value,
   so that every boundary text (in two of its four forms in the quick tier, in all four in the
   thorough tier) and every typed boundary source is assigned into every kind.  All units are inside the sound fragment (Properties/C03.v,
   C03_bunits_sound). *)
From Coq Require Import List Bool String Ascii ZArith Arith.
From Verif Require Import Util Ints Node GoSrc Value Shapes GenUnits GenC03.
Import ListNotations.
Local Open Scope string_scope.

Definition num_kinds : list skind := List.app (map SInt all_ikinds) [SF32; SF64].

Definition is_u8 (k : skind) : bool := String.eqb (skind_name k) "uint8".

(* B<kind> struct { F k; P *k; S []k; M map[string]k }   ([]uint8 is []byte: no S there) *)
Definition bunit (k : skind) : string * ty :=
  ("B" ++ skind_name k,
   TStruct (List.app [("F", TScalar k); ("P", TPtr (TScalar k))]
           (List.app (if is_u8 k then [] else [("S", TSlice (TScalar k))])
                     [("M", TMap t_string (TScalar k))]))).

Definition bunits : list (string * ty) := map bunit num_kinds.

(* the unit lines the runner of this stream links *)
Definition emit_cases (tier : Z) (seed : Z) : list string := map GenUnits.case_line bunits.

Definition cases (tier : Z) (seed : Z) : list string := bnd_block (if (tier =? 0)%Z then 2%nat else 4%nat) (flat_map (sites_of 6) bunits).
