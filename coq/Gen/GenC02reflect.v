(* Gen/GenC02reflect.v - ReflectInspector.Get on the shipped types and on the defined-type units (GenC02.defined_units). *)
From Coq Require Import ZArith.
From Verif Require Import GenC02.
Definition cases (tier : Z) (seed : Z) := GenC02.reflect_cases tier seed.
