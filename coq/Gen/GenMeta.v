(* Gen/GenMeta.v - the `meta` stream (C14): every linked generated type is retrievable from
   the registry under its declared name and reports that name. *)
From Coq Require Import List Bool String Ascii ZArith.
From Verif Require Import Util Node GoSrc Shapes GenUnits.
Import ListNotations.
Local Open Scope string_scope.

Definition cases (tier : Z) (seed : Z) : list string :=
  map (fun u : string * ty =>
         fst u ++ tab ++ "meta" ++ tab ++ fst u ++ ";v;meta;-;-" ++ tab ++ "name=" ++ fst u ++ tab ++ "name=" ++ fst u)
      (emit_units tier).
