(* Gen/GenC08.v - the C08 stream: Reset, and histories of Reset-then-CopyTo cycles on
   one long-lived destination (byte buffer reset alongside), on generated inspectors.

   Every input is run twice: mode `raw` prints the destination as it is (nil and empty
   collections, nil pointers and pointers to zero values told apart; only an empty
   []byte prints the same nil or not) and ties the model to the code; mode `canon`
   prints it in the normal form of Spec/EmptySpec.v, which is what the property speaks
   about, next to the native emptiness verdict after every Reset and whether every
   source still reads as before at the end of the history. *)
From Coq Require Import List Bool String Ascii ZArith Arith NArith.
From Verif Require Import Util Ints Node GoSrc Value Outcome InsReset InsCopy EmptySpec Shapes EnumVal GenUnits GenC10.
Import ListNotations.
Local Open Scope string_scope.

(* ---------- printers ---------- *)
(* raw observation form: Value.dump, but an empty []byte prints "b" nil or not (whether a
   bufferized empty byte slice is nil depends on the buffer being nil at that moment) *)
Fixpoint norm_b (v : val) {struct v} : val :=
  match v with
  | VBytes _ [] _ => VBytes false [] 0
  | VStruct fs => VStruct ((fix go (l : list val) : list val := match l with [] => [] | x :: r => norm_b x :: go r end) fs)
  | VSlice b es e => VSlice b ((fix go (l : list val) : list val := match l with [] => [] | x :: r => norm_b x :: go r end) es) e
  | VMap b kvs => VMap b ((fix go (l : list (val * val)) : list (val * val) :=
                             match l with [] => [] | (k, x) :: r => (norm_b k, norm_b x) :: go r end) kvs)
  | VPtr (Some x) => VPtr (Some (norm_b x))
  | _ => v
  end.
(* Go cannot tell []uint8 from []byte (byte is an alias), so the harness prints every slice of uint8
   in the bytes form; the emitter does tell them apart (type name "[]uint8": a plain slice, copied
   element by element) and so do the value trees.  [u8fix] rewrites the slices of a []uint8 node into
   the bytes form before printing - a printing convention only. *)
Definition is_u8_elem (en : node) : bool :=
  negb (n_ptr en) &&
  match n_typ en with typeBasic => String.eqb (n_typu en) "uint8" || String.eqb (n_typu en) "byte" | _ => false end.
Definition byte_of_val (v : val) : ascii := match v with VInt z => ascii_of_N (Z.to_N z) | _ => ascii_of_N 0 end.

Fixpoint u8fix (n : node) (v : val) {struct n} : val :=
  match n with
  | Node ty tn tu nm pk pki p chld mk mv sl hb hc =>
    let inner (x : val) : val :=
      match ty with
      | typeStruct =>
        match x with
        | VStruct fs => VStruct ((fix go (cs : list node) (fs : list val) : list val :=
                                    match cs, fs with c :: cr, f :: fr => u8fix c f :: go cr fr | _, _ => fs end) chld fs)
        | _ => x
        end
      | typeMap =>
        match x, mk, mv with
        | VMap b kvs, Some kn, Some vn => VMap b (map (fun kv => (u8fix kn (fst kv), u8fix vn (snd kv))) kvs)
        | _, _, _ => x
        end
      | typeSlice =>
        if String.eqb tn "[]byte" then x else
        match x, sl with
        | VSlice b es e, Some en =>
          if is_u8_elem en then VBytes b (map byte_of_val es) e else VSlice b (map (u8fix en) es) e
        | _, _ => x
        end
      | typeBasic => x
      end in
    if p then match v with VPtr (Some x) => VPtr (Some (inner x)) | _ => v end else inner v
  end.

Definition dumpb (n : node) (v : val) : string := dump (norm_b (u8fix n v)).
Definition dumpc (pz : bool) (n : node) (v : val) : string := dump (canon pz (u8fix n v)).

Definition bits (l : list bool) : string := String.concat "" (map (fun b : bool => if b then "1" else "0") l).

Definition model_cycles (mode : string) (n : node) (d0 : val) (srcs : list val) : string :=
  match run_cycles n d0 srcs with
  | None => "?"
  | Some st =>
    let ds := map snd st in let zs := map (fun p => is_empty (fst p)) st in
    if String.eqb mode "raw" then "e=nil;d=" ++ String.concat "|" (map (dumpb n) ds)
    else "e=nil;z=" ++ bits zs ++ ";c=" ++ String.concat "|" (map (dumpc true n) ds) ++ ";same=1"
  end.

(* the demand: after every Reset the destination is empty; after every cycle it is that
   cycle's source in normal form; the sources are not touched *)
Definition spec_cycles (mode : string) (n : node) (srcs : list val) : string :=
  if String.eqb mode "raw" then "*"
  else "e=nil;z=" ++ bits (map (fun _ => true) srcs) ++ ";c=" ++ String.concat "|" (map (dumpc true n) srcs) ++ ";same=1".

Definition model_reset (mode : string) (n : node) (v : val) : string :=
  match reset_method n (APtr (Some v)) with
  | Ret (Some v') None =>
    if String.eqb mode "raw" then "e=nil;d=" ++ dumpb n v'
    else "e=nil;z=" ++ bits [is_empty v'] ++ ";c=" ++ dumpc true n v'
  | Ret _ e => "e=" ++ pr_err e
  | Panic k => "PANIC:" ++ pr_pkind k
  | Fall _ => "?"
  end.
(* "Reset through a pointer leaves the value empty": the normal form of an empty value of the
   type is that of its zero value *)
Definition spec_reset (mode : string) (n : node) : string :=
  if String.eqb mode "raw" then "*" else "e=nil;z=1;c=" ++ dumpc true n (zero_val n).

(* ---------- histories ---------- *)
Definition modes : list string := ["raw"; "canon"].

Definition size_tag (v : val) : string := if is_empty v then "empty" else "full".

(* value classes by position in [variants]: 0 = zero-ish / nil-heavy, last = dense *)
Definition hist_tag (d0 : val) (srcs : list val) : string :=
  "len" ++ nat_to_string (List.length srcs) ++ ",d0" ++ size_tag d0.

Fixpoint rand_seq (fuel : nat) (s : rng) (vs : list val) : list val * rng :=
  match fuel with
  | O => ([], s)
  | S f => let '(v, s1) := pick_list s (VInt 0) vs in
           let '(r, s2) := rand_seq f s1 vs in (v :: r, s2)
  end.

Fixpoint rand_seqs (count : nat) (s : rng) (vs : list val) : list (list val) :=
  match count with
  | O => []
  | S c => let '(k, s1) := rng_nat s 4 in
           let '(q, s2) := rand_seq (3 + k) s1 vs in
           q :: rand_seqs c s2 vs
  end.

Definition histories (tier : Z) (seed : Z) (uname : string) (vs : list val) : list (val * list val) :=
  let zero := nth 0 vs (VInt 0) in
  let dense := last vs (VInt 0) in
  let d0s := [zero; dense] in
  let pairs := flat_map (fun a => map (fun b => [a; b]) vs) vs in
  let rnd := rand_seqs (if Z.eqb tier 0 then 3 else 12)
                       (rng_of_seed (seed + Z.of_N (hash_str uname 7))) vs in
  flat_map (fun d0 => map (fun h => (d0, h)) ((map (fun a => [a]) vs ++ pairs ++ rnd)%list)) d0s.

Definition sep : string := ";".

Definition reset_lines (u : string * ty) : list string :=
  let n := root_node u in
  flat_map (fun iv : nat * val =>
    let '(vi, v) := iv in
    map (fun mode =>
      fst u ++ ".r" ++ nat_to_string vi ++ "." ++ mode ++ tab ++
      "reset," ++ mode ++ "," ++ size_tag v ++ tab ++
      fst u ++ ";p;reset;" ++ mode ++ sep ++ pr_val true v ++ tab ++
      model_reset mode n v ++ tab ++ spec_reset mode n) modes)
  (combine (seqn (List.length (variants n))) (variants n)).

Definition cycle_lines (tier seed : Z) (u : string * ty) : list string :=
  let n := root_node u in
  let vs := variants n in
  let hs := histories tier seed (fst u) vs in
  flat_map (fun ih : nat * (val * list val) =>
    let '(hi, (d0, srcs)) := ih in
    let cap := nth (Nat.modulo hi 3) [0%nat; 7%nat; 4096%nat] 0%nat in
    map (fun mode =>
      fst u ++ ".c" ++ nat_to_string hi ++ "." ++ mode ++ tab ++
      "cycle," ++ mode ++ "," ++ hist_tag d0 srcs ++ ",cap" ++ nat_to_string cap ++ tab ++
      fst u ++ ";p;cycle;" ++ mode ++ sep ++ nat_to_string cap ++ sep ++ pr_val true d0 ++ sep ++
        String.concat "|" (map (pr_val true) srcs) ++ tab ++
      model_cycles mode n d0 srcs ++ tab ++ spec_cycles mode n srcs) modes)
  (combine (seqn (List.length hs)) hs).

Definition cases (tier : Z) (seed : Z) : list string :=
  flat_map (fun u => (reset_lines u ++ cycle_lines tier seed u)%list) (emit_units tier).
