(* Gen/GenDeq.v - shared by the C05 and C11 streams: one-position mutations of a value
   (with the dotted field name of the position), option sets, printers. *)
From Coq Require Import List Bool String Ascii ZArith Arith Floats.SpecFloat.
From Verif Require Import Util Ints Strconv Floats Node GoSrc Value Outcome Deq DeqSpec Shapes EnumVal GenUnits.
Import ListNotations.
Local Open Scope string_scope.
Local Open Scope list_scope.

Definition tab : string := GenUnits.tab.
Definition root_node (u : string * ty) : node := parse_ast_decl (pkg_of (fst u)) (imp_of (fst u)) (fst u) (snd u).

(* ---------- mutations ---------- *)
(* tag, names of the struct fields leading to the position (innermost last), mutated value *)
Definition mutn := (string * list string * val)%type.

Definition f64_add := SFadd 53 1024.
Definition d10 : spec_float := Eval vm_compute in f64_of_decimal false 1 (-2).     (* 10 x the default tolerance *)
Definition d01 : spec_float := Eval vm_compute in f64_of_decimal false 1 (-4).     (* 0.1 x *)

Definition fresh_key (k : skind) : val :=
  match k with
  | SString => VStr "zz"
  | SF32 | SF64 => fl 15 (-1)
  | SBool => VBool true
  | _ => VInt 7
  end.

Definition map_mut (f : val -> val) (l : list mutn) : list mutn :=
  map (fun m : mutn => let '(t, fp, x) := m in (t, fp, f x)) l.

Fixpoint muts (n : node) (v : val) {struct n} : list mutn :=
  match n with
  | Node ty tn tu nm pk pki p chld mk mv sl hb hc =>
    let inner (x : val) : list mutn :=
      match ty with
      | typeBasic =>
        match x with
        | VBool b => [("scalar", [], VBool (negb b))]
        | VInt z => [("scalar", [], VInt (if Z.eqb z 0 then 1 else 0))]
        | VStr s => [("string", [], VStr (s ++ "x"))]
        | VFloat f =>
          let fix32 (g : spec_float) := if String.eqb tu "float32" then to_f64 (to_f32 g) else g in
          [("f10", [], VFloat (fix32 (f64_add f d10))); ("f01", [], VFloat (fix32 (f64_add f d01)))]
        | _ => []
        end
      | typeStruct =>
        match x with
        | VStruct fs =>
          (fix go (cs : list node) (gs : list val) (idx : nat) : list mutn :=
             match cs, gs with
             | c :: cr, g :: gr =>
               map (fun m : mutn => let '(t, fp, g') := m in (t, n_name c :: fp, VStruct (upd_nth idx g' fs))) (muts c g)
               ++ go cr gr (S idx)
             | _, _ => []
             end) chld fs 0%nat
        | _ => []
        end
      | typeMap =>
        match x, mk, mv with
        | VMap isnil kvs, Some kn, Some vn =>
          let nk0 := match node_skind kn with Some k => fresh_key k | None => VInt 7 end in
          (* a bool-keyed map has two possible keys: take the one not in use, and no new key when both are *)
          let has (k : val) := existsb (fun kv : val * val => val_eqb (match fst kv with VPtr (Some y) => y | y => y end) k) kvs in
          let nk0 := match nk0 with VBool b => if has (VBool b) then VBool (negb b) else VBool b | _ => nk0 end in
          let full := has nk0 in
          let nk := if n_ptr kn then VPtr (Some nk0) else nk0 in
          (match kvs with
           | [] => [("nilempty", [], VMap (negb isnil) [])]
           | (k0, x0) :: rest => ("key-", [], VMap false rest) :: (if full then [] else [("keyren", [], VMap false ((nk, x0) :: rest))])
           end) ++
          (if full then [] else [("key+", [], VMap false (kvs ++ [(nk, zero_val vn)]))]) ++
          (fix go (pre post : list (val * val)) : list mutn :=
             match post with
             | [] => []
             | (k, e) :: r =>
               map_mut (fun e' => VMap isnil (pre ++ (k, e') :: r)) (muts vn e) ++ go (pre ++ [(k, e)]) r
             end) [] kvs
        | _, _, _ => []
        end
      | typeSlice =>
        if String.eqb tn "[]byte" then
          match x with
          | VBytes isnil d e =>
            (match d with
             | [] => [("nilempty", [], VBytes (negb isnil) [] 0)]
             | c :: r => [("bytes", [], VBytes false ((if Ascii.eqb c "q"%char then "r"%char else "q"%char) :: r) e);
                          ("bytes", [], VBytes false r e)]
             end) ++ [("bytes", [], VBytes false (d ++ ["z"%char]) 0)]
          | _ => []
          end
        else
          match x, sl with
          | VSlice isnil es e, Some en =>
            (match es with
             | [] => [("nilempty", [], VSlice (negb isnil) [] 0)]
             | _ => [("len-", [], VSlice false (removelast es) e)]
             end) ++
            [("len+", [], VSlice false (es ++ [zero_val en]) 0)] ++
            (fix go (pre post : list val) : list mutn :=
               match post with
               | [] => []
               | el :: r => map_mut (fun el' => VSlice isnil (pre ++ el' :: r) e) (muts en el) ++ go (pre ++ [el]) r
               end) [] es
          | _, _ => []
          end
      end in
    if p then
      match v with
      | VPtr (Some x) => ("ptrnil", [], VPtr None) :: map_mut (fun x' => VPtr (Some x')) (inner x)
      | _ => [("ptrset", [], VPtr (Some (zero_val (Node ty tn tu nm pk pki false chld mk mv sl hb hc))))]
      end
    else inner v
  end.

(* ---------- field names ---------- *)
Definition dotted (fp : list string) : string := join "." fp.

Fixpoint strip_coll (n : node) {struct n} : node :=
  match n with
  | Node ty tn tu nm pk pki p chld mk mv sl hb hc =>
    match ty with
    | typeMap => match mv with Some vn => strip_coll vn | None => n end
    | typeSlice => match sl with Some en => strip_coll en | None => n end
    | _ => n
    end
  end.

(* a sibling of the innermost field of [fp] (another field of the same struct) *)
Fixpoint sibling (fp : list string) (n : node) {struct fp} : option (list string) :=
  let s := strip_coll n in
  match fp with
  | [] => None
  | [f] => match find (fun c => negb (String.eqb (n_name c) f)) (n_chld s) with
           | Some c => Some [n_name c]
           | None => None
           end
  | f :: rest =>
    match find (fun c => String.eqb (n_name c) f) (n_chld s) with
    | Some c => option_map (cons f) (sibling rest c)
    | None => None
    end
  end.

(* ---------- options ---------- *)
Definition to_spec (o : option deqopts) : option opt_spec :=
  match o with None => None | Some o => Some (OptSpec (o_prec o) (o_excl o) (o_filt o)) end.

Definition hexs (l : list string) : string := join "," (map (fun s => hex_of_bytes (bytes_of_string s)) l).
Definition pr_opts (o : option deqopts) : string :=
  match o with
  | None => "nil"
  | Some o => "P" ++ pr_float (o_prec o) ++ "/E" ++ hexs (o_excl o) ++ "/F" ++ hexs (o_filt o)
  end.

Definition zero : spec_float := S754_zero false.
Definition ex (l : list string) : option deqopts := Some (DeqOpts zero l []).
Definition fi (l : list string) : option deqopts := Some (DeqOpts zero [] l).

(* all proper non-empty prefixes of a field chain, dotted *)
Fixpoint prefixes (fp : list string) : list (list string) :=
  match fp with
  | [] => []
  | f :: r => [f] :: map (cons f) (prefixes r)
  end.

(* ---------- printing ---------- *)
Definition b2s (b : bool) : string := if b then "t" else "f".

Definition pr_pair (ab ba : bool + pkind) : string :=
  match ab, ba with
  | inr k, _ => "PANIC:" ++ pr_pkind k
  | _, inr k => "PANIC:" ++ pr_pkind k
  | inl x, inl y => "ab=" ++ b2s x ++ ";ba=" ++ b2s y
  end.

Definition pair_kind (ab ba : bool + pkind) : string :=
  match ab, ba with
  | inl true, inl true => "m:t" | inl false, inl false => "m:f" | inl _, inl _ => "m:asym" | _, _ => "m:panic"
  end.

Definition demand_tag (d : demand) : string :=
  match d with DTrue => "d:t" | DFalse => "d:f" | DEither => "d:either" end.

(* does the node contain a map with pointer keys? *)
Fixpoint has_ptrkey (n : node) {struct n} : bool :=
  match n with
  | Node ty tn tu nm pk pki p chld mk mv sl hb hc =>
    match ty with
    | typeStruct => (fix go (l : list node) : bool := match l with [] => false | c :: r => has_ptrkey c || go r end) chld
    | typeMap => match mk, mv with Some kn, Some vn => n_ptr kn || has_ptrkey vn | _, _ => false end
    | typeSlice => match sl with Some en => has_ptrkey en | None => false end
    | typeBasic => false
    end
  end.

(* one deq case: both orders of DeepEqual[WithOptions] on (a, b); [same] = b is a itself *)
Definition deq_line (id tags : string) (u : string) (n : node) (lf rf : string) (callopts : bool)
                    (o : option deqopts) (same : bool) (a b : val) (spec : string) : string :=
  let la := arg_of_form lf a in let ra := arg_of_form rf b in
  let ab := deep_equal_with_options n same la ra o in
  let ba := deep_equal_with_options n same ra la o in
  id ++ tab ++ tags ++ "," ++ pair_kind ab ba ++ tab ++
  u ++ ";" ++ lf ++ ";deq;" ++ rf ++ ";" ++ (if callopts then pr_opts o else "-") ++ ";" ++
  (if same then "same" else "ind") ++ ";" ++ pr_val true a ++ ";" ++ pr_val true b ++ tab ++
  pr_pair ab ba ++ tab ++ spec.

(* ---------- the argument-form matrix ---------- *)
(* Either operand of DeepEqual / DeepEqualWithOptions may be handed over as T, *T or **T (funcHeaderEqual's
   type switch); the text speaks of values, so the answer may not depend on the form.  One matrix case runs all
   3 x 3 ordered form combinations of the pair (a, b), each in both argument orders, all forms of one operand
   being views of ONE object (T: the interface copy of it, *T: its address, **T: the address of that pointer):
     <type>;-;deqm;<opts>;<same|ind>;<value a>;<value b>
     observation  <lf>-<rf>=<ab><ba>  joined by ';'  (ab: a as lf on the left, b as rf on the right; ba: swapped) *)
Local Open Scope string_scope.
Definition form_pairs : list (string * string) :=
  flat_map (fun lf => map (fun rf => (lf, rf)) value_forms) value_forms.

Definition pr_matrix (f : string -> string -> string) : string :=
  join ";" (map (fun p : string * string => fst p ++ "-" ++ snd p ++ "=" ++ f (fst p) (snd p)) form_pairs).

(* what the text demands of a matrix: the demanded answer in every cell; where the text leaves the answer
   open (a float difference within the tolerance) still one and the same answer in every form and order *)
Definition pr_demand_matrix (d : demand) : string :=
  match d with
  | DTrue => pr_matrix (fun _ _ => "tt")
  | DFalse => pr_matrix (fun _ _ => "ff")
  | DEither => pr_matrix (fun _ _ => "tt") ++ " || " ++ pr_matrix (fun _ _ => "ff")
  end.

Definition matrix_cells (n : node) (o : option deqopts) (same : bool) (a b : val) : list ((bool + pkind) * (bool + pkind)) :=
  map (fun p : string * string =>
         let la := arg_of_form (fst p) a in let rb := arg_of_form (snd p) b in
         (deep_equal_with_options n same la rb o, deep_equal_with_options n same rb la o)) form_pairs.

Definition first_panic (cs : list ((bool + pkind) * (bool + pkind))) : option pkind :=
  fold_right (fun c acc => match c with
                           | (inr k, _) => Some k
                           | (_, inr k) => Some k
                           | _ => acc
                           end) None cs.

Definition pr_ans (x : bool + pkind) : string := match x with inl b => b2s b | inr _ => "!" end.

Definition matrix_kind (cs : list ((bool + pkind) * (bool + pkind))) : string :=
  match first_panic cs with
  | Some _ => "m:panic"
  | None =>
    if forallb (fun c => match c with (inl true, inl true) => true | _ => false end) cs then "m:t"
    else if forallb (fun c => match c with (inl false, inl false) => true | _ => false end) cs then "m:f"
    else "m:mixed"
  end.

Definition deqm_line (id tags : string) (u : string) (n : node) (callopts : bool)
                     (o : option deqopts) (same : bool) (a b : val) (d : demand) : string :=
  let cs := matrix_cells n o same a b in
  let model :=
    match first_panic cs with
    | Some k => "PANIC:" ++ pr_pkind k
    | None => join ";" (map (fun pc : (string * string) * ((bool + pkind) * (bool + pkind)) =>
                              let '((lf, rf), (ab, ba)) := pc in lf ++ "-" ++ rf ++ "=" ++ pr_ans ab ++ pr_ans ba)
                            (combine form_pairs cs))
    end in
  id ++ tab ++ tags ++ "," ++ matrix_kind cs ++ tab ++
  u ++ ";-;deqm;" ++ (if callopts then pr_opts o else "-") ++ ";" ++
  (if same then "same" else "ind") ++ ";" ++ pr_val true a ++ ";" ++ pr_val true b ++ tab ++
  model ++ tab ++ pr_demand_matrix d.

(* the first element of every tag class, in list order *)
Fixpoint first_of_tag {A : Type} (tag : A -> string) (seen : list string) (l : list A) : list A :=
  match l with
  | [] => []
  | x :: r => if mem (tag x) seen then first_of_tag tag seen r else x :: first_of_tag tag (tag x :: seen) r
  end.

(* the variant with the most mutation positions (every collection populated) *)
Definition richest (n : node) (l : list (nat * val)) : nat :=
  fst (fold_left (fun (best : nat * nat) (iv : nat * val) =>
                    let c := List.length (muts n (snd iv)) in
                    if Nat.ltb (snd best) c then (fst iv, c) else best) l (0%nat, 0%nat)).
