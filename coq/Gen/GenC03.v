(* Gen/GenC03.v - the C03 stream: Set / SetWithBuffer of generated inspectors.
   Per emit unit x value variant x path (every resolving path and the unknown-field, absent-key,
   index -1/len/len+1/huge, unparsable and nil-pointer variants of Gen/EnumVal.v) a rotation of
   assigned values: the element's own kind (value and pointer form), the other scalar families,
   decimal text, with and without a buffer.  Two lines per case:
     set       e=<error>;obj=<the whole object afterwards>      spec: the exact object when the text fixes it
     setframe  frame=<0|1> decided natively by the harness      spec: frame=1 always *)
From Coq Require Import List Bool String Ascii ZArith Arith Floats.SpecFloat.
From Verif Require Import Util Ints Strconv Floats Node GoSrc Value Outcome Nav SetEmit SetSpec Shapes EnumVal GenUnits GenC08.
Import ListNotations.
Local Open Scope string_scope.

(* ---------- canonical text of an object: maps sorted by the whole "key=value" text ---------- *)
Fixpoint pr_obs (v : val) {struct v} : string :=
  match v with
  | VBool _ | VInt _ | VFloat _ | VStr _ => pr_scalar v
  | VBytes isnil d e => if isnil then "nil" else "b" ++ hex_of_bytes d
  | VStruct fs => "{" ++ join "," ((fix go (l : list val) : list string :=
                                      match l with [] => [] | x :: r => pr_obs x :: go r end) fs) ++ "}"
  | VSlice isnil es e =>
    if isnil then "nil"
    else "[" ++ join "," ((fix go (l : list val) : list string :=
                             match l with [] => [] | x :: r => pr_obs x :: go r end) es) ++ "]"
  | VMap isnil kvs =>
    if isnil then "nil"
    else let ps := (fix go (l : list (val * val)) : list (string * string) :=
                      match l with [] => [] | (k, x) :: r => (pr_obs k ++ "=" ++ pr_obs x, "") :: go r end) kvs in
         "<" ++ join "," (map fst (sort_pairs ps)) ++ ">"
  | VPtr None => "nil"
  | VPtr (Some x) => "&" ++ pr_obs x
  end.

(* ---------- assigned values ---------- *)
Definition aval_of (s : src) : aval :=
  match s with
  | SrcBool b => ABool b | SrcInt k z => AInt k z | SrcF32 f => AF32 f | SrcF64 f => AF64 f
  | SrcStr t => AStr t | SrcBytes t => ABytes t
  end.

Definition src_kind (s : src) : string :=
  match s with
  | SrcBool _ => "bool" | SrcInt k _ => ikind_name k | SrcF32 _ => "float32" | SrcF64 _ => "float64"
  | SrcStr _ => "string" | SrcBytes _ => "bytes"
  end.

Definition src_payload (s : src) : string :=
  match s with
  | SrcBool b => if b then "t" else "f"
  | SrcInt _ z => Z_to_string z
  | SrcF32 f | SrcF64 f => pr_float f
  | SrcStr t => "s" ++ hex_of_bytes (bytes_of_string t)
  | SrcBytes t => "b" ++ hex_of_bytes (bytes_of_string t)
  end.

Definition src_text (ptr : bool) (s : src) : string :=
  src_kind s ++ "/" ++ (if ptr then "p" else "v") ++ "/" ++ src_payload s.

Definition f64v (m e : Z) : spec_float := norm64 m e.

(* every other scalar family and decimal text; floats inside the exact-decimal domain *)
Definition pool : list src :=
  [ SrcInt KInt32 (-7); SrcStr "-12"; SrcInt KUint8 200; SrcF64 (f64v (-9) (-2)); SrcBool true;
    SrcInt KInt64 1099511627781; SrcStr "ab"; SrcInt KUint64 9223372036854775809; SrcF32 (f64v 3 (-1));
    SrcBytes "34"; SrcInt KInt8 100; SrcStr "1.5"; SrcInt KUint32 7; SrcF64 (f64v 3 0); SrcStr "300";
    SrcBytes "xy"; SrcStr "true"; SrcInt KInt 0; SrcStr "+7"; SrcBool false; SrcInt KUint16 65535; SrcStr "1e2" ].

(* a value of the element's own kind, different from the variants of Gen/EnumVal.v *)
Definition own_src (en : node) : src :=
  if is_bytes_node en then SrcBytes "pq" else
  match node_skind en with
  | Some SBool => SrcBool true
  | Some (SInt i) => SrcInt i (if is_signed i then -3 else 9)
  | Some SByte => SrcInt KUint8 9
  | Some SF32 => SrcF32 (f64v 5 (-2))
  | Some SF64 => SrcF64 (f64v (-11) (-3))
  | Some SString => SrcStr "own"
  | None => SrcInt KInt 1
  end.

(* the assignments tried for one (value, path): (pointer form, source, buffered) *)
Definition picks (n : node) (v : val) (path : list string) (salt : nat) : list (bool * src * bool) :=
  let p1 := nth_mod (SrcInt KInt 1) pool salt in
  let p2 := nth_mod (SrcInt KInt 1) pool (salt * 5 + 3) in
  let b := Nat.odd salt in
  match path, nav n v path with
  | _ :: _, NElem en _ =>
    if is_leaf_node en then
      let textual := is_bytes_node en || match node_skind en with Some SString => true | _ => false end in
      ([(b, own_src en, negb b); (negb b, p1, b); (b, p2, negb b)] ++
      (if textual then [(false, nth_mod (SrcInt KInt 1) [SrcInt KInt32 42; SrcF64 (f64v 5 (-1)); SrcInt KUint64 18446744073709551615; SrcBool true] salt, false);
                        (true, nth_mod (SrcInt KInt 1) [SrcInt KInt32 42; SrcF64 (f64v 5 (-1)); SrcInt KUint64 18446744073709551615; SrcBool true] salt, true)]
       else []))%list
    else [(b, p1, b)]
  | _, _ => [(b, p1, b)]
  end.

(* ---------- printing ---------- *)
(* reflection cannot tell []uint8 from []byte: slices of a []uint8 node are printed in the bytes form (GenC08.u8fix) *)
Definition pr_set_n (n : node) (o : out val) : string :=
  match o with
  | Panic k => "PANIC:" ++ pr_pkind k
  | Ret v e => "e=" ++ pr_err e ++ ";obj=" ++ pr_obs (GenC08.u8fix n v)
  | Fall v => "e=nil;obj=" ++ pr_obs (GenC08.u8fix n v)
  end.

Definition pr_frame (n : node) (path : list string) (v : val) (o : out val) : string :=
  match o with
  | Panic k => "PANIC:" ++ pr_pkind k
  | Ret v' _ | Fall v' => if frame_ok n path v v' then "frame=1" else "frame=0"
  end.

Definition path_class (n : node) (v : val) (path : list string) (a : aval) : string :=
  match path, nav n v path with
  | [], _ => "empty"
  | _, NElem en ev =>
    if is_leaf_node en then
      if n_ptr en && is_nil_val ev then "leaf-nilptr"
      else match conv en a with Some _ => "leaf-conv" | None => "leaf-noconv" end
    else "container"
  | _, NNone _ => "noelem"
  | _, NBad => "badseg"
  | _, NUnspec => "pastleaf"
  end.

Definition dst_tag (n : node) (v : val) (path : list string) : string :=
  match nav n v path with
  | NElem en _ => if is_leaf_node en then ",dst-" ++ (if is_bytes_node en then "bytes" else n_typu en) else ""
  | _ => ""
  end.

Definition out_kind (o : out val) : string :=
  match o with Panic k => "m:panic-" ++ pr_pkind k | Ret _ (Some _) => "m:err" | _ => "m:ok" end.

Definition root_node (u : string * ty) : node := parse_ast_decl (pkg_of (fst u)) (imp_of (fst u)) (fst u) (snd u).

Definition case_lines (ui : nat) (u : string * ty) : list string :=
  let n := root_node u in
  flat_map (fun iv : nat * val =>
    let '(vi, v) := iv in
    flat_map (fun ipt : nat * tagged =>
      let '(pi, (path, ptag)) := ipt in
      flat_map (fun ic : nat * (bool * src * bool) =>
        let '(ci, (ptr, s, buf)) := ic in
        let o := set_method n v path s buf in
        let id := fst u ++ "." ++ nat_to_string vi ++ "." ++ nat_to_string pi ++ "." ++ nat_to_string ci in
        let tags := ptag ++ "," ++ path_class n v path (aval_of s) ++ dst_tag n v path ++ ",src-" ++ src_kind s ++
                    (if buf then ",buf" else ",nobuf") ++ "," ++ out_kind o in
        let args := path_text path ++ ";" ++ (if buf then "1" else "0") ++ ";" ++ src_text ptr s ++ ";" ++ pr_val true v in
        [ id ++ ".s" ++ tab ++ "set," ++ tags ++ tab ++ fst u ++ ";p;set;" ++ args ++ tab ++ pr_set_n n o ++ tab ++
          match set_demand n v path (aval_of s) with Some w => "e=nil;obj=" ++ pr_obs (GenC08.u8fix n w) | None => "*" end;
          id ++ ".f" ++ tab ++ "frame," ++ tags ++ tab ++ fst u ++ ";p;setframe;" ++ args ++ tab ++ pr_frame n path v o ++ tab ++
          "frame=1" ])
      (let ps := picks n v path (ui + vi * 7 + pi * 3) in combine (seqn (List.length ps)) ps))
    (let ps := paths n v in combine (seqn (List.length ps)) ps))
  (combine (seqn (List.length (variants n))) (variants n)).

Definition cases (tier : Z) (seed : Z) : list string :=
  let us := emit_units tier in
  flat_map (fun iu : nat * (string * ty) => case_lines (fst iu) (snd iu)) (combine (seqn (List.length us)) us).
