(* Gen/GenC03.v - the C03 stream: Set / SetWithBuffer of generated inspectors.
   Per emit unit x value variant x path (every resolving path and the unknown-field, absent-key,
   index -1/len/len+1/huge, unparsable and nil-pointer variants of Gen/EnumVal.v) a rotation of
   assigned values: the element's own kind (value and pointer form), the other scalar families,
   decimal text, with and without a buffer.  Two lines per case:
     set       e=<error>;obj=<the whole object afterwards>      spec: the exact object when the text fixes it
     setframe  frame=<0|1> decided natively by the harness      spec: frame=1 always *)
From Coq Require Import List Bool String Ascii ZArith Arith Floats.SpecFloat.
From Verif Require Import Util Ints Strconv Floats Node GoSrc Value Outcome Nav SetEmit SetSpec Shapes EnumVal GenUnits GenC08.
Import ListNotations.
Local Open Scope string_scope.

(* ---------- canonical text of an object: maps sorted by the whole "key=value" text ---------- *)
Fixpoint pr_obs (v : val) {struct v} : string :=
  match v with
  | VBool _ | VInt _ | VFloat _ | VStr _ => pr_scalar v
  | VBytes isnil d e => if isnil then "nil" else "b" ++ hex_of_bytes d
  | VStruct fs => "{" ++ join "," ((fix go (l : list val) : list string :=
                                      match l with [] => [] | x :: r => pr_obs x :: go r end) fs) ++ "}"
  | VSlice isnil es e =>
    if isnil then "nil"
    else "[" ++ join "," ((fix go (l : list val) : list string :=
                             match l with [] => [] | x :: r => pr_obs x :: go r end) es) ++ "]"
  | VMap isnil kvs =>
    if isnil then "nil"
    else let ps := (fix go (l : list (val * val)) : list (string * string) :=
                      match l with [] => [] | (k, x) :: r => (pr_obs k ++ "=" ++ pr_obs x, "") :: go r end) kvs in
         "<" ++ join "," (map fst (sort_pairs ps)) ++ ">"
  | VPtr None => "nil"
  | VPtr (Some x) => "&" ++ pr_obs x
  end.

(* ---------- assigned values ---------- *)
Definition aval_of (s : src) : aval :=
  match s with
  | SrcBool b => ABool b | SrcInt k z => AInt k z | SrcF32 f => AF32 f | SrcF64 f => AF64 f
  | SrcStr t => AStr t | SrcBytes t => ABytes t
  end.

Definition src_kind (s : src) : string :=
  match s with
  | SrcBool _ => "bool" | SrcInt k _ => ikind_name k | SrcF32 _ => "float32" | SrcF64 _ => "float64"
  | SrcStr _ => "string" | SrcBytes _ => "bytes"
  end.

Definition src_payload (s : src) : string :=
  match s with
  | SrcBool b => if b then "t" else "f"
  | SrcInt _ z => Z_to_string z
  | SrcF32 f | SrcF64 f => pr_float f
  | SrcStr t => "s" ++ hex_of_bytes (bytes_of_string t)
  | SrcBytes t => "b" ++ hex_of_bytes (bytes_of_string t)
  end.

Definition src_text (ptr : bool) (s : src) : string :=
  src_kind s ++ "/" ++ (if ptr then "p" else "v") ++ "/" ++ src_payload s.

Definition f64v (m e : Z) : spec_float := norm64 m e.

(* every other scalar family and decimal text; floats inside the exact-decimal domain *)
Definition pool : list src :=
  [ SrcInt KInt32 (-7); SrcStr "-12"; SrcInt KUint8 200; SrcF64 (f64v (-9) (-2)); SrcBool true;
    SrcInt KInt64 1099511627781; SrcStr "ab"; SrcInt KUint64 9223372036854775809; SrcF32 (f64v 3 (-1));
    SrcBytes "34"; SrcInt KInt8 100; SrcStr "1.5"; SrcInt KUint32 7; SrcF64 (f64v 3 0); SrcStr "300";
    SrcBytes "xy"; SrcStr "true"; SrcInt KInt 0; SrcStr "+7"; SrcBool false; SrcInt KUint16 65535; SrcStr "1e2" ].

(* a value of the element's own kind, different from the variants of Gen/EnumVal.v *)
Definition own_src (en : node) : src :=
  if is_bytes_node en then SrcBytes "pq" else
  match node_skind en with
  | Some SBool => SrcBool true
  | Some (SInt i) => SrcInt i (if is_signed i then -3 else 9)
  | Some SByte => SrcInt KUint8 9
  | Some SF32 => SrcF32 (f64v 5 (-2))
  | Some SF64 => SrcF64 (f64v (-11) (-3))
  | Some SString => SrcStr "own"
  | None => SrcInt KInt 1
  end.

(* the assignments tried for one (value, path): (pointer form, source, buffered) *)
Definition picks (n : node) (v : val) (path : list string) (salt : nat) : list (bool * src * bool) :=
  let p1 := nth_mod (SrcInt KInt 1) pool salt in
  let p2 := nth_mod (SrcInt KInt 1) pool (salt * 5 + 3) in
  let b := Nat.odd salt in
  match path, nav n v path with
  | _ :: _, NElem en _ =>
    if is_leaf_node en then
      let textual := is_bytes_node en || match node_skind en with Some SString => true | _ => false end in
      ([(b, own_src en, negb b); (negb b, p1, b); (b, p2, negb b)] ++
      (* a bool element: non-zero floats of magnitude below one are true (a conversion through an integer would lose them) *)
      (match node_skind en with
       | Some SBool => [(b, nth_mod (SrcInt KInt 1) [SrcF64 (f64v 5 (-1)); SrcF32 (f64v (-25) (-2)); SrcF64 (f64v 1 (-9)); SrcF32 (f64v 0 0)] salt, b)]
       | _ => []
       end) ++
      (if textual then [(false, nth_mod (SrcInt KInt 1) [SrcInt KInt32 42; SrcF64 (f64v 5 (-1)); SrcInt KUint64 18446744073709551615; SrcBool true] salt, false);
                        (true, nth_mod (SrcInt KInt 1) [SrcInt KInt32 42; SrcF64 (f64v 5 (-1)); SrcInt KUint64 18446744073709551615; SrcBool true] salt, true)]
       else []))%list
    else [(b, p1, b)]
  | _, _ => [(b, p1, b)]
  end.

(* ---------- printing ---------- *)
(* reflection cannot tell []uint8 from []byte: slices of a []uint8 node are printed in the bytes form (GenC08.u8fix) *)
Definition pr_set_n (n : node) (o : out val) : string :=
  match o with
  | Panic k => "PANIC:" ++ pr_pkind k
  | Ret v e => "e=" ++ pr_err e ++ ";obj=" ++ pr_obs (GenC08.u8fix n v)
  | Fall v => "e=nil;obj=" ++ pr_obs (GenC08.u8fix n v)
  end.

Definition pr_frame (n : node) (path : list string) (v : val) (o : out val) : string :=
  match o with
  | Panic k => "PANIC:" ++ pr_pkind k
  | Ret v' _ | Fall v' => if frame_ok n path v v' then "frame=1" else "frame=0"
  end.

Definition path_class (n : node) (v : val) (path : list string) (a : aval) : string :=
  match path, nav n v path with
  | [], _ => "empty"
  | _, NElem en ev =>
    if is_leaf_node en then
      if n_ptr en && is_nil_val ev then "leaf-nilptr"
      else match conv en a with Some _ => "leaf-conv" | None => "leaf-noconv" end
    else "container"
  | _, NNone _ => "noelem"
  | _, NBad => "badseg"
  | _, NUnspec => "pastleaf"
  end.

Definition dst_tag (n : node) (v : val) (path : list string) : string :=
  match nav n v path with
  | NElem en _ => if is_leaf_node en then ",dst-" ++ (if is_bytes_node en then "bytes" else n_typu en) else ""
  | _ => ""
  end.

Definition out_kind (o : out val) : string :=
  match o with Panic k => "m:panic-" ++ pr_pkind k | Ret _ (Some _) => "m:err" | _ => "m:ok" end.

Definition root_node (u : string * ty) : node := parse_ast_decl (pkg_of (fst u)) (imp_of (fst u)) (fst u) (snd u).

(* does the path meet (pass through, or end at) a slice of uint8 that is not a []byte node?  Go cannot tell *[]uint8 from
   *[]byte: there a *[]byte source is a pointer to the container itself (the value.( *T) replacement branch, outside the
   modelled domain), whatever the rest of the path *)
Fixpoint meets_u8 (n : node) (path : list string) {struct path} : bool :=
  (match n_typ n, n_slct n with
   | typeSlice, Some en => negb (is_bytes_node n) && GenC08.is_u8_elem en
   | _, _ => false
   end) ||
  match path with
  | [] => false
  | seg :: r =>
    match n_typ n with
    | typeStruct => match find (fun c => String.eqb (n_name c) seg) (n_chld n) with Some c => meets_u8 c r | None => false end
    | typeMap => match n_mapv n with Some vn => meets_u8 vn r | None => false end
    | typeSlice => match n_slct n with Some en => meets_u8 en r | None => false end
    | typeBasic => false
    end
  end.

(* the two lines of one call *)
Definition line_pair (id uname : string) (n : node) (v : val) (path : list string) (ptag extra : string)
  (ptr : bool) (s : src) (buf : bool) : list string :=
  let o := set_method n v path s buf in
  let tags := ptag ++ "," ++ path_class n v path (aval_of s) ++ dst_tag n v path ++ ",src-" ++ src_kind s ++
              (if buf then ",buf" else ",nobuf") ++ "," ++ out_kind o ++ extra in
  let args := path_text path ++ ";" ++ (if buf then "1" else "0") ++ ";" ++ src_text ptr s ++ ";" ++ pr_val true v in
  [ id ++ ".s" ++ tab ++ "set," ++ tags ++ tab ++ uname ++ ";p;set;" ++ args ++ tab ++ pr_set_n n o ++ tab ++
    match set_demand n v path (aval_of s) with Some w => "e=nil;obj=" ++ pr_obs (GenC08.u8fix n w) | None => "*" end;
    id ++ ".f" ++ tab ++ "frame," ++ tags ++ tab ++ uname ++ ";p;setframe;" ++ args ++ tab ++ pr_frame n path v o ++ tab ++
    "frame=1" ].

Definition case_lines (ui : nat) (u : string * ty) : list string :=
  let n := root_node u in
  flat_map (fun iv : nat * val =>
    let '(vi, v) := iv in
    flat_map (fun ipt : nat * tagged =>
      let '(pi, (path, ptag)) := ipt in
      flat_map (fun ic : nat * (bool * src * bool) =>
        let '(ci, (ptr, s, buf)) := ic in
        let id := fst u ++ "." ++ nat_to_string vi ++ "." ++ nat_to_string pi ++ "." ++ nat_to_string ci in
        line_pair id (fst u) n v path ptag "" ptr s buf)
      (let ps := filter (fun p : bool * src * bool =>
                           match p with (true, SrcBytes _, _) => negb (meets_u8 n path) | _ => true end)
                        (picks n v path (ui + vi * 7 + pi * 3)) in combine (seqn (List.length ps)) ps))
    (let ps := paths n v in combine (seqn (List.length ps)) ps))
  (combine (seqn (List.length (variants n))) (variants n)).

(* ---------- boundary sources ----------
   For every leaf kind: the assigned value given as decimal TEXT (string, *string, []byte, *[]byte)
   spelling the least and the greatest value of the element's kind and of the 64-bit kinds the
   text is parsed into, their neighbours outside the range, the same with leading zeros and an
   explicit sign, -0, +5, malformed spellings; and typed integer sources of every width holding
   the least / greatest value of THEIR kind (conversion by wrapping).  For float elements the
   greatest finite float32 / float64 and the rounding boundaries to infinity (the exact halfway
   point and the double rounding through float64 for float32), the least subnormals and the
   rounding boundaries to zero, integers beyond 2^24 and 2^53.
   The sweep is bounded: one pass over the list per leaf kind, spread over the places (struct
   fields, slice elements, map values, pointer leaves) where an element of that kind occurs: in
   this stream with one of the four text forms per text (by rotation), in the stream c03b
   (Gen/GenC03b.v: own small units with an element of every integer and float kind) with two per
   text in the quick tier (all four forms on every kind, over the texts) and all four per text in the
   thorough tier. *)
Definition dedup_str (l : list string) : list string :=
  fold_left (fun acc x => if existsb (String.eqb x) acc then acc else (acc ++ [x])%list) l [].

Definition zpad (z : Z) : string := if (z <? 0)%Z then "-00" ++ Z_to_string (- z) else "00" ++ Z_to_string z.

Definition around (k : ikind) : list string :=
  List.app (map Z_to_string [kmin k; kmax k; kmin k - 1; kmax k + 1; kmin k + 1; kmax k - 1]%Z)
           [zpad (kmin k); zpad (kmax k); "+" ++ Z_to_string (kmax k)].

Definition nl : string := String (ascii_of_nat 10) "".
Definition odd_texts : list string := ["-0"; "+5"; "007"; "+0"; "-"; "+"; "5-"; "--5"; "+-5"; " 5"; String "5" nl].

Definition int_texts (i : ikind) : list string :=
  dedup_str (around i ++ around KInt64 ++ around KUint64 ++ odd_texts)%list.

(* the greatest finite float32, as an integer; the halfway point to 2^128 is f32max + 2^103.  (The
   greatest float64 and its halfway point to 2^1024 are spelled with 19 digits: 309-digit texts
   cost too much in the extracted reader.) *)
Definition f32max : Z := ((2 ^ 24 - 1) * 2 ^ 104)%Z.

Definition float_texts : list string :=
  List.app
   (map Z_to_string
     [f32max; (- f32max); f32max + 2 ^ 103 - 2 ^ 75; f32max + 2 ^ 103 - 1; f32max + 2 ^ 103; (- (f32max + 2 ^ 103)); 2 ^ 128;
      2 ^ 24 + 1; 2 ^ 24 + 3; 2 ^ 53 + 1; 2 ^ 53 + 3; kmax KInt64; kmin KInt64; kmax KUint64]%Z)
   [ "3.4028235e38"; "3.4028236e38"; "-3.4028236E+38"; "1e39";
     "1.7976931348623157e308"; "-1.7976931348623157e308"; "1.797693134862315807e308"; "1.797693134862315808e308";
     "-1.797693134862315808e308"; "1.7976931348623159e308"; "1e309"; "-1e309"; "1e400"; "1e999";
     "5e-324"; "3e-324"; "2e-324"; "-2e-324"; "1e-400"; "2.2250738585072014e-308"; "2.2250738585072011e-308";
     "1e-45"; "8e-46"; "7e-46"; "-7e-46"; "1.17549435e-38";
     "-0"; "+5"; "007"; "-0.0"; "+0"; ".5"; "5."; "-.5e1"; "1E2"; "0e0"; "00.50"; "1e+02"; "1e"; "e5"; "-"; "+"; "."; "1.5.2";
     "Inf"; "NaN"; "0x10"; "1_0"; " 5" ].

Definition generic_texts : list string := int_texts KInt64.

(* the least (signed kinds) and the greatest value of every integer kind *)
Definition typed_srcs : list src :=
  flat_map (fun k => ((if is_signed k then [SrcInt k (kmin k)] else []) ++ [SrcInt k (kmax k)])%list) all_ikinds.

(* a text as string, *string, []byte, *[]byte (buffered and not, alternating).  [forms] = 4: all four;
   2: a string form and a bytes form, one of them behind a pointer (which one alternates);
   otherwise one form per text, by rotation *)
Definition text_picks (forms : nat) (ts : list string) : list (bool * src * bool) :=
  flat_map (fun it : nat * string =>
    let '(ti, t) := it in
    let form (f : nat) : bool * src * bool :=
      (Nat.odd f, (if Nat.ltb f 2 then SrcStr t else SrcBytes t), Nat.odd (ti / 4 + f)) in
    match forms with
    | 4%nat => map form [0; 1; 2; 3]%nat
    | 2%nat => if Nat.even ti then [form 0%nat; form 3%nat] else [form 1%nat; form 2%nat]
    | _ => [form (Nat.modulo ti 4)]
    end)
  (combine (seqn (List.length ts)) ts).

Definition typed_picks : list (bool * src * bool) :=
  map (fun it : nat * src => (Nat.odd (fst it), snd it, Nat.odd (fst it / 2)))
      (combine (seqn (List.length typed_srcs)) typed_srcs).

(* [forms]: how many of the four forms every text assigned into a numeric element takes *)
Definition bnd_picks (forms : nat) (en : node) : list (bool * src * bool) :=
  ((if is_bytes_node en then text_picks 1 generic_texts else
    match node_skind en with
    | Some (SInt i) => text_picks forms (int_texts i)
    | Some SByte => text_picks forms (int_texts KUint8)
    | Some SF32 | Some SF64 => text_picks forms float_texts
    | _ => text_picks 1 generic_texts
    end) ++ typed_picks)%list.

(* a place where a leaf element that can be stored into occurs: unit, root node, object, numbers of
   the value variant and of the path, path and its tag, node and content of the element, and
   whether it is an element of a []uint8 slice *)
Record site := mk_site { s_unit : string; s_root : node; s_val : val; s_vi : nat; s_pi : nat;
                         s_path : list string; s_tag : string; s_en : node; s_x : val; s_u8 : bool }.

(* is the element at the path an element of a slice of uint8 that is not a []byte node?  Go cannot
   tell *[]uint8 from *[]byte: there a *[]byte source is a pointer to the container itself (the
   value.( *T) replacement branch, outside the modelled domain) *)
Definition in_u8_slice (n : node) (v : val) (path : list string) : bool :=
  match nav n v (removelast path) with
  | NElem pn _ =>
    match n_typ pn, n_slct pn with
    | typeSlice, Some en => negb (is_bytes_node pn) && GenC08.is_u8_elem en
    | _, _ => false
    end
  | _ => false
  end.

Definition sites_of (maxvar : nat) (u : string * ty) : list site :=
  let n := root_node u in
  let vs := variants n in
  flat_map (fun iv : nat * val =>
    let '(vi, v) := iv in
    flat_map (fun ipt : nat * tagged =>
      let '(pi, (path, ptag)) := ipt in
      match path, nav n v path with
      | _ :: _, NElem en ev =>
        if is_leaf_node en then
          match (if n_ptr en then match ev with VPtr (Some x) => Some x | _ => None end else Some ev) with
          | Some x => [mk_site (fst u) n v vi pi path ptag en x (in_u8_slice n v path)]
          | None => []
          end
        else []
      | _, _ => []
      end)
    (let ps := paths n v in combine (seqn (List.length ps)) ps))
  (take maxvar (combine (seqn (List.length vs)) vs)).

Definition bnd_class (en : node) : string := if is_bytes_node en then "bytes" else n_typu en.

(* would a store of the converted value be seen there?  (the element does not hold it already) *)
Definition visible (st : site) (p : bool * src * bool) : bool :=
  match conv (s_en st) (aval_of (snd (fst p))) with
  | Some y => negb (val_eqb y (s_x st))
  | None => true
  end.

Definition rot {A} (k : nat) (l : list A) : list A := (skipn k l ++ firstn k l)%list.

(* inside the modelled domain: no *[]byte source where it is a pointer to a container on the path *)
Definition admissible (st : site) (p : bool * src * bool) : bool :=
  match p with (true, SrcBytes _, _) => negb (s_u8 st) | _ => true end.

(* the j-th of m assignments goes to the first place from position j * (places / m) on where it is visible *)
Definition place (sts : list site) (m j : nat) (p : bool * src * bool) : option site :=
  let n := List.length sts in
  let r := filter (fun st => admissible st p) (rot (Nat.modulo (j * Nat.max 1 (n / m)) n) sts) in
  match find (fun st => visible st p) r with Some st => Some st | None => hd_error r end.

Definition bnd_block (forms : nat) (sts : list site) : list string :=
  let classes := dedup_str (map (fun st => bnd_class (s_en st)) sts) in
  flat_map (fun c =>
    let cs := filter (fun st => String.eqb (bnd_class (s_en st)) c) sts in
    match cs with
    | [] => []
    | st0 :: _ =>
      let ps := bnd_picks forms (s_en st0) in
      let m := List.length ps in
      flat_map (fun jp : nat * (bool * src * bool) =>
        let '(j, (ptr, s, buf)) := jp in
        match place cs m j (ptr, s, buf) with
        | Some st =>
          let id := s_unit st ++ "." ++ nat_to_string (s_vi st) ++ "." ++ nat_to_string (s_pi st) ++ ".b" ++ nat_to_string j in
          line_pair id (s_unit st) (s_root st) (s_val st) (s_path st) (s_tag st) ",bnd" ptr s buf
        | None => []
        end)
      (combine (seqn m) ps)
    end) classes.

Definition cases_on (us : list (string * ty)) : list string :=
  (flat_map (fun iu : nat * (string * ty) => case_lines (fst iu) (snd iu)) (combine (seqn (List.length us)) us) ++
   bnd_block 1 (flat_map (sites_of 6) us))%list.

(* the one-call cases; the stream c03 prints them together with the histories of Gen/GenC03h.v (Gen/GenC03all.v) *)
Definition cases (tier : Z) (seed : Z) : list string := cases_on (emit_units tier).
