(* Gen/GenC11.v - the C11 stream: DeepEqualWithOptions of generated inspectors on pairs that
   differ at exactly one position, under option sets naming the field of that position, an
   ancestor, a sibling or nothing, as Exclude or Filter, with Precision below / above the float
   gap; DEQMustCheck exhaustively over {nil, empty, Exclude, Filter, both} x {listed, unlisted};
   EqualFloat64/32 at, just inside and just outside the tolerance. *)
From Coq Require Import List Bool String Ascii ZArith Arith Floats.SpecFloat.
From Verif Require Import Util Ints Strconv Floats Node GoSrc Value Outcome Deq DeqSpec Shapes EnumVal GenUnits GenDeq.
Import ListNotations.
Local Open Scope string_scope.

Definition optset := (string * option deqopts)%type.

Definition p_hi : spec_float := Eval vm_compute in f64_of_decimal false 1 (-1).     (* 0.1    > the 10x gap *)
Definition p_lo : spec_float := Eval vm_compute in f64_of_decimal false 1 (-5).     (* 1e-5   < the 0.1x gap *)
Definition p_neg : spec_float := Eval vm_compute in f64_of_decimal true 1 0.        (* -1: not positive, ignored *)

Definition with_anc (fp : list string) : list string := map dotted (prefixes fp).     (* the field and all its ancestors *)

Definition option_sets (n : node) (tag : string) (fp : list string) : list optset :=
  let q := dotted fp in
  let ancs := removelast (prefixes fp) in           (* proper ancestors *)
  let is_float := String.eqb tag "f10" || String.eqb tag "f01" in
  ([("empty", Some (DeqOpts zero [] [])); ("nilopts", None); ("ex-none", ex ["Nope"]); ("fi-none", fi ["Nope"])] ++
   match fp with
   | [] => []
   | _ =>
     [("ex-self", ex [q]); ("fi-self", fi (with_anc fp)); ("ex-self+", ex [q; "Nope"])] ++
     match ancs with
     | [] => []
     | top :: _ =>
       (* [leafname]: the last field name alone - an unrelated root-level key of the same name *)
       let leafname := last fp "" in
       [("ex-anc", ex [dotted top]); ("fi-noanc", fi [q]); ("fi-anc", fi (map dotted ancs));
        ("ex-leafname", ex [leafname]); ("fi-leafname", fi [leafname]); ("fi-anc-leafname", fi (leafname :: map dotted ancs))]
     end ++
     match sibling fp n with
     | Some s => [("ex-sib", ex [dotted s]); ("fi-sib", fi (with_anc s)); ("both-exsib", Some (DeqOpts zero [dotted s] ["Nope"]));
                  ("both-exself", Some (DeqOpts zero [q] (with_anc fp)))]
     | None => []
     end
   end ++
   (if is_float then
      [("prec-hi", Some (DeqOpts p_hi [] [])); ("prec-lo", Some (DeqOpts p_lo [] [])); ("prec-neg", Some (DeqOpts p_neg [] []));
       ("prec-hi-fi", Some (DeqOpts p_hi [] (with_anc fp))); ("prec-lo-ex", Some (DeqOpts p_lo ["Nope"] []))]
    else []))%list.

(* quick tier: per unit the variant with the most mutation positions (every collection populated, so that
   every field of every element of every collection-of-structs field is mutated) and the second variant *)
(* [richest] is in GenDeq.v *)
Definition pick_variants (tier : Z) (n : node) (l : list (nat * val)) : list (nat * val) :=
  if Z.eqb tier 0 then
    let r := richest n l in
    filter (fun iv => Nat.eqb (fst iv) 1 || Nat.eqb (fst iv) r) l
  else l.

Definition case_lines (tier : Z) (u : string * ty) : list string :=
  let n := root_node u in
  let vs := combine (seqn (List.length (variants n))) (variants n) in
  flat_map (fun iv : nat * val =>
    let '(vi, a) := iv in
    let base := fst u ++ "." ++ nat_to_string vi in
    flat_map (fun jm : nat * mutn =>
      let '(j, (t, fp, b)) := jm in
      map (fun os : optset =>
        let '(otag, o) := os in
        let d := c11_demand (to_spec o) n a b in
        deq_line (base ++ ".m" ++ nat_to_string j ++ "." ++ otag)
                 ("opt," ++ otag ++ "," ++ t ++ "," ++ demand_tag d ++ (match fp with [] => ",nofield" | [_] => ",top" | _ => ",nested" end))
                 (fst u) n "p" "p" true o false a b (pr_demand d))
        (option_sets n t fp))
      (combine (seqn (List.length (muts n a))) (muts n a)))
  (pick_variants tier n vs).

(* the argument-form matrix (GenDeq.v) under options: every combination of (T, *T, **T) x (T, *T, **T), both
   orders, on the first mutation of every kind in the richest variant, with the mutated field excluded
   (the difference must vanish in every form) and filtered in (it must be seen in every form); at the root
   of a named map / slice (no field) with empty options and a Filter naming nothing; floats also with a
   Precision above the gap *)
Definition matrix_option_sets (tag : string) (fp : list string) : list optset :=
  let is_float := String.eqb tag "f10" || String.eqb tag "f01" in
  (match fp with
   | [] => [("empty", Some (DeqOpts zero [] [])); ("fi-none", fi ["Nope"])]
   | _ => [("ex-self", ex [dotted fp]); ("fi-self", fi (with_anc fp))]
   end ++
   (if is_float then [("prec-hi", Some (DeqOpts p_hi [] []))] else []))%list.

Definition matrix_lines (u : string * ty) : list string :=
  let n := root_node u in
  let vs := combine (seqn (List.length (variants n))) (variants n) in
  let r := richest n vs in
  flat_map (fun iv : nat * val =>
    let '(vi, a) := iv in
    if Nat.eqb vi r then
      flat_map (fun jm : nat * mutn =>
        let '(j, (t, fp, b)) := jm in
        map (fun os : optset =>
          let '(otag, o) := os in
          let d := c11_demand (to_spec o) n a b in
          deqm_line (fst u ++ "." ++ nat_to_string vi ++ ".fm.m" ++ nat_to_string j ++ "." ++ otag)
                    ("formmatrix,opt," ++ otag ++ "," ++ t ++ "," ++ demand_tag d ++
                     (match fp with [] => ",nofield" | [_] => ",top" | _ => ",nested" end))
                    (fst u) n true o false a b d)
          (matrix_option_sets t fp))
        (first_of_tag (fun jm : nat * mutn => fst (fst (snd jm))) []
           (combine (seqn (List.length (muts n a))) (muts n a)))
    else []) vs.

(* ---------- DEQMustCheck, exhaustively over the option classes ---------- *)
Definition mc_opts : list optset :=
  [("nil", None); ("empty", Some (DeqOpts zero [] []));
   ("ex", ex ["A"]); ("ex2", ex ["A"; "A.B"]); ("fi", fi ["A"]); ("fi2", fi ["A"; "A.B"]);
   ("both-same", Some (DeqOpts zero ["A"] ["A"])); ("both-exA-fiB", Some (DeqOpts zero ["A"] ["B"]));
   ("both-exB-fiA", Some (DeqOpts zero ["B"] ["A"])); ("prec-only", Some (DeqOpts p_hi [] []))].
Definition mc_paths : list string := ["A"; "B"; "A.B"; "A.C"; ""; "a"].

Definition mc_lines (u : string) : list string :=
  flat_map (fun os : optset =>
    map (fun q : string =>
      let '(otag, o) := os in
      "mc." ++ otag ++ "." ++ hex_of_bytes (bytes_of_string q) ++ tab ++
      "mustcheck," ++ otag ++ "," ++ (match o with
                                    | Some oo => if mem q (o_excl oo) || mem q (o_filt oo) then "listed" else "unlisted"
                                    | None => "unlisted" end) ++ tab ++
      u ++ ";-;mustcheck;" ++ pr_opts o ++ ";" ++ hex_of_bytes (bytes_of_string q) ++ tab ++
      b2s (deq_must_check q o) ++ tab ++ b2s (field_compared (to_spec o) q)) mc_paths) mc_opts.

(* ---------- EqualFloat64 / EqualFloat32 around the tolerance ---------- *)
Definition f64_succ (x : spec_float) : spec_float :=
  match x with S754_finite s m e => S754_finite s (Pos.succ m) e | _ => x end.     (* next float up: mantissa not all ones here *)
Definition f64_pred (x : spec_float) : spec_float :=
  match x with S754_finite s m e => S754_finite s (Pos.pred m) e | _ => x end.

Definition eqf_opts : list optset :=
  [("nil", None); ("prec0", Some (DeqOpts zero [] [])); ("prec-neg", Some (DeqOpts p_neg [] []));
   ("prec-hi", Some (DeqOpts p_hi [] [])); ("prec-lo", Some (DeqOpts p_lo ["A"] ["B"]))].

Definition eqf_pairs (o : option deqopts) : list (string * spec_float * spec_float) :=
  let t := eff_prec o in
  [("at", zero, t); ("inside", zero, f64_pred t); ("outside", zero, f64_succ t); ("same", t, t);
   ("at-neg", SFopp t, zero); ("far", norm64 1 0, norm64 3 0); ("zeros", zero, S754_zero true);
   ("d10", norm64 3 (-1), f64_add (norm64 3 (-1)) d10); ("d01", norm64 3 (-1), f64_add (norm64 3 (-1)) d01)].

Definition eqf_lines (u : string) : list string :=
  flat_map (fun os : optset =>
    let '(otag, o) := os in
    flat_map (fun p : string * spec_float * spec_float =>
      let '(ptag, a, b) := p in
      map (fun bits : string =>
        let cv := fun x => if String.eqb bits "32" then to_f64 (to_f32 x) else x in
        let a' := cv a in let b' := cv b in
        "eqf." ++ otag ++ "." ++ ptag ++ "." ++ bits ++ tab ++ "eqf," ++ otag ++ "," ++ ptag ++ ",f" ++ bits ++ tab ++
        u ++ ";-;eqf;" ++ bits ++ ";" ++ pr_opts o ++ ";" ++ pr_float a' ++ ";" ++ pr_float b' ++ tab ++
        b2s (equal_float a' b' o) ++ tab ++
        (* the text: equal iff the distance does not exceed the tolerance in force *)
        b2s (equal_float64 a' b' (tolerance_of (to_spec o)))) ["64"; "32"]) (eqf_pairs o)) eqf_opts.

Definition cases (tier : Z) (seed : Z) : list string :=
  (flat_map (case_lines tier) (emit_units tier) ++ flat_map matrix_lines (emit_units tier) ++
   match emit_units tier with
   | u :: _ => mc_lines (fst u) ++ eqf_lines (fst u)
   | [] => []
   end)%list.
