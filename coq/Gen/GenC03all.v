(* Gen/GenC03all.v - what the stream c03 prints: the one-call cases of Gen/GenC03.v and the histories of
   Gen/GenC03h.v, on the same emit units (enumerated once). *)
From Coq Require Import List String ZArith.
From Verif Require Import Shapes GenC03 GenC03h.
Import ListNotations.

Definition cases_all (tier : Z) (seed : Z) : list string :=
  let us := emit_units tier in
  (GenC03.cases_on us ++ GenC03h.cases_on us)%list.
