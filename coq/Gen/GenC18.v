(* Gen/GenC18.v - case generator and canonical printers for the C18
   correspondence stream.  One case = one map[string]any tree and a history of
   operations on it; the line carries the tree and the operations (input), what
   the executable model of the current code observes after every operation
   (model) and what the specification demands (spec, computed from
   Spec/StrAnyMapSpec.v on the abstract tree, never from the model).
   A second class of cases (tag share, further down) starts from several trees
   and lets nested map objects be shared between them and the caller.

   Canonical text.  A value is  n | b0 | b1 | i<kind>:<dec> | s<hex> | y<hex>+<spare cap>
   | m<V|P|Q>{<hexkey>=<value>,...}  (V = map, P = *map, Q = **map; keys sorted
   bytewise).  In the INPUT the six nil holders are written zM zP zPM zQ zQP
   zQPM; in OBSERVATIONS a nil holder is printed as the empty map of its form
   (the abstraction of the specification), addresses and origins never. *)
From Coq Require Import List Arith Bool Ascii String ZArith NArith.
From Verif Require Import Util Ints StrAnyMap StrAnyMapSpec StrAnyMapAbs StrAnyMapStore StrAnyMapHeap.
Import ListNotations.
Local Open Scope string_scope.

Definition tab : string := String (ascii_of_nat 9) "".
Definition hex (s : string) : string := hex_of_bytes (list_ascii_of_string s).

(* ---------- sorting rendered entries by key ---------- *)
Fixpoint insert_kv (kv : string * string) (l : list (string * string)) : list (string * string) :=
  match l with
  | [] => [kv]
  | h :: r => if String.leb (fst kv) (fst h) then kv :: l else h :: insert_kv kv r
  end.
Definition sort_kv (l : list (string * string)) : list (string * string) := fold_right insert_kv [] l.
Definition pr_kvs (l : list (string * string)) : string :=
  "{" ++ join "," (map (fun kv => hex (fst kv) ++ "=" ++ snd kv) (sort_kv l)) ++ "}".

(* ---------- abstract trees (observations, spec) ---------- *)
Definition hold_tag (h : hold) : string := match h with HVal => "V" | HPtr => "P" | HPtr2 => "Q" end.
Definition pr_leaf (l : leaf) : string :=
  match l with
  | LNil => "n"
  | LBool b => if b then "b1" else "b0"
  | LInt k z => "i" ++ ikind_name k ++ ":" ++ Z_to_string z
  | LStr s => "s" ++ hex s
  | LBytes d e => "y" ++ hex d ++ "+" ++ N_to_string e
  end.
Fixpoint pr_tree (t : tree) : string :=
  match t with
  | TLeaf l => pr_leaf l
  | TMap h es =>
    "m" ++ hold_tag h ++
    pr_kvs ((fix go (l : tentries) : list (string * string) :=
               match l with [] => [] | (k, v) :: r => (k, pr_tree v) :: go r end) es)
  end.
Definition pr_obs (x : any) : string := pr_tree (abs x).

(* ---------- concrete input text ---------- *)
Definition form_tag (f : form) : string := match f with FVal => "V" | FPtr => "P" | FPtr2 => "Q" end.
Definition nil_tag (nf : nilform) : string :=
  match nf with
  | NMap => "zM" | NPtr => "zP" | NPtrMap => "zPM" | NPtr2 => "zQ" | NPtr2Ptr => "zQP" | NPtr2PtrMap => "zQPM"
  end.
Fixpoint pr_in (x : any) : string :=
  match x with
  | AMap _ f es =>
    "m" ++ form_tag f ++
    pr_kvs ((fix go (l : entries) : list (string * string) :=
               match l with [] => [] | (k, v) :: r => (k, pr_in v) :: go r end) es)
  | ANilMap nf => nil_tag nf
  | _ => pr_tree (abs x)
  end.

Definition pr_path (p : list string) : string := join "/" (map (fun k => "k" ++ hex k) p).

(* ---------- operations of a case ---------- *)
Inductive gop :=
| GGet (p : list string)
| GSet (p : list string) (v : any)
| GCmp (p : list string) (c : cop) (right : string)
| GLen (p : list string)
| GCap (p : list string)
| GLoop (p : list string) (brk : option nat)
| GCopy                                   (* go on with the copy *)
| GCopyTo (dst : any)                     (* state unchanged *)
| GReset
| GDeq.

Definition pr_gop (o : gop) : string :=
  match o with
  | GGet p => "G!" ++ pr_path p
  | GSet p v => "S!" ++ pr_path p ++ "!" ++ pr_in v
  | GCmp p c r => "C!" ++ pr_path p ++ "!" ++ Z_to_string (cop_num c) ++ "!" ++ hex r
  | GLen p => "L!" ++ pr_path p
  | GCap p => "K!" ++ pr_path p
  | GLoop p b => "O!" ++ pr_path p ++ "!" ++ match b with None => "-" | Some n => nat_to_string n end
  | GCopy => "Y"
  | GCopyTo d => "T!" ++ pr_in d
  | GReset => "R"
  | GDeq => "D"
  end.

Definition ctl_of (b : option nat) : list lctl :=
  match b with None => [] | Some n => repeat CtlNone n ++ [CtlBrk] end.

Definition err_name (e : err) : string :=
  match e with EUnsupported => "err:unsupported" | EMustPointer => "err:mustpointer" end.
Definition pr_optz (r : res (option Z)) : string :=
  match r with
  | Ok (Some z) => "n=" ++ Z_to_string z
  | Ok None => "none"
  | Err e => err_name e
  | Panic _ => "PANIC:nilderef"
  end.
Definition pr_status (r : res unit) : string :=
  match r with Ok _ => "ok" | Err e => err_name e | Panic _ => "PANIC:nilderef" end.

(* does a stored string / byte value share memory with what the caller passed? *)
Definition share_class (v stored_v : any) : string :=
  match v, stored_v with
  | AStr _ s, AStr o _ | ABytes _ s _, ABytes o _ _ =>
    if Nat.eqb (String.length s) 0 then "-" else match o with OCaller => "1" | _ => "0" end
  | _, _ => "-"
  end.
Definition set_value_class (v : any) : string :=
  match v with
  | AStr _ s | ABytes _ s _ => if Nat.eqb (String.length s) 0 then "-" else "0"
  | _ => "-"
  end.

Definition fresh_class (x : any) : string := if fresh x then "0" else "1".
Definition fresh_es_class (x : any) : string :=
  match x with AMap _ _ es => if forallb (fun kv => fresh (snd kv)) es then "0" else "1" | _ => "0" end.

(* ---------- the model's observation of one operation (code after the fixes) ---------- *)
Definition model_step (x : any) (o : gop) : any * string :=
  match o with
  | GGet p =>
    (x, match get true p x with
        | Ok (Some ANil) => "none"         (* Get's (nil, nil): a stored nil cannot be told from no value *)
        | Ok (Some y) => "v=" ++ pr_obs y
        | Ok None => "none"
        | Err e => err_name e
        | Panic _ => "PANIC:nilderef"
        end)
  | GSet p v =>
    let '(x', r) := set true p (to_caller x) (to_caller v) in
    (x', pr_status r ++ ";" ++ pr_obs x' ++
         match r, p with
         | Ok _, _ :: _ =>
           ";sh=" ++ match get true p x' with Ok (Some y) => share_class v y | _ => "?" end
         | _, _ => ""
         end)
  | GCmp p c rt =>
    (x, match compare true p x c rt with
        | Ok (Some b) => if b then "r=1" else "r=0"
        | Ok None => "none"
        | Err e => err_name e
        | Panic _ => "PANIC:nilderef"
        end)
  | GLen p => (x, pr_optz (length true p x))
  | GCap p => (x, pr_optz (capacity true p x))
  | GLoop p b =>
    (x, match loop true p x (ctl_of b) with
        | Ok vis =>
          match b with
          | None => pr_kvs (map (fun kv => (fst kv, pr_obs (snd kv))) vis)
          | Some _ =>
            let es := match get true p x with Ok (Some y) => root_entries (abs y) | _ => [] end in
            "c=" ++ nat_to_string (List.length vis) ++ ";in=" ++
            (if forallb (fun kv => match tlookup (fst kv) es with
                                   | Some t => String.eqb (pr_tree t) (pr_obs (snd kv))
                                   | None => false end) vis
                && keys_nodup (map fst vis) then "1" else "0")
          end
        | Err e => err_name e
        | Panic _ => "PANIC:nilderef"
        end)
  | GCopy =>
    let '(c, r) := copy true (to_caller x) in
    (c, pr_status r ++ ";" ++ pr_obs c ++ ";sh=" ++ fresh_class c)
  | GCopyTo d =>
    let '(d', r) := copy_to true (to_caller x) d in
    (x, pr_status r ++ ";" ++ pr_obs d' ++ ";sh=" ++ fresh_es_class d')
  | GReset => let '(x', r) := reset true x in (x', pr_status r ++ ";" ++ pr_obs x')
  | GDeq => (x, if deep_equal x x then "d=1" else "d=0")
  end.

(* ---------- what the specification demands for one operation ---------- *)
Definition spec_nav (t : tree) (p : list string) (found : tree -> string) : string :=
  match tnav t p with
  | NFound y => found y
  | NAbsent => "none"
  | NNonMap => "err:unsupported"
  end.
Definition pr_someZ (o : option Z) : string := match o with Some z => "n=" ++ Z_to_string z | None => "none" end.

Definition spec_step (t : tree) (o : gop) : tree * string :=
  match o with
  | GGet p => (t, spec_nav t p (fun y => match y with TLeaf LNil => "none" | _ => "v=" ++ pr_tree y end))
  | GSet [] _ => (t, "*")
  | GSet p v =>
    match tset t p (stored (abs v)) with
    | SetOk t' => (t', "ok;" ++ pr_tree t' ++ ";sh=" ++ set_value_class v)
    | SetNonMap => (t, "err:unsupported;" ++ pr_tree t)
    end
  | GCmp [] _ _ => (t, "*")
  | GCmp p c rt =>
    (t, spec_nav t p (fun y => match tcmp y (cop_num c) rt with
                               | Some b => if b then "r=1" else "r=0"
                               | None => "none" end))
  | GLen p => (t, spec_nav t p (fun y => pr_someZ (tlen y)))
  | GCap p => (t, spec_nav t p (fun y => pr_someZ (tcap y)))
  | GLoop p b =>
    (t, match tnav t p with
        | NAbsent => match b with None => "{}" | Some _ => "c=0;in=1" end     (* nothing visited, no error *)
        | _ => spec_nav t p (fun y =>
          match tpairs y with
          | None => "err:unsupported"
          | Some es =>
            match b with
            | None => pr_kvs (map (fun kv => (fst kv, pr_tree (snd kv))) es)
            | Some n => "c=" ++ nat_to_string (Nat.min (S n) (List.length es)) ++ ";in=1"
            end
          end)
        end)
  | GCopy =>
    match t with
    | TMap _ es => let c := strip (TMap HVal es) in (c, "ok;" ++ pr_tree c ++ ";sh=0")
    | TLeaf _ => (t, "*")
    end
  | GCopyTo d =>
    match t, abs d with
    | TMap _ es, TMap h _ =>
      (* a destination pointer that is itself nil leaves nothing to fill: the property is silent *)
      if match d with ANilMap nf => nil_is_pointer nf | _ => false end then (t, "*")
      else (t, "ok;" ++ pr_tree (strip (TMap h es)) ++ ";sh=0")
    | _, _ => (t, "*")
    end
  | GReset => (treset t, "ok;" ++ pr_tree (treset t))
  | GDeq => (t, "*")
  end.

Fixpoint model_trace (x : any) (ops : list gop) : list string :=
  match ops with
  | [] => []
  | o :: r => let '(x', s) := model_step x o in s :: model_trace x' r
  end.
Fixpoint spec_trace (t : tree) (ops : list gop) : list string :=
  match ops with
  | [] => []
  | o :: r => let '(t', s) := spec_step t o in s :: spec_trace t' r
  end.

(* a spec that is silent on one step is silent on the case *)
Definition spec_text (l : list string) : string :=
  if existsb (String.eqb "*") l then "*" else join "|" l.

Definition case_line (id tags : string) (x : any) (ops : list gop) : string :=
  id ++ tab ++ tags ++ tab ++
  pr_in x ++ ";" ++ join ";" (map pr_gop ops) ++ tab ++
  join "|" (model_trace x ops) ++ tab ++
  spec_text (spec_trace (abs x) ops).

(* ---------- paths of a tree ---------- *)
Fixpoint node_paths (fuel : nat) (x : any) : list (list string) :=
  match fuel with
  | O => [[]]
  | S f =>
    [] :: match x with
          | AMap _ _ es => flat_map (fun kv => map (cons (fst kv)) (node_paths f (snd kv))) es
          | _ => []
          end
  end.

(* every node path, and below every node: an absent key, an absent key with a
   further step (for a leaf these two step through a non-map) *)
Definition path_variants (x : any) : list (list string) :=
  flat_map (fun p : list string => [p; (p ++ ["zz"])%list; (p ++ ["zz"; "a"])%list]) (node_paths 6 x).

Definition path_class (x : any) (p : list string) : string :=
  match p with
  | [] => "empty"
  | _ => match tnav (abs x) p with NFound _ => "resolve" | NAbsent => "absent" | NNonMap => "nonmap" end
  end.

(* the nil holder following p runs into before its last key is consumed *)
Fixpoint nil_on_path (x : any) (p : list string) : option nilform :=
  match p with
  | [] => None
  | k :: rest =>
    match x with
    | ANilMap nf => Some nf
    | AMap _ _ es => match lookup k es with Some c => nil_on_path c rest | None => None end
    | _ => None
    end
  end.

(* set-nil: the path reaches a nil holder there is no pointer to store a map
   through (a nil map held by value, a nil pointer); set-nilmade: it reaches a
   non-nil pointer to a nil map, which Set makes *)
Definition set_class (x : any) (p : list string) : string :=
  match nil_on_path x p with
  | Some nf => if nil_storable nf then "set-nilmade" else "set-nil"
  | None => "set"
  end.

Fixpoint depth (fuel : nat) (x : any) : nat :=
  match fuel with
  | O => 0
  | S f => match x with
           | AMap _ _ es => S (fold_right Nat.max 0 (map (fun kv => depth f (snd kv)) es))
           | ANilMap _ => 1
           | _ => 0
           end
  end.

Definition base_tags (x : any) : string :=
  "d" ++ nat_to_string (depth 8 x) ++ (if nonil x then "" else ",nil").

(* ---------- fixed material ---------- *)
Definition S_ (s : string) : any := AStr OCaller s.
Definition Y_ (s : string) (e : N) : any := ABytes OCaller s e.
Definition I_ (z : Z) : any := AInt KInt z.
Definition M_ (f : form) (es : entries) : any := AMap OCaller f es.
Definition utf : string := String (ascii_of_nat 195) (String (ascii_of_nat 169) "").   (* e-acute in UTF-8 *)

Definition leaves : list any :=
  [ANil; ABool true; ABool false; I_ 15; AInt KInt8 (-5); AInt KUint64 18446744073709551615;
   AInt KInt64 (-9223372036854775808); AInt KUint16 0; AInt KInt32 100; AInt KUint 7;
   S_ "my string"; S_ ""; S_ "15"; Y_ "some bytes" 6; Y_ "" 0; Y_ "ab" 0].

Definition forms : list form := [FVal; FPtr; FPtr2].
Definition nilforms : list nilform := [NMap; NPtr; NPtrMap; NPtr2; NPtr2Ptr; NPtr2PtrMap].

(* the shape of /repo's own test value, in the three holding forms at every level *)
Definition testm (f1 f2 f3 : form) : any :=
  M_ f1 [("foo", M_ f2 [("noptr", M_ f3 [("str", S_ "my string"); ("bytes", Y_ "my bytes" 4); ("int", I_ 15)])]);
         ("bar", M_ f3 [("dptr", M_ f2 [("nested", Y_ "some bytes" 6)])]);
         ("str", S_ "some string"); ("int", I_ (-123456)); ("uint", AInt KUint 123456);
         ("nil", ANil); ("", ABool true); (utf, M_ f1 [])].

Definition deep4 (f : form) : any :=
  M_ f [("a", M_ FPtr [("b", M_ FPtr2 [("c", M_ FVal [("d", S_ "leaf"); ("e", Y_ "xy" 2)]); ("c2", ANil)]); ("b2", I_ 1)])].

Definition enum_trees : list any :=
  (* one entry, every leaf, every root form *)
  flat_map (fun f => map (fun l => M_ f [("a", l)]) leaves) forms ++
  (* two levels, every pair of forms *)
  flat_map (fun f1 => map (fun f2 => M_ f1 [("a", M_ f2 [("b", I_ 15); ("s", S_ "text"); ("y", Y_ "bytes" 3)]); ("b", ANil)]) forms) forms ++
  (* empty maps *)
  map (fun f => M_ f []) forms ++
  flat_map (fun f1 => map (fun f2 => M_ f1 [("a", M_ f2 [])]) forms) forms ++
  [testm FVal FVal FPtr; testm FPtr FPtr2 FVal; testm FPtr2 FVal FPtr2] ++
  map deep4 forms.

(* nil holders at the root and one and two levels down *)
Definition nil_trees : list any :=
  map ANilMap nilforms ++
  flat_map (fun f => map (fun nf => M_ f [("a", ANilMap nf); ("b", I_ 15)]) nilforms) forms ++
  map (fun nf => M_ FVal [("a", M_ FPtr [("b", ANilMap nf); ("s", S_ "text")])]) nilforms.

Definition set_values : list any :=
  [I_ 20; S_ "new string"; Y_ "new bytes" 3; ANil; ABool false; S_ ""; Y_ "" 0;
   M_ FVal [("q", I_ 1)]; M_ FPtr [("q", S_ "inner")]; AInt KUint8 255].

Definition cmp_operands : list (cop * string) :=
  [(OpEq, "15"); (OpLt, "100"); (OpGtq, "0x0f"); (OpNq, "my string"); (OpEq, "my string"); (OpGt, "a");
   (OpEq, "true"); (OpNq, "0"); (OpEq, "some bytes"); (OpLtq, "-5"); (OpUnk, "15"); (OpEq, "1_5");
   (OpEq, ""); (OpGt, "18446744073709551614"); (OpInc, "15"); (OpLt, "text"); (OpNq, "bytes")].

Definition read_ops (p : list string) : list gop :=
  [GGet p; GLen p; GCap p; GLoop p None; GLoop p (Some 0); GLoop p (Some 1)] ++
  match p with
  | [] => []                                                  (* Compare without a path: the property is silent *)
  | _ => map (fun cr => GCmp p (fst cr) (snd cr)) cmp_operands
  end.

Definition dsts : list any :=
  [AMap OOther FPtr []; AMap OOther FPtr2 [("old", AStr OOther "value"); ("a", AMap OOther FVal [("x", AInt KInt 1)])];
   AMap OOther FPtr [("a", AInt KInt 9)]].
Definition nil_dsts : list any := [ANilMap NPtrMap; ANilMap NPtr2PtrMap].
(* nil destination pointers: CopyTo has nothing to store through (correspondence only) *)
Definition nilptr_dsts : list any := [ANilMap NPtr; ANilMap NPtr2; ANilMap NPtr2Ptr].

Fixpoint number {A} (i : nat) (l : list A) : list (nat * A) :=
  match l with [] => [] | x :: r => (i, x) :: number (S i) r end.

Definition every_nth {A} (n : nat) (l : list A) : list A :=
  map snd (filter (fun ix => Nat.eqb (Nat.modulo (fst ix) n) 0) (number 0 l)).

(* ---------- cases of one tree ---------- *)
Definition tree_cases (pre : string) (setstride : nat) (x : any) : list string :=
  let bt := base_tags x in
  let pv := path_variants x in
  (* reads *)
  map (fun ip : nat * list string =>
         let '(i, p) := ip in
         case_line (pre ++ "r" ++ nat_to_string i) ("read," ++ path_class x p ++ "," ++ bt) x (read_ops p))
      (number 0 pv) ++
  (* Set, then read back and read the neighbourhood *)
  flat_map (fun ip : nat * list string =>
         let '(i, p) := ip in
         map (fun jv : nat * any =>
                let '(j, v) := jv in
                case_line (pre ++ "s" ++ nat_to_string i ++ "v" ++ nat_to_string j)
                          (set_class x p ++ "," ++ path_class x p ++ "," ++ bt)
                          x [GSet p v; GGet p; GLen p; GCap p; GGet []])
             (every_nth setstride (number 0 set_values)))
      (number 0 pv) ++
  (* operations the property is silent about: correspondence only *)
  [case_line (pre ++ "d") ("silent," ++ bt) x
             [GDeq; GCmp [] OpEq "15"; GSet [] (I_ 1); GGet []]] ++
  (* Copy, CopyTo, Reset *)
  [case_line (pre ++ "y") ("copy," ++ bt) x [GCopy; GGet []; GLen []; GReset; GGet []];
   case_line (pre ++ "z") ("reset," ++ bt) x
             ([GReset; GLen []; GGet []] ++
              match x with AMap _ _ _ => [GSet ["k"] (S_ "after reset"); GGet []] | _ => [] end)] ++
  map (fun id : nat * any =>
         let '(i, d) := id in
         case_line (pre ++ "t" ++ nat_to_string i)
                   ((match x with ANilMap _ => "copyto-srcnil" | _ => "copyto" end) ++ "," ++ bt) x [GCopyTo d; GGet []])
      (number 0 dsts) ++
  map (fun id : nat * any =>
         let '(i, d) := id in
         case_line (pre ++ "u" ++ nat_to_string i) ("copyto-dstnil," ++ bt) x [GCopyTo d])
      (number 0 nil_dsts) ++
  map (fun id : nat * any =>
         let '(i, d) := id in
         case_line (pre ++ "w" ++ nat_to_string i) ("silent,copyto-dstnilptr," ++ bt) x [GCopyTo d])
      (number 0 nilptr_dsts).

(* ---------- random trees and histories ---------- *)
Definition key_pool : list string := ["a"; "b"; "c"; "k1"; ""; utf; "zz"].

Definition rnd_leaf (s : rng) : any * rng := pick_list s ANil leaves.

(* a random subset of the key pool, in pool order *)
Fixpoint rnd_keys (pool : list string) (s : rng) : list string * rng :=
  match pool with
  | [] => ([], s)
  | k :: r =>
    let '(c, s1) := rng_nat s 5 in
    let '(ks, s2) := rnd_keys r s1 in
    (if Nat.ltb c 2 then k :: ks else ks, s2)
  end.

Fixpoint rnd_any (d : nat) (allow_nil : bool) (s : rng) : any * rng :=
  match d with
  | O => rnd_leaf s
  | S d' =>
    let '(c, s1) := rng_nat s 10 in
    if Nat.ltb c 4 then rnd_leaf s1
    else if allow_nil && Nat.eqb c 4 then let '(nf, s2) := pick_list s1 NMap nilforms in (ANilMap nf, s2)
    else
      let '(f, s2) := pick_list s1 FVal forms in
      let '(ks, s3) := rnd_keys key_pool s2 in
      let '(es, s4) :=
        (fix go (ks : list string) (s : rng) : entries * rng :=
           match ks with
           | [] => ([], s)
           | k :: r => let '(v, s') := rnd_any d' allow_nil s in
                       let '(es, s'') := go r s' in ((k, v) :: es, s'')
           end) ks s3 in
      (M_ f es, s4)
  end.

Definition rnd_root (d : nat) (allow_nil : bool) (s : rng) : any * rng :=
  let '(f, s1) := pick_list s FVal forms in
  let '(ks, s2) := rnd_keys key_pool s1 in
  let '(es, s3) :=
    (fix go (ks : list string) (s : rng) : entries * rng :=
       match ks with
       | [] => ([], s)
       | k :: r => let '(v, s') := rnd_any d allow_nil s in
                   let '(es, s'') := go r s' in ((k, v) :: es, s'')
       end) ks s2 in
  (M_ f es, s3).

(* a path: a variant of the current model state's paths, sometimes extended *)
Definition rnd_path (x : any) (s : rng) : list string * rng :=
  let '(p, s1) := pick_list s [] (path_variants x) in
  let '(c, s2) := rng_nat s1 6 in
  match c with
  | 0 => let '(k, s3) := pick_list s2 "a" key_pool in ((p ++ [k])%list, s3)
  | 1 => let '(k, s3) := pick_list s2 "a" key_pool in ((p ++ [k; "n2"])%list, s3)
  | _ => (p, s2)
  end.

Definition rnd_gop (x : any) (s : rng) : gop * rng :=
  let '(c, s1) := rng_nat s 16 in
  let '(p, s2) := rnd_path x s1 in
  match c with
  | 0 | 1 | 2 | 3 | 4 => let '(v, s3) := pick_list s2 ANil set_values in
                         (match p with [] => GSet ["k1"] v | _ => GSet p v end, s3)
  | 5 | 6 => (GGet p, s2)
  | 7 => (GLen p, s2)
  | 8 => (GCap p, s2)
  | 9 => let '(cr, s3) := pick_list s2 (OpEq, "15") cmp_operands in
         (match p with [] => GLen [] | _ => GCmp p (fst cr) (snd cr) end, s3)
  | 10 => (GLoop p None, s2)
  | 11 => let '(n, s3) := rng_nat s2 3 in (GLoop p (Some n), s3)
  | 12 => (GCopy, s2)
  | 13 => let '(d, s3) := pick_list s2 (AMap OOther FPtr []) dsts in (GCopyTo d, s3)
  | 14 => let '(k, s3) := rng_nat s2 4 in (if Nat.eqb k 0 then GReset else GGet [], s3)
  | _ => (GGet [], s2)
  end.

Fixpoint rnd_hist (len : nat) (x : any) (s : rng) : list gop * rng :=
  match len with
  | O => ([], s)
  | S l =>
    let '(o, s1) := rnd_gop x s in
    let '(x', _) := model_step x o in
    let '(r, s2) := rnd_hist l x' s1 in
    (o :: GGet [] :: r, s2)
  end.

Fixpoint rnd_hist_cases (count : nat) (s : rng) (idx : nat) : list string :=
  match count with
  | O => []
  | S c =>
    let '(d, s1) := rng_nat s 4 in
    let '(x, s2) := rnd_root d false s1 in
    let '(len, s3) := rng_nat s2 12 in
    let '(ops, s4) := rnd_hist (S len) x s3 in
    case_line ("h" ++ nat_to_string idx) ("hist," ++ base_tags x) x ops :: rnd_hist_cases c s4 (S idx)
  end.

Fixpoint rnd_tree_cases (count : nat) (allow_nil : bool) (stride : nat) (s : rng) (idx : nat) : list string :=
  match count with
  | O => []
  | S c =>
    let '(d, s1) := rng_nat s 4 in
    let '(x, s2) := rnd_root d allow_nil s1 in
    tree_cases ((if allow_nil then "q" else "p") ++ nat_to_string idx ++ "_") stride x ++
    rnd_tree_cases c allow_nil stride s2 (S idx)
  end.

(* ---------- holders sharing map objects ----------
   A case of this class starts from several trees (holders 0, 1, ...) and runs
   operations addressed at one holder each; Get and Copy append what they return
   as a new holder, Set can store what a holder holds (the same map object, as
   Go does), so nested maps become shared between trees and the caller.  After
   EVERY operation EVERY holder is dumped: an operation addressed at one map
   object must not change what holders that do not reach this object see.
   Input:  #<value>#<value>...;op;op...   with
     g!i!path  (holder := Get(h[i], path))      s!i!path!h<j> | s!i!path!<value>  (Set(h[i], h[j] | value, path))
     l!i!path  (Length)    r!i  (Reset)         y!i  (holder := Copy(h[i]))       t!i!j  (CopyTo(h[i], h[j]))
     w!i!<V|P|Q>  (holder := the map h[i] holds, held in the given form - built by the harness)
   Observation per step:  <result>;<dump of holder 0>;<dump of holder 1>;...   a dump that is the same text
   as after the previous step is written "=" (by the harness and by both columns, each from its own dumps).
   The model column runs Model/StrAnyMapHeap.v, the spec column Spec/StrAnyMapStore.v. *)
Inductive hop :=
| HGet (i : nat) (p : list string)
| HSetH (i j : nat) (p : list string)
| HSetV (i : nat) (p : list string) (v : any)
| HLen (i : nat) (p : list string)
| HReset (i : nat)
| HCopy (i : nat)
| HCopyTo (i j : nat)
| HWrap (i : nat) (f : form).

Definition pr_hop (o : hop) : string :=
  match o with
  | HGet i p => "g!" ++ nat_to_string i ++ "!" ++ pr_path p
  | HSetH i j p => "s!" ++ nat_to_string i ++ "!" ++ pr_path p ++ "!h" ++ nat_to_string j
  | HSetV i p v => "s!" ++ nat_to_string i ++ "!" ++ pr_path p ++ "!" ++ pr_in v
  | HLen i p => "l!" ++ nat_to_string i ++ "!" ++ pr_path p
  | HReset i => "r!" ++ nat_to_string i
  | HCopy i => "y!" ++ nat_to_string i
  | HCopyTo i j => "t!" ++ nat_to_string i ++ "!" ++ nat_to_string j
  | HWrap i f => "w!" ++ nat_to_string i ++ "!" ++ form_tag f
  end.

Definition hstate := (store * list snode)%type.
Definition holder (hs : list snode) (i : nat) : snode := nth i hs (SLeaf LNil).
Definition pr_view (st : store) (x : snode) : string := pr_tree (view (view_fuel st) st x).
Definition pr_holders (st : store) (hs : list snode) : string := join ";" (map (pr_view st) hs).
Definition pr_got (st : store) (y : snode) : string :=
  match y with SLeaf LNil => "none" | _ => "v=" ++ pr_view st y end.
Definition rewrap (x : snode) (f : form) : snode :=
  match x with SMap _ m => SMap (hold_of f) m | SLeaf _ => SLeaf LNil end.

(* the trees of the input as fresh objects (construction, shared by both columns) *)
Fixpoint load_all (st : store) (xs : list any) : hstate :=
  match xs with
  | [] => (st, [])
  | x :: r => let '(st1, n) := mat st (abs x) in let '(st2, ns) := load_all st1 r in (st2, n :: ns)
  end.

(* a step yields the next state and the operation's own result; the dump of
   every holder is appended when the trace is printed: in full when it differs
   from the holder's dump after the previous step (or the holder is new), as "="
   when it is the same text.  The operations that only read leave the store as
   it is, so the dumps after them are the previous ones. *)
Definition with_dump (s : hstate) (r : string) : hstate * string := (s, r).

Definition is_read (o : hop) : bool :=
  match o with HGet _ _ | HLen _ _ | HWrap _ _ => true | _ => false end.

Definition next_dumps (o : hop) (s' : hstate) (prev : list string) : list string :=
  let '(st, hs) := s' in
  if is_read o then (prev ++ map (pr_view st) (skipn (List.length prev) hs))%list
  else map (pr_view st) hs.

Fixpoint mark_same (prev cur : list string) : list string :=
  match cur with
  | [] => []
  | c :: cr =>
    match prev with
    | p :: pr => (if String.eqb p c then "=" else c) :: mark_same pr cr
    | [] => c :: mark_same [] cr
    end
  end.

Fixpoint htrace (step : hstate -> hop -> hstate * string) (s : hstate) (prev : list string) (ops : list hop)
  : list string :=
  match ops with
  | [] => []
  | o :: r =>
    let sr := step s o in
    let cur := next_dumps o (fst sr) prev in
    (if String.eqb (snd sr) "*" then "*" else snd sr ++ ";" ++ join ";" (mark_same prev cur))
    :: htrace step (fst sr) cur r
  end.

(* ---------- model: the Go statements on the heap ---------- *)
Definition hmodel_step (s : hstate) (o : hop) : hstate * string :=
  let '(st, hs) := s in
  match o with
  | HGet i p =>
    match h_get st p (holder hs i) with
    | Ok (Some y) => with_dump (st, (hs ++ [y])%list) (pr_got st y)
    | Ok None => with_dump (st, (hs ++ [SLeaf LNil])%list) "none"
    | Err e => with_dump (st, (hs ++ [SLeaf LNil])%list) (err_name e)
    | Panic _ => with_dump (st, (hs ++ [SLeaf LNil])%list) "PANIC:nilderef"
    end
  | HSetH i j p =>
    let '(st', r) := h_set st p (holder hs i) (holder hs j) in with_dump (st', hs) (pr_status r)
  | HSetV i p v =>
    let '(st0, n) := mat st (abs v) in
    let '(st', r) := h_set st0 p (holder hs i) n in with_dump (st', hs) (pr_status r)
  | HLen i p => with_dump s (pr_optz (h_length st p (holder hs i)))
  | HReset i => let '(st', r) := h_reset st (holder hs i) in with_dump (st', hs) (pr_status r)
  | HCopy i => let '(st', c, r) := h_copy st (holder hs i) in with_dump (st', (hs ++ [c])%list) (pr_status r)
  | HCopyTo i j => let '(st', r) := h_copy_to st (holder hs i) (holder hs j) in with_dump (st', hs) (pr_status r)
  | HWrap i f => with_dump (st, (hs ++ [rewrap (holder hs i) f])%list) "w"
  end.

(* ---------- specification: Spec/StrAnyMapStore.v ---------- *)
Definition hspec_set (st : store) (hs : list snode) (x : snode) (p : list string) (v : snode) : hstate * string :=
  match p with
  | [] => ((st, hs), "*")
  | _ :: _ =>
    match s_set st x p (sstored v) with
    | SSetOk st' => with_dump (st', hs) "ok"
    | SSetNonMap => with_dump (st, hs) "err:unsupported"
    end
  end.

Definition hspec_step (s : hstate) (o : hop) : hstate * string :=
  let '(st, hs) := s in
  match o with
  | HGet i p =>
    match s_nav st (holder hs i) p with
    | SFound y => with_dump (st, (hs ++ [y])%list) (pr_got st y)
    | SAbsent => with_dump (st, (hs ++ [SLeaf LNil])%list) "none"
    | SNonMap => with_dump (st, (hs ++ [SLeaf LNil])%list) "err:unsupported"
    end
  | HSetH i j p => hspec_set st hs (holder hs i) p (holder hs j)
  | HSetV i p v => let '(st0, n) := mat st (abs v) in hspec_set st0 hs (holder hs i) p n
  | HLen i p =>
    match s_nav st (holder hs i) p with
    | SFound y => with_dump s (pr_someZ (tlen (view (view_fuel st) st y)))
    | SAbsent => with_dump s "none"
    | SNonMap => with_dump s "err:unsupported"
    end
  | HReset i =>
    match holder hs i with
    | SMap _ _ => with_dump (s_reset st (holder hs i), hs) "ok"
    | SLeaf _ => (s, "*")
    end
  | HCopy i =>
    match holder hs i with
    | SMap _ _ => let '(st', c) := s_copy st (holder hs i) in with_dump (st', (hs ++ [c])%list) "ok"
    | SLeaf _ => (s, "*")
    end
  | HCopyTo i j =>
    match holder hs i, holder hs j with
    | SMap _ _, SMap HVal _ => (s, "*")
    | SMap _ _, SMap _ md =>
      (* a destination that is part of the source is outside the property's text *)
      if reaches (view_fuel st) st (holder hs i) md then (s, "*")
      else with_dump (s_copy_to st (holder hs i) md, hs) "ok"
    | _, _ => (s, "*")
    end
  | HWrap i f => with_dump (st, (hs ++ [rewrap (holder hs i) f])%list) "w"
  end.

Definition hcase_line (id tags : string) (xs : list any) (ops : list hop) : string :=
  let s0 := load_all [] xs in
  id ++ tab ++ tags ++ tab ++
  concat "" (map (fun x => "#" ++ pr_in x) xs) ++ ";" ++ join ";" (map pr_hop ops) ++ tab ++
  join "|" (htrace hmodel_step s0 [] ops) ++ tab ++
  spec_text (htrace hspec_step s0 [] ops).

(* ---------- enumerated sharing scenarios ---------- *)
(* non-empty paths of x that lead to a nested map *)
Definition map_paths (x : any) : list (list string) :=
  filter (fun p : list string =>
            match p with
            | [] => false
            | _ => match tnav (abs x) p with NFound (TMap _ _) => true | _ => false end
            end) (node_paths 6 x).

Definition other_tree (f1 f2 : form) : any :=
  M_ f1 [("x", I_ 1); ("sub", M_ f2 [("y", S_ "b"); ("yy", Y_ "bb" 2)])].

Definition share_sources : list any :=
  flat_map (fun f1 => map (fun f2 => M_ f1 [("a", M_ f2 [("b", I_ 15); ("s", S_ "text"); ("y", Y_ "bytes" 3)]); ("b", ANil)]) forms) forms ++
  [testm FVal FVal FPtr; testm FPtr FPtr2 FVal; testm FPtr2 FVal FPtr2] ++
  map deep4 forms.

Definition nth_form (i : nat) : form := nth (Nat.modulo i 3) forms FVal.

(* holders: 0 = the source tree a, 1 = another tree b, 2 = the nested map of a at pa *)
Definition share_scenarios (i : nat) (pa : list string) : list (string * list hop) :=
  let f := nth_form i in
  [ (* the nested map moved into b, then the source is reset / written / the moved map reset *)
    ("moved-reset-source",
     [HGet 0 pa; HSetH 1 2 ["moved"]; HReset 0; HLen 1 ["moved"]; HGet 1 ["moved"];
      HSetV 0 ["k"] (S_ "after"); HReset 2]);
    (* ... below a created chain in b, then b is reset; the source still holds it *)
    ("moved-reset-other",
     [HGet 0 pa; HSetH 1 2 ["sub"; "moved"]; HReset 1; HLen 0 pa; HSetV 2 ["n"] (I_ 7);
      HCopy 0; HReset 0; HSetV 2 ["n2"] (Y_ "zz" 1)]);
    (* writes through either tree land in the one shared object, copies are detached *)
    ("moved-set-copyto",
     [HGet 0 pa; HSetH 1 2 ["new"; "deep"]; HSetV 1 ["new"; "deep"; "leaf"] (S_ "via b");
      HSetV 0 (pa ++ ["zz"])%list (I_ 9); HWrap 1 FPtr; HCopyTo 0 3; HReset 0; HLen 2 []; HReset 3]);
    (* the nested map held directly by the caller, in its own and in another form *)
    ("held-reset",
     [HGet 0 pa; HWrap 2 f; HReset 0; HLen 2 []; HLen 3 []; HSetV 3 ["k"] (S_ "kept"); HReset 3;
      HSetH 0 2 ["back"]]);
    (* a copy, then resets and writes on both sides *)
    ("copy-detached",
     [HCopy 0; HGet 2 pa; HReset 0; HSetV 3 ["c"] (I_ 3); HSetH 0 3 ["from-copy"]; HReset 2; HLen 0 ["from-copy"]]);
    (* CopyTo over a tree whose old nested map is still held *)
    ("copyto-over-held",
     [HGet 1 ["sub"]; HWrap 1 FPtr2; HCopyTo 0 3; HLen 2 []; HGet 1 pa; HReset 4; HLen 0 pa; HReset 0]) ].

Definition share_cases : list string :=
  flat_map (fun ia : nat * any =>
    let '(i, a) := ia in
    flat_map (fun jp : nat * list string =>
      let '(j, pa) := jp in
      let b := other_tree (nth_form (i + j)) (nth_form (i + j + j + 1)) in
      map (fun sc : string * list hop =>
             hcase_line ("sh" ++ nat_to_string i ++ "_" ++ nat_to_string j ++ "_" ++ fst sc)
                        ("share," ++ fst sc ++ "," ++ base_tags a) [a; b] (snd sc))
          (share_scenarios (i + j) pa))
      (number 0 (map_paths a)))
    (number 0 share_sources).

(* ---------- random histories over holders ---------- *)
Fixpoint tnode_paths (fuel : nat) (t : tree) : list (list string) :=
  match fuel with
  | O => [[]]
  | S f =>
    [] :: match t with
          | TMap _ es => flat_map (fun kv => map (cons (fst kv)) (tnode_paths f (snd kv))) es
          | TLeaf _ => []
          end
  end.

Definition is_smap (x : snode) : bool := match x with SMap _ _ => true | SLeaf _ => false end.

Definition rnd_hpath (st : store) (x : snode) (extend : bool) (s : rng) : list string * rng :=
  let '(p, s1) := pick_list s [] (tnode_paths 5 (view (view_fuel st) st x)) in
  if extend then
    let '(c, s2) := rng_nat s1 4 in
    let '(k, s3) := pick_list s2 "a" key_pool in
    match c with
    | 0 => ((p ++ [k; "n2"])%list, s3)
    | _ => ((p ++ [k])%list, s3)
    end
  else (p, s1).

(* the spec is silent about it, or it would tie a cycle: not generated.  Only a
   Set of what a holder holds can tie one - when the object it writes is
   reachable from the value (a new cycle has to pass the new entry). *)
Definition hop_ok (s : hstate) (o : hop) : bool :=
  let '(st, hs) := s in
  match o with
  | HSetH i j p =>
    match p with
    | [] => false
    | _ => match s_target st (holder hs i) p with
           | Some a => negb (reaches (view_fuel st) st (holder hs j) a)
           | None => true
           end
    end
  | HSetV i p _ => match p with [] => false | _ => true end
  | HReset i | HCopy i => is_smap (holder hs i)
  | HCopyTo i j =>
    match holder hs i, holder hs j with
    | SMap _ _, SMap HVal _ => false
    | SMap _ _, SMap _ md => negb (reaches (view_fuel st) st (holder hs i) md)
    | _, _ => false
    end
  | _ => true
  end.

Definition rnd_hop (s : hstate) (g : rng) : hop * rng :=
  let '(st, hs) := s in
  let n := List.length hs in
  let '(c, g1) := rng_nat g 16 in
  let '(i, g2) := rng_nat g1 n in
  let '(j, g3) := rng_nat g2 n in
  match c with
  | 0 | 1 | 2 => let '(p, g4) := rnd_hpath st (holder hs i) false g3 in (HGet i p, g4)
  | 3 | 4 | 5 => let '(p, g4) := rnd_hpath st (holder hs i) true g3 in (HSetH i j p, g4)
  | 6 | 7 => let '(p, g4) := rnd_hpath st (holder hs i) true g3 in
             let '(v, g5) := pick_list g4 ANil set_values in (HSetV i p v, g5)
  | 8 => let '(p, g4) := rnd_hpath st (holder hs i) false g3 in (HLen i p, g4)
  | 9 | 10 => (HReset i, g3)
  | 11 => (HCopy i, g3)
  | 12 | 13 => (HCopyTo i j, g3)
  | 14 => let '(f, g4) := pick_list g3 FPtr forms in (HWrap i f, g4)
  | _ => let '(p, g4) := rnd_hpath st (holder hs i) true g3 in (HLen i p, g4)
  end.

Fixpoint rnd_hhist (len : nat) (s : hstate) (g : rng) : list hop * rng :=
  match len with
  | O => ([], g)
  | S l =>
    let '(o0, g1) := rnd_hop s g in
    let o := if hop_ok s o0 then o0 else HLen 0 [] in
    let '(s', _) := hmodel_step s o in
    let '(r, g2) := rnd_hhist l s' g1 in
    (o :: r, g2)
  end.

Fixpoint rnd_share_hists (count : nat) (tags : string) (xs : list any) (g : rng) (id : string) (k : nat)
  : list string * rng :=
  match count with
  | O => ([], g)
  | S c =>
    let '(len, g1) := rng_nat g 6 in
    let '(ops, g2) := rnd_hhist (3 + len) (load_all [] xs) g1 in
    let '(r, g3) := rnd_share_hists c tags xs g2 id (S k) in
    (hcase_line (id ++ "_" ++ nat_to_string k) tags xs ops :: r, g3)
  end.

(* per group: two histories over a pair of random trees, two over a pair of the enumerated ones
   (drawing a random tree costs as much as several histories) *)
Fixpoint rnd_share_cases (groups : nat) (g : rng) (idx : nat) : list string :=
  match groups with
  | O => []
  | S c =>
    let '(d, g1) := rng_nat g 2 in
    let '(a, g2) := rnd_root (S d) false g1 in
    let '(b, g3) := rnd_root d false g2 in
    let '(l1, g4) := rnd_share_hists 2 ("share,hist," ++ base_tags a) [a; b] g3 ("sr" ++ nat_to_string idx) 0 in
    let a2 := nth (Nat.modulo idx (List.length share_sources)) share_sources (M_ FVal []) in
    let b2 := other_tree (nth_form idx) (nth_form (Nat.div idx 3)) in
    let '(l2, g5) := rnd_share_hists 2 ("share,hist," ++ base_tags a2) [a2; b2] g4 ("se" ++ nat_to_string idx) 0 in
    (l1 ++ l2 ++ rnd_share_cases c g5 (S idx))%list
  end.

(* tier 0 = quick, 1 = thorough *)
Definition cases (tier : Z) (seed : Z) : list string :=
  let quick := Z.eqb tier 0 in
  let s0 := rng_of_seed seed in
  flat_map (fun it : nat * any => tree_cases ("e" ++ nat_to_string (fst it) ++ "_") (if quick then 3 else 1) (snd it))
           (number 0 enum_trees) ++
  flat_map (fun it : nat * any => tree_cases ("n" ++ nat_to_string (fst it) ++ "_") (if quick then 4 else 1) (snd it))
           (number 0 nil_trees) ++
  rnd_tree_cases (if quick then 25 else 250) false (if quick then 5 else 2) s0 0 ++
  rnd_tree_cases (if quick then 8 else 80) true (if quick then 5 else 2) (rng_next (rng_next s0)) 0 ++
  rnd_hist_cases (if quick then 400 else 60 * 100) (rng_next s0) 0 ++
  share_cases ++
  rnd_share_cases (if quick then 45 else 10 * 100) (rng_next (rng_next (rng_next s0))) 0.
