(* Gen/GenC03h.v - the HISTORIES of the C03 stream (printed by Gen/GenC03all.v after the one-call
   cases): 2-4 Set / SetWithBuffer calls on ONE object that share ONE accumulating buffer
   (Model/SetHist.v; theorems in Proofs/SetHistSound.v and Proofs/ConvTexts.v).

   Every case of Gen/GenC03.v is one call with a buffer of its own.  Here the calls of a history
   assign scalars (int, uint, float, bool; value and pointer form) and now and then text to
   DIFFERENT string / []byte elements of one object - struct fields, pointer fields, map values
   (existing and created by the call), slice elements, elements of nested structs -, with a
   numeric element assigned in between, and the object is judged as a whole after EVERY call:

     sethist       the error and the whole object after the LAST call of the prefix given
                   (one line per prefix, so that every line replays by itself)
                   spec: the exact object, as long as the text fixes every call so far
     sethistframe  the frame condition decided natively by the harness after every call: every
                   location off the call's path - in particular the texts the earlier calls
                   stored - is what it was before that call, and no memory referenced by the
                   object before the call was written                    spec: frame=1,...,1

   Buffers: a zero ByteBuffer (z), NewByteBuffer(n) with spare capacity for all, for some or for
   none of the conversions (c<n>), a buffer that was used before and still holds somebody else's
   text, which has to stay what it is (u<n>), a used buffer after Reset (r<n>: stale content,
   length 0).  Calls: all buffered, buffered and unbuffered alternating, none buffered. *)
From Coq Require Import List Bool String Ascii ZArith Arith Floats.SpecFloat.
From Verif Require Import Util Ints Strconv Floats Node GoSrc Value Outcome Nav SetEmit SetSpec SetHist Shapes EnumVal GenUnits GenC08 GenC03.
Import ListNotations.
Local Open Scope string_scope.

(* ---------- sources ---------- *)
(* scalars whose rendered texts differ in length: the offsets inside the buffer vary *)
Definition scal_pool : list src :=
  [ SrcInt KInt64 1234567; SrcInt KUint16 65535; SrcInt KInt32 (-42); SrcF64 (f64v 5 (-1));
    SrcInt KUint8 9; SrcInt KUint64 18446744073709551615; SrcF32 (f64v (-25) (-2)); SrcInt KInt8 (-128);
    SrcInt KInt 0; SrcInt KUint32 4000000000; SrcF64 (f64v (-3) 0) ].

(* what a bool renders to is left open by the text ("bool into text"): such a call ends a history, so that the
   exact object stays specified for the calls before it *)
Definition bool_pool : list src := [ SrcBool true; SrcBool false ].

(* text (stored without a copy: the buffer is not used) and decimal text for numeric elements *)
Definition text_pool : list src := [ SrcStr "txt"; SrcBytes "raw"; SrcStr "-12"; SrcBytes "7" ].

Definition textual (en : node) : bool :=
  is_bytes_node en || match node_skind en with Some SString => true | _ => false end.

(* ---------- where the calls of a history go ---------- *)
(* after a Set the path denotes a string / []byte element that holds a value: an existing element,
   or one the call creates on its way (an absent map key, a nil container) *)
Definition lands_text (n : node) (v : val) (path : list string) : bool :=
  match path with
  | [] => false
  | _ =>
    match set_method n v path (SrcInt KInt64 7) true with
    | Ret v' None =>
      match nav n v' path with
      | NElem en ev => is_leaf_node en && textual en && negb (n_ptr en && is_nil_val ev)
      | _ => false
      end
    | _ => false
    end
  end.

(* does the type hold a string or []byte element anywhere?  (units without one have no histories) *)
Fixpoint has_text (n : node) {struct n} : bool :=
  match n with
  | Node ty tn tu nm pk pki p chld mk mv sl hb hc =>
    match ty with
    | typeBasic => match skind_of_name tu with Some SString => true | _ => false end
    | typeStruct => existsb has_text chld
    | typeMap => match mv with Some vn => has_text vn | None => false end
    | typeSlice => String.eqb tn "[]byte" || match sl with Some en => has_text en | None => false end
    end
  end.

Definition is_numeric_site (n : node) (v : val) (path : list string) : bool :=
  match path, nav n v path with
  | _ :: _, NElem en ev => is_leaf_node en && negb (textual en) && negb (n_ptr en && is_nil_val ev) && negb (in_u8_slice n v path) && negb (meets_u8 n path)
  | _, _ => false
  end.

Definition dedup_paths (l : list (list string)) : list (list string) :=
  fold_left (fun acc p => if existsb (fun q => String.eqb (path_text q) (path_text p)) acc then acc else (acc ++ [p])%list) l [].

(* ---------- one history ---------- *)
(* (path, pointer form of the source, source, buffered) *)
Definition hcall := (list string * bool * src * bool)%type.

Definition hstep_of (c : hcall) : hstep := let '(p, _, s, b) := c in mk_hstep p s b.

Definition bufmodes : list string := ["c64"; "z"; "c8"; "u32"; "c64"; "r32"; "c3"; "u64"; "z"; "c16"; "r8"].

(* which calls are buffered: 0 all, 1 alternating (the first one is), 2 alternating (the first one is not), 3 none *)
Definition pattern_of (salt : nat) : nat :=
  match Nat.modulo salt 8 with 5%nat => 1%nat | 6%nat => 2%nat | 7%nat => 3%nat | _ => 0%nat end.

Definition pattern_name (p : nat) : string :=
  match p with 0%nat => "allbuf" | 1%nat => "mixed10" | 2%nat => "mixed01" | _ => "nobuf" end.

Definition buffered (pat j : nat) : bool :=
  match pat with 0%nat => true | 1%nat => Nat.even j | 2%nat => Nat.odd j | _ => false end.

Definition hist_calls (ts ns : list (list string)) (mode : string) (salt : nat) : list hcall :=
  let pat := pattern_of salt in
  let k := if String.eqb mode "z" then 4%nat else (2 + Nat.modulo (salt / 2) 3)%nat in
  map (fun j : nat =>
         let buf := buffered pat j in
         let numeric := Nat.eqb j 1 && Nat.eqb (Nat.modulo salt 4) 1 && negb (match ns with [] => true | _ => false end) in
         if numeric then (nth_mod [] ns (salt + j), Nat.odd (salt + j), nth_mod (SrcStr "5") [SrcStr "-12"; SrcBytes "7"] salt, buf)
         else
           let texty := Nat.eqb j 2 && Nat.eqb (Nat.modulo salt 5) 0 in
           (nth_mod [] ts (salt + j), Nat.odd (salt + j),
            (if texty then nth_mod (SrcStr "t") text_pool salt
             else if Nat.eqb (S j) k && Nat.eqb (Nat.modulo salt 3) 0 then nth_mod (SrcBool true) bool_pool (salt / 3)
             else nth_mod (SrcInt KInt 1) scal_pool (salt * 3 + j * 5)), buf))
      (seqn k).

(* ---------- printing ---------- *)
Definition call_text (c : hcall) : string :=
  let '(p, ptr, s, b) := c in path_text p ++ "," ++ (if b then "1" else "0") ++ "," ++ src_text ptr s.

Definition calls_text (cs : list hcall) : string := join "|" (map call_text cs).

(* what the text demands of the object after every call, as long as it fixes all of them *)
Fixpoint spec_fold (n : node) (w : option val) (cs : list hcall) {struct cs} : list (option val) :=
  match cs with
  | [] => []
  | (p, _, s, _) :: r =>
    let w' := match w with Some x => set_demand n x p (aval_of s) | None => None end in
    w' :: spec_fold n w' r
  end.

(* the frame condition of every call, on the objects of the model *)
Fixpoint frames (n : node) (v : val) (cs : list hcall) {struct cs} : list string :=
  match cs with
  | [] => []
  | (p, _, s, b) :: r =>
    match set_method n v p s b with
    | Ret v' _ | Fall v' => (if frame_ok n p v v' then "1" else "0") :: frames n v' r
    | Panic k => ["PANIC:" ++ pr_pkind k]
    end
  end.

Fixpoint prefixes {A} (l : list A) : list (list A) :=
  match l with [] => [] | x :: r => [x] :: map (cons x) (prefixes r) end.

Definition last_opt {A} (l : list A) : option A := List.last (map Some l) None.

Definition set_line (id uname vt base mode : string) (n : node) (j : nat) (pre : list hcall) (before : option val)
  (o : out val) (spec : option val) : list string :=
  match last_opt pre with
  | Some (p, ptr, s, b) =>
    let cls := match before with Some x => path_class n x p (aval_of s) ++ dst_tag n x p | None => "-" end in
    [ id ++ "." ++ nat_to_string j ++ "s" ++ tab ++ "set," ++ base ++ ",call" ++ nat_to_string (S j) ++ "," ++ cls ++ ",src-" ++ src_kind s ++
      (if b then ",buf" else ",nobuf") ++ "," ++ out_kind o ++ tab ++
      uname ++ ";p;sethist;" ++ mode ++ ";" ++ calls_text pre ++ ";" ++ vt ++ tab ++ pr_set_n n o ++ tab ++
      match spec with Some w => "e=nil;obj=" ++ pr_obs (GenC08.u8fix n w) | None => "*" end ]
  | None => []
  end.

Definition frame_line (id uname vt base mode : string) (n : node) (v : val) (cs : list hcall) : string :=
  id ++ ".f" ++ tab ++ "frame," ++ base ++ tab ++ uname ++ ";p;sethistframe;" ++ mode ++ ";" ++ calls_text cs ++ ";" ++ vt ++ tab ++
  "frame=" ++ join "," (frames n v cs) ++ tab ++ "frame=" ++ join "," (map (fun _ => "1") cs).

Definition obj_of (o : option (out val)) : option val :=
  match o with Some (Ret x _) | Some (Fall x) => Some x | _ => None end.

Definition hist_lines (id uname : string) (n : node) (v : val) (mode : string) (pat : nat) (cs : list hcall) : list string :=
  let k := List.length cs in
  let base := "hist," ++ mode ++ "," ++ pattern_name pat ++ ",calls" ++ nat_to_string k in
  let vt := pr_val true v in
  let outs := run_hist n v (map hstep_of cs) in
  let specs := spec_fold n (Some v) cs in
  List.app
    (flat_map (fun jp : nat * list hcall =>
       let '(j, pre) := jp in
       match nth_error outs j with
       | Some o =>
         let before := match j with O => Some v | S j' => obj_of (nth_error outs j') end in
         set_line id uname vt base mode n j pre before o (match nth_error specs j with Some w => w | None => None end)
       | None => []
       end)
     (combine (seqn k) (prefixes cs)))
    [ frame_line id uname vt base mode n v cs ].

(* ---------- the histories of one unit ----------
   [maxvar] value variants per unit, [per] histories per variant that has a text element *)
Definition unit_lines (maxvar per : nat) (ui : nat) (u : string * ty) : list string :=
  let n := root_node u in
  if negb (has_text n) then [] else
  let vs := variants n in
  flat_map (fun iv : nat * val =>
    let '(vi, v) := iv in
    let ps := map fst (paths n v) in
    let ts := dedup_paths (filter (fun p => lands_text n v p && negb (meets_u8 n p)) ps) in
    let ns := dedup_paths (filter (is_numeric_site n v) ps) in
    match ts with
    | [] => []
    | _ =>
      flat_map (fun h : nat =>
        let salt := (ui * 5 + vi * 3 + h * 7)%nat in
        let mode := nth_mod "z" bufmodes (ui + vi * 2 + h * 3) in
        let cs := hist_calls ts ns mode salt in
        hist_lines (fst u ++ "." ++ nat_to_string vi ++ ".h" ++ nat_to_string h) (fst u) n v mode (pattern_of salt) cs)
      (seqn per)
    end)
  (take maxvar (combine (seqn (List.length vs)) vs)).

Definition cases_on (us : list (string * ty)) : list string :=
  flat_map (fun iu : nat * (string * ty) => unit_lines 6 3 (fst iu) (snd iu)) (combine (seqn (List.length us)) us).

Definition cases (tier : Z) (seed : Z) : list string := cases_on (emit_units tier).
