(* Gen/GenC17.v - case generator and canonical printers for the C17 stream.
   One case = one value ([]string / [][]byte, by value / pointer / nil pointer /
   foreign) and a list of calls made on it, state threaded; the observation is,
   per call, "result@state".  Every case is printed twice:
     mode A  what the property talks about: error or not, addressed index and
             content, stored comparison result, lengths, "capacity >= length",
             visited keys/indices/contents, aliasing class, element contents.
             [spec] is computed from Spec/StringsSpec.v on the abstract sequence.
     mode D  everything the model knows in addition: which error, reference
             kinds, nil-ness, element and outer capacities.  [spec] is "*".
   The model is Model/Strings.v at version [fixed].
   Texts are printed in hex, a run of 8 or more equal bytes hh as "(hh*n)" (the runner does the same),
   so the long texts of the "long" families (lengths around 1/4/64 KiB, histories of hundreds of Sets)
   stay short on the line. *)
From Coq Require Import List Arith Bool Ascii String ZArith NArith.
From Verif Require Import Util Strconv Strings StringsSpec.
Import ListNotations.
Local Open Scope string_scope.

Definition tab : string := String (ascii_of_nat 9) "".
Definition b (s : string) : bytes := bytes_of_string s.
Definition e_acute : bytes := [ascii_of_nat 195; ascii_of_nat 169].   (* U+00E9 in UTF-8 *)
Definition ee : bytes := (e_acute ++ e_acute)%list.

(* ---------- operations of a case ---------- *)
Inductive tkind := KStr | KStrPtr | KBytes | KBytesPtr | KOther.
Record gtext := { gk : tkind; gnil : bool; gdata : bytes }.

Inductive ddst :=
| DFresh (r : rep)        (* var d []string / [][]byte; &d *)
| DOne (r : rep)          (* pointer to a slice holding "zz", len 1 cap 4 *)
| DVal (r : rep)          (* a nil slice by value *)
| DNilPtr (r : rep)
| DForeign.

Inductive gop :=
| GGet (api : bool) (p : list string)                 (* true: Get, false: GetTo *)
| GSet (wb : bool) (t : gtext) (p : list string)      (* true: SetWithBuffer, false: Set *)
| GCmp (o : op) (r : bytes) (p : list string)
| GLen (p : list string)
| GCap (p : list string)
| GLoop (want : bool) (brk : option nat) (p : list string)
| GDeq (opts : bool) (y : arg)                        (* true: DeepEqualWithOptions(.., nil) *)
| GCopyFrom (src : arg)                               (* CopyTo(src, v, buf) *)
| GCopyOut (d : ddst)                                 (* CopyTo(v, d, buf) *)
| GCopy                                               (* Copy(v) *)
| GReset
| GBufPrep (n : Z).                                   (* not a call of the inspector: before anything else the caller's buffer is
                                                        used for n bytes of other data and Reset, so the calls that follow work
                                                        with a recycled buffer of that capacity instead of a new one *)

(* ---------- printing inputs ---------- *)
(* texts (element contents, operands) are written in hex, a run of 8 or more equal bytes hh as "(hh*n)":
   long texts stay short on the line and nothing is lost.  Path segments and Loop keys stay plain hex. *)
Definition hexp (x : bytes) : string := hex_of_bytes x.
Definition run_step (acc : list (ascii * positive)) (c : ascii) : list (ascii * positive) :=
  match acc with
  | (d, n) :: t => if Ascii.eqb c d then (d, Pos.succ n) :: t else (c, xH) :: acc
  | [] => [(c, xH)]
  end.
Definition runs (x : bytes) : list (ascii * positive) := rev_append (fold_left run_step x []) [].
Fixpoint rep_str (n : nat) (s : string) : string :=
  match n with O => "" | S k => s ++ rep_str k s end.
Definition pr_run (r : ascii * positive) : string :=
  let '(c, n) := r in
  if (n <? 8)%positive then rep_str (Pos.to_nat n) (hex_of_ascii c)
  else "(" ++ hex_of_ascii c ++ "*" ++ Z_to_string (Zpos n) ++ ")".
Definition hexs (x : bytes) : string :=
  match x with
  | _ :: _ :: _ :: _ :: _ :: _ :: _ :: _ :: _ => String.concat "" (map pr_run (runs x))
  | _ => hex_of_bytes x                            (* fewer than 8 bytes: no run to write *)
  end.
Definition pr_seg (s : string) : string := "x" ++ hexp (bytes_of_string s).
Definition pr_path (p : list string) : string :=
  match p with [] => "-" | _ => join "." (map pr_seg p) end.
Definition pr_rep (r : rep) : string := match r with SS => "S" | PP => "P" end.
Definition pr_elem (r : rep) (e : elem) : string :=
  "x" ++ hexs (e_data e) ++
  match r with SS => "" | PP => "+" ++ Z_to_string (e_cap e - zlen (e_data e)) end.
Definition pr_sq (s : sq) : string :=
  (if q_nil s then "nil" else "[" ++ join "," (map (pr_elem (q_rep s)) (q_elems s)) ++ "]") ++
  match q_cap s with Some c => "+" ++ Z_to_string (c - zlen (q_elems s)) | None => "+?" end.
Definition pr_arg (x : arg) : string :=
  match x with
  | AVal s => pr_rep (q_rep s) ++ "v" ++ pr_sq s
  | APtr s => pr_rep (q_rep s) ++ "p" ++ pr_sq s
  | ANilPtr r => pr_rep r ++ "n"
  | AForeign => "F"
  end.
Definition pr_aseq (a : aseq) : string := "[" ++ join "," (map (fun t => "x" ++ hexs t) a) ++ "]".

Definition pr_opcode (o : op) : string :=
  match o with
  | OpUnk => "0" | OpEq => "1" | OpNq => "2" | OpGt => "3" | OpGtq => "4"
  | OpLt => "5" | OpLtq => "6" | OpInc => "7" | OpDec => "8"
  end.
Definition pr_tkind (t : gtext) : string :=
  match gk t with
  | KStr => "s" | KStrPtr => if gnil t then "Sn" else "S"
  | KBytes => "b" | KBytesPtr => if gnil t then "Bn" else "B"
  | KOther => "o"
  end.
Definition pr_ddst (d : ddst) : string :=
  match d with
  | DFresh r => "f" ++ pr_rep r | DOne r => "o" ++ pr_rep r | DVal r => "v" ++ pr_rep r
  | DNilPtr r => "n" ++ pr_rep r | DForeign => "F"
  end.
Definition pr_bool (x : bool) : string := if x then "1" else "0".

Definition pr_gop (o : gop) : string :=
  match o with
  | GGet api p => (if api then "G:" else "g:") ++ pr_path p
  | GSet wb t p => (if wb then "W:" else "w:") ++ pr_tkind t ++ ":" ++ hexs (gdata t) ++ ":" ++ pr_path p
  | GCmp c r p => "C:" ++ pr_opcode c ++ ":" ++ hexs r ++ ":" ++ pr_path p
  | GLen p => "L:" ++ pr_path p
  | GCap p => "K:" ++ pr_path p
  | GLoop want brk p => "I:" ++ pr_bool want ++ ":" ++
                        (match brk with Some k => nat_to_string k | None => "-" end) ++ ":" ++ pr_path p
  | GDeq opts y => (if opts then "E:" else "e:") ++ pr_arg y
  | GCopyFrom src => "F:" ++ pr_arg src
  | GCopyOut d => "O:" ++ pr_ddst d
  | GCopy => "Y"
  | GReset => "R"
  | GBufPrep n => "B:" ++ Z_to_string n
  end.

(* ---------- running the model ---------- *)
Definition tval_of (t : gtext) (id : Z) : tval :=
  let tx := {| t_id := id; t_data := gdata t |} in
  match gk t with
  | KStr => TString tx
  | KStrPtr => TStringPtr (if gnil t then None else Some tx)
  | KBytes => TBytes tx
  | KBytesPtr => TBytesPtr (if gnil t then None else Some tx)
  | KOther => TOther
  end.

Definition zz_elem : elem := {| e_id := 99999; e_data := b "zz"; e_cap := 2 |}.
Definition dst_of (d : ddst) : arg :=
  match d with
  | DFresh r => APtr (nil_sq r)
  | DOne r => APtr {| q_rep := r; q_nil := false; q_elems := [zz_elem]; q_cap := Some 4%Z |}
  | DVal r => AVal (nil_sq r)
  | DNilPtr r => ANilPtr r
  | DForeign => AForeign
  end.

Definition g_abs (x : arg) : aseq := map e_data (elems_of x).
Definition ref_index (g : gref) : Z := match g with RStr i | RBytes i => i end.
Definition ref_data (x : arg) (g : gref) : bytes :=
  match znth (elems_of x) (ref_index g) with Some e => e_data e | None => [] end.

(* two element lists share bytes: a non-empty element of one lives in the allocation of a
   non-empty element of the other *)
Definition shares (l1 l2 : list elem) : bool :=
  existsb (fun e1 => negb (zlen (e_data e1) =? 0)%Z &&
                     existsb (fun e2 => negb (zlen (e_data e2) =? 0)%Z && (e_id e1 =? e_id e2)%Z) l2) l1.

Inductive gres :=
| RPanic (k : pkind)
| RErr (e : option err)
| RGet (e : option err) (r : option gref) (d : bytes)
| RSet (e : option err) (alias : bool)
| RCmp (e : option err) (r : option bool)
| RLen (e : option err) (w : wr)
| RCap (e : option err) (w : wr) (reflen : Z)
| RLoop (e : option err) (vs : list (option string * gref * bytes))
| RBool (v : bool)
| RCopyIn (e : option err) (alias : bool)
| RCopyOut (e : option err) (alias : bool) (d : arg).

Definition mk_iter (want : bool) (brk : option nat) : iter :=
  {| it_want := fun _ => want;
     it_ctl := fun k => match brk with
                        | Some bk => if Nat.eqb k bk then CtlBrk else CtlCnt
                        | None => CtlNone
                        end |}.

(* the length Capacity's answer is measured against: the addressed element's, or the sequence's *)
Definition cap_reflen (x : arg) (p : list string) : Z :=
  match p with
  | [] => zlen (elems_of x)
  | [s] => match atoi s with
           | Some i => match znth (elems_of x) i with Some e => zlen (e_data e) | None => 0%Z end
           | None => 0%Z
           end
  | _ => 0%Z
  end.

Definition gstep (st : hst) (o : gop) : hst * gres :=
  let x := h_arg st in let nid := h_nid st in
  match o with
  | GGet api p =>
    match (if api then si_get fixed x p else si_get_to fixed x p) with
    | Ret r e => (st, RGet e r (match r with Some g => ref_data x g | None => [] end))
    | Panic k => (st, RPanic k)
    end
  | GSet wb t p =>
    match (if wb then si_set_with_buffer fixed x (tval_of t nid) p (nid + 1)
           else si_set fixed x (tval_of t nid) p (nid + 1)) with
    | Ret (x', n') e =>
      ({| h_arg := x'; h_nid := n' |},
       RSet e (shares [{| e_id := nid; e_data := gdata t; e_cap := 0 |}] (elems_of x')))
    | Panic k => (st, RPanic k)
    end
  | GCmp c r p =>
    match si_compare fixed x c r p with Ret v e => (st, RCmp e v) | Panic k => (st, RPanic k) end
  | GLen p =>
    match si_length fixed x p with Ret w e => (st, RLen e w) | Panic k => (st, RPanic k) end
  | GCap p =>
    match si_capacity fixed x p with Ret w e => (st, RCap e w (cap_reflen x p)) | Panic k => (st, RPanic k) end
  | GLoop want brk p =>
    match si_loop fixed x (mk_iter want brk) p with
    | Ret vs e => (st, RLoop e (map (fun v => (vi_key v, vi_val v, ref_data x (vi_val v))) vs))
    | Panic k => (st, RPanic k)
    end
  | GDeq opts y =>
    match (if opts then si_deep_equal_with_options fixed x y else si_deep_equal fixed x y) with
    | Ret v _ => (st, RBool v)
    | Panic k => (st, RPanic k)
    end
  | GCopyFrom src =>
    match si_copy_to fixed src x nid with
    | Ret (x', n') e => ({| h_arg := x'; h_nid := n' |}, RCopyIn e (shares (elems_of src) (elems_of x')))
    | Panic k => (st, RPanic k)
    end
  | GCopyOut d =>
    match si_copy_to fixed x (dst_of d) nid with
    | Ret (d', n') e => ({| h_arg := x; h_nid := n' |}, RCopyOut e (shares (elems_of x) (elems_of d')) d')
    | Panic k => (st, RPanic k)
    end
  | GCopy =>
    match si_copy fixed x nid with
    | Ret (d', n') e => ({| h_arg := x; h_nid := n' |}, RCopyOut e (shares (elems_of x) (q_elems d')) (AVal d'))
    | Panic k => (st, RPanic k)
    end
  | GReset =>
    match si_reset fixed x with
    | Ret x' e => ({| h_arg := x'; h_nid := nid |}, RErr e)
    | Panic k => (st, RPanic k)
    end
  | GBufPrep _ => (st, RErr None)
  end.

(* ---------- printing observations ---------- *)
Definition pr_err (detail : bool) (e : option err) : string :=
  match e with
  | None => "e-"
  | Some k => if detail then match k with EAtoi => "eA" | EUnsupported => "eU" | EMustPointer => "eM" end
              else "e!"
  end.
Definition pr_ref (detail : bool) (g : gref) : string :=
  (if detail then match g with RStr _ => "s" | RBytes _ => "b" end else "") ++ Z_to_string (ref_index g).
Definition pr_alias (a : bool) : string := if a then "a1" else "a0".
Definition pr_wr_len (w : wr) : string :=
  match w with NotWritten => "w-" | Wrote z => "w" ++ Z_to_string z | WroteUnknown => "w?" end.
Definition pr_wr_cap (detail : bool) (w : wr) (reflen : Z) : string :=
  if detail then pr_wr_len w
  else match w with
       | NotWritten => "w-"
       | Wrote z => if (reflen <=? z)%Z then "w>=" else "w<"
       | WroteUnknown => "w>="               (* grown by append: at least the length *)
       end.
Definition pr_visit (detail : bool) (v : option string * gref * bytes) : string :=
  let '(k, g, d) := v in
  (match k with Some s => (if detail then "k" else "") ++ hexp (bytes_of_string s) | None => if detail then "k-" else "-" end)
  ++ ":" ++ pr_ref detail g ++ "=" ++ hexs d.
Definition pr_panic (detail : bool) (k : pkind) : string :=
  if detail then match k with NilDeref => "PANIC:nilderef" | IndexRange => "PANIC:index" end else "P".

Definition pr_res (detail : bool) (r : gres) : string :=
  match r with
  | RPanic k => pr_panic detail k
  | RErr e => pr_err detail e
  | RGet e g d => pr_err detail e ++ "," ++
                  match g with Some g' => "g" ++ pr_ref detail g' ++ "=" ++ hexs d | None => "g-" end
  | RSet e a => pr_err detail e ++ "," ++ pr_alias a
  | RCmp e v => pr_err detail e ++ "," ++
                match v with Some true => "rT" | Some false => "rF" | None => "r-" end
  | RLen e w => pr_err detail e ++ "," ++ pr_wr_len w
  | RCap e w rl => pr_err detail e ++ "," ++ pr_wr_cap detail w rl
  | RLoop e vs => pr_err detail e ++ ",[" ++ join "/" (map (pr_visit detail) vs) ++ "]"
  | RBool v => if v then "T" else "F"
  | RCopyIn e a => pr_err detail e ++ "," ++ pr_alias a
  | RCopyOut e a d => pr_err detail e ++ "," ++ pr_alias a ++ "," ++
                      (if detail then pr_arg d else pr_aseq (g_abs d))
  end.

Definition pr_state (detail : bool) (x : arg) : string := if detail then pr_arg x else pr_aseq (g_abs x).

Fixpoint gtrace (detail : bool) (st : hst) (ops : list gop) : list string :=
  match ops with
  | [] => []
  | o :: r => let '(st', res) := gstep st o in
              (pr_res detail res ++ "@" ++ pr_state detail (h_arg st')) :: gtrace detail st' r
  end.

(* ---------- the specification side (mode A) ---------- *)
(* alternatives for one call: (result text, sequence afterwards); None = the property is silent *)
Definition salt : Type := option (list (string * aseq)%type).
Definition one (s : string) (a : aseq) : salt := Some [(s, a)].
Definition with_or_without_error (s : string) (a : aseq) : salt := Some [("e-," ++ s, a); ("e!," ++ s, a)].

Definition cop_of (o : op) : option cop :=
  match o with
  | OpEq => Some CEq | OpNq => Some CNe | OpGt => Some CGt | OpGtq => Some CGe
  | OpLt => Some CLt | OpLtq => Some CLe | _ => None
  end.

(* is the text handed to Set a text in the sequence's own representation? *)
Inductive tclass := TOwn | TCross | TNotText | TNilPtr.
Definition classify (r : rep) (t : gtext) : tclass :=
  match gk t, r with
  | KStr, SS | KBytes, PP => TOwn
  | KStrPtr, SS | KBytesPtr, PP => if gnil t then TNilPtr else TOwn
  | KStr, PP | KBytes, SS => TCross
  | KStrPtr, PP | KBytesPtr, SS => if gnil t then TNilPtr else TCross
  | KOther, _ => TNotText
  end.

Definition pr_svisit (want : bool) (j : nat) (v : string * text_t) : string :=
  (if want then hexp (bytes_of_string (fst v)) else "-") ++ ":" ++ nat_to_string j ++ "=" ++ hexs (snd v).
Fixpoint number {A} (i : nat) (l : list A) : list (nat * A) :=
  match l with [] => [] | x :: r => (i, x) :: number (S i) r end.

Definition sspec (r : rep) (ptr : bool) (a : aseq) (o : gop) : salt :=
  match o with
  | GGet _ [p] =>
    match atoi p with
    | Some i => one ("e-," ++ match elem_at a i with
                              | Some t => "g" ++ Z_to_string i ++ "=" ++ hexs t
                              | None => "g-"
                              end) a
    | None => with_or_without_error "g-" a
    end
  | GGet _ _ => None
  | GSet _ t [p] =>
    match atoi p with
    | None => with_or_without_error "a0" a
    | Some i =>
      if in_range a i then
        match classify r t with
        | TOwn => one "e-,a0" (replace_at a i (gdata t))
        | TCross => Some [("e-,a0", replace_at a i (gdata t)); ("e-,a0", a); ("e!,a0", a)]
        | TNotText => with_or_without_error "a0" a
        | TNilPtr => None
        end
      else one "e-,a0" a
    end
  | GSet _ _ _ => None
  | GCmp c rt [p] =>
    match cop_of c with
    | None => None
    | Some c' =>
      match atoi p with
      | Some i => one ("e-," ++ match compare_at a i c' rt with
                                | Some true => "rT" | Some false => "rF" | None => "r-"
                                end) a
      | None => with_or_without_error "r-" a
      end
    end
  | GCmp _ _ _ => None
  | GLen [p] =>
    match atoi p with
    | Some i => one ("e-," ++ match length_at a i with Some z => "w" ++ Z_to_string z | None => "w-" end) a
    | None => with_or_without_error "w-" a
    end
  | GLen [] =>
    match a with
    | [] => Some [("e-,w0", a); ("e-,w-", a)]
    | _ => one ("e-,w" ++ nat_to_string (List.length a)) a
    end
  | GLen _ => None
  | GCap [p] =>
    match atoi p with
    | Some i =>
      if in_range a i then
        match r with
        | PP => one "e-,w>=" a
        | SS => Some [("e-,w-", a); ("e-,w>=", a)]      (* a string has no capacity *)
        end
      else one "e-,w-" a
    | None => with_or_without_error "w-" a
    end
  | GCap [] =>
    match r, a with
    | PP, _ :: _ => one "e-,w>=" a
    | _, _ => Some [("e-,w-", a); ("e-,w>=", a)]
    end
  | GCap _ => None
  | GLoop want brk [] =>
    let all := number 0 (loop_all a) in
    let seen := match brk with Some k => firstn (S k) all | None => all end in
    one ("e-,[" ++ join "/" (map (fun jv => pr_svisit want (fst jv) (snd jv)) seen) ++ "]") a
  | GLoop _ _ _ => None
  | GDeq _ y =>
    match y with
    | AVal _ | APtr _ => one (if seq_equal a (g_abs y) then "T" else "F") a
    | _ => None
    end
  | GCopyFrom src =>
    match src with
    | AVal _ | APtr _ => if ptr then one "e-,a0" (copy_appended a (g_abs src)) else one "e!,a0" a
    | _ => None
    end
  | GCopyOut d =>
    match d with
    | DFresh _ => one ("e-,a0," ++ pr_aseq (copy_appended [] a)) a
    | DOne _ => one ("e-,a0," ++ pr_aseq (copy_appended [b "zz"] a)) a
    | DVal _ => one ("e!,a0," ++ pr_aseq []) a
    | _ => None
    end
  | GCopy => one ("e-,a0," ++ pr_aseq (copy_appended [] a)) a
  | GReset => if ptr then one "e-" (reset_seq a) else one "e!" a
  | GBufPrep _ => one "e-" a
  end.

(* the spec text of a whole case.  [acc] holds the alternative traces so far (each reversed).  A call
   with several admissible answers multiplies them when all leave the same sequence behind (at most 64
   alternatives are written out); answers leaving different sequences are only followed when the call
   is the last one.  Anything else is "*". *)
Definition same_state (alts : list (string * aseq)) : option aseq :=
  match alts with
  | [] => None
  | (_, a) :: r => if forallb (fun sa => String.eqb (pr_aseq (snd sa)) (pr_aseq a)) r then Some a else None
  end.

Definition extend (acc : list (list string)) (alts : list (string * aseq)) : list (list string) :=
  flat_map (fun pre => map (fun sa => ((fst sa ++ "@" ++ pr_aseq (snd sa))%string :: pre)) alts) acc.

Fixpoint spec_steps (r : rep) (ptr : bool) (a : aseq) (ops : list gop) (acc : list (list string)) : option (list string) :=
  match ops with
  | [] => Some (map (fun pre => join "|" (rev pre)) acc)
  | o :: rest =>
    match sspec r ptr a o with
    | None => None
    | Some alts =>
      if Nat.ltb 64 (List.length acc * List.length alts) then None
      else match same_state alts with
           | Some a' => spec_steps r ptr a' rest (extend acc alts)
           | None => match rest with
                     | [] => Some (map (fun pre => join "|" (rev pre)) (extend acc alts))
                     | _ => None
                     end
           end
    end
  end.

Definition spec_text (x : arg) (ops : list gop) : string :=
  match x with
  | AVal s => match spec_steps (q_rep s) false (g_abs x) ops [[]] with Some l => join " || " l | None => "*" end
  | APtr s => match spec_steps (q_rep s) true (g_abs x) ops [[]] with Some l => join " || " l | None => "*" end
  | _ => "*"
  end.

(* ---------- tags ---------- *)
Definition idx_class (x : arg) (p : list string) : string :=
  match p with
  | [] => "nopath"
  | [s] => match atoi s with
           | None => "unparsable"
           | Some i => if (i <? 0)%Z then "negative"
                       else if (i <? zlen (elems_of x))%Z then "inrange" else "beyond"
           end
  | _ => "multipath"
  end.
Definition op_tag (x : arg) (o : gop) : string :=
  match o with
  | GGet _ p => "get," ++ idx_class x p
  | GSet _ t p => "set," ++ idx_class x p ++ (match gdata t with [] => ",emptytext" | _ => "" end)
  | GCmp _ _ p => "compare," ++ idx_class x p
  | GLen p => "length," ++ idx_class x p
  | GCap p => "capacity," ++ idx_class x p
  | GLoop _ _ _ => "loop"
  | GDeq _ _ => "deepequal"
  | GCopyFrom _ => "copyfrom"
  | GCopyOut _ => "copyout"
  | GCopy => "copy"
  | GReset => "reset"
  | GBufPrep _ => "bufprep"
  end.
Definition form_tag (x : arg) : string :=
  match x with
  | AVal s => pr_rep (q_rep s) ++ ",byvalue" ++ (match q_elems s with [] => ",empty" | _ => "" end)
  | APtr s => pr_rep (q_rep s) ++ ",bypointer" ++ (match q_elems s with [] => ",empty" | _ => "" end)
  | ANilPtr r => pr_rep r ++ ",nilpointer"
  | AForeign => "foreign"
  end.

Definition start_nid : Z := 100.

Definition case_lines (id : string) (kind : string) (x : arg) (ops : list gop) : list string :=
  let st := {| h_arg := x; h_nid := start_nid |} in
  let tags := (kind ++ "," ++ form_tag x ++ "," ++
               match ops with [o] => op_tag x o | _ => "steps" ++ nat_to_string (List.length ops) end)%string in
  let input := (pr_arg x ++ ";" ++ join ";" (map pr_gop ops))%string in
  let ma := join "|" (gtrace false st ops) in
  let md := join "|" (gtrace true st ops) in
  [ (id ++ "a" ++ tab ++ tags ++ ",A" ++ tab ++ "A;" ++ input ++ tab ++ ma ++ tab ++ spec_text x ops)%string;
    (id ++ "d" ++ tab ++ tags ++ ",D" ++ tab ++ "D;" ++ input ++ tab ++ md ++ tab ++ "*")%string ].

(* ---------- values ---------- *)
Fixpoint mk_elems (r : rep) (id : Z) (k : nat) (l : list bytes) : list elem :=
  match l with
  | [] => []
  | d :: rest =>
    {| e_id := id; e_data := d;
       e_cap := match r with SS => zlen d | PP => zlen d + (if Nat.even k then 0 else 3) end |}
    :: mk_elems r (id + 1) (S k) rest
  end.
Definition mk_sq (r : rep) (id : Z) (l : list bytes) (extra : Z) : sq :=
  {| q_rep := r; q_nil := false; q_elems := mk_elems r id 0 l; q_cap := Some (zlen l + extra)%Z |}.

(* literal operands (DeepEqual's other side, CopyTo's source) live in their own allocations *)
Definition lit (r : rep) (ptr : bool) (l : list bytes) : arg :=
  let s := mk_sq r 500000 l 0 in if ptr then APtr s else AVal s.

Definition contents : list bytes := [[]; b "ab"; e_acute].

Fixpoint seqs_of_len (n : nat) : list (list bytes) :=
  match n with
  | O => [[]]
  | S k => flat_map (fun c => map (cons c) (seqs_of_len k)) contents
  end.

Definition seqs (tier : Z) : list (list bytes) :=
  if Z.eqb tier 0
  then seqs_of_len 0 ++ seqs_of_len 1 ++ seqs_of_len 2 ++ [[b "ab"; []; e_acute]; [e_acute; e_acute; b "ab"]]
  else seqs_of_len 0 ++ seqs_of_len 1 ++ seqs_of_len 2 ++ seqs_of_len 3 ++ [[b "ab"; []; e_acute; b "zz"; b "ab"]].

Definition values_of_seq (l : list bytes) : list arg :=
  flat_map (fun r => [AVal (mk_sq r 1 l 0); APtr (mk_sq r 1 l 2)]) [SS; PP] ++
  match l with
  | [] => flat_map (fun r => [AVal (nil_sq r); APtr (nil_sq r)]) [SS; PP]
  | _ => []
  end.

Definition odd_values : list arg := [ANilPtr SS; ANilPtr PP; AForeign].

(* ---------- single calls ---------- *)
Fixpoint zrange (lo : Z) (n : nat) : list Z :=
  match n with O => [] | S k => lo :: zrange (lo + 1) k end.

Definition unparsable (tier : Z) : list string :=
  [""; "x"; "1x"; " 1"; "99999999999999999999"; "0x1"; "0b1"; "0o2"; "1_0"; "0_1"] ++      (* indices are decimal: the base-0 spellings are no numbers *)
  (if Z.eqb tier 0 then [] else ["0X1"; "-"; "1.0"; "0 "; "--1"; "9223372036854775808"; "18446744073709551615"]).
Definition respelled : list string := ["+1"; "01"; "-0"; "00"; "08"; "010"; "0001"].

Definition index_texts (tier : Z) (x : arg) : list string :=
  map Z_to_string (zrange (-2) (List.length (elems_of x) + 5)) ++ respelled ++ unparsable tier.

Definition own_kinds (x : arg) : tkind * tkind :=
  match rep_of x with SS => (KStr, KStrPtr) | PP => (KBytes, KBytesPtr) end.
Definition cross_kinds (x : arg) : tkind * tkind :=
  match rep_of x with SS => (KBytes, KBytesPtr) | PP => (KStr, KStrPtr) end.
Definition tx (k : tkind) (d : bytes) : gtext := {| gk := k; gnil := false; gdata := d |}.

Definition six : list op := [OpEq; OpNq; OpGt; OpGtq; OpLt; OpLtq].

Definition elem_or (x : arg) (p : string) (d : bytes) : bytes :=
  match atoi p with
  | Some i => match znth (elems_of x) i with Some e => e_data e | None => d end
  | None => d
  end.

Definition indexed_ops (x : arg) (p : string) : list gop :=
  let '(ov, op_) := own_kinds x in let '(cv, cp) := cross_kinds x in
  [GGet false [p]; GGet true [p]; GLen [p]; GCap [p];
   GSet true (tx ov []) [p]; GSet false (tx op_ (b "Q")) [p]; GSet true (tx ov ee) [p];
   GSet false (tx op_ []) [p];
   GSet true (tx cv (b "Q")) [p]; GSet true (tx cp []) [p]; GSet true (tx KOther []) [p]] ++
  flat_map (fun c => [GCmp c [] [p]; GCmp c (b "ab") [p]; GCmp c (elem_or x p (b "b")) [p]; GCmp c (b "b") [p]]) six ++
  [GCmp OpUnk (b "ab") [p]; GCmp OpInc (b "ab") [p]; GCmp OpDec [] [p]].

Definition others (x : arg) : list arg :=
  let a := g_abs x in
  [lit SS false a; lit PP true a; lit SS true (a ++ [[]])%list; lit PP false (removelast a);
   lit PP false (map (fun t => (t ++ b "!")%list) a); lit SS false (rev a);
   AVal (nil_sq SS); APtr (nil_sq PP); lit SS true []; lit PP false [];
   ANilPtr SS; ANilPtr PP; AForeign].

Definition whole_ops (x : arg) : list gop :=
  let '(ov, op_) := own_kinds x in
  [GGet false []; GGet true ["0"; "1"]; GLen []; GLen ["0"; "0"]; GCap []; GCap ["0"; "x"];
   GSet true (tx ov (b "Q")) []; GSet false (tx ov (b "Q")) ["0"; "0"]; GCmp OpEq [] []; GCmp OpEq [] ["0"; "0"];
   GSet true {| gk := op_; gnil := true; gdata := [] |} ["0"];
   GSet true {| gk := snd (cross_kinds x); gnil := true; gdata := [] |} ["0"];
   GLoop true None []; GLoop false None []; GLoop true (Some 0%nat) []; GLoop true (Some 1%nat) [];
   GLoop false (Some 5%nat) []; GLoop true None ["0"]] ++
  flat_map (fun y => [GDeq false y; GDeq true y]) (others x) ++
  map GCopyFrom [lit SS false [b "zz"; []]; lit PP true [e_acute]; lit SS true []; AVal (nil_sq PP);
                 lit PP false [b "q"; b "r"; b "s"]; ANilPtr SS; AForeign] ++
  map GCopyOut [DFresh SS; DFresh PP; DOne SS; DOne PP; DVal SS; DVal PP; DNilPtr SS; DNilPtr PP; DForeign] ++
  [GCopy; GReset].

Definition single_ops (tier : Z) (x : arg) : list gop :=
  flat_map (indexed_ops x) (index_texts tier x) ++ whole_ops x.

(* ---------- histories ---------- *)
Definition alphabet (x : arg) : list gop :=
  let '(ov, op_) := own_kinds x in
  let other_rep := match rep_of x with SS => PP | PP => SS end in
  [GSet true (tx ov []) ["0"]; GSet false (tx op_ (b "Q")) ["1"]; GSet true (tx ov ee) ["2"];
   GCmp OpEq [] ["0"]; GCmp OpGt (b "Q") ["1"]; GCmp OpLtq (b "ab") ["3"];
   GGet false ["1"]; GLen ["0"]; GCap ["0"]; GLoop true None [];
   GDeq false (lit other_rep false [[]; b "Q"]);
   GCopyFrom (lit SS false [b "zz"; []]); GCopyOut (DFresh SS); GReset].

Fixpoint enum (depth : nat) (al : list gop) : list (list gop) :=
  match depth with
  | O => [[]]
  | S d => flat_map (fun o => map (cons o) (enum d al)) al
  end.

Definition hist_values : list (arg * nat * nat) :=   (* value, exhaustive depth quick, thorough *)
  let l := [b "ab"; e_acute] in
  [(APtr (mk_sq SS 1 l 1), 3, 4); (APtr (mk_sq PP 1 l 1), 3, 3);
   (AVal (mk_sq SS 1 l 0), 2, 3); (AVal (mk_sq PP 1 l 0), 2, 3);
   (APtr (nil_sq SS), 2, 3); (APtr (mk_sq PP 1 [] 0), 2, 2)]%nat.

(* random histories: indices follow the current length *)
Definition rnd_text (s : rng) : bytes * rng :=
  let '(k, s1) := rng_nat s 5 in
  (nth k [[]; b "Q"; e_acute; b "ab"; b "longer text"] [], s1).

Definition rnd_index (s : rng) (x : arg) : string * rng :=
  let '(k, s1) := rng_nat s (List.length (elems_of x) + 3) in
  (Z_to_string (Z.of_nat k - 1), s1).

Definition rnd_op (s : rng) (x : arg) : gop * rng :=
  let '(ov, op_) := own_kinds x in
  let '(c, s1) := rng_nat s 16 in
  match c with
  | 0 | 1 | 2 => let '(t, s2) := rnd_text s1 in let '(i, s3) := rnd_index s2 x in
                 let '(w, s4) := rng_nat s3 4 in
                 (GSet (Nat.even w) (tx (if Nat.ltb w 2 then ov else op_) t) [i], s4)
  | 3 | 4 => let '(t, s2) := rnd_text s1 in let '(i, s3) := rnd_index s2 x in
             let '(k, s4) := rng_nat s3 6 in (GCmp (nth k six OpEq) t [i], s4)
  | 5 => let '(i, s2) := rnd_index s1 x in (GGet true [i], s2)
  | 6 => let '(i, s2) := rnd_index s1 x in (GLen [i], s2)
  | 7 => let '(i, s2) := rnd_index s1 x in (GCap [i], s2)
  | 8 => (GLoop true None [], s1)
  | 9 => let '(t, s2) := rnd_text s1 in (GDeq true (lit SS true (g_abs x ++ [t])%list), s2)
  | 10 => (GDeq false (lit PP false (g_abs x)), s1)
  | 11 | 12 => let '(t, s2) := rnd_text s1 in let '(u, s3) := rnd_text s2 in
               let '(k, s4) := rng_nat s3 2 in
               (GCopyFrom (lit (if Nat.eqb k 0 then SS else PP) (Nat.eqb k 0) [t; u]), s4)
  | 13 => (GCopyOut (DOne PP), s1)
  | 14 => (GCopy, s1)
  | _ => (GReset, s1)
  end.

Fixpoint rnd_ops (len : nat) (s : rng) (st : hst) : list gop * rng :=
  match len with
  | O => ([], s)
  | S l => let '(o, s1) := rnd_op s (h_arg st) in
           let '(st', _) := gstep st o in
           let '(r, s2) := rnd_ops l s1 st' in (o :: r, s2)
  end.

Fixpoint rnd_cases (count : nat) (s : rng) (idx : nat) : list string :=
  match count with
  | O => []
  | S c =>
    let '(len, s1) := rng_nat s 14 in
    let '(vi, s2) := rng_nat s1 4 in
    let x := nth vi [APtr (mk_sq SS 1 [b "ab"; e_acute] 1); APtr (mk_sq PP 1 [[]; b "zz"; b "ab"] 3);
                     APtr (nil_sq PP); AVal (mk_sq SS 1 [e_acute] 0)] AForeign in
    let '(ops, s3) := rnd_ops (S len) s2 {| h_arg := x; h_nid := start_nid |} in
    case_lines ("r" ++ nat_to_string idx) "random" x ops ++ rnd_cases c s3 (S idx)
  end.

(* ---------- long texts and long histories ---------- *)
(* Storage handed out for one Set has to stay what it is for as long as the element lives: through texts of
   any length and through any number of later calls.  Code that recycles storage typically does so at sizes
   like 1, 4 or 64 KiB, so the texts here have lengths around those sizes and the many-call histories put more
   than those sizes into the sequence, a little at a time; every element is re-read after every call. *)
Definition zrep (c : ascii) (n : Z) : bytes := repeat c (Z.to_nat n).
Definition letter (k : nat) : ascii := ascii_of_nat (97 + Nat.modulo k 26).
(* exactly n bytes when n > length of head: the head, a run of one letter, ">" *)
Definition ltext (head : bytes) (fill : ascii) (n : Z) : bytes :=
  (head ++ zrep fill (n - zlen head - 1) ++ b ">")%list.

(* which buffer the Sets of a history copy into *)
Inductive bufv := BOwn | BFresh | BReused (n : Z).   (* Set's own / a new caller buffer / a recycled caller buffer *)
Definition buf_prefix (v : bufv) : list gop := match v with BReused n => [GBufPrep n] | _ => [] end.
Definition buf_wb (v : bufv) : bool := match v with BOwn => false | _ => true end.
Definition buf_tag (v : bufv) : string :=
  match v with BOwn => "setbuf-own" | BFresh => "setbuf-new" | BReused _ => "setbuf-recycled" end.

Definition other_rep (x : arg) : rep := match rep_of x with SS => PP | PP => SS end.

(* one long text, then calls on the other elements (short, long, empty texts), reads in between *)
Definition long_then_others (x : arg) (v : bufv) (n : Z) : list gop :=
  let '(ov, op_) := own_kinds x in
  let wb := buf_wb v in
  let A := ltext (b "<") (letter 11) n in
  let B := ltext e_acute (letter 12) n in
  buf_prefix v ++
  [GSet wb (tx ov A) ["0"]; GSet wb (tx op_ (b "xyz")) ["1"]; GCmp OpEq A ["0"]; GGet true ["0"];
   GSet wb (tx ov ee) ["2"]; GSet wb (tx op_ B) ["1"]; GSet wb (tx ov []) ["2"]; GGet false ["1"];
   GCmp OpEq A ["0"]; GCmp OpLt A ["1"]; GLoop true None [];
   GSet wb (tx ov (b "w")) ["0"]; GCmp OpEq B ["1"]; GSet wb (tx op_ (b "Q")) ["3"]; GGet true ["1"];
   GDeq false (lit (other_rep x) false [b "w"; B; []; b "Q"]); GCopyOut (DFresh (rep_of x));
   GSet wb (tx ov (b "last")) ["2"]; GCmp OpEq B ["1"]].

(* the k-th text of a many-call history: about [size] bytes, all different; the empty text and multi-byte
   texts in between *)
Definition kth_text (k : nat) (size : Z) : bytes :=
  let h := b ("v" ++ nat_to_string k) in
  if Nat.eqb (Nat.modulo k 7) 3 then []
  else if Nat.eqb (Nat.modulo k 5) 1 then (e_acute ++ h ++ zrep (letter k) (size - zlen h - 2))%list
  else (h ++ zrep (letter k) (size - zlen h))%list.

Definition keep : bytes := b "keep-me".

(* what is read back now and then *)
Definition kth_read (x : arg) (k : nat) (i : string) : gop :=
  match Nat.modulo (Nat.div k 16) 5 with
  | 0 => GCmp OpEq keep ["0"]
  | 1 => GGet true ["0"]
  | 2 => GLoop true None []
  | 3 => GGet false [i]
  | _ => GLen ["0"]
  end%nat.

Fixpoint many_sets (x : arg) (wb : bool) (size : Z) (n k : nat) : list gop :=
  match n with
  | O => []
  | S n' =>
    let '(ov, op_) := own_kinds x in
    (* indices 1 and 2 in turn, index 3 rarely; index 0 keeps what the first Set stored *)
    let i := if Nat.eqb (Nat.modulo k 37) 36 then "3" else if Nat.even k then "1" else "2" in
    (GSet wb (tx (if Nat.eqb (Nat.modulo k 3) 0 then op_ else ov) (kth_text k size)) [i] ::
     (if Nat.eqb (Nat.modulo k 16) 15 then [kth_read x k i] else []) ++
     (if Nat.eqb k 100 then [GCopyFrom (lit SS false [b "zz"; []])] else []) ++
     (if Nat.eqb k 200 then [GCopyOut (DFresh PP)] else [])) ++
    many_sets x wb size n' (S k)
  end.

Definition many_short_sets (x : arg) (v : bufv) (size : Z) (n : nat) : list gop :=
  let '(ov, _) := own_kinds x in
  buf_prefix v ++ [GSet (buf_wb v) (tx ov keep) ["0"]; GGet true ["0"]] ++ many_sets x (buf_wb v) size n 0 ++
  [GCmp OpEq keep ["0"]; GLoop true None []].

Definition long_values : list arg :=
  let l := [b "zero"; e_acute; b "ab"; []] in
  [APtr (mk_sq SS 1 l 1); AVal (mk_sq PP 1 l 0); APtr (mk_sq PP 1 l 2); AVal (mk_sq SS 1 l 0)].

Definition bufvs : list bufv := [BOwn; BFresh; BReused 100000].

(* the same beginning only: a text of 64 KiB is re-read (and re-printed) after every call *)
Definition long_brief (x : arg) (v : bufv) (n : Z) : list gop :=
  let '(ov, op_) := own_kinds x in
  let wb := buf_wb v in
  let A := ltext (b "<") (letter 11) n in
  buf_prefix v ++
  [GSet wb (tx ov A) ["0"]; GSet wb (tx op_ (b "xyz")) ["1"]; GCmp OpEq A ["0"]; GSet wb (tx ov (b "Q")) ["2"];
   GGet true ["0"]].

Definition lh : Type := (string * arg * list gop)%type.
Definition lt_case (x : arg) (v : bufv) (n : Z) : lh := ("long,longtext," ++ buf_tag v, x, long_then_others x v n).
Definition lb_case (x : arg) (v : bufv) (n : Z) : lh := ("long,longtext," ++ buf_tag v, x, long_brief x v n).
Definition ms_case (x : arg) (v : bufv) (sn : Z * Z) : lh :=
  ("long,manysets," ++ buf_tag v, x, many_short_sets x v (fst sn) (Z.to_nat (snd sn))).

(* text lengths around the sizes at which storage is typically recycled; (bytes per text, number of Sets)
   putting more than 1, 4 and 64 KiB into the sequence *)
(* (functions of the tier, not constants: an extracted constant is computed when the program starts) *)
Definition quick_long (tier : Z) : list lh :=
  let recycled := BReused 100000 in
  app (flat_map (fun x =>
         app (map (lt_case x BOwn) [1023; 1024; 1025; 4097]%Z)
        (app [lt_case x BFresh 1025%Z; lt_case x recycled 1025%Z]
             (map (ms_case x BOwn) [(8, 160); (40, 120); (600, 120)]%Z))) long_values)
      (match long_values with
       | v0 :: v1 :: v2 :: _ =>
         [lt_case v0 BFresh 4097%Z; lt_case v2 recycled 4097%Z; ms_case v0 BFresh (8, 160)%Z; ms_case v2 recycled (40, 120)%Z;
          lb_case v0 BOwn 65537%Z; lb_case v1 BOwn 65537%Z]
       | _ => []
       end).

Definition thorough_long (tier : Z) : list lh :=
  flat_map (fun x => flat_map (fun v =>
    app (map (lt_case x v) [255; 256; 257; 511; 513; 1023; 1024; 1025; 2047; 2048; 2049; 4095; 4096; 4097; 8193]%Z)
   (app (map (lb_case x v) [16385; 32769; 65535; 65536; 65537; 131073]%Z)
        (map (ms_case x v) [(5, 300); (5, 1000); (8, 160); (16, 300); (40, 120); (70, 300); (230, 300);
                            (600, 120); (300, 1000)]%Z))) bufvs) long_values.

Definition long_histories (tier : Z) : list lh := if Z.eqb tier 0 then quick_long tier else thorough_long tier.

(* random long histories: mostly Sets (in and out of range, own buffer or the caller's), texts of all sizes *)
Definition rnd_long_text (s : rng) : bytes * rng :=
  let '(k, s1) := rng_nat s 8 in
  let '(f, s2) := rng_nat s1 26 in
  match k with
  | 0 => ([], s2)
  | 1 => (b "Q", s2)
  | 2 => (ee, s2)
  | 3 | 4 => let '(n, s3) := rng_nat s2 300 in (ltext (b "m") (letter f) (Z.of_nat n + 3), s3)
  | 5 => let '(n, s3) := rng_nat s2 40 in (ltext e_acute (letter f) (Z.of_nat n + 4), s3)
  | 6 => let '(j, s3) := rng_nat s2 4 in (ltext (b "T") (letter f) (nth j [1023; 1025; 1500; 4097]%Z 1025%Z), s3)
  | _ => (b "longer text", s2)
  end.

Definition rnd_long_op (s : rng) (x : arg) : gop * rng :=
  let '(ov, op_) := own_kinds x in
  let '(c, s1) := rng_nat s 16 in
  if Nat.ltb c 9 then
    let '(t, s2) := rnd_long_text s1 in let '(i, s3) := rnd_index s2 x in
    let '(w, s4) := rng_nat s3 6 in
    (GSet (Nat.eqb w 0) (tx (if Nat.even w then ov else op_) t) [i], s4)
  else match c with
  | 9 | 10 => let '(t, s2) := rnd_long_text s1 in let '(i, s3) := rnd_index s2 x in
              let '(k, s4) := rng_nat s3 6 in
              (GCmp (nth k six OpEq) (if Nat.even k then elem_or x i t else t) [i], s4)
  | 11 => let '(i, s2) := rnd_index s1 x in (GGet true [i], s2)
  | 12 => (GLoop true None [], s1)
  | 13 => let '(t, s2) := rnd_long_text s1 in (GCopyFrom (lit PP true [t; b "u"]), s2)
  | 14 => (GDeq false (lit (other_rep x) false (g_abs x)), s1)
  | _ => let '(k, s2) := rng_nat s1 6 in
         (nth k [GCopyOut (DOne PP); GCopy; GReset; GCap ["0"]; GLen ["1"]] (GGet false ["0"]), s2)
  end.

Fixpoint rnd_long_ops (len : nat) (s : rng) (st : hst) : list gop * rng :=
  match len with
  | O => ([], s)
  | S l => let '(o, s1) := rnd_long_op s (h_arg st) in
           let '(st', _) := gstep st o in
           let '(r, s2) := rnd_long_ops l s1 st' in (o :: r, s2)
  end.

Fixpoint rnd_long_cases (count : nat) (s : rng) (idx : nat) : list string :=
  match count with
  | O => []
  | S c =>
    let '(len, s1) := rng_nat s 100 in
    let '(vi, s2) := rng_nat s1 4 in
    let x := nth vi long_values AForeign in
    let '(ops, s3) := rnd_long_ops (100 + len) s2 {| h_arg := x; h_nid := start_nid |} in
    case_lines ("lr" ++ nat_to_string idx) "long,random" x ops ++ rnd_long_cases c s3 (S idx)
  end.

(* tier 0 = quick, 1 = thorough *)
Definition cases (tier : Z) (seed : Z) : list string :=
  let vals := (flat_map values_of_seq (seqs tier) ++ odd_values)%list in
  flat_map (fun iv : nat * arg =>
              let '(i, x) := iv in
              flat_map (fun jo : nat * gop =>
                          case_lines ("s" ++ nat_to_string i ++ "." ++ nat_to_string (fst jo)) "single" x [snd jo])
                       (number 0 (single_ops tier x)))
           (number 0 vals) ++
  flat_map (fun iv : nat * (arg * nat * nat) =>
              let '(i, (x, dq, dt)) := iv in
              flat_map (fun jo : nat * list gop =>
                          case_lines ("h" ++ nat_to_string i ++ "." ++ nat_to_string (fst jo)) "history" x (snd jo))
                       (number 0 (enum (if Z.eqb tier 0 then dq else dt) (alphabet x))))
           (number 0 hist_values) ++
  rnd_cases (if Z.eqb tier 0 then 300 else 3000) (rng_of_seed seed) 0 ++
  flat_map (fun jc : nat * lh =>
              let '(j, (kind, x, ops)) := jc in case_lines ("l" ++ nat_to_string j) kind x ops)
           (number 0 (long_histories tier)) ++
  rnd_long_cases (if Z.eqb tier 0 then 4 else 60) (rng_next (rng_of_seed (seed + 17))) 0.
