(* Gen/GenC16.v - case generator and canonical printers of the c16 stream.
   One case = one call of one StaticInspector method.  The line carries the
   call, what the model of the current code ([cur]) does and what the
   specification (Spec/StaticSpec.v) demands.

   canonical text of an argument:  <form><kind>:<payload>
     form  v = by value, p = non-nil pointer, n<kind> = typed nil pointer
     bool:0|1   int8:-5   f32:F+1p0 / f64:F-7p-2 (Base/Floats.pr_float)
     str:<hex>  bytes:<hex>/<cap>   other:<tag>
   addresses never appear; sharing is printed as a 0/1 class. *)
From Coq Require Import List Arith Bool Ascii String ZArith NArith Floats.SpecFloat.
From Verif Require Import Util Ints Strconv Floats Static StaticSpec Spellings.
Import ListNotations.
Local Open Scope string_scope.

Definition tab : string := String (ascii_of_nat 9) "".
Definition b01 (b : bool) : string := if b then "1" else "0".
Definition hx (s : string) : string := hex_of_bytes (bytes_of_string s).

(* ---------- printers ---------- *)
Definition kind_name (k : skind) : string :=
  match k with
  | KBool => "bool" | KI k => ikind_name k | KF32 => "f32" | KF64 => "f64"
  | KStr => "str" | KBytes => "bytes" | KOther => "other"
  end.

Definition pr_val (withcap : bool) (v : sval) : string :=
  match v with
  | VBool b => "bool:" ++ b01 b
  | VInt k z => ikind_name k ++ ":" ++ Z_to_string z
  | VF32 f => "f32:" ++ pr_float f
  | VF64 f => "f64:" ++ pr_float f
  | VStr _ s => "str:" ++ hx s
  | VBytes _ d c => "bytes:" ++ hx d ++ (if withcap then "/" ++ Z_to_string c else "")
  | VOther t => "other:" ++ Z_to_string t
  end.

Definition pr_arg (a : sarg) : string :=
  match a with
  | AVal v => "v" ++ pr_val true v
  | APtr v => "p" ++ pr_val true v
  | ANil k => "n" ++ kind_name k
  end.

Definition pr_err (e : option serr) : string :=
  match e with
  | None => "nil" | Some EUnsupported => "unsupported" | Some EMustPointer => "mustptr"
  | Some EUnknownEncoding => "unknownenc"
  end.

Definition pr_out {A} (pr : A -> string) (o : out A) : string :=
  match o with
  | Ret a => pr a
  | Panic NilDeref => "PANIC:nilderef"
  | Panic IndexRange => "PANIC:index"
  | Panic NilMapWrite => "PANIC:nilmap"
  | Panic TypeAssert => "PANIC:typeassert"
  | Diverge => "DIVERGE"
  end.

Definition op_num (o : sop) : Z :=
  match o with
  | OpUnk => 0 | OpEq => 1 | OpNq => 2 | OpGt => 3 | OpGtq => 4 | OpLt => 5 | OpLtq => 6 | OpInc => 7 | OpDec => 8
  end.
Definition op_name (o : sop) : string :=
  match o with
  | OpUnk => "unk" | OpEq => "eq" | OpNq => "nq" | OpGt => "gt" | OpGtq => "gtq" | OpLt => "lt" | OpLtq => "ltq"
  | OpInc => "inc" | OpDec => "dec"
  end.
Definition all_ops : list sop := [OpEq; OpNq; OpGt; OpGtq; OpLt; OpLtq; OpUnk; OpInc; OpDec].

Definition fam_name (f : family) : string :=
  match f with
  | FamBool => "bool" | FamSigned => "signed" | FamUnsigned => "unsigned" | FamFloat => "float"
  | FamText => "text" | FamOther => "foreign"
  end.
Definition form_name (a : sarg) : string :=
  match a with AVal _ => "value" | APtr _ => "pointer" | ANil _ => "nilptr" end.
Definition arg_kind (a : sarg) : skind := match a with AVal v | APtr v => kind_of v | ANil k => k end.
Definition arg_tags (a : sarg) : string :=
  "k=" ++ kind_name (arg_kind a) ++ "," ++ form_name a.

(* a case before numbering: tags, input, model, spec *)
Definition rawcase : Type := (string * string * string * string)%type.
Definition mk (tags input model spec : string) : rawcase := (tags, input, model, spec).

(* fuel for the text helpers: the repaired code never uses it; the pre-fix code
   either stops within two calls or never *)
Definition gfuel : nat := 8.
(* allocation identities used in generated cases *)
Definition id_src : Z := 1.
Definition id_dst : Z := 2.
Definition id_buf : Z := 3.
Definition id_fresh : Z := 4.

(* ---------- one case per method ---------- *)
Definition pr_get (r : sarg * option serr) : string := pr_arg (fst r) ++ ";same=1;err=" ++ pr_err (snd r).
Definition pr_keep (r : sarg * option serr) : string := pr_arg (fst r) ++ ";err=" ++ pr_err (snd r).

Definition case_get (meth : string) (a : sarg) : rawcase :=
  let m := if streq meth "get" then s_get a else s_getto a in
  (* property: Get returns the value itself *)
  mk (meth ++ "," ++ arg_tags a) (meth ++ "|" ++ pr_arg a) (pr_out pr_get m) (pr_arg a ++ ";same=1;err=nil").

Definition case_noop (meth : string) (a b : sarg) : rawcase :=
  let m := if streq meth "set" then s_set a b else if streq meth "setbuf" then s_setwithbuffer a b else s_loop a in
  mk (meth ++ "," ++ arg_tags a) (meth ++ "|" ++ pr_arg a ++ "|" ++ pr_arg b) (pr_out pr_keep m) "*".

Definition case_cmp (vclass : string) (a : sarg) (op : sop) (right : string) (res0 : bool) : rawcase :=
  let m := s_compare a op right res0 in
  let spec :=
    match denotes a with
    | None => "*"                                      (* a nil pointer denotes nothing: C02's business *)
    | Some v =>
      match spec_compare v op right with
      | Some b => b01 b
      | None => if res0 then "0 || 1" else "0"          (* no native comparison: must not come out true *)
      end
    end in
  let parsable := match denotes a with
                  | Some v => match spec_compare v OpEq right with Some _ => "parsable" | None => "unparsable" end
                  | None => "nooperand" end in
  mk ("cmp," ++ arg_tags a ++ ",op=" ++ op_name op ++ "," ++ parsable ++ "," ++ vclass ++
      (match arg_family a with FamOther => ",foreign" | _ => "" end))
     ("cmp|" ++ pr_arg a ++ "|" ++ Z_to_string (op_num op) ++ "|" ++ hx right ++ "|" ++ b01 res0)
     (pr_out b01 m) spec.

Definition case_deq (rv : rev) (vclass : string) (l r : sarg) : rawcase :=
  let m1 := s_deq rv gfuel l r in
  let m2 := s_deq rv gfuel r l in
  let spec :=
    match denotes l, denotes r with
    | Some x, Some y =>
      match spec_equal x y with
      | Some b => b01 b ++ "," ++ b01 b                 (* one family: true exactly for equal values *)
      | None =>
        match family_of x, family_of y with
        | FamOther, _ | _, FamOther => "0,0"            (* an operand of another type: false *)
        | _, _ => "0,0 || 1,1"                          (* different families: the same answer in both orders *)
        end
      end
    | _, _ => "*"
    end in
  let rel := match denotes l, denotes r with
             | Some x, Some y => match spec_equal x y with Some _ => "samefam" | None => "crossfam" end
             | _, _ => "nilptr" end in
  mk ("deq," ++ arg_tags l ++ ",r" ++ arg_tags r ++ "," ++ rel ++ ",fam=" ++ fam_name (arg_family l) ++ "-" ++ fam_name (arg_family r)
      ++ "," ++ vclass)
     ("deq|" ++ pr_arg l ++ "|" ++ pr_arg r)
     (pr_out b01 m1 ++ "," ++ pr_out b01 m2) spec.

Definition pr_copy (src : option sval) (r : option sval * option serr) : string :=
  match fst r with
  | Some v => pr_val false v ++ ";share=" ++ b01 (match src with Some s => shares v s | None => false end)
  | None => "nil"
  end ++ ";err=" ++ pr_err (snd r).

Definition case_copy (a : sarg) : rawcase :=
  let m := s_copy id_fresh 0 a in
  let spec :=
    match denotes a with
    | None => match arg_family a with FamOther => "nil;err=unsupported" | _ => "*" end
    | Some v =>
      match family_of v with
      | FamOther => "nil;err=unsupported"
      | _ => pr_val false v ++ ";share=0;err=nil"
      end
    end in
  mk ("copy," ++ arg_tags a) ("copy|" ++ pr_arg a) (pr_out (pr_copy (denotes a)) m) spec.

Definition pr_cto (src : option sval) (r : cto_res) : string :=
  let '(e, d, _) := r in
  "err=" ++ pr_err e ++ ";dst=" ++ pr_arg d ++ ";share=" ++
  b01 (match src, denotes d with Some s, Some v => shares v s | _, _ => false end).

Definition case_copyto (a d : sarg) (bcap : Z) (binit : string) : rawcase :=
  let b := {| b_aid := id_buf; b_data := binit; b_cap := bcap |} in
  let m := s_copyto id_fresh 0 a d b in
  let spec :=
    match denotes a with
    | None => match arg_family a with FamOther => "err=unsupported;dst=" ++ pr_arg d ++ ";share=0" | _ => "*" end
    | Some v =>
      match family_of v with
      | FamOther => "err=unsupported;dst=" ++ pr_arg d ++ ";share=0"
      | _ =>
        match d with
        | APtr w =>
          if same_kind v w
          then "err=nil;dst=p" ++ pr_val true (match v with VBytes i x _ => VBytes i x (Z.of_nat (String.length x)) | _ => v end) ++ ";share=0"
          else "err=mustptr;dst=" ++ pr_arg d ++ ";share=0 || err=unsupported;dst=" ++ pr_arg d ++ ";share=0"
        | AVal _ => "err=mustptr;dst=" ++ pr_arg d ++ ";share=0 || err=unsupported;dst=" ++ pr_arg d ++ ";share=0"
        | ANil _ => "*"
        end
      end
    end in
  mk ("copyto," ++ arg_tags a ++ ",d" ++ arg_tags d)
     ("copyto|" ++ pr_arg a ++ "|" ++ pr_arg d ++ "|" ++ Z_to_string bcap ++ "|" ++ hx binit)
     (pr_out (pr_cto (denotes a)) m) spec.

Definition case_lc (iscap : bool) (a : sarg) : rawcase :=
  let m := if iscap then s_capacity a else s_length a in
  let spec :=
    match denotes a with
    | None => match arg_family a with FamOther => "0" | _ => "*" end
    | Some v => match (if iscap then spec_cap v else spec_len v) with Some n => Z_to_string n | None => "0" end
    end in
  let meth := if iscap then "cap" else "len" in
  mk (meth ++ "," ++ arg_tags a) (meth ++ "|" ++ pr_arg a) (pr_out Z_to_string m) spec.

Definition zero_texts (v : sval) : string :=
  match v with
  | VBool _ => "pbool:0"
  | VInt k _ => "p" ++ ikind_name k ++ ":0"
  | VF32 _ => "pf32:F+0"
  | VF64 _ => "pf64:F+0"
  | VStr _ _ => "pstr:"
  | VBytes _ _ c => if (c =? 0)%Z then "pbytes:/0" else "pbytes:/0 || pbytes:/" ++ Z_to_string c
  | VOther t => "pother:" ++ Z_to_string t
  end.

Definition case_reset (rv : rev) (a : sarg) : rawcase :=
  let m := s_reset rv a in
  let spec :=
    match a with
    | AVal _ => pr_arg a                                (* by value nothing can change *)
    | APtr v => match family_of v with FamOther => pr_arg a | _ => zero_texts v end
    | ANil k => match k with KOther => pr_arg a | _ => "*" end
    end in
  mk ("reset," ++ arg_tags a) ("reset|" ++ pr_arg a) (pr_out pr_arg m) spec.

Definition case_typename : rawcase := mk "typename" "typename|" s_typename "static".
Definition case_unmarshal (typ : Z) (p : string) : rawcase :=
  let r := s_unmarshal (fun _ : string => (tt, None)) p typ in
  let t := match fst r with Some _ => "json" | None => "nil;err=" ++ pr_err (snd r) end in
  mk "unmarshal" ("unmarshal|" ++ Z_to_string typ ++ "|" ++ hx p) t "*".

(* ---------- values ---------- *)
Definition fl (s : string) : spec_float := match parse_float s with Some f => f | None => S754_nan end.
Definition ch (n : nat) : string := String (ascii_of_nat n) "".

Definition int_vals (full : bool) (k : ikind) : list Z :=
  [kmin k; 0%Z; 1%Z; kmax k] ++
  (if full then [2%Z; 100%Z; (kmax k - 1)%Z; (kmin k + 1)%Z] ++ (if is_signed k then [(-1)%Z; (-100)%Z] else [127%Z; 128%Z]) else []).

Definition f64_texts (full : bool) : list string :=
  ["0"; "1"; "1.4"; "1.0005"; "nan"; "inf"; "9223372036854775808"; "-1.4"] ++
  (if full then ["-0"; "1.001"; "1.0011"; "0.9995"; "-1"; "-0.5"; "-inf"; "127"; "128"; "255"; "256"; "100"; "2";
                 "9007199254740992"; "9007199254740994"; "9223372036854774784"; "9.3e18"; "18446744073709549568";
                 "18446744073709551616"; "3e19"; "-9223372036854775808"; "-9.3e18"; "-9223372036854777856"; "1e300"; "5e-324";
                 "2147483647"; "2147483648"; "-2147483649"; "65535.9"; "0.001"; "0.0011"]
   else []).
Definition f32_texts (full : bool) : list string :=
  ["0"; "1"; "1.4"; "1.0005"; "nan"; "inf"; "9223372036854775808"; "-1.4"] ++
  (if full then ["-0"; "1.001"; "-1"; "-inf"; "127"; "128"; "100"; "16777216"; "9.3e18"; "3e19"; "-9.3e18"; "3.4028234663852886e38"; "1e-45";
                 "0.001"; "2"]
   else []).

Definition text_vals (full : bool) : list string :=
  [""; "a"; "1"; "abc"; "nil"] ++          (* "nil" is a text like any other for this inspector: it has no nil operand *)
  (if full then ["ab"; "abd"; "b"; ch 255 ++ ch 0 ++ "z"; "true"; "100"; "1.4"; ch 127; ch 128; "A"] else []).

Definition vals (full : bool) (k : skind) : list sval :=
  match k with
  | KBool => [VBool false; VBool true]
  | KI ik => map (VInt ik) (int_vals full ik)
  | KF32 => map (fun t => VF32 (to_f32 (fl t))) (f32_texts full)
  | KF64 => map (fun t => VF64 (fl t)) (f64_texts full)
  | KStr => map (VStr id_src) (text_vals full)
  | KBytes => flat_map (fun t => ([VBytes id_src t (Z.of_nat (String.length t))] ++
                                 (if full then [VBytes id_src t (Z.of_nat (String.length t) + 3)] else []))%list)
                       (text_vals full)
              ++ [VBytes id_src "" 5]
  | KOther => []
  end.

Definition kinds15 : list skind :=
  [KBool] ++ map KI all_ikinds ++ [KF32; KF64; KStr; KBytes].

Definition others : list sarg :=
  map (fun t => AVal (VOther t)) [0; 1; 2; 3; 4; 5; 6; 7; 8; 9; 10; 11]%Z ++ [ANil KOther].

(* every form of every value of a kind *)
Definition args_of (full : bool) (k : skind) : list sarg :=
  flat_map (fun v => [AVal v; APtr v]) (vals full k) ++ [ANil k].
Definition all_args (full : bool) : list sarg := flat_map (args_of full) kinds15 ++ others.

(* ---------- operands of Compare ---------- *)
Definition render_val (v : sval) : list string :=
  match v with
  | VBool b => [if b then "true" else "false"]
  | VInt _ z => [Z_to_string z; Z_to_string (z + 1); Z_to_string (z - 1)]
  | VF32 f => match render_float (to_f64 f) with Some t => [t] | None => [] end
  | VF64 f => match render_float f with Some t => [t] | None => [] end
  | VStr _ s => [s; s ++ "a"]
  | VBytes _ d _ => [d; d ++ "a"]
  | VOther _ => []
  end.

Definition operands (full : bool) (f : family) : list string :=
  match f with
  | FamBool => ["true"; "false"; "1"; "0"; ""; "yes"; "nil"] ++ (if full then ["t"; "F"; "TRUE"; "True"; "tRuE"; "2"; "FALSE"] else [])
  | FamSigned =>
    ["0"; "1"; "-1"; "127"; "0x7f"; "9223372036854775807"; "9223372036854775808"; ""; "abc"; "1.5"; "nil"] ++
    (if full then ["100"; "128"; "-128"; "-129"; "0b101"; "0o17"; "017"; "1_000"; "-9223372036854775808"; "-9223372036854775809";
                   "+5"; " 1"; "0x"; "1__0"; "true"; "32767"; "32768"; "2147483647"; "-2147483648"; "2147483648"] else [])
  | FamUnsigned =>
    ["0"; "1"; "255"; "0xff"; "18446744073709551615"; "18446744073709551616"; "-1"; ""; "abc"; "1.5"; "nil"] ++
    (if full then ["256"; "65535"; "65536"; "4294967295"; "4294967296"; "+1"; "0b11"; "1_0"; "9223372036854775808"; "-0"] else [])
  | FamFloat =>
    ["0"; "1"; "1.4"; "1.0005"; "nan"; "inf"; "1e310"; ""; "abc"; "1.5.2"; "nil"] ++
    (if full then ["1e400"; "-0"; "1e3"; "0.1"; "-inf"; ".5"; "5."; "1e"; "+1.5"; "-1.4"; "1.3999999999999999"; "1.4000000000000001";
                   "1.399999976158142"; "1.4000000059604645"; "NaN"; "Infinity"; "1e-400"; "9223372036854775808"; "100"] else [])
  | FamText => [""; "a"; "abc"; "b"; "1"; "nil"] ++ (if full then ["ab"; "abd"; ch 255; ch 128; "A"; "abc" ++ ch 0] else [])
  | FamOther => ["1"; ""; "abc"]
  end.

Fixpoint dedup (l : list string) : list string :=
  match l with
  | [] => []
  | x :: r => if existsb (streq x) r then dedup r else x :: dedup r
  end.

Definition operands_for (full : bool) (a : sarg) : list string :=
  let own := match denotes a with Some v => render_val v | None => [] end in
  let l := dedup (operands full (arg_family a) ++ own) in
  match arg_family a with
  | FamFloat => filter pf_domain l       (* Base/Floats.parse_float models ParseFloat on the plain decimal grammar *)
  | _ => l
  end.

Definition cmp_cases (full : bool) (vclass : string) (a : sarg) : list rawcase :=
  flat_map (fun right =>
    flat_map (fun op => (case_cmp vclass a op right false ::
                         (* a stale true in the result: every operator in the thorough tier, three of them in the quick one *)
                         (if full || match op with OpEq | OpLt | OpUnk => true | _ => false end
                          then [case_cmp vclass a op right true] else []))%list) all_ops)
    (operands_for full a).

(* ---------- operand spellings of integers ---------- *)
(* Compare parses the operand of an integer kind with base 0: one number has many
   texts (Gen/Spellings.v: leading zero = octal, 0x/0o/0b, underscores, signs,
   zero padding to the widths of the 64-bit bounds) and many near misses (08, 019,
   _15, blanks).  Every integer kind, by value and by pointer, is compared with
   every spelling of its own value: a reading that differs from strconv's in any
   of them changes == (the text that means the value, or the one that only looks
   like it) or turns a number into a non-number and back (result left alone). *)
Definition is_64 (k : ikind) : bool := (bits k =? 64)%Z.

Definition spell_vals (full : bool) (k : ikind) : list Z :=
  let sgn := is_signed k in
  (* 15 = 017, "015" is 13; 19 = 023, "019" is no number *)
  [15%Z; if sgn then (-19)%Z else 19%Z] ++
  (if is_64 k then (if sgn then [(e18 - 1)%Z; (- e18)%Z] else [(e19 - 1)%Z; e19]) else []) ++
  (if full
   then [0%Z; 1%Z; 7%Z; 8%Z; 64%Z; 100%Z; kmax k; kmin k] ++
        (if sgn then [(-1)%Z; (-8)%Z; (-15)%Z; 19%Z] else []) ++
        (if is_64 k then [(e18 - 1)%Z; e18; (e18 / 10 - 1)%Z; (e18 / 10)%Z] ++
                         (if sgn then [(1 - e18)%Z; (- (e18 / 10))%Z] else [(e19 - 1)%Z; e19]) else [])
   else []).

Fixpoint dedupZ (l : list Z) : list Z :=
  match l with
  | [] => []
  | x :: r => if existsb (Z.eqb x) r then dedupZ r else x :: dedupZ r
  end.

(* quick tier: ==, <, >= and a stale true under == and >=; thorough: every operator, a stale true under three of them *)
Definition spell_ops (full : bool) : list (sop * bool) :=
  if full then (map (fun o => (o, false)) all_ops ++ [(OpEq, true); (OpLt, true); (OpUnk, true)])%list
  else [(OpEq, false); (OpEq, true); (OpLt, false); (OpGtq, true)].

Definition spell_cmp (full : bool) (a : sarg) (z : Z) : list rawcase :=
  flat_map (fun p : spelling =>
              map (fun ob : sop * bool => case_cmp ("spelling,sp=" ++ fst p) a (fst ob) (snd p) (snd ob)) (spell_ops full))
           (spellings_of full z).

Definition spell_cases (full : bool) : list rawcase :=
  flat_map (fun k =>
    flat_map (fun z => (spell_cmp full (AVal (VInt k z)) z ++ spell_cmp full (APtr (VInt k z)) z)%list)
             (dedupZ (spell_vals full k)))
    all_ikinds.

(* ---------- CopyTo destinations ---------- *)
Definition zero_of (k : skind) : list sval :=
  match k with
  | KBool => [VBool true] | KI ik => [VInt ik 1] | KF32 => [VF32 (to_f32 (fl "2"))] | KF64 => [VF64 (fl "2")]
  | KStr => [VStr id_dst "old"] | KBytes => [VBytes id_dst "old" 5] | KOther => []
  end.
Definition dsts_for (full : bool) (a : sarg) : list sarg :=
  let k := arg_kind a in
  map APtr (zero_of k) ++ [ANil k] ++ map AVal (zero_of k) ++
  (* a pointer of another kind, and foreign destinations *)
  (match k with KI KInt => [APtr (VInt KInt64 1)] | KStr => [APtr (VBytes id_dst "old" 5)] | KBytes => [APtr (VStr id_dst "old")] | _ => [APtr (VInt KInt 1)] end) ++
  [AVal (VOther 0); AVal (VOther 3)] ++
  (if full then flat_map (fun k' => map APtr (zero_of k')) kinds15 else []).

Definition copyto_cases (full : bool) (a : sarg) : list rawcase :=
  flat_map (fun d => ([case_copyto a d 0 ""; case_copyto a d 64 "xy"] ++ (if full then [case_copyto a d 3 "xy"] else []))%list)
           (dsts_for full a).

(* ---------- the enumerated part ---------- *)
Definition one_per_form (k : skind) : list sarg :=
  match vals false k with v :: _ => [AVal v; APtr v; ANil k] | [] => [ANil k] end.

Definition enum_cases (rv : rev) (full : bool) : list rawcase :=
  let args := all_args full in
  let small := all_args false in
  (* the pre-fix model is only run by hand (tier 2): fewer pairs, every diverging call costs a child process *)
  let dargs := if fx_text rv then args else (flat_map one_per_form kinds15 ++ others)%list in
  map (case_get "get") args ++ map (case_get "getto") args ++
  map (fun a => case_noop "set" a (AVal (VInt KInt 7))) small ++
  map (fun a => case_noop "setbuf" a (AVal (VStr id_dst "zz"))) small ++
  map (fun a => case_noop "loop" a (AVal (VOther 0))) small ++
  flat_map (cmp_cases full "boundary") args ++
  spell_cases full ++
  flat_map (fun l => map (case_deq rv "boundary" l) dargs) dargs ++
  map case_copy args ++
  flat_map (copyto_cases full) (if full then args else small) ++
  map (case_lc false) args ++ map (case_lc true) args ++
  map (case_reset rv) args ++
  [case_typename; case_unmarshal 0 "1"; case_unmarshal 0 "{"; case_unmarshal 1 "1"; case_unmarshal 7 ""].

(* ---------- random values ---------- *)
Definition rnd_Z_in (s : rng) (lo hi : Z) : Z * rng :=
  let '(c, s1) := rng_nat s 4 in
  let span := (hi - lo + 1)%Z in
  match c with
  | 0 => let '(n, s2) := rng_pick s1 16 in                       (* near the low end *)
         (Z.min hi (lo + Z.of_N n), s2)
  | 1 => let '(n, s2) := rng_pick s1 16 in                       (* near the high end *)
         (Z.max lo (hi - Z.of_N n), s2)
  | 2 => let '(n, s2) := rng_pick s1 300 in                      (* small *)
         (Z.max lo (Z.min hi (Z.of_N n - 150)), s2)
  | _ => let '(a, s2) := rng_pick s1 4294967296 in
         let '(b, s3) := rng_pick s2 4294967296 in
         ((lo + (Z.of_N a * 4294967296 + Z.of_N b) mod span)%Z, s3)
  end.

Definition rnd_f64 (s : rng) : spec_float * rng :=
  let '(c, s1) := rng_nat s 8 in
  match c with
  | 0 => let '(n, s2) := rng_pick s1 4000 in                     (* around 1 in steps of 1/2000 *)
         (fl ("1." ++ (let t := N_to_string n in if (N.ltb n 10) then "000" ++ t else if N.ltb n 100 then "00" ++ t
                                                 else if N.ltb n 1000 then "0" ++ t else t)), s2)
  | 1 => let '(z, s2) := rnd_Z_in s1 (-300) 300 in (f64_of_Z z, s2)
  | 2 => let '(z, s2) := rnd_Z_in s1 (-300) 300 in                (* halves, quarters *)
         (norm64 z (-2), s2)
  | 3 => let '(z, s2) := rnd_Z_in s1 (-9223372036854775808) 18446744073709551615 in (f64_of_Z z, s2)
  | 4 => let '(m, s2) := rnd_Z_in s1 (-9007199254740991) 9007199254740991 in
         let '(e, s3) := rng_pick s2 2100 in
         (norm64 m (Z.of_N e - 1100), s3)
  | 5 => let '(m, s2) := rnd_Z_in s1 1 9007199254740991 in
         let '(e, s3) := rng_pick s2 30 in
         (norm64 m (Z.of_N e - 10), s3)                           (* up to about 2^73: across 2^63 and 2^64 *)
  | 6 => let '(k, s2) := rng_nat s1 5 in
         (nth k [S754_nan; S754_infinity false; S754_infinity true; S754_zero true; S754_zero false] S754_nan, s2)
  | _ => let '(z, s2) := rnd_Z_in s1 (-70000) 70000 in
         (norm64 (z * 1000 + 1) (-10), s2)
  end.

Definition text_alphabet : string := "ab01-.xe".
Fixpoint rnd_text (len : nat) (s : rng) : string * rng :=
  match len with
  | O => ("", s)
  | S l => let '(k, s1) := rng_nat s 10 in
           let '(c, s2) := if Nat.ltb k 8 then (match String.get k text_alphabet with Some c => c | None => "a"%char end, s1)
                           else let '(n, s') := rng_pick s1 256 in (ascii_of_N n, s') in
           let '(r, s3) := rnd_text l s2 in (String c r, s3)
  end.

Definition rnd_val (s : rng) (k : skind) : sval * rng :=
  match k with
  | KBool => let '(n, s1) := rng_nat s 2 in (VBool (Nat.eqb n 1), s1)
  | KI ik => let '(z, s1) := rnd_Z_in s (kmin ik) (kmax ik) in (VInt ik z, s1)
  | KF32 => let '(f, s1) := rnd_f64 s in (VF32 (to_f32 f), s1)
  | KF64 => let '(f, s1) := rnd_f64 s in (VF64 f, s1)
  | KStr => let '(n, s1) := rng_nat s 5 in let '(t, s2) := rnd_text n s1 in (VStr id_src t, s2)
  | KBytes => let '(n, s1) := rng_nat s 5 in let '(t, s2) := rnd_text n s1 in
              let '(x, s3) := rng_nat s2 3 in (VBytes id_src t (Z.of_nat (String.length t) + Z.of_nat x), s3)
  | KOther => let '(n, s1) := rng_nat s 12 in (VOther (Z.of_nat n), s1)
  end.

Definition rnd_kind (s : rng) : skind * rng :=
  let '(n, s1) := rng_nat s 16 in (nth n kinds15 KOther, s1).

Definition rnd_arg (s : rng) : sarg * rng :=
  let '(k, s1) := rnd_kind s in
  let '(v, s2) := rnd_val s1 k in
  let '(f, s3) := rng_nat s2 12 in
  match k with
  | KOther => (AVal v, s3)
  | _ => (if Nat.eqb f 0 then ANil k else if Nat.ltb f 6 then AVal v else APtr v, s3)
  end.

(* a right operand related to the left one: same family with a nearby value, most of the time *)
Definition related_arg (s : rng) (l : sarg) : sarg * rng :=
  let '(c, s1) := rng_nat s 4 in
  match c, denotes l with
  | 0, _ | _, None => rnd_arg s1
  | _, Some v =>
    let '(p, s2) := rng_nat s1 2 in
    let wrapf (w : sval) := if Nat.eqb p 0 then AVal w else APtr w in
    match v with
    | VInt k z =>
      (* the same number in another kind of the family, or in a float *)
      let '(j, s3) := rng_nat s2 7 in
      let sameS := filter (fun k' => Bool.eqb (is_signed k') (is_signed k) && in_range k' z) all_ikinds in
      let '(k', s4) := pick_list s3 k sameS in
      (if Nat.ltb j 4 then wrapf (VInt k' z)
       else if Nat.eqb j 4 then wrapf (VF64 (f64_of_Z z))
       else if Nat.eqb j 5 then wrapf (VF64 (norm64 (z * 2 + 1) (-1)))
       else wrapf (VF32 (to_f32 (f64_of_Z z))), s4)
    | VF32 f | VF64 f =>
      let '(j, s3) := rng_nat s2 6 in
      let f64v := match v with VF32 _ => to_f64 f | _ => f end in
      let d := match j with 0 => fl "0" | 1 => fl "0.0009" | 2 => fl "0.0011" | 3 => fl "-0.001" | 4 => fl "0.5" | _ => fl "0" end in
      let g := SFadd 53 1024 f64v d in
      (if Nat.eqb j 5 then wrapf (VInt KInt64 (f2i64 f64v)) else if Nat.even j then wrapf (VF64 g) else wrapf (VF32 (to_f32 g)), s3)
    | VStr _ t | VBytes _ t _ =>
      let '(j, s3) := rng_nat s2 4 in
      let t' := match j with 0 => t | 1 => t | 2 => t ++ "a" | _ => "b" ++ t end in
      (if Nat.even j then wrapf (VStr id_dst t') else wrapf (VBytes id_dst t' (Z.of_nat (String.length t') + 2)), s3)
    | _ => rnd_arg s2
    end
  end.

Definition rnd_operand (s : rng) (a : sarg) : string * rng :=
  let '(c, s1) := rng_nat s 4 in
  if Nat.eqb c 0 then let '(n, s2) := rng_nat s1 4 in
                      let '(t, s3) := rnd_text n s2 in
                      (match arg_family a with FamFloat => if pf_domain t then t else "1.25" | _ => t end, s3)
  else
    match c, denotes a with
    | 1, Some (VInt _ z) =>
      (* some spelling of the value itself or of a number nearby *)
      let '(d, s2) := rng_nat s1 5 in
      let '(p, s3) := pick_list s2 ("dec", "0") (spellings_of true (z + Z.of_nat d - 2)) in
      (snd p, s3)
    | _, _ => pick_list s1 "" (operands_for true a)
    end.

Fixpoint rnd_cases (rv : rev) (count : nat) (s : rng) : list rawcase :=
  match count with
  | O => []
  | S c =>
    let '(m, s1) := rng_nat s 12 in
    let '(a, s2) := rnd_arg s1 in
    match m with
    | 0 | 1 | 2 | 3 | 4 =>
      let '(b, s3) := related_arg s2 a in
      case_deq rv "random" a b :: rnd_cases rv c s3
    | 5 | 6 | 7 =>
      let '(t, s3) := rnd_operand s2 a in
      let '(o, s4) := pick_list s3 OpEq all_ops in
      let '(r0, s5) := rng_nat s4 2 in
      case_cmp "random" a o t (Nat.eqb r0 1) :: rnd_cases rv c s5
    | 8 => case_copy a :: case_get "get" a :: rnd_cases rv c s2
    | 9 =>
      let '(d, s3) := pick_list s2 (AVal (VOther 0)) (dsts_for false a) in
      let '(n, s4) := rng_nat s3 4 in
      case_copyto a d (Z.of_nat n * 2) (if Nat.even n then "" else "q") :: rnd_cases rv c s4
    | 10 => case_lc false a :: case_lc true a :: rnd_cases rv c s2
    | _ => case_reset rv a :: rnd_cases rv c s2
    end
  end.

Fixpoint number (i : N) (l : list rawcase) : list string :=
  match l with
  | [] => []
  | (tags, input, model, spec) :: r =>
    ("c" ++ N_to_string i ++ tab ++ tags ++ tab ++ input ++ tab ++ model ++ tab ++ spec) :: number (N.succ i) r
  end.

(* tier 0 = quick, 1 = thorough.  Tier 2 is not used by bin/check: it prints the
   model of the code BEFORE the fix commits ([pinned]) on a reduced set, to be
   run by hand against a checkout of that code (build/modeldrv_c16 2 1 | hrun c16);
   that is how the witnesses of the C16_refuted_ theorems were confirmed. *)
Definition cases (tier : Z) (seed : Z) : list string :=
  let full := Z.eqb tier 1 in
  let rv := if Z.eqb tier 2 then pinned else cur in
  number 0%N (enum_cases rv full ++
              rnd_cases rv (if full then Nat.mul 60 1000 else if Z.eqb tier 2 then Nat.mul 2 1000 else Nat.mul 6 1000) (rng_of_seed seed)).
