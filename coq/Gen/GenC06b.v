(* Gen/GenC06b.v - units of C06's own: maps whose VALUES are structs held BY VALUE (map[K]S, not
   map[K]*S) where S owns memory of every kind - pointers to scalars, strings and structs, slices
   of scalars / strings / structs / pointers, maps, pointers to slices, maps and bytes, nested
   by-value structs that own such members - as struct field, behind a pointer, as field of a named
   map type, as named root map, as inner map of a root map and below slice elements.  The shared
   units (Gen/Shapes.v) hold by-value struct map values made of scalars, strings and bytes only
   (Leaf, Pt): there the per-entry value temporary of the copy emitter has nothing to allocate.
   The units are not part of Shapes.multi: when they were written the Set emitter lost updates
   below a by-value map entry (C03's finding nested_in_map_entry, fixed since by e955906) and the
   shared units had to stay inside C03's sound fragment.

   Values: the variants of Gen/EnumVal.v put the struct variants 0..2 into map entries (pointers set,
   collections empty or of one element).  [variants_sh] enumerates the same value classes with the
   entries / elements of every collection taken from further along the variant list of the element
   type, so that map values also hold slices of several elements with spare capacity, maps of two
   entries, nil members next to set ones. *)
From Coq Require Import List Bool String Ascii ZArith Arith NArith.
From Verif Require Import Util Ints Node GoSrc Value Outcome InsReset InsCopy EmptySpec Shapes EnumVal GenUnits GenC10 GenC08 GenC06.
Import ListNotations.
Local Open Scope string_scope.

(* populated values of a node whose collections pick their entries / elements [s] places further along
   the element's variants (nil and empty collections are what [variants] has already) *)
Fixpoint variants_sh (s : nat) (n : node) {struct n} : list val :=
  match n with
  | Node ty tn tu nm pk pki p chld mk mv sl hb hc =>
    let inner : list val :=
      match ty with
      | typeBasic => match skind_of_name tu with Some k => scalar_variants k | None => [VInt 0] end
      | typeStruct =>
        let fvs := (fix go (l : list node) : list (list val) :=
                      match l with [] => [] | c :: r => variants_sh s c :: go r end) chld in
        let width := fold_left Nat.max (map (@List.length val) fvs) 1%nat in
        map (fun j => VStruct (map (fun vs => nth_mod (VInt 0) vs j) fvs)) (seqn (Nat.min width 6))
      | typeMap =>
        match mk, mv with
        | Some kn, Some vn =>
          let ks := match node_skind kn with Some k => key_variants k | None => [] end in
          let ks := if n_ptr kn then map (fun k => VPtr (Some k)) ks else ks in
          let vs := variants vn in
          let k1 := nth 0 ks (VInt 0) in let k2 := nth 1 ks (VInt 1) in
          [VMap false [(k1, nth_mod (VInt 0) vs (1 + s))];
           VMap false [(k1, nth_mod (VInt 0) vs (2 + s)); (k2, nth_mod (VInt 0) vs s)]]
        | _, _ => []
        end
      | typeSlice =>
        if String.eqb tn "[]byte" then [VBytes false (bytes_of_string "xy") 3; VBytes false [] 4; VBytes false (bytes_of_string "q") 0]
        else match sl with
             | Some en =>
               let vs := variants en in
               [VSlice false [nth_mod (VInt 0) vs (1 + s)] 2;
                VSlice false [nth_mod (VInt 0) vs (2 + s); nth_mod (VInt 0) vs s; nth_mod (VInt 0) vs (1 + s)] 1]
             | None => []
             end
      end in
    if p then map (fun x => VPtr (Some x)) inner ++ [VPtr None] else inner
  end.

(* the source values of a unit: its variants, then the shifted ones *)
Definition values (n : node) : list val := (variants n ++ variants_sh 2 n)%list.

(* ---------- the units ---------- *)
(* pointers to collections and to scalars only *)
Definition holder : ty :=
  TNamed "Holder" (TStruct [("PS", TPtr (TSlice t_int32)); ("PM", TPtr (TMap t_string t_int32)); ("Q", TPtr t_string);
                            ("A", TPtr t_int32); ("PB", TPtr t_bytes)]).
(* slices of every element form *)
Definition lists : ty :=
  TNamed "Lists" (TStruct [("PP", TSlice (TPtr plain)); ("LS", TSlice leaf); ("SS", TSlice t_string); ("N", t_int32)]).
(* a map and nothing else that owns memory *)
Definition grid : ty := TNamed "Grid" (TStruct [("Cells", TMap t_int32 t_int32); ("W", t_int32)]).
(* a struct that holds a map of by-value structs itself *)
Definition reg : ty := TNamed "Reg" (TStruct [("By", TMap t_string pflat); ("N", t_int32)]).

Definition bunits : list (string * ty) :=
  [(* named root map; Item: pointer to struct, slice, map, pointer to string *)
   ("V0", TMap t_string item);
   (* as field and behind a pointer *)
   ("V1", TStruct [("F", TMap t_int32 item); ("PF", TPtr (TMap t_string item)); ("N", t_int32)]);
   (* values whose only indirections are pointers: a shared target leaves the copy equal to the source *)
   ("V2", TMap t_int32 pflat);
   (* members below a nested by-value struct; a map as the only member that owns memory *)
   ("V3", TStruct [("W", TMap t_string window); ("M", TMap t_string mid); ("G", TMap t_int32 grid)]);
   (* pointers to slices / maps / bytes; slices of pointers, structs and strings *)
   ("V4", TStruct [("H", TMap t_string holder); ("L", TMap (TScalar (SInt KUint64)) lists)]);
   (* fields of named map types; the pointer-valued neighbour *)
   ("V5", TStruct [("NM", TNamed "Items" (TMap t_string item)); ("PNM", TPtr (TNamed "Flats" (TMap t_int32 pflat)));
                   ("PI", TMap t_string (TPtr item))]);
   (* as values of the inner map of a root map *)
   ("V6", TMap t_string (TMap t_int32 pflat));
   (* float keys (the shipped FloatStructMap); the map below a slice element, a field and a pointer field *)
   ("V7", TStruct [("FK", TMap (TScalar SF64) pflat); ("Rs", TSlice reg); ("One", reg); ("PR", TPtr reg)])].

(* the unit lines the runner of this stream links *)
Definition emit_cases (tier : Z) (seed : Z) : list string := map GenUnits.case_line bunits.

Definition cases (tier : Z) (seed : Z) : list string :=
  flat_map (fun u => let vs := values (root_node u) in (copy_lines_of vs u ++ copyto_lines_of vs u)%list) bunits.
