(* Gen/GenC03x.v - two units of C03's own, outside the sound fragment of Proofs/SetSound.v: a
   struct held BY VALUE as map entry that has a nested struct field.  Below that field the
   repaired emitter still assigns to a copy of the entry that is never stored back (the open
   finding nested_in_map_entry; theorem C03_refuted_nested_in_map_entry).  The stream runs the
   real generated inspectors of these types on the same case shapes as the main stream. *)
From Coq Require Import List Bool String Ascii ZArith Arith.
From Verif Require Import Util Ints Node GoSrc Value Shapes GenUnits GenC03.
Import ListNotations.
Local Open Scope string_scope.

Definition pt : ty := TNamed "Pt" (TStruct [("A", t_int32); ("S", t_string)]).
Definition rec_ : ty := TNamed "Rec" (TStruct [("N", pt); ("C", t_int32)]).

Definition xunits : list (string * ty) :=
  [("N0", TMap t_string rec_); ("N1", TStruct [("F", TMap t_int32 rec_)])].

(* the unit lines the runner of this stream links *)
Definition emit_cases (tier : Z) (seed : Z) : list string := map GenUnits.case_line xunits.

Definition cases (tier : Z) (seed : Z) : list string :=
  flat_map (fun iu : nat * (string * ty) => GenC03.case_lines (fst iu) (snd iu))
           (combine (EnumVal.seqn (List.length xunits)) xunits).
