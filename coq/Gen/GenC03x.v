(* Gen/GenC03x.v - three units of C03's own: a struct held BY VALUE as map entry that has nested
   fields.  Until fix e955906 the emitter assigned below such a field to a copy of the entry that
   was never stored back (finding nested_in_map_entry, fixed; theorem
   C03_refuted_nested_in_map_entry is about the old emitter); the repaired emitter keeps the
   store-back of the entry pending for all the code below it, and the units are inside the sound
   fragment of Proofs/SetSound.v now.  The stream runs the real generated inspectors of these
   types on the same case shapes as the main stream and demands the stored value: below a nested
   struct (N0, N1), and below a nested struct, a nil or set pointer, a slice, and maps - nil, empty
   or populated, with scalar values and with further structs held by value - of an entry (N2). *)
From Coq Require Import List Bool String Ascii ZArith Arith.
From Verif Require Import Util Ints Node GoSrc Value Shapes GenUnits GenC03.
Import ListNotations.
Local Open Scope string_scope.

Definition pt : ty := TNamed "Pt" (TStruct [("A", t_int32); ("S", t_string)]).
Definition rec_ : ty := TNamed "Rec" (TStruct [("N", pt); ("C", t_int32)]).

Definition lf : ty := TNamed "Lf" (TStruct [("A", t_int32)]).
Definition rec2 : ty :=
  TNamed "Rec2" (TStruct [("N", pt); ("P", TPtr pt); ("L", TSlice pt); ("M", TMap t_int32 lf);
                          ("S", TMap t_string t_int32); ("C", t_int32)]).

Definition xunits : list (string * ty) :=
  [("N0", TMap t_string rec_); ("N1", TStruct [("F", TMap t_int32 rec_)]); ("N2", TMap t_int32 rec2)].

(* the unit lines the runner of this stream links *)
Definition emit_cases (tier : Z) (seed : Z) : list string := map GenUnits.case_line xunits.

Definition cases (tier : Z) (seed : Z) : list string :=
  flat_map (fun iu : nat * (string * ty) => GenC03.case_lines (fst iu) (snd iu))
           (combine (EnumVal.seqn (List.length xunits)) xunits).
