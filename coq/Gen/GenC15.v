(* Gen/GenC15.v - the C15 allocation stream: every path made only of struct fields, non-nil
   pointers and struct-slice indices ([live_loc] of Spec/GetSpec.v) on the value variants of
   every emit unit, ending at a scalar / string / bytes element (GetTo, Compare, Length,
   Capacity, DeepEqual, SetWithBuffer) or at a slice (Loop), with the object handed in as *T and
   as **T (and, where the property is silent, by value).  The demand is zero heap allocations; there is no model of the Go compiler's escape analysis: this part of the
   property is measured, not proved.
   Second part (below, [hand_lines]): what the emitted Loop HANDS OUT to the iterator - the
   inspectors that come with keys and elements - at every place a map or slice is iterated;
   predicted by the Loop model of C09 (Model/Loop.v), demanded to be free of reflection. *)
From Coq Require Import List Bool String Ascii ZArith Arith.
From Verif Require Import Util Ints Node GoSrc Value Outcome Nav Loop LoopSpec Shapes EnumVal GenUnits GenC10 GetSpec.
Import ListNotations.
Local Open Scope string_scope.

Definition operand_for (en : node) : string :=
  match node_skind en with
  | Some SBool => "true" | Some SString => "ab" | Some _ => "1" | None => "ab"
  end.

Definition is_leaf_node (en : node) : bool :=
  match n_typ en with typeBasic => true | typeSlice => String.eqb (n_typn en) "[]byte" | _ => false end.
Definition is_slice_node (en : node) : bool :=
  match n_typ en with typeSlice => negb (String.eqb (n_typn en) "[]byte") | _ => false end.

(* The three argument forms a generated inspector accepts for the object (compiler.go, the
   cast in every method header): T by value, *T and **T.  "Reading through a pointer" of the
   property text is *T and **T: each measurement is made with the object handed in in both
   pointer forms (one case, one block of counts per form) and the demand is zero in both.
   Handed in by value the object is copied by the cast; the property text says nothing about
   that form (spec "*").  It is still measured, on the first element case and the first slice
   case of every unit (the cast belongs to the method header: one per type), and the unchanged
   code is predicted: the reference GetTo returns points into the private copy, which has to
   outlive the call - one allocation -, the other reads leave the copy on the stack.
   SetWithBuffer by value writes into that private copy (a lost update, not a read): whether
   the copy reaches the heap there is the escape analysis' choice per type - not measured. *)
Definition ptr_forms : list string := ["p"; "pp"].

Definition zero_counts (kind : string) : string :=
  if String.eqb kind "slice" then "loop=0"
  else if String.eqb kind "read" then "getto=0;cmp=0;len=0;cap=0;deq=0"
  else "getto=0;cmp=0;len=0;cap=0;deq=0;set=0".

(* what the unchanged code does, per form *)
Definition measured (form kind : string) : string :=
  if String.eqb form "v" then
    (if String.eqb kind "slice" then "loop=0" else "getto=1;cmp=0;len=0;cap=0;deq=0")
  else zero_counts kind.

(* what the property text demands, per form: zero through a pointer, nothing by value *)
Definition demand (form kind : string) : option string :=
  if String.eqb form "v" then None else Some (zero_counts kind).

Definition blocks (forms : list string) (f : string -> string) : string :=
  match forms with
  | [x] => f x
  | _ => join "|" (map (fun x => x ++ ":" ++ f x) forms)
  end.

Definition spec_of (forms : list string) (kind : string) : string :=
  if forallb (fun x => match demand x kind with Some _ => true | None => false end) forms
  then blocks forms (fun x => match demand x kind with Some d => d | None => "*" end)
  else "*".

Definition mk_case (u : string * ty) (vi : nat) (v : val) (path : list string) (en : node)
    (forms : list string) (kind : string) (tags : string) : string :=
  fst u ++ "." ++ nat_to_string vi ++ "." ++ kind ++ "." ++ path_text path ++
    (if forallb (fun x => existsb (String.eqb x) ptr_forms) forms then "" else "." ++ join "+" forms) ++ tab ++
  "allocs," ++ tags ++ tab ++
  fst u ++ ";" ++ join "+" forms ++ ";allocs;" ++ kind ++ ";" ++ path_text path ++ ";" ++
    path_text [operand_for en] ++ ";" ++ pr_val true v ++ tab ++
  blocks forms (fun x => measured x kind) ++ tab ++ spec_of forms kind.

(* the measurable cases of a unit: (is a slice, variant index, value, path, element node) *)
Definition unit_points (u : string * ty) : list (bool * (nat * val * list string * node)) :=
  let n := root_node u in
  flat_map (fun iv : nat * val =>
    let '(vi, v) := iv in
    flat_map (fun pt : tagged =>
      let path := fst pt in
      match path, live_loc n v path, nav n v path with
      | _ :: _, Some _, NElem en ev =>
        match strip_ptrs 3 ev with
        | None => []
        | Some _ =>
          if is_leaf_node en then [(false, (vi, v, path, en))]
          else if is_slice_node en then [(true, (vi, v, path, en))]
          else []
        end
      | _, _, _ => []
      end) (paths n v))
  (combine (seqn (List.length (variants n))) (variants n)).

Definition case_lines (u : string * ty) : list string :=
  let pts := unit_points u in
  let line (forms : list string) (byvalue : bool) (p : bool * (nat * val * list string * node)) :=
    let '(sl, (vi, v, path, en)) := p in
    if sl then mk_case u vi v path en forms "slice" (if byvalue then "slice,byvalue" else "slice")
    else if byvalue then mk_case u vi v path en forms "read" "read,byvalue"
    else mk_case u vi v path en forms "leaf" "leaf" in
  let first (sl : bool) := match find (fun p => Bool.eqb (fst p) sl) pts with Some p => [p] | None => [] end in
  map (line ptr_forms false) pts ++ map (line ["v"] true) (first false ++ first true).

(* ---------- what generated code HANDS OUT: the inspectors Loop passes to the iterator ----------
   "Generated inspectors never use reflection" covers the code a generated method delegates to as
   well: Loop gives the iterator, with every key and every element, the inspector to read it
   with (Iterator.SetKey / SetVal).  For every unit and every place of its Loop that iterates
   a map or a non-byte slice (the paths of every value variant that denote one, Spec/LoopSpec.v
   [denoted]: roots, fields, entries of maps, elements of slices that are collections
   themselves, whatever the element is - scalar, string, struct, pointer, nested map, nested
   slice, named or not: every element kind the units have) Loop is run over a value in which
   that collection has elements, with the object handed in by value, as *T and as **T, with an
   iterator that wants every key, and the DYNAMIC TYPES of all inspectors it was handed are
   collected (harness/emit/op_handout.go):
       key=<set>;val=<set>      a set = sorted names joined by '+', '-' when nothing was handed
   A name is the TypeName() of an inspector a generator wrote (package <pkg>_ins) or of one of the
   library's inspectors listed below; any other library type prints as lib:<Go type name>, any
   other type as foreign:<Go type>.
   model: the inspector names in the trace of Model/Loop.v [loop_method] (the model of the
   emitted Loop already carries them: [elem_ins]), over the three forms.
   spec: from the property text - whatever is handed out must not be reflection based. *)

(* the inspectors of the library that do without package reflect (static.go, strings.go,
   stranymap.go import no reflect; reflect.go - ReflectInspector - is the reflection based
   one), by TypeName() *)
Definition unreflective_builtins : list string := ["static"; "strings"; "map[string]any"].

(* a generator writes an inspector for every named struct, map and slice type: the one of the
   element's own type, when it has a name, needs no reflection either *)
Definition own_inspector (en : node) : list string :=
  match n_typ en with
  | typeBasic => []
  | _ => if looks_unnamed (n_typn en) || String.eqb (n_typn en) "" then [] else [n_typn en]
  end.

Definition every_key : script := {| wants := fun _ => true; ctls := fun _ => CNone |}.
Definition as_listed (l : list (val * val)) : list (val * val) := l.

Definition pr_names (l : list string) : string :=
  match sort_strs (dedup_str l) with [] => "-" | s => join "+" s end.

Definition handed_keys (tr : trace) : list string :=
  flat_map (fun e => match e with ESetKey _ i => [i] | _ => [] end) tr.
Definition handed_vals (tr : trace) : list string :=
  flat_map (fun e => match e with ESetVal _ i => [i] | _ => [] end) tr.

Definition hand_forms : list string := ["v"; "p"; "pp"].

(* the model column: what the emitted Loop (Model/Loop.v) hands over, all forms together *)
Definition hand_model (n : node) (v : val) (path : list string) : string :=
  let outs := map (fun f => loop_method every_key as_listed n (arg_of_form f v) path) hand_forms in
  match find (fun o => match o with Ret _ _ => false | _ => true end) outs with
  | Some (Panic k) => "PANIC:" ++ pr_pkind k
  | Some _ => "?"
  | None =>
    match find (fun o => match o with Ret _ (Some _) => true | _ => false end) outs with
    | Some (Ret _ e) => "e=" ++ pr_err e
    | _ =>
    let trs := flat_map (fun o => match o with Ret tr _ => tr | _ => [] end) outs in
    "key=" ++ pr_names (handed_keys trs) ++ ";val=" ++ pr_names (handed_vals trs)
    end
  end.

(* the spec column: nothing, or one kind of inspector that works without reflection - for a
   key (a text) one of the library's, for an element one of the library's or the generated
   inspector of the element's own type *)
Definition hand_spec (en : node) : string :=
  let ks := "-" :: unreflective_builtins in
  let vs := "-" :: unreflective_builtins ++ own_inspector en in
  join " || " (flat_map (fun k => map (fun x => "key=" ++ k ++ ";val=" ++ x) vs) ks).

Definition elem_kind_tag (en : node) : string :=
  (if n_ptr en then "e:ptr-" else "e:") ++
  match n_typ en with
  | typeBasic => if String.eqb (n_typu en) "string" then "string" else "scalar"
  | typeStruct => "struct"
  | typeMap => if looks_unnamed (n_typn en) then "map" else "namedmap"
  | typeSlice => if String.eqb (n_typn en) "[]byte" then "bytes"
                 else if looks_unnamed (n_typn en) then "slice" else "namedslice"
  end.

(* the place in the emitted Loop a path leads to: field names kept, map keys and slice indices
   (one piece of emitted code serves all of them) replaced by a star *)
Fixpoint site (n : node) (path : list string) {struct path} : list string :=
  match path with
  | [] => []
  | seg :: rest =>
    match n_typ n with
    | typeStruct =>
      seg :: match find (fun ch => String.eqb (n_name ch) seg) (n_chld n) with Some ch => site ch rest | None => rest end
    | typeMap => "*" :: match n_mapv n with Some vn => site vn rest | None => rest end
    | typeSlice => "*" :: match n_slct n with Some en => site en rest | None => rest end
    | typeBasic => seg :: rest
    end
  end.

(* one case per unit and loop site: the first value variant and path in which the collection
   there has elements (a Loop over an empty collection hands nothing out) *)
Definition is_basic_elem (en : node) : bool := match n_typ en with typeBasic => true | _ => false end.

Definition hand_lines (u : string * ty) : list (bool * string) :=
  let n := root_node u in
  let pts := flat_map (fun iv : nat * val =>
    let '(vi, v) := iv in
    flat_map (fun pt : tagged =>
      let path := fst pt in
      match denoted n v path with
      | LSlice el es => [(join "." (site n path), (vi, v, path, el, "c:slice", List.length es))]
      | LMap kn vn kvs => [(join "." (site n path), (vi, v, path, vn, "c:map", List.length kvs))]
      | _ => []
      end) (paths n v))
    (combine (seqn (List.length (variants n))) (variants n)) in
  let keys := rev (dedup_str (rev (map fst pts))) in
  flat_map (fun k =>
    let mine := filter (fun p => String.eqb (fst p) k) pts in
    match find (fun p => match snd p with (_, _, _, _, _, len) => negb (Nat.eqb len 0) end) mine with
    | Some p =>
      let '(_, (vi, v, path, en, ctag, len)) := p in
      [(is_basic_elem en && String.prefix "T" (fst u),
       fst u ++ "." ++ nat_to_string vi ++ ".hand." ++ path_text path ++ tab ++
       "handout," ++ ctag ++ "," ++ elem_kind_tag en ++ tab ++
       fst u ++ ";" ++ join "+" hand_forms ++ ";handout;" ++ path_text path ++ ";" ++ pr_val true v ++ tab ++
       hand_model n v path ++ tab ++ hand_spec en)]
    | None => []
    end) keys.

(* quick tier: the sites whose elements are scalars or strings (one emitter branch serves them all) of
   the single-shape units T<i> are thinned to every second one; all other sites, and the thorough
   tier, are complete *)
Fixpoint thin (keep : bool) (l : list (bool * string)) : list string :=
  match l with
  | [] => []
  | (false, s) :: r => s :: thin keep r
  | (true, s) :: r => if keep then s :: thin false r else thin true r
  end.

Definition cases (tier : Z) (seed : Z) : list string :=
  flat_map case_lines (emit_units tier) ++
  (let hl := flat_map hand_lines (emit_units tier) in
   if Z.eqb tier 0 then thin true hl else map snd hl).
