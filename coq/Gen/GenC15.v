(* Gen/GenC15.v - the C15 allocation stream: every path made only of struct fields, non-nil
   pointers and struct-slice indices ([live_loc] of Spec/GetSpec.v) on the value variants of
   every emit unit, ending at a scalar / string / bytes element (GetTo, Compare, Length,
   Capacity, DeepEqual, SetWithBuffer) or at a slice (Loop).  The demand is zero heap
   allocations; there is no model of the Go compiler's escape analysis: this part of the
   property is measured, not proved. *)
From Coq Require Import List Bool String Ascii ZArith Arith.
From Verif Require Import Util Ints Node GoSrc Value Outcome Nav Shapes EnumVal GenUnits GenC10 GetSpec.
Import ListNotations.
Local Open Scope string_scope.

Definition operand_for (en : node) : string :=
  match node_skind en with
  | Some SBool => "true" | Some SString => "ab" | Some _ => "1" | None => "ab"
  end.

Definition is_leaf_node (en : node) : bool :=
  match n_typ en with typeBasic => true | typeSlice => String.eqb (n_typn en) "[]byte" | _ => false end.
Definition is_slice_node (en : node) : bool :=
  match n_typ en with typeSlice => negb (String.eqb (n_typn en) "[]byte") | _ => false end.

Definition case_lines (u : string * ty) : list string :=
  let n := root_node u in
  flat_map (fun iv : nat * val =>
    let '(vi, v) := iv in
    flat_map (fun pt : tagged =>
      let path := fst pt in
      match path, live_loc n v path, nav n v path with
      | _ :: _, Some _, NElem en ev =>
        match strip_ptrs 3 ev with
        | None => []
        | Some _ =>
          let mk (kind expect : string) :=
            [fst u ++ "." ++ nat_to_string vi ++ "." ++ kind ++ "." ++ path_text path ++ tab ++
             "allocs," ++ kind ++ tab ++
             fst u ++ ";p;allocs;" ++ kind ++ ";" ++ path_text path ++ ";" ++ path_text [operand_for en] ++ ";" ++ pr_val true v ++ tab ++
             expect ++ tab ++ expect] in
          if is_leaf_node en then mk "leaf" "getto=0;cmp=0;len=0;cap=0;deq=0;set=0"
          else if is_slice_node en then mk "slice" "loop=0"
          else []
        end
      | _, _, _ => []
      end) (paths n v))
  (combine (seqn (List.length (variants n))) (variants n)).

Definition cases (tier : Z) (seed : Z) : list string := flat_map case_lines (emit_units tier).
