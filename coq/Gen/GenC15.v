(* Gen/GenC15.v - the C15 allocation stream: every path made only of struct fields, non-nil
   pointers and struct-slice indices ([live_loc] of Spec/GetSpec.v) on the value variants of
   every emit unit, ending at a scalar / string / bytes element (GetTo, Compare, Length,
   Capacity, DeepEqual, SetWithBuffer) or at a slice (Loop), with the object handed in as *T and
   as **T (and, where the property is silent, by value).  The demand is zero heap allocations; there is no model of the Go compiler's escape analysis: this part of the
   property is measured, not proved. *)
From Coq Require Import List Bool String Ascii ZArith Arith.
From Verif Require Import Util Ints Node GoSrc Value Outcome Nav Shapes EnumVal GenUnits GenC10 GetSpec.
Import ListNotations.
Local Open Scope string_scope.

Definition operand_for (en : node) : string :=
  match node_skind en with
  | Some SBool => "true" | Some SString => "ab" | Some _ => "1" | None => "ab"
  end.

Definition is_leaf_node (en : node) : bool :=
  match n_typ en with typeBasic => true | typeSlice => String.eqb (n_typn en) "[]byte" | _ => false end.
Definition is_slice_node (en : node) : bool :=
  match n_typ en with typeSlice => negb (String.eqb (n_typn en) "[]byte") | _ => false end.

(* The three argument forms a generated inspector accepts for the object (compiler.go, the
   cast in every method header): T by value, *T and **T.  "Reading through a pointer" of the
   property text is *T and **T: each measurement is made with the object handed in in both
   pointer forms (one case, one block of counts per form) and the demand is zero in both.
   Handed in by value the object is copied by the cast; the property text says nothing about
   that form (spec "*").  It is still measured, on the first element case and the first slice
   case of every unit (the cast belongs to the method header: one per type), and the unchanged
   code is predicted: the reference GetTo returns points into the private copy, which has to
   outlive the call - one allocation -, the other reads leave the copy on the stack.
   SetWithBuffer by value writes into that private copy (a lost update, not a read): whether
   the copy reaches the heap there is the escape analysis' choice per type - not measured. *)
Definition ptr_forms : list string := ["p"; "pp"].

Definition zero_counts (kind : string) : string :=
  if String.eqb kind "slice" then "loop=0"
  else if String.eqb kind "read" then "getto=0;cmp=0;len=0;cap=0;deq=0"
  else "getto=0;cmp=0;len=0;cap=0;deq=0;set=0".

(* what the unchanged code does, per form *)
Definition measured (form kind : string) : string :=
  if String.eqb form "v" then
    (if String.eqb kind "slice" then "loop=0" else "getto=1;cmp=0;len=0;cap=0;deq=0")
  else zero_counts kind.

(* what the property text demands, per form: zero through a pointer, nothing by value *)
Definition demand (form kind : string) : option string :=
  if String.eqb form "v" then None else Some (zero_counts kind).

Definition blocks (forms : list string) (f : string -> string) : string :=
  match forms with
  | [x] => f x
  | _ => join "|" (map (fun x => x ++ ":" ++ f x) forms)
  end.

Definition spec_of (forms : list string) (kind : string) : string :=
  if forallb (fun x => match demand x kind with Some _ => true | None => false end) forms
  then blocks forms (fun x => match demand x kind with Some d => d | None => "*" end)
  else "*".

Definition mk_case (u : string * ty) (vi : nat) (v : val) (path : list string) (en : node)
    (forms : list string) (kind : string) (tags : string) : string :=
  fst u ++ "." ++ nat_to_string vi ++ "." ++ kind ++ "." ++ path_text path ++
    (if forallb (fun x => existsb (String.eqb x) ptr_forms) forms then "" else "." ++ join "+" forms) ++ tab ++
  "allocs," ++ tags ++ tab ++
  fst u ++ ";" ++ join "+" forms ++ ";allocs;" ++ kind ++ ";" ++ path_text path ++ ";" ++
    path_text [operand_for en] ++ ";" ++ pr_val true v ++ tab ++
  blocks forms (fun x => measured x kind) ++ tab ++ spec_of forms kind.

(* the measurable cases of a unit: (is a slice, variant index, value, path, element node) *)
Definition unit_points (u : string * ty) : list (bool * (nat * val * list string * node)) :=
  let n := root_node u in
  flat_map (fun iv : nat * val =>
    let '(vi, v) := iv in
    flat_map (fun pt : tagged =>
      let path := fst pt in
      match path, live_loc n v path, nav n v path with
      | _ :: _, Some _, NElem en ev =>
        match strip_ptrs 3 ev with
        | None => []
        | Some _ =>
          if is_leaf_node en then [(false, (vi, v, path, en))]
          else if is_slice_node en then [(true, (vi, v, path, en))]
          else []
        end
      | _, _, _ => []
      end) (paths n v))
  (combine (seqn (List.length (variants n))) (variants n)).

Definition case_lines (u : string * ty) : list string :=
  let pts := unit_points u in
  let line (forms : list string) (byvalue : bool) (p : bool * (nat * val * list string * node)) :=
    let '(sl, (vi, v, path, en)) := p in
    if sl then mk_case u vi v path en forms "slice" (if byvalue then "slice,byvalue" else "slice")
    else if byvalue then mk_case u vi v path en forms "read" "read,byvalue"
    else mk_case u vi v path en forms "leaf" "leaf" in
  let first (sl : bool) := match find (fun p => Bool.eqb (fst p) sl) pts with Some p => [p] | None => [] end in
  map (line ptr_forms false) pts ++ map (line ["v"] true) (first false ++ first true).

Definition cases (tier : Z) (seed : Z) : list string := flat_map case_lines (emit_units tier).
