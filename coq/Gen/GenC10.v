(* Gen/GenC10.v - the C10 stream: Length and Capacity of generated inspectors. *)
From Coq Require Import List Bool String Ascii ZArith Arith.
From Verif Require Import Util Ints Node GoSrc Value Outcome Nav LC LCSpec Shapes EnumVal GenUnits.
Import ListNotations.
Local Open Scope string_scope.

Definition pr_out (o : out Z) : string :=
  match o with
  | Panic k => "PANIC:" ++ pr_pkind k
  | Ret r None | Fall r => "r=" ++ Z_to_string r ++ ";same=1"
  | Ret r (Some e) => "e=" ++ pr_err (Some e) ++ ";same=1"
  end.

Definition pr_demand (d : lcdemand) : string :=
  match d with
  | DResult z => "r=" ++ Z_to_string z ++ ";same=1"
  | DResultOrError z => "r=" ++ Z_to_string z ++ ";same=1 || e=parse;same=1"
  | DAny => "*"
  end.

Definition out_kind (o : out Z) : string :=
  match o with Panic k => "m:panic-" ++ pr_pkind k | Ret _ (Some _) => "m:err" | _ => "m:ok" end.

Definition stop_tag (n : node) (v : val) (path : list string) : string :=
  match path, nav n v path with
  | _ :: _, NElem en _ => match n_typ en with typeStruct => ",stopstruct" | _ => "" end
  | _, _ => ""
  end.

Definition root_node (u : string * ty) : node := parse_ast_decl (pkg_of (fst u)) (imp_of (fst u)) (fst u) (snd u).

Definition case_lines (u : string * ty) : list string :=
  let n := root_node u in
  flat_map (fun iv : nat * val =>
    let '(vi, v) := iv in
    flat_map (fun pt : tagged =>
      let '(path, ptag) := pt in
      map (fun fn : lcfn =>
        let o := length_capacity fn n (APtr (Some v)) path 77 in
        let opn := match fn with FLen => "len" | FCap => "cap" end in
        fst u ++ "." ++ nat_to_string vi ++ "." ++ opn ++ "." ++ path_text path ++ tab ++
        opn ++ "," ++ ptag ++ stop_tag n v path ++ "," ++ out_kind o ++ tab ++
        fst u ++ ";p;" ++ opn ++ ";" ++ path_text path ++ ";" ++ pr_val true v ++ tab ++
        pr_out o ++ tab ++ pr_demand (lc_demand fn n v path))
      [FLen; FCap]) (paths n v))
  (combine (seqn (List.length (variants n))) (variants n)).

Definition cases (tier : Z) (seed : Z) : list string := flat_map case_lines (emit_units tier).
