(* Gen/GenUnits.v - the `units` stream (C13, C14): every candidate unit with its
   Go source, the files the generator must write, and a hash of the XML dump
   the two parser models predict for every eligible type. *)
From Coq Require Import List Bool String Ascii Arith ZArith NArith.
From Verif Require Import Util Ints Node GoSrc Shapes.
Import ListNotations.
Local Open Scope string_scope.

Definition tab : string := String (ascii_of_nat 9) "".

(* polynomial hash of a text, same function in harness/cmd/genrun *)
Fixpoint hash_str (s : string) (h : N) : N :=
  match s with
  | EmptyString => h
  | String c r => hash_str r (N.modulo (h * 131 + N_of_ascii c) 2305843009213693951)%N
  end.
Definition hash_text (s : string) : string := N_to_string (hash_str s 7).

Fixpoint lower_str (s : string) : string :=
  match s with
  | EmptyString => EmptyString
  | String c r =>
    let n := N_of_ascii c in
    String (if (N.leb 65 n && N.leb n 90)%bool then ascii_of_N (n + 32) else c) (lower_str r)
  end.

Fixpoint insert_str (x : string) (l : list string) : list string :=
  match l with [] => [x] | y :: r => if String.leb x y then x :: l else y :: insert_str x r end.
Definition sort_strs (l : list string) : list string := fold_right insert_str [] l.

Definition pkg_of (root : string) : string := "u" ++ lower_str root.
Definition imp_of (root : string) : string := "gen/" ++ pkg_of root.

(* eligible nodes of a declaration set under the AST parser, in declaration order *)
Definition ast_nodes (pkg imp : string) (ds : declset) : list node :=
  filter eligible (map (fun d => parse_ast_decl pkg imp (fst d) (snd d)) ds).
Definition loader_nodes (pkg imp : string) (ds : declset) : list node :=
  filter eligible (map (fun d => parse_loader_decl pkg imp (fst d) (snd d)) ds).

Definition unit_tags (body : ty) : string :=
  (if sup_root body then "sup" else "unsup") ++ "," ++
  match body with TStruct _ => "field" | TMap _ _ => "rootmap" | TSlice _ => "rootslice" | _ => "other" end ++
  ",d" ++ nat_to_string (depth body).

Definition case_line_mode (reversed grouped : bool) (id : string) (u : string * ty) : string :=
  let '(root, body) := u in
  let pkg := pkg_of id in let imp := imp_of id in
  let ds := decls_of_root root body in
  let src := if grouped then go_file_grouped pkg ds else go_file pkg (if reversed then rev ds else ds) in
  let an := ast_nodes pkg imp ds in
  let ln := loader_nodes pkg imp ds in
  let files := join "," (sort_strs (map (fun n => lower_str (n_name n) ++ "_ins.go") an)) in
  let xa := join "," (sort_strs (map (fun n => lower_str (n_name n) ++ ":" ++ hash_text (xml n)) an)) in
  let xl := join "," (sort_strs (map (fun n => lower_str (n_name n) ++ ":" ++ hash_text (xml n)) ln)) in
  (* the multi-field and grouped units are generated a second time by a process that has generated nothing else *)
  let hist := match id with String "M" _ | String "G" _ | String "R" _ => ";hist=ok" | _ => "" end in
  let model := "gen=ok;files=" ++ files ++ ";fmt=ok;build=ok;iface=ok;xmlast=" ++ xa ++ ";xmlpkg=" ++ xl ++ ";det=ok;tgt=ok" ++ hist in
  id ++ tab ++ unit_tags body ++ (if grouped then ",grouped" else "") ++ (if reversed then ",reversed" else "") ++ tab ++ pkg ++ ";" ++ root ++ ";" ++ hex_of_bytes (bytes_of_string src) ++ tab ++
  (if sup_root body then model else "?") ++ tab ++ model.

Definition case_line_as (grouped : bool) (id : string) (u : string * ty) : string := case_line_mode false grouped id u.
Definition case_line (u : string * ty) : string := case_line_as false (fst u) u.

(* the multi-field units once more, written as ONE parenthesised type group (named scalars and the other named types come
   before the root in it): the front ends must find the same types in a group as in separate declarations *)
Definition multi_units : list (string * ty) :=
  (fix go (i : nat) (bs : list ty) : list (string * ty) :=
     match bs with [] => [] | b :: r => (String.append "M" (nat_to_string i), b) :: go (S i) r end) 0%nat multi.
Definition grouped_cases : list string :=
  map (fun u : string * ty => case_line_as true (String.append "G" (fst u)) u) multi_units.

(* ... and with the declarations in REVERSE order: the root first, every type used before it is declared (forward references
   inside one file are ordinary Go; a front end that resolves names while it walks the file sees them as unknown) *)
Definition reversed_cases : list string :=
  map (fun u : string * ty => case_line_mode true false (String.append "R" (fst u)) u) multi_units.

Definition cases (tier : Z) (seed : Z) : list string := map case_line (candidate_units tier) ++ grouped_cases ++ reversed_cases.

(* the units the emitter streams link into their runner *)
Definition emit_cases (tier : Z) (seed : Z) : list string := map case_line (emit_units tier).

(* ---------- declaration sets with several roots, blacklist, NoClean, name collisions ---------- *)
Definition mem_str (x : string) (l : list string) : bool := existsb (String.eqb x) l.

(* parseAstFile: eligible, not yet seen (uniq), not blacklisted; in declaration order *)
Fixpoint select (bl : list string) (seen : list string) (ns : list node) : list node :=
  match ns with
  | [] => []
  | n :: r =>
    if eligible n && negb (mem_str (n_name n) seen) && negb (mem_str (n_name n) bl)
    then n :: select bl (n_name n :: seen) r
    else select bl seen r
  end.

Fixpoint dedup_str (l : list string) : list string :=
  match l with [] => [] | x :: r => if mem_str x r then dedup_str r else x :: dedup_str r end.

Definition multi_line (id tags pkg : string) (ds : declset) (bl : list string) (noclean : bool) (spec_files : list string) : string :=
  let imp := "gen/" ++ pkg in
  let src := go_file pkg ds in
  let ns := select bl [] (map (fun d => parse_ast_decl pkg imp (fst d) (snd d)) ds) in
  (* files are written one after the other: a later type with the same lower-cased name overwrites *)
  let files := sort_strs (dedup_str (map (fun n => lower_str (n_name n) ++ "_ins.go") ns) ++ (if noclean then ["stale.txt"] else [])) in
  let opts := (match bl with [] => "" | _ => ";bl=" ++ join "," bl end) ++ (if noclean then ";nc=1" else ";nc=0") in
  id ++ tab ++ tags ++ tab ++ pkg ++ ";" ++ id ++ ";" ++ hex_of_bytes (bytes_of_string src) ++ opts ++ tab ++
  "gen=ok;files=" ++ join "," files ++ ";fmt=ok;build=ok;iface=ok" ++ tab ++
  "gen=ok;files=" ++ join "," (sort_strs spec_files) ++ ";fmt=ok;build=ok;iface=ok".

Definition two_roots : declset :=
  [("A", TStruct [("X", t_int32)]); ("B", TStruct [("Y", t_string)])].
Definition collide : declset :=
  [("Foo", TStruct [("X", t_int32)]); ("FOO", TStruct [("Y", t_string)])].

Definition extra_cases : list string :=
  [multi_line "X0" "multi" "ux0" two_roots [] false ["a_ins.go"; "b_ins.go"];
   multi_line "X1" "multi,blacklist" "ux1" two_roots ["B"] false ["a_ins.go"];
   multi_line "X2" "multi,noclean" "ux2" two_roots [] true ["a_ins.go"; "b_ins.go"; "stale.txt"];
   multi_line "X3" "multi,blacklist,noclean" "ux3" two_roots ["A"; "Zz"] true ["b_ins.go"; "stale.txt"];
   multi_line "X4" "multi,casecollide" "ux4" collide [] false ["foo_ins.go"; "foo_ins.go(2)"]].

Definition cases_all (tier : Z) (seed : Z) : list string := cases tier seed ++ extra_cases.
