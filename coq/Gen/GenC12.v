(* Gen/GenC12.v - the C12 stream: the argument forms of generated inspectors.

   input   <Type>;<form>;forms;<inner>|<inner>|...;<value>      grouped: every inner op in the forms T, *T, **T
           <Type>;<form>;pure;<inner>|<inner>|...;<value>       every inner op once, in the form of the case
     inner = the input of an existing op without type, form and value:
             get;<path>  getto;<path>  cmp;<op>;<operand>;<path>  loop;<canon>;<wants>;<ctls>;<path>  len;<path>  cap;<path>
             deq;<form of the other operand>;-;<ind|same>;<other operand>       fcopy      freset
             fcopyto;<destination form>;<destination>
   observation
     forms   agree=<v~p><pp~p>.<v~p><pp~p>...;same=<v><p><pp>     (harness/emit/op_forms.go)
     pure    <inner observation>#<inner observation>...;same=<0|1>

   Lines per emit unit x value variant x selected path (the empty path, resolving paths, and the first
   path of every failing class: unknown field, absent key, unparsable segment, index -1 / len / len+1 /
   huge, nil pointer on the way, past a scalar):
     forms   all six path operations in one grouped case; the demand is FormsSpec.forms_demand
     pure    the same inner ops by value (every case) and by pointer-to-pointer (every third): the model's
             answer in THAT form is the prediction (the theorems say the model's answers coincide)
   per value: DeepEqual pairs / Copy / CopyTo's source as grouped and pure cases; Reset and CopyTo's
   destination by value (demand: must-be-pointer error, nothing changed) and through *T / **T;
   per unit: every operation with a foreign argument (demand: one of the refusals the signature can
   express, arguments unchanged) and with the nil forms (typed nil *T, **T to nil, nil **T, nil);
   per value with a non-empty collection: two histories of reads sharing one key buffer (ops seqf / seq,
   see "histories of reads" below); per value in which a GetTo stores an answer: one history of GetTo calls that
   share ONE result buffer (see "histories that share one result buffer" below). *)
From Coq Require Import List Bool String Ascii ZArith Arith.
From Verif Require Import Util Ints Strconv Floats Node GoSrc Value Outcome Nav LC LCSpec Get GetSpec Cmp CmpSpec
  Loop LoopSpec Deq DeqSpec InsReset InsCopy EmptySpec FormsSpec Api ApiSeq Shapes EnumVal GenUnits
  GenC10 GenC01 GenC04 GenC09 GenDeq GenC08 GenC06.
Import ListNotations.
Local Open Scope string_scope.

Definition tab : string := GenUnits.tab.
Definition root_node (u : string * ty) : node := parse_ast_decl (pkg_of (fst u)) (imp_of (fst u)) (fst u) (snd u).

(* an inner op: tag, the op text without type / form / value, the model's answer per form *)
Record inner := Inner { i_tag : string; i_text : string; i_ans : string -> string; i_op : opname }.

(* Loop prints the (empty) rounds in the canonical form chosen by the case: o; or s;;c= *)
Definition loop_sorted (i : inner) : bool := String.prefix "loop;s" (i_text i).

Definition seps (sep : string) (l : list string) : string := String.concat sep l.

(* ---------- answers of the models, in the text of the existing ops ---------- *)
Definition ans_get (n : node) (v : val) (path : list string) (form : string) : string :=
  GenC01.pr_out n (elem_loc n v path) (get false n (arg_of_form form v) path).
Definition ans_getto (n : node) (v : val) (path : list string) (form : string) : string :=
  GenC01.pr_out n (elem_loc n v path) (get_to false n (arg_of_form form v) path (Some sentinel)).
Definition ans_cmp (n : node) (v : val) (path : list string) (op : cop) (rgt : string) (form : string) : string :=
  GenC04.pr_obs (compare n (arg_of_form form v) op rgt path false) (compare n (arg_of_form form v) op rgt path true).
Definition ans_lc (fn : lcfn) (n : node) (v : val) (path : list string) (form : string) : string :=
  GenC10.pr_out (length_capacity fn n (arg_of_form form v) path 77).

(* GenC09.pr_model with the argument form as a parameter *)
Definition ans_loop (d : ldemand) (sc scfull : script) (n : node) (v : val) (path : list string) (form : string) : string :=
  match loop_method sc id_ord n (arg_of_form form v) path with
  | Panic k => "PANIC:" ++ pr_pkind k
  | Fall tr => "?"
  | Ret tr e =>
    if has_unk tr then "?" else
    let full := match loop_method scfull id_ord n (arg_of_form form v) path with Ret t _ => t | _ => [] end in
    "e=" ++ pr_err e ++ ";" ++ pr_trace (sorted_of d) (abstract (kabs_of d) tr) (abstract (kabs_of d) full)
  end.

(* reflection cannot tell []uint8 from []byte and the harness prints both as bytes; the models keep
   a []uint8 (an indexable slice for the emitters) as a VSlice: rewrite those, type-directed *)
Fixpoint as_bytes (n : node) (x : val) {struct n} : val :=
  match n with
  | Node ty tn tu nm pk pki p chld mk mv sl hb hc =>
    let inner (y : val) : val :=
      match ty with
      | typeStruct =>
        match y with
        | VStruct fs =>
          VStruct ((fix go (cs : list node) (fs : list val) : list val :=
                      match cs, fs with
                      | c :: cr, f :: fr => as_bytes c f :: go cr fr
                      | _, _ => fs
                      end) chld fs)
        | _ => y
        end
      | typeSlice =>
        match y, sl with
        | VSlice isnil es e, Some en =>
          if is_u8 en then VBytes isnil (map byte_of_val es) e
          else VSlice isnil (map (as_bytes en) es) e
        | _, _ => y
        end
      | typeMap =>
        match y, mk, mv with
        | VMap isnil kvs, Some kn, Some vn => VMap isnil (map (fun kv => (as_bytes kn (fst kv), as_bytes vn (snd kv))) kvs)
        | _, _, _ => y
        end
      | typeBasic => y
      end in
    if p then match x with VPtr (Some y) => VPtr (Some (inner y)) | _ => x end else inner x
  end.

Section Dumps.
Variable root : node.
Definition dumpb (v : val) : string := GenC08.dumpb root (as_bytes root v).

Definition ans_val (o : out (option val)) : string :=
  match o with
  | Ret (Some c) None | Fall (Some c) => "e=nil;d=" ++ dumpb c
  | Ret None None | Fall None => "e=nil;d=none"
  | Ret _ (Some e) => "e=" ++ pr_err (Some e)
  | Panic k => "PANIC:" ++ pr_pkind k
  end.

(* what the harness prints for an argument nothing was written to *)
Definition untouched (form : string) (v : val) : string :=
  if String.eqb form "v" || String.eqb form "p" || String.eqb form "pp" then dumpb v
  else if String.eqb form "foreign" then "7" else "nil".

(* fcopyto / freset print the error and the destination afterwards *)
Definition ans_dst (dform : string) (d : val) (o : out (option val)) : string :=
  match o with
  | Ret (Some c) e => "e=" ++ pr_err e ++ ";d=" ++ dumpb c
  | Fall (Some c) => "e=nil;d=" ++ dumpb c
  | Ret None e => "e=" ++ pr_err e ++ ";d=" ++ untouched dform d
  | Fall None => "e=nil;d=" ++ untouched dform d
  | Panic k => "PANIC:" ++ pr_pkind k
  end.

End Dumps.

Definition ans_copy (n : node) (v : val) (form : string) : string := ans_val n (copy_method n (arg_of_form form v)).
Definition ans_copyto (n : node) (dform : string) (d v : val) (form : string) : string :=
  ans_dst n dform d (copyto_method n (arg_of_form form v) (arg_of_form dform d)).
Definition ans_reset (n : node) (v : val) (form : string) : string :=
  ans_dst n form v (reset_method n (arg_of_form form v)).
(* deq;<rf>;-;<mode>;<b>  with value a: the varied form carries b, the other operand a in form rf *)
Definition ans_deq (n : node) (same : bool) (rf : string) (a b : val) (form : string) : string :=
  let la := arg_of_form form b in
  let ra := if same then la else arg_of_form rf a in
  pr_pair (deep_equal n same la ra) (deep_equal n same ra la).

(* ---------- inner ops ---------- *)
Definition rotn {A} (k : nat) (l : list A) (d : A) : A := nth (Nat.modulo k (List.length l)) l d.

Definition path_inners (sel : nat) (n : node) (v : val) (path : list string) : list inner :=
  let pt := path_text path in
  let '(ops, cls) := operands_for n v path in
  let o1 := nth 0 ops ("nil", "r:nil") in
  let o2 := rotn sel ops ("nil", "r:nil") in
  let c2 := rotn sel all_ops OEq in
  let d := loop_demand n v path in
  let w := if Nat.even sel then "1" else "0" in
  let c := rotn sel ["" ; "C"; "NB"; "CB"] "" in
  let cmp_inner (op : cop) (rgt : string) : inner :=
    Inner "cmp" ("cmp;" ++ Z_to_string (cop_num op) ++ ";" ++ hex_or_dash rgt ++ ";" ++ pt) (ans_cmp n v path op rgt) OCompare in
  [ Inner "get" ("get;" ++ pt) (ans_get n v path) OGet;
    Inner "getto" ("getto;" ++ pt) (ans_getto n v path) OGetTo;
    cmp_inner OEq (fst o1);
    cmp_inner c2 (fst o2);
    Inner "loop" ("loop;" ++ canon_of d ++ ";" ++ w ++ ";" ++ c ++ ";" ++ pt)
          (ans_loop d (script_of w c) (script_of w "") n v path) OLoop;
    Inner "len" ("len;" ++ pt) (ans_lc FLen n v path) OLength;
    Inner "cap" ("cap;" ++ pt) (ans_lc FCap n v path) OCapacity ].

Definition value_inners (sel : nat) (n : node) (vs : list val) (a : val) : list inner :=
  let ms := muts n a in
  let m1 := match ms with (_, _, b) :: _ => [b] | [] => [] end in
  let m2 := match rev ms with (_, _, b) :: _ :: _ => [b] | _ => [] end in
  let rf := rotn sel ["p"; "v"; "pp"] "p" in
  let deq_inner (same : bool) (rf : string) (b : val) : inner :=
    Inner "deq" ("deq;" ++ rf ++ ";-;" ++ (if same then "same" else "ind") ++ ";" ++ pr_val true b)
          (ans_deq n same rf a b) ODeepEqual in
  let zero := zero_val n in
  let blank := blank_of n (last vs (VInt 0)) in
  ([deq_inner false rf a; deq_inner true "p" a] ++ map (deq_inner false rf) (m1 ++ m2) ++
  [ Inner "copy" "fcopy" (ans_copy n a) OCopy;
    Inner "copyto" ("fcopyto;p;" ++ pr_val true zero) (ans_copyto n "p" zero a) OCopyToSrc;
    Inner "copyto" ("fcopyto;pp;" ++ pr_val true blank) (ans_copyto n "pp" blank a) OCopyToSrc ])%list.

(* ---------- lines ---------- *)
Definition line (id tags input model spec : string) : string :=
  id ++ tab ++ tags ++ tab ++ input ++ tab ++ model ++ tab ++ spec.

Definition bit (b : bool) : string := if b then "1" else "0".

Definition strip_live (s : string) : string :=
  match index 0 ";live=" s with Some i => substring 0 i s | None => s end.

Definition agree_bits (i : inner) : string :=
  let p := strip_live (i_ans i "p") in
  bit (String.eqb (strip_live (i_ans i "v")) p) ++ bit (String.eqb (strip_live (i_ans i "pp")) p).

Definition tags_of (is : list inner) : string := seps "," (dedup (map i_tag is)).

Definition forms_line (u id tags value : string) (is : list inner) : string :=
  line (id ++ ".F") ("forms," ++ tags) (u ++ ";all;forms;" ++ seps "|" (map i_text is) ++ ";" ++ value)
       ("agree=" ++ seps "." (map agree_bits is) ++ ";same=111") (forms_demand (List.length is)).

Definition pure_model (form : string) (is : list inner) : string :=
  let answers := map (fun i => i_ans i form) is in
  if existsb (String.eqb "?") answers then "?" else seps "#" answers ++ ";same=1".

Definition pure_line (u id tags form value spec : string) (is : list inner) : string :=
  line (id ++ ".P" ++ form) ("pure,f:" ++ form ++ "," ++ tags) (u ++ ";" ++ form ++ ";pure;" ++ seps "|" (map i_text is) ++ ";" ++ value)
       (pure_model form is) spec.

(* ---------- histories of reads: one object, one caller-owned key buffer (harness/emit/op_seq.go) ----------
   input   <Type>;all;seqf;<step>|<step>|...;<value>      grouped: the history in the forms T, *T, **T and every step alone
           <Type>;<form>;seq;<step>|<step>|...;<value>    the history once, in the form of the case
     step = loop;<canon>;<wants>;<ctls>;<path>        Loop over the object          (store object 0)
            oloop;<canon>;<wants>;<ctls>;<path>       Loop over a second object of the same type and value  (store object 1)
            xloop;<Type2>;<value2>;<canon>;<wants>;<ctls>;<path>   Loop over a partner object of another unit (store object 2..)
            get;<path>  getto;<path>                  on the object (a result buffer of its own)
            bgetto;<path>                             GetTo on the object           with the result buffer of the history
            obgetto;<path>                            GetTo on the second object    with the result buffer of the history
            xbgetto;<Type2>;<value2>;<path>           GetTo on a partner object     with the result buffer of the history
     ONE key buffer is handed to every Loop of a history, ONE result buffer to every bgetto / obgetto / xbgetto.
   observation
     seqf   alone=<v><p><pp>.<v><p><pp>...;same=<v><p><pp>.<v><p><pp>...    per step
     seq    <step observation>#<step observation>...;same=<bit per step>
   The model column is Model/ApiSeq.brun on the store of the history (the result buffer starts with the caller's
   sentinel in it); the demand is FormsSpec.history_demand: no step changes any object, so every step answers what it
   answers alone, in every form (a step that is handed the shared result buffer and stores nothing alone: leaves the
   buffer exactly as it was). *)
Record hstep := HStep { hs_tag : string; hs_text : string; hs_step : ApiSeq.bstep; hs_pr : option answer -> string;
                        (* a GetTo that is handed the shared result buffer: node and value of its object, path *)
                        hs_sh : option (node * val * list string) }.

Definition pr_loop_ans (d : ldemand) (a : option answer) : string :=
  match a with
  | Some (AnsTrace (Panic k)) => "PANIC:" ++ pr_pkind k
  | Some (AnsTrace (Ret tr e)) =>
    if has_unk tr then "?" else "e=" ++ pr_err e ++ ";" ++ pr_trace (sorted_of d) (abstract (kabs_of d) tr) []
  | _ => "?"
  end.

Definition pr_get_ans (n : node) (v : val) (path : list string) (a : option answer) : string :=
  match a with Some (AnsRef o) => GenC01.pr_out n (elem_loc n v path) o | _ => "?" end.

(* how the keys of a collection are rendered into the key buffer *)
Definition key_class (d : ldemand) : string :=
  match d with
  | LSlice _ _ => "slice"
  | LMap kn _ _ =>
    match node_skind kn with
    | Some SString => "string"
    | Some (SInt i) => if is_signed i then "int" else "uint"
    | Some SByte => "uint"
    | Some (SF32 | SF64) => "float"
    | Some SBool => "bool"
    | None => "other"
    end
  | _ => "none"
  end.

(* keys wanted in every round; no Break (the rounds of a full iteration in every step) *)
Definition loop_step (kw : string) (obj : nat) (n : node) (v : val) (c : string) (path : list string) : hstep :=
  let d := loop_demand n v path in
  HStep ("k:" ++ key_class d) (kw ++ ";" ++ canon_of d ++ ";1;" ++ c ++ ";" ++ path_text path)
        (obj, HCall (KLoop (script_of "1" c) id_ord path)) (pr_loop_ans d) None.

Definition get_step (to : bool) (n : node) (v : val) (path : list string) : hstep :=
  if to then HStep "getto" ("getto;" ++ path_text path) (0%nat, HCall (KGetTo path (Some sentinel))) (pr_get_ans n v path) None
  else HStep "get" ("get;" ++ path_text path) (0%nat, HCall (KGet path)) (pr_get_ans n v path) None.

(* GetTo with the result buffer of the history on object [obj] of the store *)
Definition bget_step (tag kw : string) (obj : nat) (n : node) (v : val) (path : list string) : hstep :=
  HStep tag (kw ++ ";" ++ path_text path) (obj, HGetTo path) (pr_get_ans n v path) (Some (n, v, path)).

Definition end_paths (n : node) (v : val) : list (list string) :=
  map fst (filter (fun pt : tagged => String.eqb (snd pt) "end") (paths n v)).
Definition coll_paths (n : node) (v : val) : list (list string) :=
  filter (fun p => is_coll (loop_demand n v p)) (end_paths n v).
Definition live_path (n : node) (v : val) (p : list string) : bool := Nat.ltb 0 (demand_len (loop_demand n v p)).

Fixpoint strict_prefix (a b : list string) : bool :=
  match a, b with
  | [], _ :: _ => true
  | x :: r, y :: r' => String.eqb x y && strict_prefix r r'
  | _, _ => false
  end.
Definition elem_paths (ends cs : list (list string)) : list (list string) :=
  filter (fun p => existsb (fun c => strict_prefix c p) cs) ends.

Definition rot {A} (k : nat) (l : list A) : list A :=
  let j := Nat.modulo k (List.length l) in (skipn j l ++ firstn j l)%list.

(* a partner object: unit, node, value, a path that denotes a non-empty collection of it *)
Definition partner := (string * node * val * list string)%type.

(* the first unit with a non-empty collection of the class, in its least populated such value *)
Definition partner_in (cls : string) (u : string * ty) : list partner :=
  let n := root_node u in
  take 1 (flat_map (fun v =>
            map (fun p => (fst u, n, v, p))
                (filter (fun p => String.eqb (key_class (loop_demand n v p)) cls && live_path n v p) (coll_paths n v)))
          (variants n)).
Fixpoint find_partner (cls : string) (us : list (string * ty)) : list partner :=
  match us with
  | [] => []
  | u :: r => match partner_in cls u with [] => find_partner cls r | l => l end
  end.

(* one partner per way of rendering a key that is not a copy of a string: index, signed, unsigned, float *)
Definition partners_of (us : list (string * ty)) : list partner :=
  flat_map (fun cls => find_partner cls us) ["slice"; "int"; "uint"; "float"].

Definition partner_step (j : nat) (pa : partner) : hstep :=
  let '(u2, n2, v2, p2) := pa in
  loop_step ("xloop;" ++ u2 ++ ";" ++ pr_val true v2) (2 + j) n2 v2 "" p2.

(* the store of a history: the object, the second object, the partners (handed over by pointer) *)
Definition hist_store (n : node) (v : val) (form : string) (pas : list partner) : ApiSeq.store :=
  ((n, arg_of_form form v) :: (n, arg_of_form form v) ::
   map (fun pa : partner => let '(_, n2, v2, _) := pa in (n2, APtr (Some v2))) pas)%list.

(* the same tree, floats compared by representation (Value.val_eqb prints them): an argument nothing was stored
   into is the same tree *)
Definition float_same (x y : Floats.SpecFloat.spec_float) : bool :=
  match x, y with
  | Floats.SpecFloat.S754_zero a, Floats.SpecFloat.S754_zero b => Bool.eqb a b
  | Floats.SpecFloat.S754_infinity a, Floats.SpecFloat.S754_infinity b => Bool.eqb a b
  | Floats.SpecFloat.S754_nan, Floats.SpecFloat.S754_nan => true
  | Floats.SpecFloat.S754_finite a m e, Floats.SpecFloat.S754_finite b m' e' => Bool.eqb a b && Pos.eqb m m' && Z.eqb e e'
  | _, _ => false
  end.
Fixpoint val_same (a b : val) {struct a} : bool :=
  match a, b with
  | VFloat x, VFloat y => float_same x y
  | VStruct fs, VStruct gs =>
    (fix go (l l' : list val) : bool :=
       match l, l' with [], [] => true | x :: r, y :: r' => val_same x y && go r r' | _, _ => false end) fs gs
  | VSlice n es e, VSlice n' es' e' =>
    Bool.eqb n n' && Nat.eqb e e' &&
    (fix go (l l' : list val) : bool :=
       match l, l' with [], [] => true | x :: r, y :: r' => val_same x y && go r r' | _, _ => false end) es es'
  | VMap n kvs, VMap n' kvs' =>
    Bool.eqb n n' &&
    (fix go (l l' : list (val * val)) : bool :=
       match l, l' with
       | [], [] => true
       | (k, x) :: r, (k', y) :: r' => val_same k k' && val_same x y && go r r'
       | _, _ => false
       end) kvs kvs'
  | VPtr (Some x), VPtr (Some y) => val_same x y
  | _, _ => val_eqb a b
  end.

Definition arg_eqb (a b : arg) : bool :=
  match a, b with
  | AVal x, AVal y => val_same x y
  | APtr (Some x), APtr (Some y) => val_same x y
  | APtr None, APtr None => true
  | APtrPtr (Some (Some x)), APtrPtr (Some (Some y)) => val_same x y
  | APtrPtr (Some None), APtrPtr (Some None) => true
  | APtrPtr None, APtrPtr None => true
  | ANil, ANil => true
  | AForeign, AForeign => true
  | _, _ => false
  end.
Fixpoint store_eqb (a b : ApiSeq.store) : bool :=
  match a, b with
  | [], [] => true
  | x :: r, y :: r' => arg_eqb (snd x) (snd y) && store_eqb r r'
  | _, _ => false
  end.

(* the content of the result buffer, structurally *)
Definition ref_eqb (a b : ref) : bool :=
  val_same (r_val a) (r_val b) && loc_eqb (r_loc a) (r_loc b) && Bool.eqb (r_copy a) (r_copy b).
Definition buf_eqb (a b : option ref) : bool :=
  match a, b with None, None => true | Some x, Some y => ref_eqb x y | _, _ => false end.

(* the buffer of a history holds the caller's sentinel when the first step starts *)
Definition rb0 : option ref := Some sentinel.

(* a GetTo alone, handed a buffer with the sentinel: did it store anything *)
Definition stores_alone (s : ApiSeq.store) (st : ApiSeq.bstep) : bool :=
  match ApiSeq.balone s rb0 st with
  | Some (AnsRef (Ret (Some r) _)) | Some (AnsRef (Fall (Some r))) => negb (is_sentinel r)
  | _ => false
  end.

(* per step: the answer inside the history, whether every object is as it was, whether the result buffer is *)
Record hres := HRes { hr_txt : string; hr_same : bool; hr_unt : bool }.

(* [rb]: the result buffer before the step; [org]: the object (index in the store, node) the reference in it was made
   from - what the buffer denotes is printed with that object's node, and it is the live element of the step's path
   only if it was made from the step's own object *)
Fixpoint hist_pr (s : ApiSeq.store) (rb : option ref) (org : option (nat * node))
                 (l : list (hstep * (option answer * ApiSeq.store * option ref))) : list hres :=
  match l with
  | [] => []
  | (h, (a, s', rb')) :: r =>
    match hs_sh h with
    | None => HRes (hs_pr h a) (store_eqb s' s) true :: hist_pr s rb' org r
    | Some (n, v, path) =>
      let i := fst (hs_step h) in
      let org' := if stores_alone s (hs_step h) then Some (i, n) else org in
      let '(oi, on) := match org' with Some x => x | None => (i, n) end in
      let txt := match a with
                 | Some (AnsRef o) => GenC01.pr_out on (if Nat.eqb oi i then elem_loc n v path else None) o
                 | _ => "?"
                 end in
      HRes txt (store_eqb s' s) (buf_eqb rb rb') :: hist_pr s rb' org' r
    end
  end.

Definition hist_run (s : ApiSeq.store) (hs : list hstep) : list hres :=
  hist_pr s rb0 None (combine hs (ApiSeq.brun s rb0 (map hs_step hs))).

Definition seq_model (r : list hres) : string :=
  if existsb (fun x => String.eqb (hr_txt x) "?") r then "?"
  else seps "#" (map hr_txt r) ++ ";same=" ++ String.concat "" (map (fun x => bit (hr_same x)) r).

(* the step alone on fresh objects with a fresh buffer *)
Definition alone_txt (sp : ApiSeq.store) (h : hstep) : string :=
  match hist_run sp [h] with x :: _ => strip_live (hr_txt x) | [] => "?" end.

Definition nothing_stored : string := "e=nil;v=same".

(* [per]: the runs of the history by value, by pointer, by pointer-to-pointer *)
Definition seqf_model (sp : ApiSeq.store) (per : list (list hres)) (hs : list hstep) : string :=
  let al := map (alone_txt sp) hs in
  let shared := map (fun h => match hs_sh h with Some _ => true | None => false end) hs in
  let agrees (i : nat) (x : hres) : bool :=
    let a := nth i al "?" in
    if nth i shared false && String.eqb a nothing_stored then hr_unt x
    else String.eqb (strip_live (hr_txt x)) a in
  let col (i : nat) (g : hres -> bool) : string :=
    String.concat "" (map (fun r => bit (g (nth i r (HRes "?" false false)))) per) in
  "alone=" ++ seps "." (map (fun i => col i (agrees i)) (seqn (List.length hs))) ++
  ";same=" ++ seps "." (map (fun i => col i hr_same) (seqn (List.length hs))).

(* H1: every collection of the object forwards and backwards (each kind of key rendering is followed by each
   neighbouring other one in one of the two directions), then a Get and a GetTo into the collections *)
Definition history_same (sel : nat) (n : node) (v : val) (ends colls : list (list string)) : list hstep :=
  let cs := take 6 (rot sel colls) in
  let order := match cs with [c] => [c; c] | _ => (cs ++ tl (rev cs))%list end in
  let eps := elem_paths ends cs in
  (map (fun ic : nat * list string => loop_step "loop" 0 n v (if Nat.even (sel + fst ic) then "" else "C") (snd ic))
       (combine (seqn (List.length order)) order) ++
   match eps with
   | [] => []
   | e :: _ => [get_step false n v e; get_step true n v (last eps e)]
   end)%list.

(* H2: a Loop over the object, a Loop over ANOTHER object (a partner of another type, or a second object of the same
   type), the first Loop again - for up to three collections of the object *)
Definition history_other (sel : nat) (n : node) (v : val) (ends colls : list (list string)) (pas : list partner) : list hstep :=
  let cs := take 3 (rot (S sel) colls) in
  let eps := elem_paths ends cs in
  (flat_map (fun jc : nat * list string =>
     let '(j, c) := jc in
     let k := Nat.modulo (sel + j) (S (List.length pas)) in
     let x := match nth_error pas k with
              | Some pa => partner_step k pa
              | None => loop_step "oloop" 1 n v "" (last cs c)
              end in
     [loop_step "loop" 0 n v "" c; x; loop_step "loop" 0 n v "C" c])
     (combine (seqn (List.length cs)) cs) ++
   match eps with [] => [] | e :: _ => [get_step false n v e] end)%list.

(* ---------- histories that share one result buffer ----------
   A caller hands the same result buffer to GetTo after GetTo: the buffer then holds the answer of the call before -
   after a struct field a pointer INTO the object, after a map entry or an element of builtin type a pointer to a
   local copy.  The steps are chosen so that answers of the SAME type follow each other (a reference into an object
   first, references to copies after it), on the object, on a second object of the same type and on partner objects
   of other units, with one call that stores nothing in between. *)

(* a path whose GetTo stores a reference: the path, the type of the place the reference is to, is the place a copy *)
Record rmember := RMember { rm_path : list string; rm_key : string; rm_copy : bool }.

Definition members (n : node) (v : val) : list rmember :=
  flat_map (fun p =>
    match get_to false n (APtr (Some v)) p None with
    | Ret (Some r) None =>
      match GenC01.node_at n (r_loc r) with
      | Some en => [RMember p (star (n_ptr en) ++ n_typn en) (r_copy r)]
      | None => []
      end
    | _ => []
    end) (end_paths n v).

Definition of_key (k : string) (ms : list rmember) : list rmember := filter (fun m => String.eqb (rm_key m) k) ms.
Definition live_ms (ms : list rmember) : list rmember := filter (fun m => negb (rm_copy m)) ms.
Definition copy_ms (ms : list rmember) : list rmember := filter rm_copy ms.

(* of one type: a reference into the object first, then up to two copies, then more references into the object *)
Definition pick3 (g : list rmember) : list rmember :=
  take 3 (take 1 (live_ms g) ++ take 2 (copy_ms g) ++ skipn 1 (live_ms g))%list.

(* a path on which GetTo stores nothing and returns no error (absent key, unknown field, index out of range, ...) *)
Definition miss_paths (n : node) (v : val) : list (list string) :=
  map fst (filter (fun pt : tagged =>
                     negb (String.eqb (snd pt) "end") &&
                     String.eqb (GenC01.pr_out n None (get_to false n (APtr (Some v)) (fst pt) rb0)) "e=nil;v=same;live=0")
                  (paths n v)).

(* partners by the type of the answer: per type, the first unit (in its most populated value) with a reference into
   the object of that type, and the first with a reference to a copy *)
Definition rpartner := (string * bool * partner)%type.
Definition rpartners_of (us : list (string * ty)) : list rpartner :=
  fold_left (fun (acc : list rpartner) (u : string * ty) =>
    let n := root_node u in
    match rev (variants n) with
    | [] => acc
    | v :: _ =>
      fold_left (fun (acc : list rpartner) (m : rmember) =>
                   if existsb (fun x : rpartner => String.eqb (fst (fst x)) (rm_key m) && Bool.eqb (snd (fst x)) (rm_copy m)) acc
                   then acc else (acc ++ [(rm_key m, rm_copy m, (fst u, n, v, rm_path m))])%list)
                (members n v) acc
    end) us [].
Definition find_rpartner (k : string) (cp : bool) (rps : list rpartner) : option partner :=
  match filter (fun x : rpartner => String.eqb (fst (fst x)) k && Bool.eqb (snd (fst x)) cp) rps with
  | x :: _ => Some (snd x)
  | [] => None
  end.

Definition xbget_step (obj : nat) (pa : partner) : hstep :=
  let '(u2, n2, v2, p2) := pa in
  bget_step "xbgetto" ("xbgetto;" ++ u2 ++ ";" ++ pr_val true v2) obj n2 v2 p2.

(* H3: the steps and the partners they run on (objects 2.. of the store) *)
Definition history_buf (sel : nat) (n : node) (v : val) (rps : list rpartner) : list hstep * list partner :=
  let ms := members n v in
  let keys := dedup (map rm_key ms) in
  let many := filter (fun k => Nat.leb 2 (List.length (of_key k ms))) keys in
  let both := filter (fun k => let g := of_key k ms in
                               negb (Nat.eqb (List.length (live_ms g)) 0) && negb (Nat.eqb (List.length (copy_ms g)) 0)) many in
  let rest := filter (fun k => negb (existsb (String.eqb k) both)) many in
  let gs := map (fun k => pick3 (of_key k ms)) (take 2 (rot sel both ++ rot sel rest)%list) in
  let on_obj (m : rmember) := bget_step "bgetto" "bgetto" 0 n v (rm_path m) in
  let miss := match rot sel (take 4 (miss_paths n v)) with
              | p :: _ => [bget_step "bmiss" "bgetto" 0 n v p]
              | [] => []
              end in
  (* the object, a call that stores nothing, the next type *)
  let own := match gs with
             | [] => []
             | g :: r => (map on_obj g ++ miss ++ flat_map (map on_obj) r)%list
             end in
  (* the second object: into the object, then the same type out of the second object *)
  let second := match gs with
                | (a :: b :: _) :: _ => [on_obj a; bget_step "obgetto" "obgetto" 1 n v (rm_path b)]
                | _ => []
                end in
  (* partners: a reference into the object, then the same type as a copy out of a partner; a reference into a
     partner, then the same type as a copy out of the object *)
  let with_partner (cp : bool) (cands : list rmember) : list (rmember * partner) :=
    take 1 (flat_map (fun m => match find_rpartner (rm_key m) cp rps with Some pa => [(m, pa)] | None => [] end)
                     (rot sel cands)) in
  let out := with_partner true (live_ms ms) in
  let inn := with_partner false (copy_ms ms) in
  let pas := (map snd out ++ map snd inn)%list in
  let outs := flat_map (fun mp : rmember * partner => [on_obj (fst mp); xbget_step 2 (snd mp)]) out in
  let inns := flat_map (fun mp : rmember * partner => [xbget_step (2 + List.length out) (snd mp); on_obj (fst mp)]) inn in
  ((own ++ second ++ outs ++ inns)%list, pas).

Definition hist_lines (u : string) (n : node) (pas : list partner) (rps : list rpartner) (vi : nat) (v : val) : list string :=
  let ends := end_paths n v in
  let colls := filter (fun p => is_coll (loop_demand n v p)) ends in
  let value := pr_val true v in
  let mk (name : string) (sel : nat) (pas : list partner) (hs : list hstep) : list string :=
    let id := u ++ "." ++ nat_to_string vi ++ "." ++ name in
    let tags := "hist," ++ name ++ "," ++ tags_of (map (fun h => Inner (hs_tag h) "" (fun _ => "") OLoop) hs) in
    let steps := seps "|" (map hs_text hs) in
    let fi := Nat.modulo sel 3 in
    let f := nth fi value_forms "p" in
    let per := map (fun f => hist_run (hist_store n v f pas) hs) value_forms in
    [ line (id ++ ".F") ("forms," ++ tags) (u ++ ";all;seqf;" ++ steps ++ ";" ++ value)
           (seqf_model (hist_store n v "p" pas) per hs) (history_demand (List.length hs));
      line (id ++ ".P" ++ f) ("pure,f:" ++ f ++ "," ++ tags) (u ++ ";" ++ f ++ ";seq;" ++ steps ++ ";" ++ value)
           (seq_model (nth fi per [])) "*" ] in
  (* the partner rotates with the unit as well as with the value *)
  let us := fold_left (fun a c => a + nat_of_ascii c) (list_ascii_of_string u) 0 in
  ((if negb (existsb (live_path n v) colls) then [] else
    (mk "same" vi pas (history_same vi n v ends colls) ++ mk "other" (S vi) pas (history_other (us + vi) n v ends colls pas))%list) ++
   (let '(hs, bpas) := history_buf (us + vi) n v rps in
    if Nat.ltb (List.length hs) 2 then [] else mk "buf" (2 + vi) bpas hs))%list.

(* the same value with every string key of every map made longer than any other rendered key (an index, a number):
   a key text of the first Loop that outlives it in the caller's buffer is then wholly covered by the next rendering *)
Definition long_key (k : val) : val :=
  match k with
  | VStr s => VStr (s ++ "-0123456789abcdefghij")
  | VPtr (Some (VStr s)) => VPtr (Some (VStr (s ++ "-0123456789abcdefghij")))
  | _ => k
  end.
Fixpoint long_keys (v : val) {struct v} : val :=
  match v with
  | VStruct fs => VStruct ((fix go (l : list val) : list val := match l with [] => [] | x :: r => long_keys x :: go r end) fs)
  | VSlice n es e => VSlice n ((fix go (l : list val) : list val := match l with [] => [] | x :: r => long_keys x :: go r end) es) e
  | VMap n kvs => VMap n ((fix go (l : list (val * val)) : list (val * val) :=
                             match l with [] => [] | (k, x) :: r => (long_key k, long_keys x) :: go r end) kvs)
  | VPtr (Some x) => VPtr (Some (long_keys x))
  | _ => v
  end.

(* ---------- path selection ---------- *)
Fixpoint first_per_tag (seen : list string) (ps : list tagged) : list tagged :=
  match ps with
  | [] => []
  | pt :: r => if existsb (String.eqb (snd pt)) seen then first_per_tag seen r
               else pt :: first_per_tag (snd pt :: seen) r
  end.

Definition dedup_paths (l : list tagged) : list tagged :=
  fold_left (fun acc x => if existsb (fun y => String.eqb (path_text (fst x)) (path_text (fst y))) acc then acc else (acc ++ [x])%list) l [].

Definition sel_paths (ps : list tagged) : list tagged :=
  let ends := filter (fun pt : tagged => String.eqb (snd pt) "end") ps in
  let others := filter (fun pt : tagged => negb (String.eqb (snd pt) "end")) ps in
  let k := List.length ends in
  let pick (i : nat) : list tagged := match nth_error ends i with Some x => [x] | None => [] end in
  (dedup_paths (pick 0%nat ++ pick 1%nat ++ pick (Nat.div k 2) ++ pick (Nat.pred k)) ++ first_per_tag [] others)%list.

(* ---------- refusals in the text of each op ---------- *)
Definition pr_refusal (i : inner) (dst : string) (r : refusal) : list string :=
  match i_op i, r with
  | OGet, RNoEffect => ["e=nil;v=none;live=0"]
  | OGetTo, RNoEffect => ["e=nil;v=same;live=0"]
  | OCompare, RNoEffect => ["e=nil;r=ft"]
  | OLoop, RNoEffect => ["e=nil;" ++ pr_trace (loop_sorted i) [] []]
  | OLoop, RUnsupported => ["e=unsupported;" ++ pr_trace (loop_sorted i) [] []]
  | (OLength | OCapacity), RNoEffect => ["r=77;same=1"]
  | (OLength | OCapacity), RUnsupported => ["e=unsupported;same=1"]
  | ODeepEqual, RFalse => ["ab=f;ba=f"]
  | OCopy, RNoEffect => ["e=nil;d=none"; "e=nil;d=nil"]
  | (OCopyToSrc | OCopyToDst | OReset), RNoEffect => ["e=nil;d=" ++ dst]
  | (OCopyToSrc | OCopyToDst | OReset), RUnsupported => ["e=unsupported;d=" ++ dst]
  | _, RUnsupported => ["e=unsupported"]
  | _, _ => []
  end.

Definition refusal_spec (i : inner) (dst : string) : string :=
  seps " || " (map (fun s => s ++ ";same=1") (flat_map (pr_refusal i dst) (may_refuse (i_op i)))).

(* ---------- per unit ---------- *)
Definition path_lines_at (u : string) (n : node) (vi : nat) (v : val) (ps : list tagged) : list string :=
  let value := pr_val true v in
  flat_map (fun jp : nat * tagged =>
    let '(j, (path, ptag)) := jp in
    let is := path_inners (vi + j) n v path in
    let id := u ++ "." ++ nat_to_string vi ++ "." ++ path_text path in
    let tags := ptag ++ "," ++ nav_tag n v path ++ "," ++ tags_of is in
    ([forms_line u id tags value is; pure_line u id tags "v" value "*" is] ++
    (if Nat.eqb (Nat.modulo (vi + j) 3) 0 then [pure_line u id tags "pp" value "*" is] else []))%list)
  (combine (seqn (List.length ps)) ps).
Definition path_lines (u : string) (n : node) (vi : nat) (v : val) : list string :=
  path_lines_at u n vi v (sel_paths (paths n v)).

Definition value_lines (u : string) (n : node) (vs : list val) (vi : nat) (v : val) : list string :=
  let value := pr_val true v in
  let is := value_inners vi n vs v in
  let id := u ++ "." ++ nat_to_string vi ++ ".val" in
  let zero := zero_val n in
  let reset_i := Inner "reset" "freset" (ans_reset n v) OReset in
  let cto_i (df : string) := Inner "copyto" ("fcopyto;" ++ df ++ ";" ++ pr_val true zero) (ans_copyto n df zero v) OCopyToDst in
  let must (d : val) := "e=" ++ pr_err (Some by_value_error) ++ ";d=" ++ dumpb n d in
  [ forms_line u id (tags_of is) value is;
    pure_line u id (tags_of is) "v" value "*" is;
    pure_line u id (tags_of is) "pp" value "*" is;
    (* the writers through *T and **T *)
    pure_line u (id ++ ".w") "writers,reset,copyto" "p" value "*" [reset_i; cto_i "pp"];
    pure_line u (id ++ ".w") "writers,reset,copyto" "pp" value "*" [reset_i; cto_i "p"];
    (* by value: Reset, and CopyTo's destination whatever the form of the source *)
    pure_line u (id ++ ".bv") "byvalue,reset,copyto" "v" value (must v ++ "#" ++ must zero ++ ";same=1") [reset_i; cto_i "v"];
    pure_line u (id ++ ".bv") "byvalue,copyto" "p" value (must zero ++ ";same=1") [cto_i "v"];
    pure_line u (id ++ ".bv") "byvalue,copyto" "pp" value (must zero ++ ";same=1") [cto_i "v"] ].

(* foreign and nil forms: per unit, on the first value, the empty path and the first longer resolving path *)
Definition hostile_lines (u : string) (n : node) (v : val) : list string :=
  let value := pr_val true v in
  let zero := zero_val n in
  let ps := sel_paths (paths n v) in
  let two := match ps with a :: b :: _ => [a; b] | l => l end in
  let pis := flat_map (fun pt : tagged => map (fun i => (path_text (fst pt), i)) (path_inners 1 n v (fst pt))) two in
  let deq_i (same : bool) (rf : string) := Inner "deq" ("deq;" ++ rf ++ ";-;" ++ (if same then "same" else "ind") ++ ";" ++ value)
                                     (ans_deq n same rf v v) ODeepEqual in
  let vis (dstf : string) : list (string * inner) :=
    [ ("val", deq_i false "p"); ("val", deq_i false "v"); ("val", deq_i true "p");
      ("val", Inner "copy" "fcopy" (ans_copy n v) OCopy);
      ("val", Inner "copyto" ("fcopyto;p;" ++ pr_val true zero) (ans_copyto n "p" zero v) OCopyToSrc);
      ("val", Inner "reset" "freset" (ans_reset n v) OReset) ] in
  (* the argument in the case's form is the OTHER one for these: destination of CopyTo, right operand of DeepEqual *)
  let others (f : string) : list (string * inner * string) :=
    [ ("val", Inner "copyto" ("fcopyto;" ++ f ++ ";" ++ pr_val true zero) (fun sf => ans_copyto n f zero v sf) OCopyToDst, "p");
      ("val", Inner "deq" ("deq;" ++ f ++ ";-;ind;" ++ value) (fun lf => ans_deq n false f v v lf) ODeepEqual, "p");
      ("val", Inner "deq" ("deq;" ++ f ++ ";-;ind;" ++ value) (fun lf => ans_deq n false f v v lf) ODeepEqual, f) ] in
  (* foreign: one line per op, the demand is a refusal *)
  (map (fun ki : string * inner =>
         let '(k, i) := ki in
         let dst := match i_op i with OReset => untouched n "foreign" v | _ => dumpb n zero end in
         pure_line u (u ++ ".foreign." ++ k ++ "." ++ i_text i) ("foreign," ++ i_tag i) "foreign" value (refusal_spec i dst) [i])
      (pis ++ vis "foreign")%list ++
  map (fun kif : string * inner * string =>
         let '(k, i, f) := kif in
         pure_line u (u ++ ".foreignarg." ++ k ++ "." ++ f ++ "." ++ i_text i) ("foreign,other," ++ i_tag i) f value
                   (refusal_spec i (untouched n "foreign" zero)) [i])
      (others "foreign") ++
  (* a foreign source with a by-value destination: both clauses refuse, either error is accepted *)
  [ pure_line u (u ++ ".foreign.bvdst") "foreign,byvalue,copyto" "foreign" value
      ("e=" ++ pr_err (Some by_value_error) ++ ";d=" ++ dumpb n zero ++ ";same=1 || e=unsupported;d=" ++ dumpb n zero ++ ";same=1")
      [Inner "copyto" ("fcopyto;v;" ++ pr_val true zero) (ans_copyto n "v" zero v) OCopyToDst] ] ++
  (* nil forms: grouped per path, prediction only *)
  flat_map (fun f : string =>
    map (fun pt : tagged =>
           pure_line u (u ++ "." ++ f ++ "." ++ path_text (fst pt)) ("nilform," ++ snd pt) f value "*" (path_inners 1 n v (fst pt))) two ++
    [ pure_line u (u ++ "." ++ f ++ ".val") "nilform,val" f value "*" (map snd (vis f));
      pure_line u (u ++ "." ++ f ++ ".other") "nilform,other" "p" value "*" (map (fun x => snd (fst x)) (others f)) ])
    ["np"; "npp"; "nilpp"; "nil"])%list.

Definition case_lines (pas : list partner) (rps : list rpartner) (u : string * ty) : list string :=
  let n := root_node u in
  let vs := variants n in
  (flat_map (fun iv : nat * val => let '(vi, v) := iv in
              (path_lines (fst u) n vi v ++ value_lines (fst u) n vs vi v ++ hist_lines (fst u) n pas rps vi v)%list)
           (combine (seqn (List.length vs)) vs) ++
  match vs with
  | v0 :: _ =>
    (hostile_lines (fst u) n (last vs v0) ++
     (* non-finite floats are boundary scalars too: the most populated value with every float replaced by +Inf
        (DeepEqual of an object with itself is then false - in every argument form) *)
     (let vinf := inf_floats (last vs v0) in
      if val_eqb vinf (last vs v0) then [] else value_lines (fst u) n vs 900 vinf) ++
     (* NaN keys: every read at every collection of the most populated value whose float-keyed maps hold a NaN key *)
     (let vnan := nan_keys (last vs v0) in
      if val_eqb vnan (last vs v0) then [] else
        path_lines_at (fst u) n 902 vnan (map (fun p => (p, "nankey")) (coll_paths n vnan))) ++
     (* histories on the most populated value with long string keys *)
     (let vlong := long_keys (last vs v0) in
      if val_eqb vlong (last vs v0) then [] else hist_lines (fst u) n pas rps 901 vlong))%list
  | [] => []
  end)%list.

Definition cases (tier : Z) (seed : Z) : list string :=
  let pas := partners_of (emit_units tier) in
  let rps := rpartners_of (emit_units tier) in
  flat_map (case_lines pas rps) (emit_units tier).
