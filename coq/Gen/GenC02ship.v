(* Gen/GenC02ship.v - the hostile stream of C02 over the shipped declarations of /repo/testobj. *)
From Coq Require Import ZArith.
From Verif Require Import GenC02.
Definition cases (tier : Z) (seed : Z) := GenC02.ship_cases tier seed.
