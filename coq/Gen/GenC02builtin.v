(* Gen/GenC02builtin.v - the c02builtin stream: every method of the built-in inspectors (static,
   strings, map[string]any, reflect) and Assign / AssignBuf with hostile arguments.  The arguments
   are built by the harness (harness/cmd/hrun/c02builtin.go) from the names enumerated here: typed
   nil pointers of every kind, nil and empty containers, nil elements, foreign types, a struct with
   a nil embedded pointer, a self-referential pointer; garbage paths; every operator.
   spec = "ok" (the call returns); model = "?" - what the models of these inspectors predict is
   compared by their own streams (c16, c17, c18, c19), which include the typed nil forms. *)
From Coq Require Import List Bool String Ascii ZArith Arith.
From Verif Require Import Util Ints EnumVal GenUnits.
Import ListNotations.
Local Open Scope string_scope.

Definition scalar_args : list string :=
  ["v:int"; "p:int"; "n:int"; "pp:int"; "n:int8"; "n:uint"; "n:uint64"; "v:string"; "p:string"; "n:string"; "v:bytes"; "p:bytes";
   "n:bytes"; "v:nilbytes"; "v:float64"; "p:float64"; "n:float64"; "n:float32"; "v:bool"; "p:bool"; "n:bool"].
Definition common_args : list string := ["nil"; "foreign"; "pforeign"; "nforeign"].
(* ...cap: two items in a storage of five (indices 2..4 lie between length and capacity); ...emp: emptied, storage kept *)
Definition strings_args : list string :=
  ["v:ss"; "p:ss"; "n:ss"; "v:ssnil"; "p:ssnil"; "v:bb"; "p:bb"; "n:bb"; "p:bbnil";
   "v:sscap"; "p:sscap"; "v:bbcap"; "p:bbcap"; "p:ssemp"; "v:bbemp"].
Definition map_args : list string := ["v:m"; "p:m"; "pp:m"; "n:m"; "npp:m"; "nilpp:m"; "v:mnil"; "p:mnil"].
Definition reflect_args : list string :=
  ["r:embnil"; "r:pembnil"; "r:cyc"; "r:array"; "r:chan"; "r:func"; "r:hidden"; "r:mapany"; "r:anyslice"; "r:nested"].

(* the reflect inspector on maps whose keys a path segment can name only by their `%v` text (struct, array, interface,
   pointer, channel, complex keys; key types with a String method, also a panicking one), on defined pointer / recursive
   map / embedded map types and on defined types behind interfaces: argument x the paths that hit and miss its entries
   (beyond the value trees of the Rocq model - the modelled part of this class is in the c02reflect stream) *)
Definition reflect_targets : list (string * list (list string)) :=
  [("r:kstruct", [["{1}"]; ["{3}"]; ["1"]]);
   ("r:karray", [["[1 2]"]; ["[1 3]"]; ["1"]]);
   ("r:kiface", [["a"]; ["1"]; ["<nil>"]; ["S"]; ["q"]; ["zz"]]);
   ("r:kptr", [["<nil>"]; ["a"]]);
   ("r:kstringer", [["S"]; ["a"]; ["zz"]]);
   ("r:kboom", [["1"]; ["1"; "0"]; ["boom"]]);
   ("r:kchan", [["<nil>"]; ["1"]]);
   ("r:kcomplex", [["(1+2i)"]; ["1"]]);
   ("r:defptr", [["a"]; ["a"; "Id"]; ["n"; "Id"]; ["zz"; "Id"]]);
   ("r:defrec", [["a"]; ["a"; "b"; "c"]; ["a"; "c"; "x"]; ["zz"]]);
   ("r:pdefrec", [["a"; "c"]; ["a"; "b"; "c"]; ["zz"]]);
   ("r:defany", [["m"; "1"; "0"]; ["m"; "2"]; ["s"; "0"]; ["s"; "1"]; ["n"; "a"]; ["p"; "a"]; ["d"; "Titles"; "en"]; ["d"; "Titles"; "zz"];
                 ["d"; "Codes"; "1"]; ["zz"]]);
   ("r:embdef", [["C02ByLang"; "a"; "Id"]; ["C02ByLang"; "zz"]; ["Titles"; "en"]; ["C02Doc"; "Titles"; "en"]]);
   ("r:nildefmap", [["a"]; ["a"; "Id"]]);
   ("r:pnildefmap", [["a"]; ["a"; "b"]])].
Definition target_garbage : list (list string) := [[]; [""]; ["0"]; [multibyte]].

Definition target_cases : list string :=
  flat_map (fun ia : nat * (string * list (list string)) =>
    let '(ai, (arg, ps)) := ia in
    let ps := (ps ++ target_garbage)%list in
    flat_map (fun jp : nat * list string =>
      let '(j, pth) := jp in
      map (fun m : string =>
        "reflect.t" ++ nat_to_string ai ++ "." ++ nat_to_string j ++ "." ++ m ++ tab ++
        "reflect," ++ m ++ ",a:" ++ arg ++ ",c:special,targeted" ++ tab ++
        "reflect|" ++ m ++ "|" ++ arg ++ "|" ++ path_text pth ++ tab ++ "?" ++ tab ++ "ok") ["get"; "getto"])
      (combine (seqn (List.length ps)) ps))
    (combine (seqn (List.length reflect_targets)) reflect_targets).

Definition args_of (ins : string) : list string :=
  (if String.eqb ins "static" then scalar_args ++ ["v:ss"; "n:ss"; "n:m"]
   else if String.eqb ins "strings" then strings_args ++ ["n:string"; "v:bytes"; "n:m"]
   else if String.eqb ins "stranymap" then map_args ++ ["n:ss"; "n:int"; "v:string"]
   else reflect_args ++ map_args ++ strings_args ++ ["n:int"; "p:int"; "pp:int"; "v:string"])%list ++ common_args.

Definition bpaths : list (list string) :=
  [[]; ["0"]; ["-1"]; ["1"]; ["2"]; ["3"]; [huge_index]; ["a"]; ["a"; "k"]; ["p"; "k"; "x"]; ["pp"; "b"]; ["np"; "k"]; ["npp"; "k"]; ["nm"; "k"];
   ["l"; "1"]; ["n"; "x"]; ["X"]; [""]; ["nil"]; ["0x1"]; ["1"; "0"]; ["a"; "1"; "2"; "X"]; [multibyte]; ["1.5"; "0"]; ["a"; "0"; "1"]].

Definition rights : list string := ["nil"; ""; "5"; "x!"; "foo"; "true"; "1.5"; "-99999999999999999999"; multibyte].
Definition set_values : list string :=
  ["nil"; "n:int"; "v:string"; "p:string"; "n:string"; "v:bytes"; "n:bytes"; "p:bytes"; "foreign"; "nforeign"; "v:int"; "v:m"; "n:m"; "v:ss"; "n:ss"; "v:nilbytes"].
Definition unms : list string := [""; "{"; "null"; "[1,""a""]"; "{""a"":{""b"":null}}"; "[[[[[[[["].

Definition hx (s : string) : string := match s with EmptyString => "-" | _ => hex_of_bytes (bytes_of_string s) end.

Definition calls_for (ins : string) (ai : nat) (arg : string) : list (string * string) :=
  let args := args_of ins in
  let pth (k : nat) := path_text (nth_mod [] bpaths (ai * 3 + k)) in
  let x1 := ("get", "get|" ++ arg ++ "|" ++ path_text ["X"]) in
  let x2 := ("get", "get|" ++ arg ++ "|" ++ path_text ["X"; "X"]) in
  let l1 := x1 :: x2 :: map (fun k => ("get", "get|" ++ arg ++ "|" ++ pth k)) (seqn 8) in
  let l2 := map (fun k => ("getto", "getto|" ++ arg ++ "|" ++ pth (k + 8))) (seqn 5) in
  let l3 := map (fun k => ("len", "len|" ++ arg ++ "|" ++ pth (k + 2))) (seqn 5) in
  let l4 := map (fun k => ("cap", "cap|" ++ arg ++ "|" ++ pth (k + 4))) (seqn 5) in
  let l5 := map (fun k => ("cmp", "cmp|" ++ arg ++ "|" ++ nat_to_string (Nat.modulo (k + ai) 10) ++ "|" ++
                                  hx (nth_mod "" rights (k + ai * 2)) ++ "|" ++ pth k)) (seqn 20) in
  let l6 := map (fun k => ("loop", "loop|" ++ arg ++ "|" ++ (if Nat.even k then "1" else "0") ++ "|" ++
                                   nth_mod "" [""; "B"; "CXB"; "XX"] k ++ "|" ++ pth k)) (seqn 6) in
  let l7 := map (fun k => ("set", "set|" ++ arg ++ "|" ++ (if Nat.even (k + ai) then "1" else "0") ++ "|" ++
                                  nth_mod "nil" set_values (k + ai) ++ "|" ++ pth k)) (seqn 16) in
  let l8 := map (fun r => ("deq", "deq|" ++ arg ++ "|" ++ r)) args in
  let l9 := [("copy", "copy|" ++ arg); ("reset", "reset|" ++ arg); ("name", "name|" ++ arg)] in
  let l10 := map (fun d => ("copyto", "copyto|" ++ arg ++ "|" ++ d)) args in
  let l11 := if Nat.eqb ai 0
             then map (fun k => ("unm", "unm|" ++ arg ++ "|" ++ hx (nth_mod "" unms k) ++ "|" ++ nat_to_string (Nat.modulo k 3))) (seqn 8)
             else [] in
  (* sequences with spare capacity: every index up to the capacity and one beyond, under every reading method *)
  let spare := String.eqb (String.substring (String.length arg - 3) 3 arg) "cap" || String.eqb (String.substring (String.length arg - 3) 3 arg) "emp" in
  let l12 := if spare then
               flat_map (fun i : string =>
                 [("get", "get|" ++ arg ++ "|" ++ path_text [i]); ("len", "len|" ++ arg ++ "|" ++ path_text [i]);
                  ("cap", "cap|" ++ arg ++ "|" ++ path_text [i]);
                  ("cmp", "cmp|" ++ arg ++ "|1|" ++ hx "beyond" ++ "|" ++ path_text [i]);
                  ("set", "set|" ++ arg ++ "|1|v:string|" ++ path_text [i])]) ["0"; "1"; "2"; "3"; "4"; "5"; "6"]
             else [] in
  (l1 ++ l2 ++ l3 ++ l4 ++ l5 ++ l6 ++ l7 ++ l8 ++ l9 ++ l10 ++ l11 ++ l12)%list.

Definition arg_class (a : string) : string :=
  if String.prefix "n:" a || String.prefix "npp:" a || String.prefix "nilpp:" a || String.eqb a "nforeign" then "nilptr"
  else if String.prefix "r:" a then "special" else if String.eqb a "nil" then "nil"
  else if String.eqb a "foreign" || String.eqb a "pforeign" then "foreign" else "value".

Definition ins_cases (ins : string) : list string :=
  let args := args_of ins in
  flat_map (fun ia : nat * string =>
    let '(ai, arg) := ia in
    map (fun jc : nat * (string * string) =>
      let '(j, (m, t)) := jc in
      (* the input puts the method first: <inspector>|<method>|<argument>|<parameters> *)
      let rest := String.substring (String.length m + 1) (String.length t) t in
      ins ++ "." ++ nat_to_string ai ++ "." ++ nat_to_string j ++ tab ++
      ins ++ "," ++ m ++ ",a:" ++ arg ++ ",c:" ++ arg_class arg ++ tab ++
      ins ++ "|" ++ m ++ "|" ++ rest ++ tab ++ "?" ++ tab ++ "ok")
      (let cs := calls_for ins ai arg in combine (seqn (List.length cs)) cs))
    (combine (seqn (List.length args)) args).

(* Assign / AssignBuf: every destination (pointers to the 16 kinds are represented by their families;
   foreign, by-value and nil destinations) x every source *)
Definition assign_dsts : list string :=
  ["p:int"; "p:string"; "p:bytes"; "p:float64"; "p:bool"; "pp:int"; "v:int"; "nil"; "pforeign"; "foreign"; "p:ss"; "p:m"].
Definition assign_srcs : list string :=
  (scalar_args ++ common_args ++ ["v:ss"; "n:ss"; "v:m"; "n:m"; "r:func"; "r:chan"])%list.

Definition assign_cases : list string :=
  flat_map (fun d =>
    flat_map (fun s =>
      map (fun b : bool =>
        "assign." ++ d ++ "." ++ s ++ "." ++ (if b then "1" else "0") ++ tab ++
        "assign,d:" ++ d ++ ",s:" ++ s ++ ",c:" ++ arg_class s ++ (if b then ",buf" else ",nobuf") ++ tab ++
        "assign|" ++ (if b then "1" else "0") ++ "|" ++ d ++ "|" ++ s ++ tab ++ "?" ++ tab ++ "ok") [false; true])
      assign_srcs) assign_dsts.

Definition cases (tier : Z) (seed : Z) : list string :=
  (flat_map ins_cases ["static"; "strings"; "stranymap"; "reflect"] ++ target_cases ++ assign_cases)%list.
