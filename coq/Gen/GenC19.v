(* Gen/GenC19.v - case generator and canonical printers of the C19 stream.
   One case = one call  AssignBuf(dst, src, buf)  (Assign when there is no
   buffer).  The line carries the destination (kind, previous content,
   capacity), the source (form, kind, value), the buffer (capacity, previous
   content), what the model of the current code does, and what the property
   demands (both readings of AssignSpec where the text is silent, every
   admissible owner class).  A history case (input "seq=...", tag hist) is two
   or three such calls in a row over objects that come back: see "histories"
   below.

   Floats travel in the canonical form of Floats.pr_float (sign, odd mantissa,
   binary exponent) in both directions.  A float source meets a text
   destination only inside the exact-decimal domain of Floats.render_float
   (cases outside it are not generated: the model does not describe
   AppendFloat there). *)
From Coq Require Import List Arith Bool Ascii String ZArith NArith Floats.SpecFloat.
From Verif Require Import Util Ints Strconv Floats AssignVal Assign AssignSpec AssignSeqVal AssignSeq AssignSeqSpec.
Import ListNotations.
Local Open Scope string_scope.

Definition tab : string := String (ascii_of_nat 9) "".
Definition hexs (s : string) : string := hex_of_bytes (bytes_of_string s).

(* ---------- canonical text ---------- *)
Definition kind_name (k : skind) : string :=
  match k with
  | KB => "bool" | KI k => ikind_name k | KF32 => "float32" | KF64 => "float64"
  | KS => "string" | KBy => "bytes"
  end.

Definition pr_sval (v : sval) : string :=
  match v with
  | VBool b => if b then "b1" else "b0"
  | VInt _ z => "i" ++ Z_to_string z
  | VF32 f | VF64 f => pr_float f
  | VStr s => "s" ++ hexs s
  | VBytes s => "y" ++ hexs s
  end.

Definition pr_owner (o : owner) : string :=
  match o with
  | ONone => "-" | OSrc => "src" | OBuf off => "buf@" ++ nat_to_string off | OOld => "old" | OFresh => "new"
  end.

Definition pr_buf (b : option string) : string :=
  match b with None => "-" | Some s => "h" ++ hexs s end.

Definition pr_dest (d : dest) : string :=
  match d with DPtr v => pr_sval v | DForeign => "o" end.

(* an empty text has no bytes anybody could own: its class is not observable *)
Definition empty_text (d : dest) : bool :=
  match d with DPtr (VStr "") | DPtr (VBytes "") => true | _ => false end.

Definition pr_done (ok : bool) (d : dest) (o : owner) (b : option string) : string :=
  (if ok then "T;" else "F;") ++ pr_dest d ++ ";" ++ (if empty_text d then "-" else pr_owner o) ++ ";" ++ pr_buf b.

Definition pr_outcome (o : outcome) : string :=
  match o with
  | Done ok d own b => pr_done ok d own b
  | Panicked NilDeref => "PANIC:nilderef"
  | Panicked TypeAssert => "PANIC:typeassert"
  | OutOfModel => "?"
  end.

(* the rendering the specification is instantiated with: Floats.render_float on its domain *)
Definition rf (f : spec_float) : string := match render_float f with Some t => t | None => "?" end.

Fixpoint dedup (l : list string) : list string :=
  match l with
  | [] => []
  | x :: r => if existsb (String.eqb x) r then dedup r else x :: dedup r
  end.

(* what the property demands, computed from AssignSpec only *)
Definition spec_strings (dst : dest) (src : source) (buf : option string) : list string :=
  flat_map (fun rd =>
    let '(ok, d') := expect rf rd dst src in
    if ok then
      match d' with
      | DPtr v => map (fun ob : owner * option string => pr_done true d' (fst ob) (snd ob))
                      (owners_allowed (kind_of v) src buf (stored_text d'))
      | DForeign => []
      end
    else [pr_done false dst ONone buf]) [Strict; Lenient].

Definition dst_kind (d : dest) : option skind := match d with DPtr v => Some (kind_of v) | DForeign => None end.

Definition fam_name (k : skind) : string :=
  match family_of k with
  | FamBool => "bool" | FamSigned => "signed" | FamUnsigned => "unsigned" | FamFloat => "float" | FamText => "text"
  end.

(* ---------- inputs ---------- *)
Record bufv := { bv_name : string; bv_cap : nat; bv_pre : string }.

Definition buf_model (b : option bufv) : option string :=
  match b with None => None | Some v => Some (bv_pre v) end.
Definition pr_bufv (b : option bufv) : string :=
  match b with None => "-" | Some v => nat_to_string (bv_cap v) ++ ":" ++ hexs (bv_pre v) end.
Definition bufv_tag (b : option bufv) : string :=
  match b with None => "nobuf" | Some v => bv_name v end.

Definition src_tag (s : source) : string :=
  match s with
  | SVal v => "val," ++ "s:" ++ fam_name (kind_of v)
  | SPtr v => "ptr," ++ "s:" ++ fam_name (kind_of v)
  | SNil k => "nilsrc," ++ "s:" ++ fam_name k
  | SForeign => "foreign,s:foreign"
  end.

Definition pr_src (s : source) (variant : string) : string :=
  match s with
  | SVal v => "V" ++ kind_name (kind_of v) ++ ":" ++ pr_sval v
  | SPtr v => "P" ++ kind_name (kind_of v) ++ ":" ++ pr_sval v
  | SNil k => "N" ++ kind_name k ++ ":"
  | SForeign => "F" ++ variant ++ ":"
  end.

Definition pr_dst (d : dest) (cap : Z) (variant : string) : string :=
  match d with
  | DPtr v => kind_name (kind_of v) ++ ":" ++ pr_sval v ++ ":" ++ Z_to_string cap
  | DForeign => "other" ++ variant ++ "::0"
  end.

Definition in_model (o : outcome) : bool := match o with OutOfModel => false | _ => true end.

Definition outcome_tag (o : outcome) : string :=
  match o with
  | Done true _ _ _ => "ok" | Done false _ _ _ => "refused" | Panicked _ => "panic" | OutOfModel => "unmodelled"
  end.

(* [strfix] = which AssignToStr the model describes (Assign.v) *)
Definition strfix_now : bool := true.

Definition case_line (id : string) (cls : string) (dst : dest) (cap : Z) (dvar : string)
           (src : source) (svar : string) (b : option bufv) : list string :=
  let bm := buf_model b in
  let o := assign strfix_now cap bm dst src in
  if in_model o then
    let sil := match dst_kind dst with Some k => silent k src | None => false end in
    let tags := "d:" ++ (match dst_kind dst with Some k => fam_name k | None => "foreign" end) ++ "," ++
                src_tag src ++ "," ++ bufv_tag b ++ "," ++ outcome_tag o ++ "," ++ cls ++
                (if sil then ",silent" else "") in
    [id ++ tab ++ tags ++ tab ++
     "dst=" ++ pr_dst dst cap dvar ++ ";src=" ++ pr_src src svar ++ ";buf=" ++ pr_bufv b ++ tab ++
     pr_outcome o ++ tab ++ join " || " (dedup (spec_strings dst src bm))]
  else [].

(* ---------- value pools ---------- *)
Definition int_candidates : list Z :=
  [0; 1; -1; 42; 127; 128; -128; -129; 255; 256; 300; 32767; 32768; -32768; -32769; 65535; 65536;
   2147483647; 2147483648; -2147483648; -2147483649; 4294967295; 4294967296; 4294967301;
   9223372036854775807; -9223372036854775808; 9223372036854775808; 18446744073709551615]%Z.

Definition ints_of (k : ikind) : list Z :=
  filter (in_range k) int_candidates.

Definition fv (t : string) : spec_float := match parse_float t with Some f => f | None => S754_nan end.

(* float64 values: zeros, integers, binary fractions, values that round or overflow in float32,
   values outside the exact-decimal domain (met by numeric destinations only), specials *)
Definition f64_texts : list string :=
  ["0"; "-0"; "1"; "-1"; "0.5"; "-2.75"; "1234.5"; "0.0625"; "3.75"; "1e15"; "4503599627370496"; "9007199254740991";
   "16777217"; "0.1"; "1e300"; "-1e300"; "1e-300"; "3.4028235677973366e38"; "1e-46"; "123456.789"; "1e21"; "0.000244140625"].
Definition f32_texts : list string :=
  ["0"; "-0"; "1"; "-1"; "0.5"; "-2.75"; "1234.5"; "0.0625"; "16777216"; "0.1"; "3.4028234663852886e38"; "1e-45"; "65504"].

Definition f64_values : list spec_float := map fv f64_texts ++ [S754_nan; S754_infinity false; S754_infinity true].
Definition f32_values : list spec_float := map (fun t => to_f32 (fv t)) f32_texts ++ [S754_nan; S754_infinity false; S754_infinity true].

Definition nl : string := String (ascii_of_nat 10) "".

Definition texts : list string :=
  ["000000000000000000042"; "-00009223372036854775808"; "+0000000000000000000007"; "0000000000000000000000255"; ""; "0"; "7"; "-7"; "+7"; "007"; "-0"; "+0"; "127"; "128"; "-128"; "-129"; "255"; "256"; "300"; "-300";
   "32767"; "32768"; "65535"; "65536"; "2147483647"; "2147483648"; "-2147483649"; "4294967295"; "4294967296";
   "9223372036854775807"; "9223372036854775808"; "-9223372036854775808"; "-9223372036854775809";
   "18446744073709551615"; "18446744073709551616"; "+18446744073709551615"; "99999999999999999999999"; "-99999999999999999999999";
   "1.5"; "-2.75"; ".5"; "-.5"; "5."; "+5."; "1.e2"; "0.0"; "-0.0"; "1e3"; "1E3"; "1e+3"; "1.5e-3"; "-1e-2"; "16777217"; "0.1";
   "1e39"; "-1e39"; "3.4028235677973366e38"; "1e308"; "1e309"; "1e400"; "-1e400"; "1e-400"; "1e-46";
   "0x1F"; "0X1f"; "0b101"; "0o17"; "017"; "1_000"; "0x1p-2"; "1e"; "1e+"; "e5"; "."; "-"; "+"; "+-1"; "--1"; "1-"; "1.2.3";
   " "; " 1"; "1 "; "1" ++ nl; "abc"; "12a"; "a12"; "1,5"; "inf"; "-Inf"; "Infinity"; "NaN"; "nan";
   "true"; "false"; "TRUE"; "True"; "t"; "T"; "1"; "true "; "yes";
   String (ascii_of_nat 217) (String (ascii_of_nat 161) (String (ascii_of_nat 217) (String (ascii_of_nat 162) "")))].

Definition val_sources (tier : Z) : list sval :=
  [VBool true; VBool false] ++
  flat_map (fun k => map (VInt k) (ints_of k)) all_ikinds ++
  map VF32 f32_values ++ map VF64 f64_values ++
  map VStr texts ++ map VBytes texts.

Definition all_skinds : list skind :=
  [KB] ++ map KI all_ikinds ++ [KF32; KF64; KS; KBy].

Definition foreign_variants : list string := ["struct"; "nilif"; "named"; "pstruct"; "uintptr"; "pp"].

(* (source, variant) *)
Definition sources_of (vals : list sval) : list (source * string) :=
  flat_map (fun v => [(SVal v, ""); (SPtr v, "")]) vals ++
  map (fun k => (SNil k, "")) all_skinds ++
  map (fun v => (SForeign, v)) foreign_variants.

(* destinations: (dest, cap, variant); previous content is never empty *)
Definition num_dests : list (dest * Z * string) :=
  [(DPtr (VBool true), 0%Z, ""); (DPtr (VBool false), 0%Z, "")] ++
  map (fun k => (DPtr (VInt k 99), 0%Z, "")) all_ikinds ++
  [(DPtr (VF32 (to_f32 (fv "99.5"))), 0%Z, ""); (DPtr (VF64 (fv "99.5")), 0%Z, "");
   (DForeign, 0%Z, "pstruct"); (DForeign, 0%Z, "value"); (DForeign, 0%Z, "nilif")].

Definition text_dests (tier : Z) : list (dest * Z * string) :=
  [(DPtr (VStr "old"), 0%Z, ""); (DPtr (VBytes "old"), 3%Z, ""); (DPtr (VBytes "old"), 64%Z, "")] ++
  (if Z.eqb tier 0 then [] else
     [(DPtr (VStr "previous content"), 0%Z, ""); (DPtr (VBytes "previous content"), 16%Z, "");
      (DPtr (VBytes "x"), 1%Z, ""); (DPtr (VBytes "x"), 2%Z, "")]).

Definition bufs (tier : Z) : list (option bufv) :=
  [None; Some {| bv_name := "emptybuf"; bv_cap := 0; bv_pre := "" |};
   Some {| bv_name := "filledbuf"; bv_cap := 6; bv_pre := "prefix" |}] ++
  (if Z.eqb tier 0 then [] else
     [Some {| bv_name := "emptybuf"; bv_cap := 64; bv_pre := "" |};
      Some {| bv_name := "filledbuf"; bv_cap := 4096; bv_pre := "prefix" |}]).

Fixpoint number {A} (i : nat) (l : list A) : list (nat * A) :=
  match l with [] => [] | x :: r => (i, x) :: number (S i) r end.

(* ---------- random values (thorough tier, and a few in the quick tier) ---------- *)
Definition rnd_int (s : rng) (k : ikind) : Z * rng :=
  let '(w, s1) := rng_pick s 18446744073709551616 in
  let '(sh, s2) := rng_pick s1 64 in
  (wrap k (Z.shiftr (Z.of_N w) (Z.of_N sh)), s2).

Definition pick_str (s : rng) (l : list string) : string * rng := pick_list s "" l.

Definition rnd_numeral (s : rng) : string * rng :=
  let '(sg, s1) := pick_str s [""; ""; "-"; "+"] in
  let '(ip, s2) := pick_str s1 ["0"; "1"; "7"; "12"; "100"; "255"; "999"; "1234"; "65536"; "16777216"; "123456789"; ""; "4503599627370496"; "3"; "42"; "70000"; "5000000000"] in
  let '(fp, s3) := pick_str s2 [""; ""; ""; ".0"; ".5"; ".25"; ".125"; ".001"; ".1"; ".75"; "."; ".333333333333"] in
  let '(ep, s4) := pick_str s3 [""; ""; ""; ""; "e0"; "e1"; "e-1"; "E2"; "e+3"; "e-3"; "e10"; "e22"; "e-22"; "e300"; "e"; "e-"] in
  (sg ++ ip ++ fp ++ ep, s4).

Definition garbage_alphabet : string := "0123456789+-. eExtrue_,".
Fixpoint rnd_garbage (len : nat) (s : rng) : string * rng :=
  match len with
  | O => ("", s)
  | S l => let '(k, s1) := rng_nat s (String.length garbage_alphabet) in
           let c := match String.get k garbage_alphabet with Some c => c | None => "0"%char end in
           let '(r, s2) := rnd_garbage l s1 in (String c r, s2)
  end.

(* a dyadic rational with a short decimal expansion: inside the exact-decimal domain *)
Definition rnd_float (s : rng) : spec_float * rng :=
  let '(m, s1) := rng_pick s 1000000 in
  let '(e, s2) := rng_pick s1 12 in
  let '(ng, s3) := rng_pick s2 2 in
  (binary_normalize 53 1024 (if N.eqb ng 0 then Z.of_N m else - Z.of_N m) (- Z.of_N e) false, s3).

Fixpoint rnd_vals (count : nat) (s : rng) : list sval * rng :=
  match count with
  | O => ([], s)
  | S c =>
    let '(sel, s0) := rng_nat s 6 in
    let '(v, s1) :=
      match sel with
      | 0 | 1 => let '(ki, s') := rng_nat s0 10 in
                 let k := nth ki all_ikinds KInt in
                 let '(z, s'') := rnd_int s' k in (VInt k z, s'')
      | 2 => let '(f, s') := rnd_float s0 in
             let '(w, s'') := rng_nat s' 2 in
             (if Nat.eqb w 0 then VF64 f else VF32 (to_f32 f), s'')
      | 3 | 4 => let '(t, s') := rnd_numeral s0 in
                 let '(w, s'') := rng_nat s' 2 in ((if Nat.eqb w 0 then VStr t else VBytes t), s'')
      | _ => let '(len, s') := rng_nat s0 7 in
             let '(t, s'') := rnd_garbage len s' in
             let '(w, s''') := rng_nat s'' 2 in ((if Nat.eqb w 0 then VStr t else VBytes t), s''')
      end in
    let '(r, s2) := rnd_vals c s1 in (v :: r, s2)
  end.

(* ---------- the matrix ---------- *)
Definition matrix (cls : string) (pfx : string) (tier : Z)
           (srcs : list (source * string)) : list string :=
  let nb := bufs tier in
  (* non-text destinations: the buffer is passed but plays no part; rotate through the variants *)
  flat_map (fun ds : nat * (dest * Z * string) =>
    let '(di, (d, cap, dvar)) := ds in
    flat_map (fun ss : nat * (source * string) =>
      let '(si, (src, svar)) := ss in
      let b := nth ((di + si) mod List.length nb)%nat nb None in
      case_line (pfx ++ "n" ++ nat_to_string di ++ "." ++ nat_to_string si) cls d cap dvar src svar b)
      (number 0 srcs)) (number 0 num_dests) ++
  (* text destinations: every buffer variant *)
  flat_map (fun ds : nat * (dest * Z * string) =>
    let '(di, (d, cap, dvar)) := ds in
    flat_map (fun ss : nat * (source * string) =>
      let '(si, (src, svar)) := ss in
      flat_map (fun bs : nat * option bufv =>
        let '(bi, b) := bs in
        case_line (pfx ++ "t" ++ nat_to_string di ++ "." ++ nat_to_string si ++ "." ++ nat_to_string bi) cls d cap dvar src svar b)
        (number 0 nb)) (number 0 srcs)) (number 0 (text_dests tier)).

(* ---------- histories: objects that come back (Model/AssignSeq.v, Spec/AssignSeqSpec.v) ---------- *)
(* One case = two or three calls in a row.  [sreuse]: ONE source object serves every step
   and is given the step's value before the call (the same []byte rewritten in place, in
   value and in pointer form; a string that is the zero-copy view of such a slice; one
   *string pointed at other text; one *T holding another value) - the model does not know
   about it: it is a function of the values.  Destinations: fresh and of one kind, fresh
   and of another kind at every step ("drot"), or ONE destination object receiving every
   step ([DstReuse]).  One buffer throughout.  Observed per step: ok, destination, buffer. *)
Definition pr_okdb (ok : bool) (d : dest) (b : option string) : string :=
  (if ok then "T;" else "F;") ++ pr_dest d ++ ";" ++ pr_buf b.

Definition pr_sout (o : sout) : string :=
  match o with
  | SDone ok d b => pr_okdb ok d b
  | SPanicked NilDeref => "PANIC:nilderef"
  | SPanicked TypeAssert => "PANIC:typeassert"
  | SOutOfModel => "?"
  end.

Definition pr_triple (t : triple) : string := let '(ok, d, b) := t in pr_okdb ok d b.

Definition sout_in_model (o : sout) : bool := match o with SOutOfModel => false | _ => true end.
Definition sout_refused (o : sout) : bool := match o with SDone false _ _ => true | _ => false end.
Definition sout_panicked (o : sout) : bool := match o with SPanicked _ => true | _ => false end.

(* a step as the generator carries it: destination with capacity and variant, source with variant *)
Definition gstep := ((dest * Z * string) * (source * string))%type.

Definition hstep_of (g : gstep) : hstep := {| h_dst := fst (fst (fst g)); h_src := fst (snd g) |}.

Inductive dplan := PSame | PRot | PReuse.
Definition dplan_name (p : dplan) : string := match p with PSame => "dfresh" | PRot => "drot" | PReuse => "dreuse" end.
Definition dplan_mode (p : dplan) : dmode := match p with PReuse => DstReuse | _ => DstFresh end.

Definition pr_gstep (reuse_dst : bool) (i : nat) (g : gstep) : string :=
  let '((d, cap, dvar), (src, svar)) := g in
  "dst=" ++ (if reuse_dst && negb (Nat.eqb i 0) then "^" else pr_dst d cap dvar) ++ ";src=" ++ pr_src src svar.

Definition seq_line (id cls : string) (sreuse : bool) (pl : dplan) (gs : list gstep) (b : option bufv) : list string :=
  let bm := buf_model b in
  let dm := dplan_mode pl in
  let hs := map hstep_of gs in
  let os := run_seq strfix_now dm None bm hs in
  if forallb sout_in_model os then
    match gs with
    | [] => []
    | ((d0, _, _), (s0, _)) :: _ =>
      (* the destination kind of a reuse history never changes; of the others each step names its own *)
      let sil := existsb (fun g : gstep => match dst_kind (fst (fst (fst g))) with
                                           | Some k => silent k (fst (snd g)) | None => false end)
                         (match pl with PReuse => map (fun g : gstep => ((d0, 0%Z, ""), snd g)) gs | _ => gs end) in
      let tags := "d:" ++ (match dst_kind d0 with Some k => fam_name k | None => "foreign" end) ++ "," ++
                  src_tag s0 ++ "," ++ bufv_tag b ++ "," ++
                  (if existsb sout_panicked os then "panic" else if existsb sout_refused os then "refused" else "ok") ++ "," ++
                  cls ++ ",hist," ++ (if sreuse then "sreuse" else "sfresh") ++ "," ++ dplan_name pl ++
                  (if sil then ",silent" else "") in
      [id ++ tab ++ tags ++ tab ++
       "seq=" ++ (if sreuse then "sreuse" else "sfresh") ++ "," ++
                 (match pl with PReuse => "dreuse" | _ => "dfresh" end) ++ ";buf=" ++ pr_bufv b ++ "/" ++
       join "/" (map (fun ig : nat * gstep => pr_gstep (match pl with PReuse => true | _ => false end) (fst ig) (snd ig)) (number 0 gs)) ++ tab ++
       join "/" (map pr_sout os) ++ tab ++
       join " || " (dedup (map (fun ts : list triple => join "/" (map pr_triple ts)) (seq_allowed rf dm None bm hs)))]
    end
  else [].

(* destinations of the histories: every kind, previous content never empty, bytes tight and roomy *)
Definition hist_dests : list (dest * Z * string) :=
  [(DPtr (VBool false), 0%Z, "")] ++
  map (fun k => (DPtr (VInt k 99), 0%Z, "")) all_ikinds ++
  [(DPtr (VF32 (to_f32 (fv "99.5"))), 0%Z, ""); (DPtr (VF64 (fv "99.5")), 0%Z, "");
   (DPtr (VStr "old"), 0%Z, ""); (DPtr (VBytes "old"), 3%Z, ""); (DPtr (VBytes "old"), 64%Z, "")].

Definition dflt_dest : dest * Z * string := (DPtr (VBool false), 0%Z, "").

(* cyclic windows of three neighbours, forwards and backwards: every ordered pair of neighbours is a
   (step i, step i+1) of some history *)
Definition windows_fwd {A} (d : A) (l : list A) : list (list A) :=
  let n := List.length l in
  map (fun i => [nth i l d; nth ((i + 1) mod n)%nat l d; nth ((i + 2) mod n)%nat l d]) (seq 0 n).
Definition windows_bwd {A} (d : A) (l : list A) : list (list A) := map (@rev A) (windows_fwd d l).

(* texts of ONE length (what rewriting a slice in place produces): numbers of each family, garbage,
   numbers the neighbour's family refuses *)
Definition texts_len3 : list string :=
  ["123"; "456"; "-7x"; "-45"; "+45"; "1.5"; "1e3"; ".25"; "300"; "0x1"; "007"; "abc"].
Definition texts_len4 : list string :=
  ["true"; "truE"; "1234"; "fals"; "0000"; "TRUE"; "-1.5"; "4e-1"].
(* lengths that grow and shrink inside the object's capacity *)
Definition texts_mixed : list string :=
  ["7"; "123456"; "42"; ""; "-1"; "1e2"; "99999"; "true"; "x"].

(* the forms of a text source object that can be rewritten: []byte, *[]byte, string view, *string *)
Definition text_forms : list (string -> source) :=
  [fun t => SVal (VBytes t); fun t => SPtr (VBytes t); fun t => SVal (VStr t); fun t => SPtr (VStr t)].

Definition is_text_src (s : source) : bool :=
  match s with SVal (VStr _) | SPtr (VStr _) | SVal (VBytes _) | SPtr (VBytes _) => true | _ => false end.

Definition plans : list dplan := [PReuse; PSame; PRot].

(* one history: the sources of the steps, the destination (index [di]) and plan, a buffer.
   A reused text source in a reused text destination is left out (the destination would be an
   alias of the slice that is being rewritten: the model has no memory to describe that); such a
   history is run with fresh destinations instead. *)
Definition hist_case (id cls : string) (sreuse : bool) (pl : dplan) (di : nat) (srcs : list (source * string))
           (b : option bufv) : list string :=
  let nd := List.length hist_dests in
  let d0 := nth di hist_dests dflt_dest in
  let pl' := match pl with
             | PReuse => if sreuse && text_dest (fst (fst d0)) && existsb (fun sv : source * string => is_text_src (fst sv)) srcs
                         then PSame else PReuse
             | _ => pl
             end in
  let gs := map (fun js : nat * (source * string) =>
                   let d := match pl' with PRot => nth ((di + 5 * fst js) mod nd)%nat hist_dests dflt_dest | _ => d0 end in
                   (d, snd js)) (number 0 srcs) in
  seq_line id cls sreuse pl' gs b.

(* [cross]: every form x every plan (thorough tier); otherwise forms x rotating plan, or both rotating *)
Definition text_hists (pfx : string) (tier : Z) (all_forms : bool) (ws : list (list string)) : list string :=
  let nb := bufs tier in
  flat_map (fun tw : nat * list string =>
    let '(ti, w) := tw in
    flat_map (fun ds : nat * (dest * Z * string) =>
      let di := fst ds in
      let forms := if all_forms || negb (Z.eqb tier 0) then number 0 text_forms
                   else let fi := ((ti + di) mod 4)%nat in [(fi, nth fi text_forms (fun t => SVal (VBytes t)))] in
      flat_map (fun ff : nat * (string -> source) =>
        let '(fi, f) := ff in
        let pls := if Z.eqb tier 0 then let pi := ((ti + di + fi) mod 3)%nat in [(pi, nth pi plans PSame)] else number 0 plans in
        flat_map (fun pp : nat * dplan =>
          let '(pi, pl) := pp in
          hist_case (pfx ++ nat_to_string ti ++ "." ++ nat_to_string di ++ "." ++ nat_to_string fi ++ "." ++ nat_to_string pi)
                    "rewritten" true pl di (map (fun t => (f t, "")) w)
                    (nth ((ti + di + fi) mod List.length nb)%nat nb None)) pls) forms)
      (number 0 hist_dests)) (number 0 ws).

(* one *T holding value after value *)
Definition scalar_triples : list (list sval) :=
  flat_map (fun k =>
    let vs := ints_of k in
    let n := List.length vs in
    map (map (VInt k)) [firstn 3 vs; firstn 3 (rev vs); [nth 1 vs 0%Z; nth (n - 1) vs 0%Z; nth 1 vs 0%Z]]) all_ikinds ++
  map (map (fun t => VF64 (fv t))) [["1"; "-2.75"; "0"]; ["0.5"; "1234.5"; "0.5"]] ++
  [map VF64 [S754_nan; fv "1"; S754_infinity false]] ++
  map (map (fun t => VF32 (to_f32 (fv t)))) [["1"; "-2.75"; "-0"]; ["0.0625"; "16777216"; "0.0625"]] ++
  [[VF32 (S754_infinity true); VF32 (to_f32 (fv "0.5")); VF32 S754_nan]] ++
  [[VBool true; VBool false; VBool true]; [VBool false; VBool false; VBool true]].

Definition scalar_hists (tier : Z) : list string :=
  let nb := bufs tier in
  flat_map (fun tw : nat * list sval =>
    let '(ti, w) := tw in
    flat_map (fun ds : nat * (dest * Z * string) =>
      let di := fst ds in
      let pls := if Z.eqb tier 0 then let pi := ((ti + di) mod 3)%nat in [(pi, nth pi plans PSame)] else number 0 plans in
      flat_map (fun pp : nat * dplan =>
        let '(pi, pl) := pp in
        hist_case ("hp" ++ nat_to_string ti ++ "." ++ nat_to_string di ++ "." ++ nat_to_string pi)
                  "repointed" true pl di (map (fun v => (SPtr v, "")) w)
                  (nth ((ti + di) mod List.length nb)%nat nb None)) pls)
      (number 0 hist_dests)) (number 0 scalar_triples).

(* the reverse: ONE destination, sources of every kind built anew for every step (a refusal in the
   middle must keep what the step before stored) *)
Definition mixed_sources : list (source * string) :=
  [(SVal (VInt KInt 42), ""); (SPtr (VStr "-7"), ""); (SVal (VBytes "x"), ""); (SVal (VBool true), "");
   (SPtr (VF64 (fv "1.5")), ""); (SVal (VStr "true"), ""); (SPtr (VInt KUint8 200), ""); (SForeign, "struct");
   (SVal (VBytes "300"), ""); (SVal (VF32 (to_f32 (fv "0.5"))), ""); (SPtr (VBytes "1e3"), "");
   (SVal (VInt KInt64 (-1)), ""); (SVal (VStr ""), ""); (SPtr (VBool false), "");
   (SVal (VInt KUint64 18446744073709551615), ""); (SForeign, "nilif")].

Definition mixed_hists (tier : Z) : list string :=
  let nb := bufs tier in
  flat_map (fun tw : nat * list (source * string) =>
    let '(ti, w) := tw in
    flat_map (fun ds : nat * (dest * Z * string) =>
      let di := fst ds in
      hist_case ("hm" ++ nat_to_string ti ++ "." ++ nat_to_string di) "mixed" false PReuse di w
                (nth ((ti + di) mod List.length nb)%nat nb None))
      (number 0 hist_dests))
    (number 0 (windows_fwd (SForeign, "struct") mixed_sources ++
               (if Z.eqb tier 0 then [] else windows_bwd (SForeign, "struct") mixed_sources))).

Definition histories (tier : Z) : list string :=
  text_hists "ha" tier true (windows_fwd "" texts_len3) ++
  text_hists "hb" tier false (windows_bwd "" texts_len3) ++
  text_hists "hc" tier false (windows_fwd "" texts_len4 ++ windows_bwd "" texts_len4) ++
  text_hists "hd" tier false (windows_fwd "" texts_mixed ++ windows_bwd "" texts_mixed) ++
  scalar_hists tier ++ mixed_hists tier.

(* tier 0 = quick, 1 = thorough *)
Definition cases (tier : Z) (seed : Z) : list string :=
  let '(rv, _) := rnd_vals (if Z.eqb tier 0 then 60 else 1500) (rng_of_seed seed) in
  matrix "boundary" "m" tier (sources_of (val_sources tier)) ++
  matrix "random" "r" tier (flat_map (fun v => [(SVal v, ""); (SPtr v, "")]) rv) ++
  histories tier.
