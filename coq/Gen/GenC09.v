(* Gen/GenC09.v - the C09 stream: Loop of generated inspectors observed with a
   recording iterator.

   input:  <Type>;p;<op>;<canon>;<wants>;<ctls>;<path>;<value>
     op      loop     abstract trace (key texts parsed back, handed values followed through pointers)
             loopraw  concrete trace (raw key texts, handed values as handed) - model only, spec silent
     canon   o            rounds in call order (key texts kept as texts)
             s:<kind>     the path denotes a map with keys of <kind>: key texts are parsed back as
                          <kind>, rounds are sorted; when a Break fired only the number of rounds
                          and whether they are distinct rounds of the full iteration are printed
     wants   digits 0/1: does the iterator want the key in round i (last digit repeats)
     ctls    letters N/B/C: what Iterate answers in round i (N beyond the end)
   observation:  e=<err>;<body>
     o body   rounds joined by '|', a round = tokens joined by ',':
              R<0|1>  K<key dump>/<inspector>  V<value dump>/<inspector>/<readable>  I<N|B|C>
     s body   s;<sorted rounds without I tokens>;c=<ctl letters>      (no Break fired)
              b;n=<rounds>;sub=<0|1>;c=<ctl letters>                 (a Break fired)
   <readable> is a native check of the harness (the handed inspector reads the handed value);
   both columns expect 1. *)
From Coq Require Import List Bool String Ascii ZArith Arith.
From Verif Require Import Util Ints Strconv Floats Node GoSrc Value Outcome Nav Loop LoopSpec Shapes EnumVal GenUnits.
Import ListNotations.
Local Open Scope string_scope.
Local Open Scope list_scope.

(* ---------- scripts ---------- *)
Definition nth_last {A} (d : A) (l : list A) (i : nat) : A :=
  match nth_error l i with Some x => x | None => last l d end.

Definition ctl_of_ascii (c : ascii) : ctl :=
  if Ascii.eqb c "B"%char then CBrk else if Ascii.eqb c "C"%char then CCnt else CNone.

Definition script_of (w c : string) : script :=
  {| wants := fun i => Ascii.eqb (nth_last "1"%char (list_ascii_of_string w) i) "1"%char;
     ctls := fun i => match nth_error (list_ascii_of_string c) i with Some a => ctl_of_ascii a | None => CNone end |}.

Definition pr_ctl (c : ctl) : string := match c with CNone => "N" | CBrk => "B" | CCnt => "C" end.

(* ---------- canonical text of abstract traces ---------- *)
Definition pr_oval (o : option val) : string := match o with Some x => dump x | None => "nil" end.
Definition pr_okey (o : option val) : string := match o with Some x => dump x | None => "none" end.

Definition pr_sevent (e : sevent) : string :=
  match e with
  | SRequireKey b => if b then "R1" else "R0"
  | SKey k ins => "K" ++ pr_okey k ++ "/" ++ ins
  | SVal x ins => "V" ++ pr_oval x ++ "/" ++ ins ++ "/1"
  | SIterate c => "I" ++ pr_ctl c
  end.

Definition is_iter (e : sevent) : bool := match e with SIterate _ => true | _ => false end.

(* rounds: split after every Iterate *)
Fixpoint split_rounds (tr : list sevent) (cur : list sevent) : list (list sevent) :=
  match tr with
  | [] => match cur with [] => [] | _ => [rev cur] end
  | e :: r => if is_iter e then rev (e :: cur) :: split_rounds r [] else split_rounds r (e :: cur)
  end.

Definition pr_round (keep_iter : bool) (r : list sevent) : string :=
  join "," (map pr_sevent (filter (fun e => keep_iter || negb (is_iter e)) r)).

Definition ctl_letters (tr : list sevent) : string :=
  String.concat "" (flat_map (fun e => match e with SIterate c => [pr_ctl c] | _ => [] end) tr).

Definition broke (tr : list sevent) : bool :=
  match last tr (SRequireKey false) with SIterate CBrk => true | _ => false end.

(* multiset inclusion of texts *)
Fixpoint remove_one (x : string) (l : list string) : option (list string) :=
  match l with
  | [] => None
  | y :: r => if String.eqb x y then Some r else match remove_one x r with Some r' => Some (y :: r') | None => None end
  end.
Fixpoint sub_multiset (a b : list string) : bool :=
  match a with
  | [] => true
  | x :: r => match remove_one x b with Some b' => sub_multiset r b' | None => false end
  end.

(* [full]: the rounds of the complete iteration (for the sub= field) *)
Definition pr_trace (sorted : bool) (tr full : list sevent) : string :=
  if sorted then
    let rs := map (pr_round false) (split_rounds tr []) in
    if broke tr then
      "b;n=" ++ nat_to_string (List.length rs) ++ ";sub=" ++
      (if sub_multiset rs (map (pr_round false) (split_rounds full [])) then "1" else "0") ++ ";c=" ++ ctl_letters tr
    else "s;" ++ join "|" (sort_strs rs) ++ ";c=" ++ ctl_letters tr
  else "o;" ++ join "|" (map (pr_round true) (split_rounds tr [])).

(* ---------- the canon hint: how key texts are read back ---------- *)
Definition canon_of (d : ldemand) : string :=
  match d with LMap kn _ _ => "s:" ++ n_typu kn | _ => "o" end.
Definition kabs_of (d : ldemand) : string -> option val :=
  match d with LMap kn _ _ => map_kabs kn | _ => slice_kabs end.
Definition sorted_of (d : ldemand) : bool := match d with LMap _ _ _ => true | _ => false end.

Definition id_ord (l : list (val * val)) : list (val * val) := l.

Definition noscript : script := {| wants := fun _ => true; ctls := fun _ => CNone |}.

Definition has_unk (tr : trace) : bool :=
  existsb (fun e => match e with ESetKey t _ => String.eqb t "?" | _ => false end) tr.

(* the model column *)
Definition pr_model (d : ldemand) (sc scfull : script) (n : node) (v : val) (path : list string) : string :=
  match loop_method sc id_ord n (APtr (Some v)) path with
  | Panic k => "PANIC:" ++ pr_pkind k
  | Fall tr => "?"
  | Ret tr e =>
    if has_unk tr then "?" else
    let full := match loop_method scfull id_ord n (APtr (Some v)) path with Ret t _ => t | _ => [] end in
    "e=" ++ pr_err e ++ ";" ++ pr_trace (sorted_of d) (abstract (kabs_of d) tr) (abstract (kabs_of d) full)
  end.

(* the spec column *)
Definition pr_spec (d : ldemand) (sc scfull : script) : string :=
  match d with
  | LAny => "*"
  | LNone => "e=nil;" ++ pr_trace false [] [] ++ " || e=parse;" ++ pr_trace false [] []
  | LSlice el es =>
    "e=nil;" ++ pr_trace false (spec_rounds sc (spec_ins el) 0 (index_items 0 es)) []
  | LMap kn vn kvs =>
    "e=nil;" ++ pr_trace true (spec_rounds sc (spec_ins vn) 0 (entry_items kvs))
                              (spec_rounds scfull (spec_ins vn) 0 (entry_items kvs))
  end.

(* ---------- the raw (concrete) trace ---------- *)
Definition pr_event_raw (e : event) : string :=
  match e with
  | ERequireKey b => if b then "R1" else "R0"
  | ESetKey t ins => "K" ++ hex_of_bytes (bytes_of_string t) ++ "/" ++ ins
  | ESetVal x ins => "V" ++ dump x ++ "/" ++ ins
  | EIterate c => "I" ++ pr_ctl c
  end.
Definition is_iter_raw (e : event) : bool := match e with EIterate _ => true | _ => false end.
Fixpoint split_raw (tr : trace) (cur : list event) : list (list event) :=
  match tr with
  | [] => match cur with [] => [] | _ => [rev cur] end
  | e :: r => if is_iter_raw e then rev (e :: cur) :: split_raw r [] else split_raw r (e :: cur)
  end.
Definition pr_raw (sorted : bool) (tr : trace) : string :=
  let rs := map (fun r => join "," (map pr_event_raw r)) (split_raw tr []) in
  if sorted then "s;" ++ join "|" (sort_strs rs) else "o;" ++ join "|" rs.

Definition pr_model_raw (d : ldemand) (sc : script) (n : node) (v : val) (path : list string) : string :=
  match loop_method sc id_ord n (APtr (Some v)) path with
  | Panic k => "PANIC:" ++ pr_pkind k
  | Fall tr => "?"
  | Ret tr e => if has_unk tr then "?" else "e=" ++ pr_err e ++ ";" ++ pr_raw (sorted_of d) tr
  end.

(* ---------- cases ---------- *)
Definition root_node (u : string * ty) : node := parse_ast_decl (pkg_of (fst u)) (imp_of (fst u)) (fst u) (snd u).

Definition demand_len (d : ldemand) : nat :=
  match d with LSlice _ es => List.length es | LMap _ _ kvs => List.length kvs | _ => 0 end.

(* ctl patterns for a collection of n elements: all None, all Continue, Break at every position
   (preceded by Continue / None alternately), Break beyond the end *)
Fixpoint repeat_str (s : string) (n : nat) : string := match n with O => "" | S k => s ++ repeat_str s k end.
Definition ctl_patterns (n : nat) : list string :=
  ["" ; repeat_str "C" (S n)] ++
  map (fun j => ((if Nat.even j then repeat_str "C" j else repeat_str "N" j) ++ "B")%string) (seqn (S n)) ++
  (match n with S (S _) => ["NCB"; "CN"] | _ => [] end).

Definition scripts_for (d : ldemand) : list (string * string) :=
  match d with
  | LSlice _ es =>
    flat_map (fun w => map (fun c => (w, c)) (ctl_patterns (List.length es))) ["1"; "0"] ++ [("10", ""); ("01", "CB")]
  | LMap _ _ kvs =>
    flat_map (fun w => map (fun c => (w, c)) (ctl_patterns (List.length kvs))) ["1"; "0"]
  | _ => [("1", "")]
  end.

Definition dtag (d : ldemand) : string :=
  match d with LSlice _ _ => "d:slice" | LMap _ _ _ => "d:map" | LNone => "d:none" | LAny => "d:any" end.

Definition script_tag (w c : string) : string :=
  "wk" ++ w ++ "," ++
  (if existsb (Ascii.eqb "B"%char) (list_ascii_of_string c) then "brk" else "nobrk") ++
  (if existsb (Ascii.eqb "C"%char) (list_ascii_of_string c) then ",cnt" else "").

Definition mtag (s : string) : string :=
  if String.prefix "PANIC" s then "m:panic" else if String.prefix "e=parse" s then "m:err"
  else if String.eqb s "?" then "m:unknown" else "m:ok".

Definition case_lines (u : string * ty) : list string :=
  let n := root_node u in
  flat_map (fun iv : nat * val =>
    let '(vi, v) := iv in
    flat_map (fun pt : tagged =>
      let '(path, ptag) := pt in
      let d := loop_demand n v path in
      let canon := canon_of d in
      let mk (op w c model spec : string) : string :=
        (fst u ++ "." ++ nat_to_string vi ++ "." ++ op ++ "." ++ w ++ "." ++ c ++ "." ++ path_text path ++ tab ++
        op ++ "," ++ ptag ++ "," ++ dtag d ++ "," ++ script_tag w c ++ "," ++ mtag model ++ tab ++
        fst u ++ ";p;" ++ op ++ ";" ++ canon ++ ";" ++ w ++ ";" ++ c ++ ";" ++ path_text path ++ ";" ++ pr_val true v ++ tab ++
        model ++ tab ++ spec)%string in
      flat_map (fun wc : string * string =>
        let '(w, c) := wc in
        let sc := script_of w c in
        let scfull := script_of w "" in
        [mk "loop" w c (pr_model d sc scfull n v path) (pr_spec d sc scfull)])
        (scripts_for d) ++
      (if is_coll d then
         let c := if sorted_of d then "" else "C" in
         [mk "loopraw" "1" c (pr_model_raw d (script_of "1" c) n v path) "*"] else []))
    (paths n v))
  (combine (seqn (List.length (variants n))) (variants n)).

(* ---------- hostile keys: a nil pointer key, a NaN key (single-field structs with a map field) ---------- *)
Definition hostile_values (n : node) : list (string * list string * val) :=
  match n_typ n, n_chld n with
  | typeStruct, [ch] =>
    match n_typ ch, n_mapk ch, n_mapv ch with
    | typeMap, Some kn, Some vn =>
      let vs := variants vn in
      let e1 := nth_mod (VInt 0) vs 1 in let e2 := nth_mod (VInt 0) vs 2 in
      let wrap (m : val) : val := VStruct [if n_ptr ch then VPtr (Some m) else m] in
      (if n_ptr kn then [("nilkey", [n_name ch], wrap (VMap false [(VPtr None, e1)]))] else []) ++
      (match node_skind kn with
       | Some SF64 | Some SF32 =>
         let k (f : val) : val := if n_ptr kn then VPtr (Some f) else f in
         [("nankey", [n_name ch], wrap (VMap false [(k (VFloat Floats.SpecFloat.S754_nan), e1); (k (fl 3 (-1)), e2)]))]
       | _ => []
       end)
    | _, _, _ => []
    end
  | _, _ => []
  end.

Definition hostile_lines (u : string * ty) : list string :=
  let n := root_node u in
  flat_map (fun h : string * list string * val =>
    let '(tag, path, v) := h in
    let d := loop_demand n v path in
    map (fun wc : string * string =>
      let '(w, c) := wc in
      let sc := script_of w c in
      let scfull := script_of w "" in
      let model := pr_model d sc scfull n v path in
      (fst u ++ "." ++ tag ++ ".loop." ++ w ++ "." ++ c ++ "." ++ path_text path ++ tab ++
       "loop," ++ tag ++ "," ++ dtag d ++ "," ++ script_tag w c ++ "," ++ mtag model ++ tab ++
       fst u ++ ";p;loop;" ++ canon_of d ++ ";" ++ w ++ ";" ++ c ++ ";" ++ path_text path ++ ";" ++ pr_val true v ++ tab ++
       model ++ tab ++ pr_spec d sc scfull)%string)
    [("1", ""); ("0", ""); ("1", "B")])
  (hostile_values n).

Definition cases (tier : Z) (seed : Z) : list string :=
  flat_map case_lines (emit_units tier) ++ flat_map hostile_lines (emit_units tier).
