(* Gen/GenC09.v - the C09 stream: Loop of generated inspectors observed with a
   recording iterator.

   input:  <Type>;p;<op>;<canon>;<wants>;<ctls>;<path>;<value>
     op      loop     abstract trace (key texts parsed back, handed values followed through pointers)
             loopraw  concrete trace (raw key texts, handed values as handed) - model only, spec silent
     canon   o            rounds in call order (key texts kept as texts)
             s:<kind>     the path denotes a map with keys of <kind>: key texts are parsed back as
                          <kind>, rounds are sorted; when a Break fired only the number of rounds
                          and whether they are distinct rounds of the full iteration are printed
     wants   digits 0/1: does the iterator want the key in round i (last digit repeats)
     ctls    letters N/B/C: what Iterate answers in round i (N beyond the end)
   observation:  e=<err>;<body>
     o body   rounds joined by '|', a round = tokens joined by ',':
              R<0|1>  K<key dump>/<inspector>  V<value dump>/<inspector>/<readable>  I<N|B|C>
     s body   s;<sorted rounds without I tokens>;c=<ctl letters>      (no Break fired)
              b;n=<rounds>;sub=<0|1>;c=<ctl letters>                 (a Break fired)
   <readable> is a native check of the harness (the handed inspector reads the handed value);
   both columns expect 1.

   Histories (harness/emit/op_loophist.go): a caller makes many Loop calls and hands ONE key buffer of
   its own to all of them.
   input:  <Type>;p;lhist;<buf0>;<step>|<step>|...;<value>
     buf0    what the key buffer holds before the first call: n (a nil slice), e (empty, capacity 8), f (24 bytes of text)
     step    loop;<canon>;<wants>;<ctls>;<path>                     Loop over the object
             xloop;<Type2>;<value2>;<canon>;<wants>;<ctls>;<path>   Loop over a partner object of another unit
   observation:  <step>#<step>#...   a step = <observation of op loop>;look=<0|1>
   <look> is a native check of the harness: every key text handed over in that call, looked up by reflection in
   the collection the path denotes, is the key of the element handed over with it; both columns expect 1.
   The model column is Model/ApiSeq.run over the store of the history (the object, the partners); the spec column is the
   demand of the property for every call of the history. *)
From Coq Require Import List Bool String Ascii ZArith Arith.
From Verif Require Import Util Ints Strconv Floats Node GoSrc Value Outcome Nav Loop LoopSpec Api ApiSeq Shapes EnumVal GenUnits.
Import ListNotations.
Local Open Scope string_scope.
Local Open Scope list_scope.

(* ---------- scripts ---------- *)
Definition nth_last {A} (d : A) (l : list A) (i : nat) : A :=
  match nth_error l i with Some x => x | None => last l d end.

Definition ctl_of_ascii (c : ascii) : ctl :=
  if Ascii.eqb c "B"%char then CBrk else if Ascii.eqb c "C"%char then CCnt else CNone.

Definition script_of (w c : string) : script :=
  {| wants := fun i => Ascii.eqb (nth_last "1"%char (list_ascii_of_string w) i) "1"%char;
     ctls := fun i => match nth_error (list_ascii_of_string c) i with Some a => ctl_of_ascii a | None => CNone end |}.

Definition pr_ctl (c : ctl) : string := match c with CNone => "N" | CBrk => "B" | CCnt => "C" end.

(* ---------- canonical text of abstract traces ---------- *)
Definition pr_oval (o : option val) : string := match o with Some x => dump x | None => "nil" end.
Definition pr_okey (o : option val) : string := match o with Some x => dump x | None => "none" end.

Definition pr_sevent (e : sevent) : string :=
  match e with
  | SRequireKey b => if b then "R1" else "R0"
  | SKey k ins => "K" ++ pr_okey k ++ "/" ++ ins
  | SVal x ins => "V" ++ pr_oval x ++ "/" ++ ins ++ "/1"
  | SIterate c => "I" ++ pr_ctl c
  end.

Definition is_iter (e : sevent) : bool := match e with SIterate _ => true | _ => false end.

(* rounds: split after every Iterate *)
Fixpoint split_rounds (tr : list sevent) (cur : list sevent) : list (list sevent) :=
  match tr with
  | [] => match cur with [] => [] | _ => [rev cur] end
  | e :: r => if is_iter e then rev (e :: cur) :: split_rounds r [] else split_rounds r (e :: cur)
  end.

Definition pr_round (keep_iter : bool) (r : list sevent) : string :=
  join "," (map pr_sevent (filter (fun e => keep_iter || negb (is_iter e)) r)).

Definition ctl_letters (tr : list sevent) : string :=
  String.concat "" (flat_map (fun e => match e with SIterate c => [pr_ctl c] | _ => [] end) tr).

Definition broke (tr : list sevent) : bool :=
  match last tr (SRequireKey false) with SIterate CBrk => true | _ => false end.

(* multiset inclusion of texts *)
Fixpoint remove_one (x : string) (l : list string) : option (list string) :=
  match l with
  | [] => None
  | y :: r => if String.eqb x y then Some r else match remove_one x r with Some r' => Some (y :: r') | None => None end
  end.
Fixpoint sub_multiset (a b : list string) : bool :=
  match a with
  | [] => true
  | x :: r => match remove_one x b with Some b' => sub_multiset r b' | None => false end
  end.

(* [full]: the rounds of the complete iteration (for the sub= field) *)
Definition pr_trace (sorted : bool) (tr full : list sevent) : string :=
  if sorted then
    let rs := map (pr_round false) (split_rounds tr []) in
    if broke tr then
      "b;n=" ++ nat_to_string (List.length rs) ++ ";sub=" ++
      (if sub_multiset rs (map (pr_round false) (split_rounds full [])) then "1" else "0") ++ ";c=" ++ ctl_letters tr
    else "s;" ++ join "|" (sort_strs rs) ++ ";c=" ++ ctl_letters tr
  else "o;" ++ join "|" (map (pr_round true) (split_rounds tr [])).

(* ---------- the canon hint: how key texts are read back ---------- *)
Definition canon_of (d : ldemand) : string :=
  match d with LMap kn _ _ => "s:" ++ n_typu kn | _ => "o" end.
Definition kabs_of (d : ldemand) : string -> option val :=
  match d with LMap kn _ _ => map_kabs kn | _ => slice_kabs end.
Definition sorted_of (d : ldemand) : bool := match d with LMap _ _ _ => true | _ => false end.

Definition id_ord (l : list (val * val)) : list (val * val) := l.

Definition noscript : script := {| wants := fun _ => true; ctls := fun _ => CNone |}.

Definition has_unk (tr : trace) : bool :=
  existsb (fun e => match e with ESetKey t _ => String.eqb t "?" | _ => false end) tr.

(* the text of an outcome; [fullo]: the outcome of the complete iteration (for the sub= field) *)
Definition pr_outcome (d : ldemand) (o fullo : out trace) : string :=
  match o with
  | Panic k => "PANIC:" ++ pr_pkind k
  | Fall tr => "?"
  | Ret tr e =>
    if has_unk tr then "?" else
    let full := match fullo with Ret t _ => t | _ => [] end in
    "e=" ++ pr_err e ++ ";" ++ pr_trace (sorted_of d) (abstract (kabs_of d) tr) (abstract (kabs_of d) full)
  end.

(* the model column *)
Definition pr_model (d : ldemand) (sc scfull : script) (n : node) (v : val) (path : list string) : string :=
  pr_outcome d (loop_method sc id_ord n (APtr (Some v)) path) (loop_method scfull id_ord n (APtr (Some v)) path).

(* the spec column *)
Definition pr_spec (d : ldemand) (sc scfull : script) : string :=
  match d with
  | LAny => "*"
  | LNone => "e=nil;" ++ pr_trace false [] [] ++ " || e=parse;" ++ pr_trace false [] []
  | LSlice el es =>
    "e=nil;" ++ pr_trace false (spec_rounds sc (spec_ins el) 0 (index_items 0 es)) []
  | LMap kn vn kvs =>
    "e=nil;" ++ pr_trace true (spec_rounds sc (spec_ins vn) 0 (entry_items kvs))
                              (spec_rounds scfull (spec_ins vn) 0 (entry_items kvs))
  end.

(* ---------- the raw (concrete) trace ---------- *)
Definition pr_event_raw (e : event) : string :=
  match e with
  | ERequireKey b => if b then "R1" else "R0"
  | ESetKey t ins => "K" ++ hex_of_bytes (bytes_of_string t) ++ "/" ++ ins
  | ESetVal x ins => "V" ++ dump x ++ "/" ++ ins
  | EIterate c => "I" ++ pr_ctl c
  end.
Definition is_iter_raw (e : event) : bool := match e with EIterate _ => true | _ => false end.
Fixpoint split_raw (tr : trace) (cur : list event) : list (list event) :=
  match tr with
  | [] => match cur with [] => [] | _ => [rev cur] end
  | e :: r => if is_iter_raw e then rev (e :: cur) :: split_raw r [] else split_raw r (e :: cur)
  end.
Definition pr_raw (sorted : bool) (tr : trace) : string :=
  let rs := map (fun r => join "," (map pr_event_raw r)) (split_raw tr []) in
  if sorted then "s;" ++ join "|" (sort_strs rs) else "o;" ++ join "|" rs.

Definition pr_model_raw (d : ldemand) (sc : script) (n : node) (v : val) (path : list string) : string :=
  match loop_method sc id_ord n (APtr (Some v)) path with
  | Panic k => "PANIC:" ++ pr_pkind k
  | Fall tr => "?"
  | Ret tr e => if has_unk tr then "?" else "e=" ++ pr_err e ++ ";" ++ pr_raw (sorted_of d) tr
  end.

(* ---------- cases ---------- *)
Definition root_node (u : string * ty) : node := parse_ast_decl (pkg_of (fst u)) (imp_of (fst u)) (fst u) (snd u).

Definition demand_len (d : ldemand) : nat :=
  match d with LSlice _ es => List.length es | LMap _ _ kvs => List.length kvs | _ => 0 end.

(* ctl patterns for a collection of n elements: all None, all Continue, Break at every position
   (preceded by Continue / None alternately), Break beyond the end *)
Fixpoint repeat_str (s : string) (n : nat) : string := match n with O => "" | S k => s ++ repeat_str s k end.
Definition ctl_patterns (n : nat) : list string :=
  ["" ; repeat_str "C" (S n)] ++
  map (fun j => ((if Nat.even j then repeat_str "C" j else repeat_str "N" j) ++ "B")%string) (seqn (S n)) ++
  (match n with S (S _) => ["NCB"; "CN"] | _ => [] end).

Definition scripts_for (d : ldemand) : list (string * string) :=
  match d with
  | LSlice _ es =>
    flat_map (fun w => map (fun c => (w, c)) (ctl_patterns (List.length es))) ["1"; "0"] ++ [("10", ""); ("01", "CB")]
  | LMap _ _ kvs =>
    flat_map (fun w => map (fun c => (w, c)) (ctl_patterns (List.length kvs))) ["1"; "0"]
  | _ => [("1", "")]
  end.

Definition dtag (d : ldemand) : string :=
  match d with LSlice _ _ => "d:slice" | LMap _ _ _ => "d:map" | LNone => "d:none" | LAny => "d:any" end.

Definition script_tag (w c : string) : string :=
  "wk" ++ w ++ "," ++
  (if existsb (Ascii.eqb "B"%char) (list_ascii_of_string c) then "brk" else "nobrk") ++
  (if existsb (Ascii.eqb "C"%char) (list_ascii_of_string c) then ",cnt" else "").

Definition mtag (s : string) : string :=
  if String.prefix "PANIC" s then "m:panic" else if String.prefix "e=parse" s then "m:err"
  else if String.eqb s "?" then "m:unknown" else "m:ok".

Definition case_lines (u : string * ty) : list string :=
  let n := root_node u in
  flat_map (fun iv : nat * val =>
    let '(vi, v) := iv in
    flat_map (fun pt : tagged =>
      let '(path, ptag) := pt in
      let d := loop_demand n v path in
      let canon := canon_of d in
      let mk (op w c model spec : string) : string :=
        (fst u ++ "." ++ nat_to_string vi ++ "." ++ op ++ "." ++ w ++ "." ++ c ++ "." ++ path_text path ++ tab ++
        op ++ "," ++ ptag ++ "," ++ dtag d ++ "," ++ script_tag w c ++ "," ++ mtag model ++ tab ++
        fst u ++ ";p;" ++ op ++ ";" ++ canon ++ ";" ++ w ++ ";" ++ c ++ ";" ++ path_text path ++ ";" ++ pr_val true v ++ tab ++
        model ++ tab ++ spec)%string in
      flat_map (fun wc : string * string =>
        let '(w, c) := wc in
        let sc := script_of w c in
        let scfull := script_of w "" in
        [mk "loop" w c (pr_model d sc scfull n v path) (pr_spec d sc scfull)])
        (scripts_for d) ++
      (if is_coll d then
         let c := if sorted_of d then "" else "C" in
         [mk "loopraw" "1" c (pr_model_raw d (script_of "1" c) n v path) "*"] else []))
    (paths n v))
  (combine (seqn (List.length (variants n))) (variants n)).

(* ---------- hostile keys: a nil pointer key, a NaN key (single-field structs with a map field) ---------- *)
Definition hostile_values (n : node) : list (string * list string * val) :=
  match n_typ n, n_chld n with
  | typeStruct, [ch] =>
    match n_typ ch, n_mapk ch, n_mapv ch with
    | typeMap, Some kn, Some vn =>
      let vs := variants vn in
      let e1 := nth_mod (VInt 0) vs 1 in let e2 := nth_mod (VInt 0) vs 2 in
      let wrap (m : val) : val := VStruct [if n_ptr ch then VPtr (Some m) else m] in
      (if n_ptr kn then [("nilkey", [n_name ch], wrap (VMap false [(VPtr None, e1)]))] else []) ++
      (match node_skind kn with
       | Some SF64 | Some SF32 =>
         let k (f : val) : val := if n_ptr kn then VPtr (Some f) else f in
         [("nankey", [n_name ch], wrap (VMap false [(k (VFloat Floats.SpecFloat.S754_nan), e1); (k (fl 3 (-1)), e2)]))]
       | _ => []
       end)
    | _, _, _ => []
    end
  | _, _ => []
  end.

Definition hostile_lines (u : string * ty) : list string :=
  let n := root_node u in
  flat_map (fun h : string * list string * val =>
    let '(tag, path, v) := h in
    let d := loop_demand n v path in
    map (fun wc : string * string =>
      let '(w, c) := wc in
      let sc := script_of w c in
      let scfull := script_of w "" in
      let model := pr_model d sc scfull n v path in
      (fst u ++ "." ++ tag ++ ".loop." ++ w ++ "." ++ c ++ "." ++ path_text path ++ tab ++
       "loop," ++ tag ++ "," ++ dtag d ++ "," ++ script_tag w c ++ "," ++ mtag model ++ tab ++
       fst u ++ ";p;loop;" ++ canon_of d ++ ";" ++ w ++ ";" ++ c ++ ";" ++ path_text path ++ ";" ++ pr_val true v ++ tab ++
       model ++ tab ++ pr_spec d sc scfull)%string)
    [("1", ""); ("0", ""); ("1", "B")])
  (hostile_values n).


(* ---------- histories: Loop calls that share ONE caller-owned key buffer ----------
   The property speaks of every Loop call; a caller hands the same key buffer to all its calls.  A history is
   a first Loop over a collection A, a Loop over another collection B - of the same object, or of a partner object
   of another unit - whose keys get into the buffer in another way, and A again: the demand is checked for every call.
   Key classes = the ways the emitted code fills the buffer: string (the key's own bytes), slice (the index), int,
   uint, float, bool (a rendering).  The first call runs under a rotation of the control patterns (Break at every
   position: another element is the last one whose key the buffer saw). *)
Definition kclass (d : ldemand) : string :=
  match d with
  | LSlice _ _ => "slice"
  | LMap kn _ _ =>
    match node_skind kn with
    | Some SString => "string"
    | Some (SInt i) => if is_signed i then "int" else "uint"
    | Some SByte => "uint"
    | Some (SF32 | SF64) => "float"
    | Some SBool => "bool"
    | None => "other"
    end
  | _ => "none"
  end.

Definition hclasses : list string := ["string"; "slice"; "int"; "uint"; "float"; "bool"].

(* string keys longer than any other key text (an index, a number, true/false): whatever is rendered next into a
   buffer that still has to do with such a key fits into it *)
Definition hlong_key (k : val) : val :=
  match k with
  | VStr s => VStr (s ++ "-0123456789abcdefghij")
  | VPtr (Some (VStr s)) => VPtr (Some (VStr (s ++ "-0123456789abcdefghij")))
  | _ => k
  end.
Fixpoint hlong_keys (v : val) {struct v} : val :=
  match v with
  | VStruct fs => VStruct ((fix go (l : list val) : list val := match l with [] => [] | x :: r => hlong_keys x :: go r end) fs)
  | VSlice n es e => VSlice n ((fix go (l : list val) : list val := match l with [] => [] | x :: r => hlong_keys x :: go r end) es) e
  | VMap n kvs => VMap n ((fix go (l : list (val * val)) : list (val * val) :=
                             match l with [] => [] | (k, x) :: r => (hlong_key k, hlong_keys x) :: go r end) kvs)
  | VPtr (Some x) => VPtr (Some (hlong_keys x))
  | _ => v
  end.

(* the paths that denote a non-empty collection *)
Definition live_colls (n : node) (v : val) : list (list string) :=
  filter (fun p => Nat.ltb 0 (demand_len (loop_demand n v p)))
         (map fst (filter (fun pt : tagged => String.eqb (snd pt) "end") (paths n v))).

(* a partner: unit, node, value, a path that denotes a collection of at least two elements *)
Definition hpartner := (string * node * val * list string)%type.

Definition hpartner_in (cls : string) (u : string * ty) : list hpartner :=
  let n := root_node u in
  take 1 (flat_map (fun v0 =>
            let v := hlong_keys v0 in
            map (fun p => (fst u, n, v, p))
                (filter (fun p => let d := loop_demand n v p in String.eqb (kclass d) cls && Nat.ltb 1 (demand_len d))
                        (live_colls n v)))
          (rev (variants n))).
Fixpoint find_hpartner (cls : string) (us : list (string * ty)) : list hpartner :=
  match us with
  | [] => []
  | u :: r => match hpartner_in cls u with [] => find_hpartner cls r | l => l end
  end.
(* one partner per key class, from the first unit that has such a collection *)
Definition hpartners (us : list (string * ty)) : list (string * hpartner) :=
  flat_map (fun cls => map (fun pa => (cls, pa)) (find_hpartner cls us)) hclasses.

Record hstep := HStep {
  hs_text : string;              (* the step in the input *)
  hs_step : ApiSeq.step;         (* the step of the model: object of the store, call *)
  hs_d : ldemand;                (* what the path denotes in that object *)
  hs_sc : script; hs_scfull : script;
  hs_full : out trace }.         (* the complete iteration (canonical text under Break) *)

Definition mk_hstep (kw : string) (obj : nat) (n : node) (v : val) (w c : string) (path : list string) : hstep :=
  let d := loop_demand n v path in
  HStep (kw ++ ";" ++ canon_of d ++ ";" ++ w ++ ";" ++ c ++ ";" ++ path_text path)%string
        (obj, KLoop (script_of w c) id_ord path) d (script_of w c) (script_of w "")
        (loop_method (script_of w "") id_ord n (APtr (Some v)) path).

Definition with_look (t : string) : string := if String.prefix "PANIC" t then t else (t ++ ";look=1")%string.

(* the model column: the answers of Model/ApiSeq.run on the store of the history *)
Definition hist_model (s : ApiSeq.store) (hs : list hstep) : string :=
  let texts := map (fun x : hstep * (option answer * ApiSeq.store) =>
                      match fst (snd x) with
                      | Some (AnsTrace o) => pr_outcome (hs_d (fst x)) o (hs_full (fst x))
                      | _ => "?"
                      end)
                   (combine hs (ApiSeq.run s (map hs_step hs))) in
  if existsb (String.eqb "?") texts then "?" else join "#" (map with_look texts).

(* the spec column: the demand of the property for every call *)
Definition hist_spec (hs : list hstep) : string :=
  join "#" (map (fun h => (pr_spec (hs_d h) (hs_sc h) (hs_scfull h) ++ ";look=1")%string) hs).

(* what can come between the two calls over A: key class, a collection of the object itself?, the step under a control pattern *)
Definition hcand := (string * bool * (string -> hstep))%type.
Definition hc_class (x : hcand) : string := fst (fst x).

Definition hist_lines (pas : list (string * hpartner)) (u : string * ty) : list string :=
  let n := root_node u in
  let us := fold_left (fun a c => a + nat_of_ascii c) (list_ascii_of_string (fst u)) 0 in
  let pobjs : ApiSeq.store :=
    map (fun cp : string * hpartner => let '(_, (_, n2, v2, _)) := cp in (n2, APtr (Some v2))) pas in
  let pcands : list hcand :=
    map (fun jp : nat * (string * hpartner) =>
           let '(j, (cls, (u2, n2, v2, p2))) := jp in
           (cls, false, fun c => mk_hstep ("xloop;" ++ u2 ++ ";" ++ pr_val true v2)%string (S j) n2 v2 "1" c p2))
        (combine (seqn (List.length pas)) pas) in
  flat_map (fun iv : nat * val =>
    let '(vi, v0) := iv in
    let v := hlong_keys v0 in
    let colls := map (fun p => (p, loop_demand n v p)) (live_colls n v) in
    let store : ApiSeq.store := (n, APtr (Some v)) :: pobjs in
    let own : list hcand :=
      map (fun pd : list string * ldemand => (kclass (snd pd), true, fun c => mk_hstep "loop" 0 n v "1" c (fst pd))) colls in
    flat_map (fun ia : nat * (list string * ldemand) =>
      let '(ai, (pa, da)) := ia in
      let ca := kclass da in
      let cands := filter (fun x => negb (String.eqb (hc_class x) ca)) (own ++ pcands) in
      let pick (cls : string) : list hcand := take 1 (filter (fun x => String.eqb (hc_class x) cls) cands) in
      (* after a string-keyed map: every other way of filling the buffer; after any other collection: a string-keyed
         map and one of the others in rotation *)
      let bs : list hcand :=
        if String.eqb ca "string" then flat_map pick hclasses
        else pick "string" ++
             match filter (fun x => negb (String.eqb (hc_class x) "string")) cands with
             | [] => []
             | x :: r => [nth_mod x (x :: r) (us + vi + ai)]
             end in
      map (fun ib : nat * hcand =>
        let '(bi, (cb, isown, mkb)) := ib in
        let r := us + vi + ai + bi in
        let c1 := nth_mod "" (ctl_patterns (demand_len da)) r in
        (* which round of a map comes first is the oracle's: alternating wishes for slices only *)
        let w1 := if negb (sorted_of da) && Nat.eqb (Nat.modulo r 5) 4 then "01" else "1" in
        let c2 := nth_mod "" [""; "C"; "NB"; "B"] r in
        let c3 := if Nat.even r then "" else "C" in
        let b0 := nth_mod "e" ["e"; "n"; "f"] r in
        let hs := [mk_hstep "loop" 0 n v w1 c1 pa; mkb c2; mk_hstep "loop" 0 n v "1" c3 pa] in
        let model := hist_model store hs in
        (fst u ++ "." ++ nat_to_string vi ++ ".lhist." ++ nat_to_string ai ++ "." ++ nat_to_string bi ++ tab ++
         "lhist,A:" ++ ca ++ ",B:" ++ cb ++ "," ++ (if isown then "own" else "partner") ++ ",buf:" ++ b0 ++ "," ++
         script_tag w1 c1 ++ "," ++ mtag model ++ tab ++
         fst u ++ ";p;lhist;" ++ b0 ++ ";" ++ join "|" (map hs_text hs) ++ ";" ++ pr_val true v ++ tab ++
         model ++ tab ++ hist_spec hs)%string)
      (combine (seqn (List.length bs)) bs))
    (combine (seqn (List.length colls)) colls))
  (combine (seqn (List.length (variants n))) (variants n)).

Definition cases (tier : Z) (seed : Z) : list string :=
  flat_map case_lines (emit_units tier) ++ flat_map hostile_lines (emit_units tier) ++
  (let pas := hpartners (emit_units tier) in flat_map (hist_lines pas) (emit_units tier)).
