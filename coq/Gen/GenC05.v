(* Gen/GenC05.v - the C05 stream: DeepEqual of generated inspectors on pairs
   (a, a itself), (a, independent structural copy), (a, copy with one mutation at every
   position), both argument orders in every case. *)
From Coq Require Import List Bool String Ascii ZArith Arith Floats.SpecFloat.
From Verif Require Import Util Ints Strconv Floats Node GoSrc Value Outcome Deq DeqSpec Shapes EnumVal GenUnits GenDeq.
Import ListNotations.
Local Open Scope string_scope.

Definition c05_spec (sh : bool) (n : node) (a b : val) : demand := c05_demand sh n a b.

Definition case_lines (u : string * ty) : list string :=
  let n := root_node u in
  let pk := if has_ptrkey n then ",ptrkey" else "" in
  flat_map (fun iv : nat * val =>
    let '(vi, a) := iv in
    let base := fst u ++ "." ++ nat_to_string vi in
    let d_same := c05_spec true n a a in
    let d_copy := c05_spec false n a a in
    ([ deq_line (base ++ ".same") ("same," ++ demand_tag d_same ++ pk) (fst u) n "p" "p" false None true a a (pr_demand d_same);
      deq_line (base ++ ".copy") ("copy," ++ demand_tag d_copy ++ pk) (fst u) n "p" "p" false None false a a (pr_demand d_copy) ] ++
    map (fun jm : nat * mutn =>
      let '(j, (t, fp, b)) := jm in
      let d := c05_spec false n a b in
      deq_line (base ++ ".m" ++ nat_to_string j) ("mut," ++ t ++ "," ++ demand_tag d ++ pk) (fst u) n "p" "p" false None false a b (pr_demand d))
      (combine (seqn (List.length (muts n a))) (muts n a)) ++
    (* the header: other argument forms, typed and untyped nils, foreign types (C12 owns the claims) *)
    (if Nat.eqb vi 0 then
       map (fun fr : string * string =>
         let '(lf, rf) := fr in
         deq_line (base ++ ".form." ++ lf ++ "." ++ rf) ("forms," ++ lf ++ "-" ++ rf) (fst u) n lf rf false None false a a "*")
         [("v", "v"); ("pp", "p"); ("p", "v"); ("np", "np"); ("np", "p"); ("p", "npp"); ("npp", "np"); ("nil", "nil");
          ("nil", "p"); ("foreign", "p"); ("p", "foreign"); ("nilpp", "p"); ("foreign", "nilpp")]
     else []))%list)
  (combine (seqn (List.length (variants n))) (variants n)).

(* the argument-form matrix (GenDeq.v): every combination of (T, *T, **T) x (T, *T, **T), both orders, on
   (a, a itself) and (a, independent copy) of the richest variant, and on the first mutation of every kind
   (scalar, string, bytes, f10, f01, key+, key-, keyren, len+, len-, ptrnil, ptrset, nilempty) the unit has,
   looking through its variants in order *)
Definition matrix_lines (u : string * ty) : list string :=
  let n := root_node u in
  let pk := if has_ptrkey n then ",ptrkey" else "" in
  let vs := combine (seqn (List.length (variants n))) (variants n) in
  let r := richest n vs in
  List.app
  (flat_map (fun iv : nat * val =>
     let '(vi, a) := iv in
     if Nat.eqb vi r then
       let base := fst u ++ "." ++ nat_to_string vi ++ ".fm" in
       let d_same := c05_spec true n a a in
       let d_copy := c05_spec false n a a in
       [ deqm_line (base ++ ".same") ("formmatrix,same," ++ demand_tag d_same ++ pk) (fst u) n false None true a a d_same;
         deqm_line (base ++ ".copy") ("formmatrix,copy," ++ demand_tag d_copy ++ pk) (fst u) n false None false a a d_copy ]
     else []) vs)
  (map (fun x : (nat * val) * (nat * mutn) =>
     let '((vi, a), (j, (t, fp, b))) := x in
     let d := c05_spec false n a b in
     deqm_line (fst u ++ "." ++ nat_to_string vi ++ ".fm.m" ++ nat_to_string j)
               ("formmatrix,mut," ++ t ++ "," ++ demand_tag d ++ pk) (fst u) n false None false a b d)
     (first_of_tag (fun x : (nat * val) * (nat * mutn) => fst (fst (snd (snd x)))) []
        (flat_map (fun iv : nat * val =>
           map (fun jm => (iv, jm)) (combine (seqn (List.length (muts n (snd iv)))) (muts n (snd iv)))) vs))).

Definition cases (tier : Z) (seed : Z) : list string :=
  (flat_map case_lines (emit_units tier) ++ flat_map matrix_lines (emit_units tier))%list.
