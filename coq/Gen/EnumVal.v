(* Gen/EnumVal.v - value classes and paths for a node, for the emitter streams:
   every pointer nil or set, every map/slice nil, empty or populated, nil
   elements, boundary scalars, empty and multi-byte strings; every resolving
   path and, at every position, the unknown-field, absent-key, index
   -1 / len / len+1 / huge, unparsable and nil-pointer-on-the-way variants. *)
From Coq Require Import List Bool String Ascii ZArith Arith Floats.SpecFloat.
From Verif Require Import Util Ints Strconv Floats Node Value Outcome.
Import ListNotations.
Local Open Scope string_scope.
Local Open Scope list_scope.

Definition fl (m e : Z) : val := VFloat (norm64 m e).

Definition multibyte : string := String (ascii_of_nat 195) (String (ascii_of_nat 169) "z").   (* "e-acute z" in UTF-8 *)

(* 40 characters: longer than any inline or small-buffer threshold one would pick for short strings *)
Definition long_text : string := "the quick brown fox jumps over the lazy ".

Definition scalar_variants (k : skind) : list val :=
  match k with
  | SBool => [VBool false; VBool true]
  | SInt i => [VInt 0; VInt 5; VInt (kmax i); VInt (kmin i)]
  | SByte => [VInt 0; VInt 65; VInt 255]
  | SF32 => [fl 0 0; fl 3 (-1); fl (-5) (-2); fl 32769 (-1)]                (* 16384.5: a magnitude at which a relative tolerance would differ from the absolute one *)
  | SF64 => [fl 0 0; fl 3 (-1); fl (-1001) (-3); fl 1 60; fl 32769 (-1)]
  | SString => [VStr ""; VStr "ab"; VStr multibyte; VStr long_text]
  end.

(* two distinct keys per key kind whose text form parses back to them *)
Definition key_variants (k : skind) : list val :=
  match k with
  | SInt i => if is_signed i then [VInt 1; VInt (-3)] else [VInt 1; VInt (kmax i)]   (* the largest key: above 2^63 for uint64 *)
  | SByte => [VInt 1; VInt 3]
  | SF32 => [fl 3 (-1); fl 2 0]
  | SF64 => [fl 3 (-1); fl 16777217 0]      (* 2^24+1: exact in float64, not representable in float32 *)
  | SString => [VStr "a"; VStr ""]          (* the empty string is a key like any other *)
  | SBool => [VBool true; VBool false]
  end.

Fixpoint take {A} (n : nat) (l : list A) : list A :=
  match n, l with O, _ => [] | _, [] => [] | S k, x :: r => x :: take k r end.

Definition nth_mod {A} (d : A) (l : list A) (i : nat) : A :=
  match l with [] => d | _ => nth (Nat.modulo i (List.length l)) l d end.

Fixpoint seqn (n : nat) : list nat := match n with O => [] | S k => seqn k ++ [k] end.

(* length of the long slice variant: indices 10, 11 and 12 have two digits (a key or index handled digit by digit, a
   one-digit shortcut with an off-by-one bound) *)
Definition long_len : nat := 13.

(* value variants of a node; [wide] = number of variants kept per struct *)
Fixpoint variants (n : node) {struct n} : list val :=
  match n with
  | Node ty tn tu nm pk pki p chld mk mv sl hb hc =>
    let inner : list val :=
      match ty with
      | typeBasic => match skind_of_name tu with Some k => scalar_variants k | None => [VInt 0] end
      | typeStruct =>
        let fvs := (fix go (l : list node) : list (list val) :=
                      match l with [] => [] | c :: r => variants c :: go r end) chld in
        let width := fold_left Nat.max (map (@List.length val) fvs) 1 in
        map (fun j => VStruct (map (fun vs => nth_mod (VInt 0) vs j) fvs)) (seqn (Nat.min width 6))
      | typeMap =>
        match mk, mv with
        | Some kn, Some vn =>
          let ks := match node_skind kn with Some k => key_variants k | None => [] end in
          let ks := if n_ptr kn then map (fun k => VPtr (Some k)) ks else ks in
          let vs := variants vn in
          let k1 := nth 0 ks (VInt 0) in let k2 := nth 1 ks (VInt 1) in
          (* (the second key holds a value that is not the zero value: an entry that is skipped or lost must show) *)
          [VMap true []; VMap false []; VMap false [(k1, nth_mod (VInt 0) vs 0)];
           VMap false [(k1, nth_mod (VInt 0) vs 2); (k2, nth_mod (VInt 0) vs 1)]]
        | _, _ => []
        end
      | typeSlice =>
        if String.eqb tn "[]byte" then [VBytes true [] 0; VBytes false [] 0; VBytes false (bytes_of_string "xy") 3; VBytes false [] 4]   (* the last: emptied by x = x[:0], capacity kept *)
        else match sl with
             | Some en =>
               let vs := variants en in
               [VSlice true [] 0; VSlice false [] 2; VSlice false [nth_mod (VInt 0) vs 1] 0;
                VSlice false [nth_mod (VInt 0) vs 2; nth_mod (VInt 0) vs 0; nth_mod (VInt 0) vs 1] 1;
                VSlice false [nth_mod (VInt 0) vs 1; nth_mod (VInt 0) vs 2] 0;     (* other elements at the same indices *)
                VSlice false (map (fun i => nth_mod (VInt 0) vs i) (seqn long_len)) 3]   (* two-digit indices *)
             | None => []
             end
      end in
    if p then VPtr None :: map (fun x => VPtr (Some x)) inner else inner
  end.

(* the same value with every float replaced by +Inf (a float that is within no tolerance of
   itself): used where non-finite floats are inside a property's quantifier (C12), kept out of
   [variants] because C05/C06/C08 quantify over finite floats *)
Fixpoint inf_floats (v : val) {struct v} : val :=
  match v with
  | VFloat _ => VFloat (S754_infinity false)
  | VStruct fs => VStruct ((fix go (l : list val) : list val := match l with [] => [] | x :: r => inf_floats x :: go r end) fs)
  | VSlice n es e => VSlice n ((fix go (l : list val) : list val := match l with [] => [] | x :: r => inf_floats x :: go r end) es) e
  | VMap n kvs => VMap n ((fix go (l : list (val * val)) : list (val * val) :=
                             match l with [] => [] | (k, x) :: r => (k, inf_floats x) :: go r end) kvs)
  | VPtr (Some x) => VPtr (Some (inf_floats x))
  | _ => v
  end.

(* the same value with the first key of every map with float keys replaced by NaN (a key no lookup finds again: code that
   stores an entry back under its key inserts a new entry instead) *)
Fixpoint nan_keys (v : val) {struct v} : val :=
  match v with
  | VStruct fs => VStruct ((fix go (l : list val) : list val := match l with [] => [] | x :: r => nan_keys x :: go r end) fs)
  | VSlice n es e => VSlice n ((fix go (l : list val) : list val := match l with [] => [] | x :: r => nan_keys x :: go r end) es) e
  | VMap n kvs =>
    let kvs' := (fix go (l : list (val * val)) : list (val * val) :=
                   match l with [] => [] | (k, x) :: r => (k, nan_keys x) :: go r end) kvs in
    VMap n (match kvs' with
            | (VFloat _, x) :: r => (VFloat S754_nan, x) :: r
            | l => l
            end)
  | VPtr (Some x) => VPtr (Some (nan_keys x))
  | _ => v
  end.

(* ---------- paths ---------- *)
(* text of a key / index that converts back to it *)
Definition key_text (k : val) : string :=
  match k with
  | VInt z => Z_to_string z
  | VStr s => s
  | VBool b => if b then "true" else "false"
  | VFloat f => match render_float f with Some t => t | None => "0" end
  | VPtr (Some (VInt z)) => Z_to_string z
  | VPtr (Some (VStr s)) => s
  | VPtr (Some (VFloat f)) => match render_float f with Some t => t | None => "0" end
  | _ => "?"
  end.

(* one plausible segment below a node whatever the value (to walk past nil pointers) *)
Definition plausible_seg (n : node) : list string :=
  match n_typ n with
  | typeStruct => map n_name (take 2 (n_chld n))
  | typeMap => match n_mapk n with
               | Some kn => match node_skind kn with
                            | Some SString => ["a"] | Some (SF32 | SF64) => ["1.5"] | _ => ["1"]
                            end
               | None => []
               end
  | typeSlice => if String.eqb (n_typn n) "[]byte" then [] else ["0"]
  | typeBasic => []
  end.

Definition tagged := (list string * string)%type.
Definition pre (s : string) (l : list tagged) : list tagged := map (fun p => (s :: fst p, snd p)) l.

Definition huge_index : string := "99999999999999999999".

(* [paths n v]: paths from a value of node n, tagged with the class of their last interesting step.
   [full] = also descend into every field of nested structs (otherwise the first two). *)
Fixpoint paths (n : node) (v : val) {struct n} : list tagged :=
  match n with
  | Node ty tn tu nm pk pki p chld mk mv sl hb hc =>
    let below (x : val) : list tagged :=
      match ty with
      | typeStruct =>
        match x with
        | VStruct fs =>
          (fix go (cs : list node) (fs : list val) : list tagged :=
             match cs, fs with
             | c :: cr, f :: fr => pre (n_name c) (paths c f) ++ go cr fr
             | _, _ => []
             end) chld fs ++ [(["Zz"], "unknown"); (["Zz"; "q"], "unknown")]
        | _ => []
        end
      | typeMap =>
        match x, mk, mv with
        | VMap _ kvs, Some kn, Some vn =>
          flat_map (fun kv => pre (key_text (fst kv)) (paths vn (snd kv))) kvs ++
          (if is_string_key kn then [(["zz"], "absent"); (["zz"; "q"], "absent")]
           else [(["77"], "absent"); (["77"; "q"], "absent"); (["x!"], "unparsable"); ([""], "unparsable"); (["0x1"], "absent");
                 (["-1"], "negkey"); (["-255"], "negkey"); (["256"], "widekey"); (["18446744073709551616"], "hugekey")])
        | _, _, _ => []
        end
      | typeSlice =>
        if String.eqb tn "[]byte" then [(["q"], "past")] else
        match x, sl with
        | VSlice _ es _, Some en =>
          let len := List.length es in
          (fix go (i : nat) (es : list val) : list tagged :=
             match es with
             | [] => []
             | e :: r => (if Nat.ltb 6 len && Nat.leb 2 i && Nat.ltb (i + 4) len then [] else pre (nat_to_string i) (paths en e)) ++ go (S i) r
             end) 0%nat es ++
          [(["-1"], "index-1"); ([nat_to_string len], "indexlen"); ([nat_to_string (S len)], "indexlen1");
           ([huge_index], "indexhuge"); (["x!"], "unparsable"); (["-1"; "q"], "index-1"); ([nat_to_string len; "q"], "indexlen");
           (* parsable 64-bit indices whose low 32 bits are small: a guard that compares in 32 bits lets them through *)
           (["4294967296"], "index2p32"); (["4611686018427387904"], "index2p62"); (["-4294967295"], "indexneg2p32");
           (["-9223372036854775808"], "indexmin64");
           (["9223372036854775808"], "index2p63"); (["18446744073709551615"], "index2p64m1"); (["0xffffffffffffffff"], "index2p64m1");
           ([""], "emptyseg"); (["08"], "unparsable"); (["00"], "octal"); (["0o1"], "octal"); (["+0"], "signed"); (["0_0"], "underscore")] ++
          (match es with [] => [] | e :: _ => pre "0x0" (take 2 (paths en e)) end)
        | _, _ => []
        end
      | typeBasic => [(["q"], "past")]
      end in
    ([], "end") ::
    (if p then
       match v with
       | VPtr (Some x) => below x
       | _ => map (fun s => ([s], "nilptr")) (plausible_seg n)
       end
     else below v)
  end.

(* ---------- path text: hex segments joined by '.', '-' when empty ---------- *)
Definition path_text (p : list string) : string :=
  match p with
  | [] => "-"
  | _ => join "." (map (fun s => hex_of_bytes (bytes_of_string s)) p)
  end.
