(* Gen/GenC01.v - the C01 stream (with the aliasing clause of C15): Get and GetTo of
   generated inspectors. *)
From Coq Require Import List Bool String Ascii ZArith Arith.
From Verif Require Import Util Ints Node GoSrc Value Outcome Nav LCSpec Get GetSpec Shapes EnumVal GenUnits.
Import ListNotations.
Local Open Scope string_scope.

Inductive gop := OpGet | OpGetTo.

(* GetTo is run with a sentinel in *buf: "same" = the buffer still holds it *)
Definition sentinel : ref := Ref (VStr "<sentinel>") [SDeref; SDeref; SDeref] true.
Definition is_sentinel (r : ref) : bool :=
  match r_val r, r_loc r with VStr s, [SDeref; SDeref; SDeref] => String.eqb s "<sentinel>" | _, _ => false end.

Definition none_text (op : gop) : string := match op with OpGet => "none" | OpGetTo => "same" end.

Definition bit (b : bool) : string := if b then "1" else "0".

(* live: the object the reference finally denotes is not a copy and sits at the access path
   [eloc] native navigation of the path reaches (the harness compares addresses) *)
Definition pr_buf (eloc : option loc) (b : option ref) : string :=
  match b with
  | None => "v=none;live=0"
  | Some r =>
    if is_sentinel r then "v=same;live=0" else
    match final r with
    | None => "v=nil;live=0"
    | Some (x, l, cp) =>
      "v=" ++ dump x ++ ";live=" ++ bit (negb cp && match eloc with Some l' => loc_eqb l l' | None => false end)
    end
  end.

Definition pr_out (eloc : option loc) (o : out (option ref)) : string :=
  match o with
  | Panic k => "PANIC:" ++ pr_pkind k
  | Ret b None | Fall b => "e=nil;" ++ pr_buf eloc b
  | Ret _ (Some e) => "e=" ++ pr_err (Some e)
  end.

(* [must_live]: the C15 clause demands the live element *)
Definition pr_want (op : gop) (must_live : bool) (w : want) : list string :=
  match w with
  | WVal x => (if must_live then [] else ["e=nil;v=" ++ dump x ++ ";live=0"]) ++ ["e=nil;v=" ++ dump x ++ ";live=1"]
  | WNil => ["e=nil;v=nil;live=0"]
  | WNone => ["e=nil;v=" ++ none_text op ++ ";live=0"]
  | WErr => ["e=parse"]
  end.

Definition pr_demand (op : gop) (must_live : bool) (d : option (list want)) : string :=
  match d with
  | None => "*"
  | Some ws => join " || " (flat_map (pr_want op must_live) ws)
  end.

Definition out_kind (o : out (option ref)) : string :=
  match o with
  | Panic k => "m:panic-" ++ pr_pkind k
  | Ret _ (Some _) => "m:err"
  | Ret b None | Fall b =>
    match obs_of_buf b with BNone => "m:none" | BNil => "m:nil" | BVal _ true => "m:live" | BVal _ false => "m:copy" end
  end.

Definition nav_tag (n : node) (v : val) (path : list string) : string :=
  match nav n v path with
  | NElem _ e => match fin e with Some _ => "n:elem" | None => "n:nilelem" end
  | NNone WUnknownField => "n:unknownfield"
  | NNone WAbsentKey => "n:absentkey"
  | NNone WIndexRange => "n:indexrange"
  | NNone WNilPointer => "n:nilpointer"
  | NNone WPointerKey => "n:pointerkey"
  | NBad => "n:bad"
  | NUnspec => "n:unspec"
  end.

Definition root_node (u : string * ty) : node := parse_ast_decl (pkg_of (fst u)) (imp_of (fst u)) (fst u) (snd u).

Definition run (op : gop) (n : node) (v : val) (path : list string) : out (option ref) :=
  match op with
  | OpGet => get false n (APtr (Some v)) path
  | OpGetTo => get_to false n (APtr (Some v)) path (Some sentinel)
  end.

Definition case_lines (u : string * ty) : list string :=
  let n := root_node u in
  flat_map (fun iv : nat * val =>
    let '(vi, v) := iv in
    flat_map (fun pt : tagged =>
      let '(path, ptag) := pt in
      let d := get_demand n v path in
      let ml := match live_loc n v path with Some _ => true | None => false end in
      map (fun op : gop =>
        let o := run op n v path in
        let opn := match op with OpGet => "get" | OpGetTo => "getto" end in
        fst u ++ "." ++ nat_to_string vi ++ "." ++ opn ++ "." ++ path_text path ++ tab ++
        opn ++ "," ++ ptag ++ "," ++ nav_tag n v path ++ (if ml then ",mustlive" else "") ++ "," ++ out_kind o ++ tab ++
        fst u ++ ";p;" ++ opn ++ ";" ++ path_text path ++ ";" ++ pr_val true v ++ tab ++
        pr_out (elem_loc n v path) o ++ tab ++ pr_demand op ml d)
      [OpGet; OpGetTo]) (paths n v))
  (combine (seqn (List.length (variants n))) (variants n)).

Definition cases (tier : Z) (seed : Z) : list string := flat_map case_lines (emit_units tier).
