(* Gen/GenC01.v - the C01 stream (with the aliasing clause of C15): Get and GetTo of
   generated inspectors. *)
From Coq Require Import List Bool String Ascii ZArith Arith.
From Verif Require Import Util Ints Node GoSrc Value Outcome Nav LCSpec Get GetSpec Shapes EnumVal GenUnits.
Import ListNotations.
Local Open Scope string_scope.

Inductive gop := OpGet | OpGetTo.

(* GetTo is run with a sentinel in *buf: "same" = the buffer still holds it *)
Definition sentinel : ref := Ref (VStr "<sentinel>") [SDeref; SDeref; SDeref] true.
Definition is_sentinel (r : ref) : bool :=
  match r_val r, r_loc r with VStr s, [SDeref; SDeref; SDeref] => String.eqb s "<sentinel>" | _, _ => false end.

Definition none_text (op : gop) : string := match op with OpGet => "none" | OpGetTo => "same" end.

Definition bit (b : bool) : string := if b then "1" else "0".

(* Type-directed dump: reflection cannot tell []uint8 from []byte, the harness prints both as
   bytes; the model keeps a []uint8 (an indexable slice for the emitter) as a VSlice. *)
Definition is_u8 (en : node) : bool :=
  negb (n_ptr en) && (String.eqb (n_typu en) "uint8" || String.eqb (n_typu en) "byte").
Definition byte_of_val (x : val) : ascii := match x with VInt z => ascii_of_N (Z.to_N z) | _ => zero end.

Fixpoint dump_n (n : node) (x : val) {struct n} : string :=
  match n with
  | Node ty tn tu nm pk pki p chld mk mv sl hb hc =>
    let inner (y : val) : string :=
      match ty with
      | typeStruct =>
        match y with
        | VStruct fs =>
          "{" ++ join "," ((fix go (cs : list node) (fs : list val) : list string :=
                              match cs, fs with
                              | c :: cr, f :: fr => dump_n c f :: go cr fr
                              | _, _ => []
                              end) chld fs) ++ "}"
        | _ => dump y
        end
      | typeSlice =>
        match y, sl with
        | VSlice isnil es _, Some en =>
          if isnil then "nil"
          else if is_u8 en then "b" ++ hex_of_bytes (map byte_of_val es)
          else "[" ++ join "," (map (dump_n en) es) ++ "]"
        | _, _ => dump y
        end
      | typeMap =>
        match y, mk, mv with
        | VMap isnil kvs, Some kn, Some vn =>
          if isnil then "nil"
          else "<" ++ join "," (map (fun q => fst q ++ "=" ++ snd q)
                                    (sort_pairs (map (fun kv => (dump_n kn (fst kv), dump_n vn (snd kv))) kvs))) ++ ">"
        | _, _, _ => dump y
        end
      | typeBasic => dump y
      end in
    if p then match x with VPtr None => "nil" | VPtr (Some y) => "&" ++ inner y | _ => dump x end
    else inner x
  end.

(* the node describing the place at an access path (pointer flag cleared by a dereference) *)
Fixpoint node_at (n : node) (l : loc) : option node :=
  match l with
  | [] => Some n
  | s :: r =>
    match s with
    | SField i => match nth_error (n_chld n) i with Some c => node_at c r | None => None end
    | SIdx _ => match n_slct n with Some e => node_at e r | None => None end
    | SKey _ => match n_mapv n with Some e => node_at e r | None => None end
    | SDeref => node_at (set_ptr n false) r
    end
  end.
Definition dump_at (n : node) (l : loc) (x : val) : string :=
  match node_at n l with Some en => dump_n (set_ptr en false) x | None => dump x end.

(* live: the object the reference finally denotes is not a copy and sits at the access path
   [eloc] native navigation of the path reaches (the harness compares addresses) *)
Definition pr_buf (n : node) (eloc : option loc) (b : option ref) : string :=
  match b with
  | None => "v=none;live=0"
  | Some r =>
    if is_sentinel r then "v=same;live=0" else
    match final r with
    | None => "v=nil;live=0"
    | Some (x, l, cp) =>
      "v=" ++ dump_at n l x ++ ";live=" ++ bit (negb cp && match eloc with Some l' => loc_eqb l l' | None => false end)
    end
  end.

Definition pr_out (n : node) (eloc : option loc) (o : out (option ref)) : string :=
  match o with
  | Panic k => "PANIC:" ++ pr_pkind k
  | Ret b None | Fall b => "e=nil;" ++ pr_buf n eloc b
  | Ret _ (Some e) => "e=" ++ pr_err (Some e)
  end.

(* [must_live]: the C15 clause demands the live element *)
Definition pr_want (op : gop) (dmp : val -> string) (must_live : bool) (w : want) : list string :=
  match w with
  | WVal x => (if must_live then [] else ["e=nil;v=" ++ dmp x ++ ";live=0"]) ++ ["e=nil;v=" ++ dmp x ++ ";live=1"]
  | WNil => ["e=nil;v=nil;live=0"]
  | WNone => ["e=nil;v=" ++ none_text op ++ ";live=0"]
  | WErr => ["e=parse"]
  end.

Definition pr_demand (op : gop) (dmp : val -> string) (must_live : bool) (d : option (list want)) : string :=
  match d with
  | None => "*"
  | Some ws => join " || " (flat_map (pr_want op dmp must_live) ws)
  end.

Definition out_kind (o : out (option ref)) : string :=
  match o with
  | Panic k => "m:panic-" ++ pr_pkind k
  | Ret _ (Some _) => "m:err"
  | Ret b None | Fall b =>
    match obs_of_buf b with BNone => "m:none" | BNil => "m:nil" | BVal _ true => "m:live" | BVal _ false => "m:copy" end
  end.

Definition nav_tag (n : node) (v : val) (path : list string) : string :=
  match nav n v path with
  | NElem _ e => match fin e with Some _ => "n:elem" | None => "n:nilelem" end
  | NNone WUnknownField => "n:unknownfield"
  | NNone WAbsentKey => "n:absentkey"
  | NNone WIndexRange => "n:indexrange"
  | NNone WNilPointer => "n:nilpointer"
  | NNone WPointerKey => "n:pointerkey"
  | NBad => "n:bad"
  | NUnspec => "n:unspec"
  end.

Definition root_node (u : string * ty) : node := parse_ast_decl (pkg_of (fst u)) (imp_of (fst u)) (fst u) (snd u).

Definition run (op : gop) (n : node) (v : val) (path : list string) : out (option ref) :=
  match op with
  | OpGet => get false n (APtr (Some v)) path
  | OpGetTo => get_to false n (APtr (Some v)) path (Some sentinel)
  end.

Definition case_lines (u : string * ty) : list string :=
  let n := root_node u in
  flat_map (fun iv : nat * val =>
    let '(vi, v) := iv in
    flat_map (fun pt : tagged =>
      let '(path, ptag) := pt in
      let d := get_demand n v path in
      let ml := match live_loc n v path with Some _ => true | None => false end in
      let dmp := match nav n v path with NElem en _ => dump_n (set_ptr en false) | _ => dump end in
      map (fun op : gop =>
        let o := run op n v path in
        let opn := match op with OpGet => "get" | OpGetTo => "getto" end in
        fst u ++ "." ++ nat_to_string vi ++ "." ++ opn ++ "." ++ path_text path ++ tab ++
        opn ++ "," ++ ptag ++ "," ++ nav_tag n v path ++ (if ml then ",mustlive" else "") ++ "," ++ out_kind o ++ tab ++
        fst u ++ ";p;" ++ opn ++ ";" ++ path_text path ++ ";" ++ pr_val true v ++ tab ++
        pr_out n (elem_loc n v path) o ++ tab ++ pr_demand op dmp ml d)
      [OpGet; OpGetTo]) (paths n v))
  (combine (seqn (List.length (variants n))) (variants n)) ++
  (* the other argument forms (the object by value: the element of a private copy, never the live one; **T: as *T) on
     the most populated value - a header that reaches a by-value source otherwise than by copying it shows here *)
  match rev (variants n) with
  | [] => []
  | v :: _ =>
    flat_map (fun form : string =>
      flat_map (fun pt : tagged =>
        let '(path, ptag) := pt in
        let d := get_demand n v path in
        let ml := (match live_loc n v path with Some _ => true | None => false end) && String.eqb form "pp" in
        let dmp := match nav n v path with NElem en _ => dump_n (set_ptr en false) | _ => dump end in
        map (fun op : gop =>
          let a := arg_of_form form v in
          let o := match op with OpGet => get false n a path | OpGetTo => get_to false n a path (Some sentinel) end in
          let opn := match op with OpGet => "get" | OpGetTo => "getto" end in
          fst u ++ "." ++ form ++ "." ++ opn ++ "." ++ path_text path ++ tab ++
          opn ++ ",form-" ++ form ++ "," ++ ptag ++ "," ++ nav_tag n v path ++ "," ++ out_kind o ++ tab ++
          fst u ++ ";" ++ form ++ ";" ++ opn ++ ";" ++ path_text path ++ ";" ++ pr_val true v ++ tab ++
          pr_out n (elem_loc n v path) o ++ tab ++ pr_demand op dmp ml d)
        [OpGet; OpGetTo]) (paths n v))
    ["v"]
  end.

Definition cases (tier : Z) (seed : Z) : list string := flat_map case_lines (emit_units tier).
