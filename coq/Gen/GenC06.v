(* Gen/GenC06.v - the C06 stream: Copy, and CopyTo into an empty destination, on generated
   inspectors: structure and DeepEqual against the source, source intact, and no shared
   mutable memory (address ranges and mutation, both evaluated natively by the harness).

   Every input is run twice: mode `raw` prints the copy as it is (and, for CopyTo, how many
   buffer bytes were used and whether a buffer of exactly countBytes capacity had to grow);
   mode `canon` prints what the property speaks about. *)
From Coq Require Import List Bool String Ascii ZArith Arith NArith.
From Verif Require Import Util Ints Node GoSrc Value Outcome InsReset InsCopy EmptySpec Shapes EnumVal GenUnits GenC10 GenC08.
Import ListNotations.
Local Open Scope string_scope.

(* does the value hold a non-empty map with pointer keys?  DeepEqual looks keys up by identity,
   and the copy's keys are fresh allocations (it could not share them): the one shape on which
   the generated DeepEqual cannot see a faithful copy as equal *)
Fixpoint has_ptrkeys (n : node) (v : val) {struct n} : bool :=
  match n with
  | Node ty tn tu nm pk pki p chld mk mv sl hb hc =>
    let inner (x : val) : bool :=
      match ty with
      | typeStruct =>
        match x with
        | VStruct fs => (fix go (cs : list node) (fs : list val) : bool :=
                           match cs, fs with c :: cr, f :: fr => has_ptrkeys c f || go cr fr | _, _ => false end) chld fs
        | _ => false
        end
      | typeMap =>
        match x, mk, mv with
        | VMap _ kvs, Some kn, Some vn =>
          (n_ptr kn && existsb (fun kv => match fst kv with VPtr (Some _) => true | _ => false end) kvs) ||
          existsb (fun kv => has_ptrkeys vn (snd kv)) kvs
        | _, _, _ => false
        end
      | typeSlice =>
        match x, sl with
        | VSlice _ es _, Some en => existsb (has_ptrkeys en) es
        | _, _ => false
        end
      | typeBasic => false
      end in
    if p then match v with VPtr (Some x) => inner x | _ => false end else inner v
  end.

(* The verdict of the generated DeepEqual(source, copy) for a faithful copy, in emission order:
   "1", or "0" at the first non-empty pointer-key map (keys are looked up by identity). *)
Definition first_bad (a b : string) : string := if String.eqb a "1" then b else a.

Fixpoint deq3 (n : node) (v : val) {struct n} : string :=
  match n with
  | Node ty tn tu nm pk pki p chld mk mv sl hb hc =>
    let inner (x : val) : string :=
      match ty with
      | typeStruct =>
        match x with
        | VStruct fs => (fix go (cs : list node) (fs : list val) : string :=
                           match cs, fs with
                           | c :: cr, f :: fr =>
                             first_bad (deq3 c f) (go cr fr)
                           | _, _ => "1"
                           end) chld fs
        | _ => "1"
        end
      | typeMap =>
        match x, mk, mv with
        | VMap _ kvs, Some kn, Some vn =>
          if n_ptr kn && existsb (fun kv => match fst kv with VPtr (Some _) => true | _ => false end) kvs then "0"
          else fold_right (fun kv acc => first_bad (deq3 vn (snd kv)) acc) "1" kvs
        | _, _, _ => "1"
        end
      | typeSlice =>
        match x, sl with
        | VSlice _ es _, Some en => fold_right (fun e acc => first_bad (deq3 en e) acc) "1" es
        | _, _ => "1"
        end
      | typeBasic => "1"
      end in
    if p then match v with VPtr (Some x) => inner x | _ => "1" end else inner v
  end.

(* an empty destination with history: Reset of a populated value, pointers dropped - non-nil
   empty maps, slices truncated to [:0] with their capacity *)
Fixpoint drop_ptrs (v : val) {struct v} : val :=
  match v with
  | VStruct fs => VStruct ((fix go (l : list val) : list val := match l with [] => [] | x :: r => drop_ptrs x :: go r end) fs)
  | VPtr _ => VPtr None
  | _ => v
  end.
Definition blank_of (n : node) (v : val) : val := drop_ptrs (reset n v).

Definition judged (c : string) (deq : string) : string :=
  "e=nil;c=" ++ c ++ ";deq=" ++ deq ++ ";same=1;share=-;mut=ok".

Definition model_copy (mode : string) (n : node) (form : string) (v : val) : string :=
  match copy_method n (arg_of_form form v) with
  | Ret (Some c) None =>
    if String.eqb mode "raw" then "e=nil;d=" ++ dumpb n c
    else judged (dumpc false n c) (deq3 n v)
  | Ret _ e => "e=" ++ pr_err e
  | Panic k => "PANIC:" ++ pr_pkind k
  | Fall _ => "?"
  end.

Definition model_copyto (mode : string) (n : node) (form : string) (d v : val) : string :=
  match copyto_method n (arg_of_form form v) (APtr (Some d)) with
  | Ret (Some c) None =>
    if String.eqb mode "raw" then "e=nil;d=" ++ dumpb n c ++ ";used=" ++ Z_to_string (count_bytes n v) ++ ";grew=0"
    else judged (dumpc false n c) (deq3 n v)
  | Ret _ e => "e=" ++ pr_err e
  | Panic k => "PANIC:" ++ pr_pkind k
  | Fall _ => "?"
  end.

(* the demand: the copy is the source up to nil-versus-empty collections, DeepEqual says so,
   the source is untouched, nothing mutable is shared *)
Definition spec_copy (mode : string) (n : node) (v : val) : string :=
  if String.eqb mode "raw" then "*" else judged (dumpc false n v) "1".

Definition pk_tag (n : node) (v : val) : string := ",deq" ++ deq3 n v ++ (if has_ptrkeys n v then ",ptrkeys" else "").

(* [vs]: the source values (the main stream: the value variants of the unit) *)
Definition copy_lines_of (vs : list val) (u : string * ty) : list string :=
  let n := root_node u in
  flat_map (fun iv : nat * val =>
    let '(vi, v) := iv in
    flat_map (fun form =>
      map (fun mode =>
        fst u ++ ".k" ++ nat_to_string vi ++ "." ++ form ++ "." ++ mode ++ tab ++
        "copy," ++ mode ++ ",src-" ++ form ++ "," ++ size_tag v ++ pk_tag n v ++ tab ++
        fst u ++ ";" ++ form ++ ";copy;" ++ mode ++ ";" ++ pr_val true v ++ tab ++
        model_copy mode n form v ++ tab ++ spec_copy mode n v) modes) ["v"; "p"])
  (combine (seqn (List.length vs)) vs).
Definition copy_lines (u : string * ty) : list string := copy_lines_of (variants (root_node u)) u.

Definition copyto_lines_of (vs : list val) (u : string * ty) : list string :=
  let n := root_node u in
  let dense := last (variants n) (VInt 0) in
  let dsts := [("zero", zero_val n); ("blank", blank_of n dense)] in
  flat_map (fun iv : nat * val =>
    let '(vi, v) := iv in
    let bc := count_bytes n v in
    flat_map (fun dd : string * val =>
      let '(dname, d) := dd in
      flat_map (fun cc : string * Z =>
        let '(cname, cap) := cc in
        let form := if String.eqb cname "exact" then "v" else "p" in
        map (fun mode =>
          fst u ++ ".t" ++ nat_to_string vi ++ "." ++ dname ++ "." ++ cname ++ "." ++ mode ++ tab ++
          "copyto," ++ mode ++ ",dst-" ++ dname ++ ",buf-" ++ cname ++ ",src-" ++ form ++ "," ++ size_tag v ++ pk_tag n v ++ tab ++
          fst u ++ ";" ++ form ++ ";copyto;" ++ mode ++ ";" ++ Z_to_string cap ++ ";" ++ pr_val true d ++ ";" ++ pr_val true v ++ tab ++
          model_copyto mode n form d v ++ tab ++ spec_copy mode n v) modes)
      [("nil", (-1)%Z); ("exact", bc); ("over", (bc + 64)%Z)]) dsts)
  (combine (seqn (List.length vs)) vs).
Definition copyto_lines (u : string * ty) : list string := copyto_lines_of (variants (root_node u)) u.

Definition cases (tier : Z) (seed : Z) : list string :=
  flat_map (fun u => (copy_lines u ++ copyto_lines u)%list) (emit_units tier).
