(* Gen/Shapes.v - enumeration of declared-type shapes of the grammar G, the
   supported fragment [sup] (shapes for which the generator's output compiles),
   and the units (one root type + the named types it mentions) handed to the
   real generator. *)
From Coq Require Import List Bool String Ascii Arith ZArith.
From Verif Require Import Util Ints Node GoSrc.
Import ListNotations.
Local Open Scope string_scope.
Local Open Scope list_scope.

Definition t_int32 := TScalar (SInt KInt32).
Definition t_string := TScalar SString.
Definition t_bytes := TSlice (TScalar SByte).

Definition leaf : ty :=
  TNamed "Leaf" (TStruct [("A", t_int32); ("S", t_string); ("B", t_bytes); ("F", TScalar SF64)]).
Definition plain : ty := TNamed "Pt" (TStruct [("X", TScalar SF64); ("N", t_int32); ("Ok", TScalar SBool)]).
Definition window : ty := TNamed "Window" (TStruct [("Samples", TSlice t_int32); ("Width", TScalar (SInt KInt))]).
Definition item : ty :=
  TNamed "Item" (TStruct [("Name", t_string); ("Ref", TPtr plain); ("Tags", TSlice t_int32); ("Attr", TMap t_string t_int32);
                          ("Note", TPtr t_string); ("Age", t_int32)]).
Definition mid : ty := TNamed "Mid" (TStruct [("Inner", window); ("PW", TPtr window); ("N", t_int32)]).
Definition pflat : ty := TNamed "PF" (TStruct [("A", TPtr t_int32); ("P", TPtr plain); ("N", t_int32)]).   (* pointers only: no string, bytes or collection *)
(* a chain of named structs reached through pointers and collections: 14 type-constructor levels from the root to Leaf's fields *)
Definition deep3 : ty := TNamed "D3" (TStruct [("D", TSlice (TPtr leaf)); ("N", t_int32)]).
Definition deep2 : ty := TNamed "D2" (TStruct [("C", TMap t_string (TPtr deep3)); ("S", t_string)]).
Definition deep1 : ty := TNamed "D1" (TStruct [("B", TPtr (TSlice (TPtr deep2)))]).
Definition pscal : ty := TNamed "PSc" (TStruct [("A", TPtr t_int32); ("S", t_string); ("N", t_int32); ("Q", TPtr t_string)]).   (* scalars and pointers to scalars only *)
Definition kind : ty := TNamed "Kind" t_int32.            (* a named scalar *)
Definition label : ty := TNamed "Label" t_string.         (* a named string scalar *)

Definition all_skinds : list skind :=
  [SBool] ++ map SInt all_ikinds ++ [SByte; SF32; SF64; SString].
(* one representative per scalar family, for the representative (quick) set *)
Definition rep_skinds : list skind := [SBool; SInt KInt32; SInt KUint64; SByte; SF64; SString].

Definition is_scalar (t : ty) : bool := match t with TScalar _ => true | _ => false end.
Definition is_bytes (t : ty) : bool := match t with TSlice (TScalar SByte) => true | _ => false end.
Definition is_named_scalar (t : ty) : bool := match t with TNamed _ (TScalar _) => true | _ => false end.
Definition is_named_string (t : ty) : bool := match t with TNamed _ (TScalar SString) => true | _ => false end.
Definition is_struct (t : ty) : bool := match t with TNamed _ (TStruct _) => true | _ => false end.
Definition strip_ptr (t : ty) : ty := match t with TPtr t' => t' | _ => t end.
Definition is_ptr (t : ty) : bool := match t with TPtr _ => true | _ => false end.
Definition is_slice (t : ty) : bool := match t with TSlice _ => negb (is_bytes t) | _ => false end.
Definition is_map (t : ty) : bool := match t with TMap _ _ => true | _ => false end.

(* ---------- the supported fragment ----------
   [sup_elem]: a slice element; [sup_key]/[sup_val]: map key/value;
   [sup_field infield]: the type of a struct field (infield = true) or the body of a
   named root type. First written from probing; kept honest by the C14 stream, which
   generates and compiles every enumerated unit and compares with this predicate. *)
Definition scalar_or_ptr_scalar (t : ty) : bool := is_scalar (strip_ptr t).
Definition struct_or_ptr_struct (t : ty) : bool := is_struct (strip_ptr t).

Definition sup_elem (t : ty) : bool := scalar_or_ptr_scalar t || struct_or_ptr_struct t.
Definition sup_key (t : ty) : bool :=
  match strip_ptr t with TScalar SByte => false | TScalar _ => true | _ => false end.

Definition is_string_key (t : ty) : bool := match strip_ptr t with TScalar SString => true | _ => false end.
(* does a value of this type contain a string / bytes / collection (node.hasc)? *)
Definition hasc_ty (t : ty) : bool :=
  match strip_ptr t with TScalar SString => true | TScalar _ => false | _ => true end.

Definition sup_val (infield : bool) (outerkey : ty) (t : ty) : bool :=
  scalar_or_ptr_scalar t || struct_or_ptr_struct t ||
  match t with
  | TMap k v => sup_key k && (scalar_or_ptr_scalar v || (negb infield && struct_or_ptr_struct v)) &&
                negb (negb (is_string_key outerkey) && negb (is_string_key k) && hasc_ty v)
  | TSlice e => negb (is_bytes t) && (scalar_or_ptr_scalar e || (negb infield && struct_or_ptr_struct e))
  | _ => false
  end.

Definition sup_coll (infield : bool) (t : ty) : bool :=
  match t with
  | TSlice e => if is_bytes t then true else sup_elem e
  | TMap k v => sup_key k && sup_val infield k v
  | _ => false
  end.

(* a named slice / map type used as a field type: its body must be a supported ROOT collection *)
Definition named_coll_body (t : ty) : option ty :=
  match t with TNamed _ (TSlice e) => Some (TSlice e) | TNamed _ (TMap k v) => Some (TMap k v) | _ => None end.

Definition sup_field (t : ty) : bool :=
  scalar_or_ptr_scalar t || struct_or_ptr_struct t ||
  (is_named_scalar t && negb (is_named_string t)) ||
  match named_coll_body (strip_ptr t) with
  | Some b => negb (is_bytes b) && sup_coll false b
  | None =>
    match t with
    | TPtr t' => sup_coll true t'
    | _ => sup_coll true t
    end
  end.

(* a root declaration: a struct with supported fields, or a named map / slice *)
Definition sup_root (body : ty) : bool :=
  match body with
  | TStruct fs => forallb (fun f => sup_field (snd f)) fs
  | TSlice _ => negb (is_bytes body) && sup_coll false body
  | TMap _ _ => sup_coll false body
  | _ => false
  end.

(* ---------- enumeration ---------- *)
Definition with_ptr (l : list ty) : list ty := l ++ map TPtr l.

Definition leaves (ks : list skind) : list ty := map TScalar ks.

(* element / key / value candidates of depth 0 *)
Definition atoms (ks : list skind) : list ty := with_ptr (leaves ks) ++ [leaf; TPtr leaf; kind; label; t_bytes].

Definition colls_over (keys elems : list ty) : list ty :=
  map TSlice elems ++ flat_map (fun k => map (TMap k) elems) keys.

(* field shapes of depth <= 1 over the given scalar kinds *)
Definition shapes1 (ks : list skind) : list ty :=
  let a := atoms ks in
  a ++ with_ptr (colls_over (with_ptr (leaves ks)) a).

(* depth 2: collections whose elements / values are depth-1 collections *)
Definition shapes2 (ks ks2 : list skind) : list ty :=
  let inner := with_ptr (colls_over (leaves ks2) (with_ptr (leaves ks2) ++ [leaf; TPtr leaf])) in
  with_ptr (colls_over (leaves ks) inner).

Definition dedup_ty (l : list ty) : list ty :=
  fold_left (fun acc t => if existsb (fun u => String.eqb (go_type u) (go_type t)) acc then acc else acc ++ [t]) l [].

(* a unit: root type name, body.  Shapes are placed as the single field F of a struct and,
   for maps and slices, as a named root type. *)
Definition units_of_shapes (start : nat) (l : list ty) : list (string * ty) :=
  let as_field := map (fun t => TStruct [("F", t)]) l in
  let as_root := filter (fun t => is_map t || (match t with TSlice _ => negb (is_bytes t) | _ => false end)) l in
  let bodies := as_field ++ as_root in
  (fix go (i : nat) (bs : list ty) : list (string * ty) :=
     match bs with [] => [] | b :: r => (String.append "T" (nat_to_string i), b) :: go (S i) r end) start bodies.

(* the root and the named types it mentions use the SAME field names for different things (anything the generator keeps per
   run and keys by a field name or an option path must not leak from one type of the declaration set into another) *)
Definition adr : ty := TNamed "Adr" (TStruct [("City", t_string); ("Zip", t_int32)]).
Definition holder : ty :=
  TNamed "Holder" (TStruct [("Tags", TMap t_string t_int32); ("Addr", adr); ("Attrs", TSlice t_string); ("N", t_string)]).
Definition vault : ty :=      (* sorts behind the root's name *)
  TNamed "Vault" (TStruct [("Tags", TSlice t_int32); ("Addr", TPtr adr); ("Attrs", TMap t_string t_string); ("N", t_int32)]).
Definition shared_names : ty :=
  TStruct [("Tags", TSlice t_string); ("Addr", TPtr adr); ("Box", holder); ("Attrs", TMap t_string t_int32); ("N", t_int32); ("V", vault)].
(* by-value struct chains: the only indirection sits three struct levels down, below structs that have none of their own *)
Definition lim : ty := TNamed "Lim" (TStruct [("Hard", TPtr t_int32); ("Quota", TPtr plain); ("W", t_int32)]).
Definition acc : ty := TNamed "Acc" (TStruct [("Limits", lim); ("Rate", TScalar SF64)]).
Definition flat3 : ty := TNamed "Flat3" (TStruct [("In", TNamed "Flat2" (TStruct [("P", plain); ("U", TScalar (SInt KUint16))])); ("B", TScalar SBool)]).
(* four more by-value levels above the same bottom: the nested struct field sits below an enclosing struct at depth >= 3 *)
Definition wrap3 : ty :=
  TNamed "Wrap3" (TStruct [("W", TNamed "Wrap2" (TStruct [("V", TNamed "Wrap1" (TStruct [("U", acc); ("PU", TPtr acc)])); ("N", t_int32)]))]).
(* a by-value map entry that itself holds maps with pointer values, under the same and under another key type than the outer map *)
Definition shelf : ty :=
  TNamed "Shelf" (TStruct [("Boxes", TMap (TScalar (SInt KUint8)) (TPtr leaf)); ("Same", TMap t_int32 (TPtr leaf)); ("N", t_int32)]).
Definition shelves : ty := TStruct [("Sh", TMap t_int32 shelf); ("N", t_int32)].
Definition value_chain : ty :=
  TStruct [("Plan", acc); ("PPlan", TPtr acc); ("Plans", TSlice acc); ("PM", TMap t_string (TPtr acc)); ("F", flat3); ("N", t_int32);
           ("FM", TMap (TScalar SF64) plain); ("FP", TMap (TScalar SF32) (TPtr acc)); ("Q", wrap3)].
(* exported field names that do not start with an ASCII letter (UTF-8: E-acute "lan", Cyrillic "Imya", O-umlaut "l") *)
Definition u8 (l : list nat) : string := fold_right (fun n r => String (ascii_of_nat n) r) "" l.
Definition unicode_names : ty :=
  TStruct [(u8 [195; 137; 108; 97; 110], t_string); (u8 [208; 152; 208; 188; 209; 143], t_int32);
           (u8 [195; 150; 108], TSlice leaf); ("Z", TPtr (TNamed "Uni" (TStruct [(u8 [208; 163; 208; 187], t_string); ("A", t_int32)])))].

(* field names that are prefixes of one another or differ only in the case of a letter: a segment must match a name exactly *)
Definition cell : ty := TNamed "Cell" (TStruct [("R", t_int32); ("C", TScalar (SInt KUint8)); ("On", TScalar SBool); ("Tag", t_string)]).
Definition similar_names : ty :=
  TStruct [("A", t_int32); ("Ab", t_string); ("AB", t_bytes); ("Abc", TPtr leaf); ("ABC", TMap t_string t_int32);
           ("ABc", TSlice t_string); ("Name", t_string); ("NAME", t_int32); ("Names", TSlice leaf);
           (* collections of a struct made of integers, booleans and strings only (comparable with ==, no float, no pointer) *)
           ("Cells", TSlice cell); ("CM", TMap t_string cell); ("PC", TSlice (TPtr cell)); ("One", cell)].

(* NAMED map and slice types as value / element of anonymous maps and slices (the type name a parser composes for the outer
   collection must keep the inner type's name).  Outside [sup_root]: a unit of the units stream (C13, C14) only. *)
Definition nested_named : ty :=
  TStruct [("FS", TMap t_string (TNamed "NFlagSet" (TMap t_string t_int32))); ("LS", TSlice (TNamed "NIntList" (TSlice t_int32)));
           ("LM", TMap t_int32 (TNamed "NIntList" (TSlice t_int32))); ("PM", TMap t_string (TPtr (TNamed "NFlagSet" (TMap t_string t_int32))));
           ("N", t_int32)].

(* a struct with one field per scalar kind: K0 .. K14 *)
Definition kinds_struct (f : skind -> ty) (ks : list skind) : ty :=
  TStruct ((fix go (i : nat) (l : list skind) : list (string * ty) :=
              match l with [] => [] | k :: r => (String.append "K" (nat_to_string i), f k) :: go (S i) r end) 0 ks).

(* multi-field structs: sibling interference, field order *)
Definition multi : list ty :=
  [TStruct [("A", t_int32); ("M", TMap t_string t_int32); ("L", TSlice leaf); ("P", TPtr leaf); ("S", t_string); ("B", t_bytes)];
   TStruct [("X", TPtr t_string); ("Y", TSlice (TPtr t_int32)); ("Z", TMap (TScalar (SInt KInt)) (TPtr leaf)); ("W", TPtr (TSlice t_string))];
   TStruct [("N", leaf); ("K", kind); ("Q", TPtr (TMap t_string leaf)); ("R", TMap t_string (TMap t_int32 t_string))];
   (* fields of NAMED slice and map types (like testobj's TestFloatSlice, TestStructSliceLiteral, TestStringFloatMap) *)
   TStruct [("NS", TNamed "NInts" (TSlice t_int32)); ("NL", TNamed "NLeaves" (TSlice leaf));
            ("NP", TNamed "NLeafPtrs" (TSlice (TPtr leaf))); ("NM", TNamed "NFlags" (TMap t_string t_int32));
            ("NML", TNamed "NLeafMap" (TMap t_string (TPtr leaf))); ("PNS", TPtr (TNamed "NFloats" (TSlice (TScalar SF64))))];
   (* slices of PLAIN structs (no string, bytes or collection inside) *)
   TStruct [("Pts", TSlice plain); ("PtsPtr", TPtr (TSlice plain)); ("One", plain); ("PM", TMap t_string plain); ("PP", TSlice (TPtr plain))];
   (* nested structs without string/bytes whose LAST field has no length (flag propagation in the parsers) *)
   TStruct [("Id", TScalar (SInt KUint64)); ("Win", window); ("WP", TPtr window); ("G", TNamed "Grid" (TStruct [("Cells", TMap t_int32 t_int32); ("W", t_int32)]))];
   (* collections of structs that themselves hold pointers and collections (depth 3) *)
   TStruct [("Items", TSlice item); ("PI", TSlice (TPtr item)); ("One", item)];
   (* a collection two struct levels below the root, the middle struct having none of its own *)
   TStruct [("Mid", mid); ("PM", TPtr mid)];
   (* slices of structs that hold a collection but no string or bytes (the has-bytes / has-collection flags differ) *)
   TStruct [("Ws", TSlice window); ("PWs", TPtr (TSlice window)); ("NW", TNamed "Wins" (TSlice window)); ("WPs", TSlice (TPtr window))];
   (* slices of structs whose only indirections are pointers *)
   TStruct [("Fs", TSlice pflat); ("FPs", TSlice (TPtr pflat)); ("NF", TNamed "PFs" (TSlice pflat)); ("One", pflat)];
   (* deep nesting: a parser that stops descending after some number of levels loses the inner fields *)
   TStruct [("A", TPtr deep1); ("Z", t_int32)];
   (* several fields of ONE named struct type with the same pointer-ness (code emitted for one must not serve the other), and a
      nested struct made of scalars and pointers to scalars only, as field, pointer, element and map value *)
   TStruct [("From", plain); ("To", plain); ("Src", TPtr leaf); ("Dst", TPtr leaf); ("PS", pscal); ("PP", TPtr pscal);
            ("PL", TSlice pscal); ("PM", TMap t_string (TPtr pscal))];
   (* slices spelled []uint8 (the same Go type as []byte, another type NAME: elements are addressable, it is no bytes leaf),
      and a named struct with its own inspector reached BELOW collection elements (path positions >= 1) *)
   TStruct [("Levels", TSlice (TScalar (SInt KUint8))); ("PLv", TPtr (TSlice (TScalar (SInt KUint8)))); ("B", t_bytes);
            ("Mids", TSlice mid); ("MM", TMap t_string (TPtr mid)); ("N", t_int32)]] ++
  (* every scalar kind at once (the quick tier's shapes use six representative kinds only: a slip in the code emitted for ONE
     kind - a conversion snippet, a bit size, a zero literal - must not wait for the thorough tier): as field, behind a pointer,
     as slice element, as map value and as map key *)
  [kinds_struct TScalar all_skinds;
   kinds_struct (fun k => TPtr (TScalar k)) all_skinds;
   kinds_struct (fun k => TSlice (TScalar k)) all_skinds;
   kinds_struct (fun k => TMap t_string (TScalar k)) all_skinds;
   kinds_struct (fun k => TMap (TScalar k) t_string) (filter (fun k => match k with SByte => false | _ => true end) all_skinds);
   shared_names; value_chain; unicode_names; similar_names; nested_named; shelves].

Definition rep_shapes : list ty :=
  dedup_ty (shapes1 rep_skinds ++ shapes2 [SString; SInt KInt32] [SInt KInt32; SString]).
Definition all_shapes : list ty :=
  dedup_ty (shapes1 all_skinds ++ shapes2 rep_skinds rep_skinds).

(* tier 0: representative set; tier 1: every depth-1 shape over all 16 scalar kinds and the
   depth-2 shapes over the representative kinds *)
Definition candidate_units (tier : Z) : list (string * ty) :=
  let shapes := if Z.eqb tier 0 then rep_shapes else all_shapes in
  let us := units_of_shapes 0 shapes in
  us ++ (fix go (i : nat) (bs : list ty) : list (string * ty) :=
           match bs with [] => [] | b :: r => (String.append "M" (nat_to_string i), b) :: go (S i) r end) 0 multi.

Definition supported_units (tier : Z) : list (string * ty) :=
  filter (fun u => sup_root (snd u)) (candidate_units tier).

(* the units the emitter streams run on: quick = every third supported unit of the
   representative set plus the multi-field structs; thorough = all supported units *)
Fixpoint every (k : nat) (i : nat) (l : list (string * ty)) : list (string * ty) :=
  match l with
  | [] => []
  | x :: r => if Nat.eqb (Nat.modulo i k) 0 then x :: every k (S i) r else every k (S i) r
  end.
Definition emit_units (tier : Z) : list (string * ty) :=
  if Z.eqb tier 0 then
    every 3 0 (filter (fun u => sup_root (snd u)) (units_of_shapes 0 rep_shapes)) ++
    filter (fun u => sup_root (snd u))
      ((fix go (i : nat) (bs : list ty) : list (string * ty) :=
          match bs with [] => [] | b :: r => (String.append "M" (nat_to_string i), b) :: go (S i) r end) 0 multi)
  else supported_units 1.
