(* Proofs/LCSound.v - the emitted Length/Capacity code meets the C10 demand for
   every well-formed node, every well-typed value and every path. *)
From Coq Require Import List Bool String Ascii ZArith Arith Lia.
From Verif Require Import Util Ints Strconv Floats Node Value Outcome Nav LC LCSpec.
Import ListNotations.
Local Open Scope string_scope.

(* ---------- well-formed nodes: what both parsers produce for the grammar ---------- *)
Fixpoint names_nodup (l : list node) : bool :=
  match l with
  | [] => true
  | c :: r => negb (existsb (fun d => String.eqb (n_name d) (n_name c)) r) && names_nodup r
  end.

Fixpoint wfn (n : node) {struct n} : bool :=
  match n with
  | Node ty tn tu nm pk pki p chld mk mv sl hb hc =>
    match ty with
    | typeBasic =>
      Bool.eqb hc (String.eqb tu "string") && match skind_of_name tu with Some _ => true | None => false end
    | typeStruct =>
      Bool.eqb hc (existsb n_hasc chld) && names_nodup chld &&
      (fix go (l : list node) : bool := match l with [] => true | c :: r => wfn c && go r end) chld
    | typeMap =>
      hc && match mk, mv with
            | Some kn, Some vn =>
              wfn kn && wfn vn && (match n_typ kn with typeBasic => true | _ => false end) &&
              Bool.eqb (String.eqb (n_typn kn) "string") (String.eqb (n_typu kn) "string")
            | _, _ => false
            end
    | typeSlice =>
      hc && (String.eqb tn "[]byte" || match sl with Some en => wfn en | None => false end)
    end
  end.

(* ---------- the demand as a function of the navigation result ---------- *)
Definition dem0 (fn : lcfn) (r : navres) : lcdemand :=
  match r with
  | NBad => DResultOrError 0
  | NUnspec => DAny
  | NNone _ => DResult 0
  | NElem en ev =>
    match strip_ptrs 3 ev with
    | None => DResult 0
    | Some x =>
      match x, fn with
      | VStr _, FLen | VBytes _ _ _, FLen | VSlice _ _ _, FLen | VMap _ _, FLen => DResult (v_len x)
      | VBytes _ _ _, FCap | VSlice _ _ _, FCap => DResult (v_cap x)
      | _, _ => DAny
      end
    end
  end.
Definition dem (fn : lcfn) (r : navres) (tb : bool) : lcdemand :=
  match dem0 fn r with DResult z => if tb then DResultOrError z else DResult z | d => d end.

Lemma lc_demand_dem fn n v path : lc_demand fn n v path = dem fn (nav n v path) (type_bad n path).
Proof. reflexivity. Qed.

(* an outcome meets a demand *)
Definition acc (o : out Z) (d : lcdemand) : Prop :=
  match d with
  | DAny => True
  | DResult z => o = Ret z None \/ o = Fall z
  | DResultOrError z => o = Ret z None \/ o = Fall z \/ exists r, o = Ret r (Some EParse)
  end.

Lemma acc_weaken o z (tb : bool) : acc o (DResult z) -> acc o (if tb then DResultOrError z else DResult z).
Proof. destruct tb; simpl; tauto. Qed.

(* zero-ish outcomes: what a path that denotes nothing may produce *)
Definition zeroish (o : out Z) (tb : bool) : Prop :=
  o = Ret 0%Z None \/ o = Fall 0%Z \/ (tb = true /\ exists r, o = Ret r (Some EParse)).

Lemma zeroish_acc o (tb : bool) d :
  zeroish o tb -> (d = DAny \/ d = DResult 0 \/ d = DResultOrError 0) ->
  (tb = true -> d <> DResult 0%Z) -> acc o d.
Proof.
  intros [H|[H|(T & r & H)]] [D|[D|D]] N; subst; simpl; auto.
  - exfalso. apply (N eq_refl eq_refl).
  - right; right; eauto.
Qed.

(* ---------- list facts ---------- *)
Lemma skipn_nil_len {A} (l : list A) d : d <= List.length l -> skipn d l = [] -> List.length l = d.
Proof.
  revert d; induction l as [|x r IH]; intros [|d] H E; simpl in *; auto; try lia; try discriminate.
  f_equal. apply IH; auto; lia.
Qed.

Lemma skipn_cons {A} (l : list A) d s r :
  skipn d l = s :: r -> nth_error l d = Some s /\ skipn (S d) l = r /\ d < List.length l.
Proof.
  revert d; induction l as [|x l IH]; intros [|d] E; simpl in *; try discriminate.
  - inversion E; subst. repeat split; auto. lia.
  - destruct (IH d E) as (A1 & A2 & A3). repeat split; auto. lia.
Qed.

Lemma skipn_len_le {A} (l : list A) d : List.length (skipn d l) = List.length l - d.
Proof. apply skipn_length. Qed.

(* ---------- well-typedness helpers ---------- *)
Lemma wtb_zero : forall n, wfn n = true -> wtb n (zero_val n) = true.
Proof.
  intros n. induction n using node_ind'. intros W.
  cbn [wfn] in W. cbn [zero_val wtb].
  destruct p; [reflexivity|].
  destruct ty.
  - (* struct *)
    apply andb_true_iff in W. destruct W as (_ & W).
    revert W. induction H as [|c r Hc Hr IHl]; intros W; [reflexivity|].
    apply andb_true_iff in W. destruct W as (Wc & Wr).
    rewrite (Hc Wc). simpl. apply IHl; exact Wr.
  - apply andb_true_iff in W. destruct W as (_ & W).
    destruct mk, mv; try discriminate; reflexivity.
  - apply andb_true_iff in W. destruct W as (_ & W).
    destruct (String.eqb tn "[]byte"); [reflexivity|]. destruct sl; [reflexivity|discriminate].
  - apply andb_true_iff in W. destruct W as (_ & W).
    destruct (skind_of_name tu) as [k|]; [|discriminate]. destruct k as [|i| | | |]; try reflexivity. destruct i; reflexivity.
Qed.

(* ---------- nodes without hasc: nothing below them has a length ---------- *)
Definition benign0 (d : lcdemand) : Prop := d = DAny \/ d = DResult 0%Z.

Lemma existsb_false_forall {A} (f : A -> bool) l : existsb f l = false -> Forall (fun x => f x = false) l.
Proof.
  induction l as [|x r IH]; simpl; intros H; constructor.
  - apply orb_false_iff in H; tauto.
  - apply IH. apply orb_false_iff in H; tauto.
Qed.

Lemma scalar_not_ptr k x : scalar_range_ok k x = true ->
  strip_ptrs 3 x = Some x /\ strip_ptrs 2 x = Some x /\
  (k <> SString -> match x with VStr _ | VBytes _ _ _ | VSlice _ _ _ | VMap _ _ => False | _ => True end).
Proof.
  destruct k, x; simpl; intros H; try discriminate; repeat split; auto; intros N; auto; congruence.
Qed.

Lemma nohasc_dem fn : forall n, wfn n = true -> n_hasc n = false ->
  forall v path, wtb n v = true -> benign0 (dem0 fn (nav n v path)) /\ type_bad n path = false.
Proof.
  intros n. induction n using node_ind'. intros W HC v path WT.
  cbn [n_hasc] in HC. subst hc. cbn [wfn] in W.
  destruct ty.
  - (* struct *)
    apply andb_true_iff in W. destruct W as (W & WC). apply andb_true_iff in W. destruct W as (HE & ND).
    apply eqb_prop in HE. symmetry in HE. apply existsb_false_forall in HE.
    destruct path as [|seg rest].
    + split; [|reflexivity]. cbn [nav dem0]. cbn [wtb] in WT.
      destruct p.
      * destruct v as [| | | | | | | |[x|]]; try discriminate; [|right; reflexivity].
        destruct x; try discriminate. left; reflexivity.
      * destruct v; try discriminate. left; reflexivity.
    + cbn [nav type_bad]. cbn [wtb] in WT.
      assert (G2 :
        (fix go (cs : list node) : bool :=
           match cs with [] => false | c :: cr => if String.eqb (n_name c) seg then type_bad c rest else go cr end) chld = false).
      { clear WT ND. revert WC HE. induction H as [|c r Hc Hr IHl]; intros WC HE; [reflexivity|].
        apply andb_true_iff in WC. destruct WC as (Wc & Wr). inversion HE as [|? ? Hcf Hrf]; subst.
        destruct (String.eqb (n_name c) seg).
        - apply (Hc Wc Hcf (zero_val c) rest (wtb_zero c Wc)).
        - apply IHl; auto. }
      assert (G : forall fs,
        (fix go (cs : list node) (vs : list val) {struct cs} : bool :=
           match cs, vs with [], [] => true | c :: cr, x :: xr => wtb c x && go cr xr | _, _ => false end) chld fs = true ->
        benign0 (dem0 fn ((fix go (chs : list node) (fs : list val) {struct chs} : navres :=
           match chs, fs with
           | c :: cr, f :: fr => if String.eqb (n_name c) seg then nav c f rest else go cr fr
           | _, _ => NNone WUnknownField
           end) chld fs))).
      { clear WT ND G2. revert WC HE. induction H as [|c r Hc Hr IHl]; intros WC HE fs WF.
        - right; reflexivity.
        - apply andb_true_iff in WC. destruct WC as (Wc & Wr). inversion HE as [|? ? Hcf Hrf]; subst.
          destruct fs as [|f fr]; [discriminate|]. apply andb_true_iff in WF. destruct WF as (WFc & WFr).
          destruct (String.eqb (n_name c) seg).
          + apply Hc; auto.
          + apply IHl; auto. }
      split; [|exact G2].
      destruct p.
      * destruct v as [| | | | | | | |[x|]]; try discriminate.
        -- destruct x; try discriminate. apply G; exact WT.
        -- right; reflexivity.
      * destruct v; try discriminate. apply G; exact WT.
  - (* map: hasc is true *)
    discriminate W.
  - discriminate W.
  - (* basic, not a string *)
    apply andb_true_iff in W. destruct W as (HE & SK). apply eqb_prop in HE.
    destruct (skind_of_name tu) as [k|] eqn:EK; [|discriminate].
    assert (NS : k <> SString).
    { intros ->. unfold skind_of_name in EK. symmetry in HE.
      destruct (String.eqb tu "bool"); [discriminate|]. destruct (String.eqb tu "byte"); [discriminate|].
      destruct (String.eqb tu "float32"); [discriminate|]. destruct (String.eqb tu "float64"); [discriminate|].
      rewrite HE in EK. destruct (find _ _); discriminate. }
    cbn [wtb] in WT. rewrite EK in WT.
    destruct path as [|seg rest]; cbn [nav type_bad dem0]; (split; [|reflexivity]).
    + destruct p.
      * destruct v as [| | | | | | | |[x|]]; try discriminate; [|right; reflexivity].
        destruct (scalar_not_ptr _ _ WT) as (_ & S2 & S3). change (strip_ptrs 3 (VPtr (Some x))) with (strip_ptrs 2 x). rewrite S2.
        specialize (S3 NS). destruct x; try contradiction; destruct fn; left; reflexivity.
      * destruct (scalar_not_ptr _ _ WT) as (S1 & _ & S3). rewrite S1.
        specialize (S3 NS). destruct v; try contradiction; destruct fn; left; reflexivity.
    + destruct p.
      * destruct v as [| | | | | | | |[x|]]; try discriminate; [left|right]; reflexivity.
      * left; reflexivity.
Qed.
