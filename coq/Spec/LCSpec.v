(* Spec/LCSpec.v - what C10 demands of Length / Capacity, from the property text. *)
From Coq Require Import List Bool String Ascii ZArith Arith.
From Verif Require Import Util Ints Node Value Outcome Nav LC.
Import ListNotations.
Local Open Scope string_scope.

Inductive lcdemand := DResult (z : Z) | DResultOrError (z : Z) | DAny.

(* Is some key or index segment unparsable for the type at its position (whatever the value)?
   Then the error is legitimate even where navigation stops earlier on a nil pointer. *)
Definition tb_fields (rec : node -> bool) (seg : string) : list node -> bool :=
  fix go (cs : list node) : bool :=
    match cs with [] => false | c :: cr => if String.eqb (n_name c) seg then rec c else go cr end.

Fixpoint type_bad (n : node) (path : list string) {struct n} : bool :=
  match path with
  | [] => false
  | seg :: rest =>
    match n with
    | Node ty tn tu nm pk pki p chld mk mv sl hb hc =>
      match ty with
      | typeStruct =>
        tb_fields (fun c => type_bad c rest) seg chld
      | typeMap =>
        match mk, mv with
        | Some kn, Some vn => match conv_key kn seg with None => true | Some _ => type_bad vn rest end
        | _, _ => false
        end
      | typeSlice =>
        if String.eqb tn "[]byte" then false else
        match sl with
        | Some en => match conv_index seg with None => true | Some _ => type_bad en rest end
        | None => false
        end
      | typeBasic => false
      end
    end
  end.

(* len/cap of the element a path denotes; 0 when it denotes nothing or runs into a nil
   pointer; an error exactly for an unparsable key or index; nothing is said about paths
   that continue past a scalar, about elements without a length, and about the capacity
   of strings and maps. *)
Definition lc_demand0 (fn : lcfn) (n : node) (v : val) (path : list string) : lcdemand :=
  match nav n v path with
  | NBad => DResultOrError 0
  | NUnspec => DAny
  | NNone _ => DResult 0
  | NElem en ev =>
    match strip_ptrs 3 ev with
    | None => DResult 0
    | Some x =>
      match x, fn with
      | VStr _, FLen | VBytes _ _ _, FLen | VSlice _ _ _, FLen | VMap _ _, FLen => DResult (v_len x)
      | VBytes _ _ _, FCap | VSlice _ _ _, FCap => DResult (v_cap x)
      | _, _ => DAny
      end
    end
  end.

(* "the only error is for a key or index segment that cannot be parsed": such a segment may
   yield the error, it need not (navigation may already have ended) *)
Definition lc_demand (fn : lcfn) (n : node) (v : val) (path : list string) : lcdemand :=
  match lc_demand0 fn n v path with
  | DResult z => if type_bad n path then DResultOrError z else DResult z
  | d => d
  end.
