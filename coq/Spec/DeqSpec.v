(* Spec/DeqSpec.v - what C05 and C11 demand of DeepEqual / DeepEqualWithOptions, written
   from the property texts, not from the emitter.

   C05: "true for any value compared with itself or with a structurally identical value
   (same scalars, strings and bytes, same lengths and key sets, same nil-ness of
   pointers), and false whenever two values differ in a scalar, string or bytes element
   (floats: by more than the tolerance), in a collection's length or key set, or in the
   nil-ness of a pointer."
   => one relation [seqv] with two float readings: [None] = the same float (what "structurally
   identical" needs), [Some tol] = equal or within the tolerance (the complement is what "differ
   by more than the tolerance" means).  Between the two the text demands symmetry only.

   C11: a FIELD is a struct field; its option name is the dotted chain of the struct field
   names leading to it (map keys and slice indices do not appear in option names).
   [skip q] = the options take field q out of the comparison; a skipped field is ignored
   with everything below it.

   Pointer keys are compared by identity.  Values are trees, so two distinct values share
   no pointer key: their key sets are the same only when both maps are empty.  [sh] = the
   two operands are the very same object (every key is then its own counterpart).
   DECISION: a structural copy of a value with a non-empty pointer-keyed map has fresh keys,
   so it is not "structurally identical" in the sense of the text (the key sets differ) and
   C05 does not require it to compare equal. *)
From Coq Require Import List Bool String Ascii ZArith Arith Lia Floats.SpecFloat.
From Verif Require Import Util Ints Strconv Floats Node Value Outcome.
Import ListNotations.
Local Open Scope string_scope.

(* the option name of field [name] of a struct whose own option name is [fp] *)
Definition fext (fp name : string) : string :=
  match fp with EmptyString => name | _ => fp ++ "." ++ name end.

(* the two readings of "the same float" *)
Definition same_float (tol : option spec_float) (a b : spec_float) : bool :=
  match tol with
  | None => f64_eqb a b
  | Some t => f64_eqb a b || equal_float64 a b t
  end.

Definition same_bytes (d e : list ascii) : bool := String.eqb (string_of_bytes d) (string_of_bytes e).

(* fields pairwise, a skipped field counts as equal *)
Definition seq_fields (skip : string -> bool) (fp : string) (rec : node -> string -> val -> val -> bool)
  : list node -> list val -> list val -> bool :=
  fix go (chs : list node) (fs gs : list val) {struct chs} : bool :=
    match chs with
    | [] => true
    | ch :: cr =>
      match fs, gs with
      | f :: fr, g :: gr =>
        let q := fext fp (n_name ch) in
        (skip q || rec ch q f g) && go cr fr gr
      | _, _ => false
      end
    end.

(* every key of [lk] is a key of [rk], with related values *)
Definition keys_within (rel : val -> val -> bool) (lk rk : list (val * val)) : bool :=
  forallb (fun kv => match map_find rk (fst kv) with Some v' => rel (snd kv) v' | None => false end) lk.

Fixpoint seqv (sh : bool) (skip : string -> bool) (tol : option spec_float) (n : node) (fp : string)
              (a b : val) {struct n} : bool :=
  match n with
  | Node ty tn tu nm pk pki p chld mk mv sl hb hc =>
    let inner (x y : val) : bool :=
      match ty with
      | typeBasic =>
        match x, y with
        | VFloat f, VFloat g => same_float tol f g
        | VBool c, VBool d => Bool.eqb c d
        | VInt c, VInt d => Z.eqb c d
        | VStr c, VStr d => String.eqb c d
        | _, _ => false
        end
      | typeStruct =>
        match x, y with
        | VStruct fs, VStruct gs => seq_fields skip fp (fun ch q f g => seqv sh skip tol ch q f g) chld fs gs
        | _, _ => false
        end
      | typeMap =>
        match x, y, mk, mv with
        | VMap _ lk, VMap _ rk, Some kn, Some vn =>
          (* same length, same key set, same values under the same keys *)
          Nat.eqb (List.length lk) (List.length rk) &&
          (if n_ptr kn then
             (if sh then forallb2 (fun e1 e2 => seqv sh skip tol vn fp (snd e1) (snd e2)) lk rk
              else match lk with [] => true | _ => false end)
           else keys_within (fun u v => seqv sh skip tol vn fp u v) lk rk && keys_within (fun _ _ => true) rk lk)
        | _, _, _, _ => false
        end
      | typeSlice =>
        if String.eqb tn "[]byte" then
          match x, y with VBytes _ d _, VBytes _ e _ => same_bytes d e | _, _ => false end
        else
          match x, y, sl with
          | VSlice _ le _, VSlice _ re _, Some en =>
            Nat.eqb (List.length le) (List.length re) && forallb2 (fun u v => seqv sh skip tol en fp u v) le re
          | _, _, _ => false
          end
      end in
    if p then
      match a, b with
      | VPtr None, VPtr None => true
      | VPtr (Some x), VPtr (Some y) => inner x y
      | _, _ => false
      end
    else inner a b
  end.

(* ---------- C05 ---------- *)
Definition no_skip (q : string) : bool := false.
(* structurally identical *)
Definition seq_strict (sh : bool) (n : node) (a b : val) : bool := seqv sh no_skip None n "" a b.
(* no difference of a listed kind (floats: none beyond the tolerance) *)
Definition seq_tol (sh : bool) (tol : spec_float) (n : node) (a b : val) : bool := seqv sh no_skip (Some tol) n "" a b.

(* the default tolerance "1e-3" as the property text's constant *)
Definition default_tol : spec_float := f64_of_decimal false 1 (-3).

Inductive demand := DTrue | DFalse | DEither.     (* DEither: the text leaves the answer open *)

Definition demand_of (strict tolerant : bool) : demand :=
  if strict then DTrue else if tolerant then DEither else DFalse.

Definition c05_demand (sh : bool) (n : node) (a b : val) : demand :=
  demand_of (seq_strict sh n a b) (seq_tol sh default_tol n a b).

(* ---------- C11 ---------- *)
(* the decision table of the text:
     nil options                    every field is compared
     a non-empty Exclude            exactly the fields not named in it (Filter is then ignored)
     otherwise a non-empty Filter   exactly the named fields
     otherwise                      every field                                            *)
Record opt_spec := OptSpec { os_prec : spec_float; os_excl : list string; os_filt : list string }.

Definition listed (q : string) (l : list string) : bool := existsb (fun s => String.eqb s q) l.

Definition field_compared (o : option opt_spec) (q : string) : bool :=
  match o with
  | None => true
  | Some o =>
    if negb (Nat.eqb (List.length (os_excl o)) 0) then negb (listed q (os_excl o))
    else if negb (Nat.eqb (List.length (os_filt o)) 0) then listed q (os_filt o)
    else true
  end.

(* "A positive Precision replaces the default float tolerance" *)
Definition tolerance_of (o : option opt_spec) : spec_float :=
  match o with
  | Some o => if f64_ltb (S754_zero false) (os_prec o) then os_prec o else default_tol
  | None => default_tol
  end.

Definition c11_demand (o : option opt_spec) (n : node) (a b : val) : demand :=
  let skip := fun q => negb (field_compared o q) in
  demand_of (seqv false skip None n "" a b) (seqv false skip (Some (tolerance_of o)) n "" a b).

Definition pr_demand (d : demand) : string :=
  match d with
  | DTrue => "ab=t;ba=t"
  | DFalse => "ab=f;ba=f"
  | DEither => "ab=t;ba=t || ab=f;ba=f"      (* either answer, but the same in both orders *)
  end.
