(* Spec/StringsSpec.v - what property C17 demands, written from the property
   text only.  The wrapped value is the abstract sequence of its element texts;
   representation ([]string / [][]byte) and argument form (value / pointer) do
   not appear here, except that a slice handed over by value cannot be
   truncated or appended to by the callee (Go semantics), so Reset and the
   destination of CopyTo are only meaningful through a pointer. *)
From Coq Require Import ZArith NArith List Bool Ascii String Lia.
From Verif Require Import Util.
Import ListNotations.
Local Open Scope Z_scope.

Definition text_t := list ascii.
Definition aseq := list text_t.

(* "0 <= i < len" *)
Definition in_range (a : aseq) (i : Z) : bool := (0 <=? i) && (i <? Z.of_nat (List.length a)).

(* the element an index addresses; outside the range it addresses nothing *)
Definition elem_at (a : aseq) (i : Z) : option text_t :=
  if in_range a i then nth_error a (Z.to_nat i) else None.

(* Set replaces exactly element i (the empty text included); outside the range nothing changes *)
Definition replace_at (a : aseq) (i : Z) (t : text_t) : aseq :=
  if in_range a i then upd_nth (Z.to_nat i) t a else a.

(* native comparison of two texts (Go: byte-wise lexicographic) *)
Definition byte_lt (x y : ascii) : bool := N.ltb (N_of_ascii x) (N_of_ascii y).
Fixpoint text_lt (a b : text_t) : bool :=
  match a, b with
  | _, [] => false
  | [], _ :: _ => true
  | x :: a', y :: b' => byte_lt x y || (Ascii.eqb x y && text_lt a' b')
  end.
Definition text_eq (a b : text_t) : bool :=
  Nat.eqb (List.length a) (List.length b) && forallb (fun p => Ascii.eqb (fst p) (snd p)) (combine a b).

(* the six operators of the quantifier *)
Inductive cop := CEq | CNe | CGt | CGe | CLt | CLe.
Definition native_cmp (o : cop) (l r : text_t) : bool :=
  match o with
  | CEq => text_eq l r
  | CNe => negb (text_eq l r)
  | CGt => text_lt r l
  | CGe => negb (text_lt l r)
  | CLt => text_lt l r
  | CLe => negb (text_lt r l)
  end.

(* Compare on index i: the native comparison of the addressed element, or nothing *)
Definition compare_at (a : aseq) (i : Z) (o : cop) (r : text_t) : option bool :=
  match elem_at a i with Some t => Some (native_cmp o t r) | None => None end.

Definition length_at (a : aseq) (i : Z) : option Z :=
  match elem_at a i with Some t => Some (Z.of_nat (List.length t)) | None => None end.

(* Loop: all elements, in order, each with the decimal text of its index *)
Fixpoint loop_visits (j : nat) (a : aseq) : list (string * text_t) :=
  match a with
  | [] => []
  | t :: r => (Z_to_string (Z.of_nat j), t) :: loop_visits (S j) r
  end.
Definition loop_all (a : aseq) : list (string * text_t) := loop_visits 0 a.

(* DeepEqual: equal length and element-wise equal content; two empty sequences are equal *)
Definition seq_equal (a b : aseq) : bool :=
  Nat.eqb (List.length a) (List.length b) && forallb (fun p => text_eq (fst p) (snd p)) (combine a b).

(* CopyTo appends copies; Reset truncates to length zero *)
Definition copy_appended (dst src : aseq) : aseq := dst ++ src.
Definition reset_seq (a : aseq) : aseq := [].

(* ---------- histories against the abstract sequence ---------- *)
(* what one step shows *)
Inductive sobs :=
| SDone                                   (* carried out *)
| SRefused                                (* cannot be carried out on a by-value slice *)
| SElem (e : option (Z * text_t))         (* Get: index and content of the addressed element, or nothing *)
| SCmp (r : option bool)                  (* Compare: the value stored in the result, or nothing stored *)
| SLen (r : option Z)
| SVisits (vs : list (string * text_t))
| SBool (b : bool)
| SCopied (d : aseq)
| SAny.                                   (* the property does not say what is shown *)

Inductive sop :=
| PSet (i : Z) (t : text_t)
| PGet (i : Z)
| PCompare (o : cop) (r : text_t) (i : Z)
| PLength (i : Z)
| PLoop
| PDeepEqual (other : aseq)
| PCopyFrom (src : aseq)
| PCopyOut
| PReset
| PRead.                                  (* a call the property does not pin down further (unparsable index, whole-sequence
                                             Length/Capacity, element capacity, unknown operator, unsupported operand):
                                             whatever it answers, the sequence stays as it is *)

(* [ptr]: the value is reached through a pointer *)
Definition sstep (ptr : bool) (a : aseq) (o : sop) : aseq * sobs :=
  match o with
  | PSet i t => (replace_at a i t, SDone)
  | PGet i => (a, SElem (match elem_at a i with Some t => Some (i, t) | None => None end))
  | PCompare c r i => (a, SCmp (compare_at a i c r))
  | PLength i => (a, SLen (length_at a i))
  | PLoop => (a, SVisits (loop_all a))
  | PDeepEqual b => (a, SBool (seq_equal a b))
  | PCopyFrom src => if ptr then (copy_appended a src, SDone) else (a, SRefused)
  | PCopyOut => (a, SCopied (copy_appended [] a))
  | PReset => if ptr then (reset_seq a, SDone) else (a, SRefused)
  | PRead => (a, SAny)
  end.

Definition srun (ptr : bool) (ops : list sop) (a : aseq) : aseq := fold_left (fun s o => fst (sstep ptr s o)) ops a.
Fixpoint strace (ptr : bool) (ops : list sop) (a : aseq) : list sobs :=
  match ops with
  | [] => []
  | o :: r => let '(a', ob) := sstep ptr a o in ob :: strace ptr r a'
  end.
