(* Spec/StrAnyMapSpec.v - what property C18 demands, written from the property
   text only (no reference to stranymap.go or to the model).

   "On trees of map[string]any (nested maps held by value, pointer or double
    pointer) Get, Compare, Length, Capacity and Loop address the node reached
    by following the path keys, and Set creates or replaces exactly the
    addressed leaf (creating intermediate maps as needed) with strings and
    bytes copied into the buffer.  Copy/CopyTo yield a tree equal to the source
    whose nested maps, strings and byte slices are fresh, and Reset empties the
    map in place.  Absent keys yield no value and no error, and stepping
    through a non-map yields the unsupported-type error."

   The abstract tree has no memory: a leaf is its Go value (a byte slice has
   content and capacity), a map node is how it is held plus its entries. *)
From Coq Require Import ZArith NArith List String Ascii Bool.
From Verif Require Import Ints Strconv.
Import ListNotations.
Local Open Scope string_scope.

Inductive hold := HVal | HPtr | HPtr2.
Inductive leaf :=
| LNil | LBool (b : bool) | LInt (k : ikind) (z : Z) | LStr (s : string)
| LBytes (d : string) (extra : N).                (* cap = len + extra *)
Inductive tree :=
| TLeaf (l : leaf)
| TMap (h : hold) (es : list (string * tree)).

Definition tentries := list (string * tree).

(* ---------- reading and writing one map ---------- *)
Fixpoint tlookup (k : string) (es : tentries) : option tree :=
  match es with
  | [] => None
  | (k', v) :: r => if String.eqb k k' then Some v else tlookup k r
  end.

Fixpoint tupsert (k : string) (v : tree) (es : tentries) : tentries :=
  match es with
  | [] => [(k, v)]
  | (k', v') :: r => if String.eqb k k' then (k, v) :: r else (k', v') :: tupsert k v r
  end.

(* ---------- following a key path ---------- *)
Inductive nav := NFound (t : tree) | NAbsent | NNonMap.

Fixpoint tnav (t : tree) (path : list string) : nav :=
  match path with
  | [] => NFound t
  | k :: rest =>
    match t with
    | TLeaf _ => NNonMap                              (* stepping through a non-map *)
    | TMap _ es =>
      match tlookup k es with
      | None => NAbsent
      | Some c => tnav c rest
      end
    end
  end.

(* ---------- what each reading operation reports at the addressed node ---------- *)
(* Get: the node itself. *)

(* Length: number of entries / bytes; nothing for other leaves. *)
Definition tlen (t : tree) : option Z :=
  match t with
  | TMap _ es => Some (Z.of_nat (List.length es))
  | TLeaf (LStr s) => Some (Z.of_nat (String.length s))
  | TLeaf (LBytes d _) => Some (Z.of_nat (String.length d))
  | TLeaf _ => None
  end.

(* Capacity: only byte slices have one. *)
Definition tcap (t : tree) : option Z :=
  match t with
  | TLeaf (LBytes d extra) => Some (Z.of_nat (String.length d) + Z.of_N extra)%Z
  | _ => None
  end.

(* Compare: the native comparison of the leaf with the operand read in the
   leaf's own type (strconv syntax, as everywhere in this library); an operand
   that does not read as that type decides nothing.  Booleans and byte slices
   only know equal / not equal.  A node that is not a comparable leaf compares
   false.  [c] is the numeric value of inspector.Op (1 = Eq ... 6 = Ltq). *)
Definition ord_holds (c : Z) (o : comparison) : bool :=
  match c, o with
  | 1, Eq => true | 1, _ => false
  | 2, Eq => false | 2, _ => true
  | 3, Gt => true | 3, _ => false
  | 4, Lt => false | 4, _ => true
  | 5, Lt => true | 5, _ => false
  | 6, Gt => false | 6, _ => true
  | _, _ => false
  end%Z.
Definition eq_holds (c : Z) (same : bool) : bool :=
  match c with 1 => same | 2 => negb same | _ => false end%Z.

Definition tcmp (t : tree) (c : Z) (right : string) : option bool :=
  match t with
  | TLeaf (LInt k z) =>
    match (if is_signed k then parse_int right 0 64 else parse_uint right 0 (2 ^ 64 - 1)) with
    | Some r => Some (ord_holds c (Z.compare z r))
    | None => None
    end
  | TLeaf (LBool b) => match parse_bool right with Some r => Some (eq_holds c (Bool.eqb b r)) | None => None end
  | TLeaf (LStr s) => Some (ord_holds c (String.compare s right))
  | TLeaf (LBytes d _) => Some (eq_holds c (String.eqb d right))
  | _ => Some false
  end.

(* Loop: every entry of the addressed map, each once (order is not specified:
   observations are compared as sets). *)
Definition tpairs (t : tree) : option tentries :=
  match t with TMap _ es => Some es | TLeaf _ => None end.

(* ---------- Set ---------- *)
(* "strings and bytes copied into the buffer": the stored leaf is a copy with
   exactly the content (a copied byte slice has no spare capacity, C07). *)
Definition stored (v : tree) : tree :=
  match v with TLeaf (LBytes d _) => TLeaf (LBytes d 0) | _ => v end.

(* the chain of intermediate maps for the rest of the path, then the leaf *)
Fixpoint tchain (path : list string) (v : tree) : tree :=
  match path with
  | [] => v
  | k :: rest => TMap HVal [(k, tchain rest v)]
  end.

Inductive setres := SetOk (t : tree) | SetNonMap.

(* defined for non-empty paths; the property says nothing about the empty one *)
Fixpoint tset (t : tree) (path : list string) (v : tree) : setres :=
  match path with
  | [] => SetOk v
  | k :: rest =>
    match t with
    | TLeaf _ => SetNonMap
    | TMap h es =>
      match tlookup k es with
      | None => SetOk (TMap h (tupsert k (tchain rest v) es))
      | Some c =>
        match rest with
        | [] => SetOk (TMap h (tupsert k v es))      (* replaces whatever was there *)
        | _ :: _ =>
          match tset c rest v with
          | SetOk c' => SetOk (TMap h (tupsert k c' es))
          | SetNonMap => SetNonMap
          end
        end
      end
    end
  end.

(* ---------- Copy, Reset ---------- *)
(* equality of trees does not see spare capacity; a copy is tight *)
Fixpoint strip (t : tree) : tree :=
  match t with
  | TLeaf (LBytes d _) => TLeaf (LBytes d 0)
  | TLeaf l => TLeaf l
  | TMap h es => TMap h ((fix go (l : tentries) : tentries :=
                            match l with [] => [] | (k, v) :: r => (k, strip v) :: go r end) es)
  end.
Definition same_tree (a b : tree) : Prop := strip a = strip b.

Definition root_entries (t : tree) : tentries := match t with TMap _ es => es | TLeaf _ => [] end.
(* equal to the source below the root: how the result itself is held is the
   caller's choice (Copy returns a map, CopyTo fills the caller's map) *)
Definition copy_of (src result : tree) : Prop :=
  exists h, same_tree result (TMap h (root_entries src)).

Definition treset (t : tree) : tree := match t with TMap h _ => TMap h [] | _ => t end.

(* ---------- paths ---------- *)
Fixpoint is_prefix (p q : list string) : bool :=
  match p, q with
  | [], _ => true
  | a :: p', b :: q' => String.eqb a b && is_prefix p' q'
  | _ :: _, [] => false
  end.
(* neither is a prefix of the other: q addresses something off the path p *)
Definition off_path (p q : list string) : bool := negb (is_prefix p q) && negb (is_prefix q p).
