(* Spec/CmpSpec.v - what C04 demands of Compare, written from the property text:

   "For every path that denotes an existing scalar, string or bytes element and every right
    operand that parses as that element's type and fits its range, Compare sets the result to
    the native ==, !=, >, >=, <, <= (only ==/!= for booleans and bytes) between the element and
    the parsed operand.  For a pointer-typed element the operand "nil" with ==/!= reports its
    nil-ness.  An unparsable operand returns an error, and a path that denotes nothing leaves
    the result untouched (or, for an absent map key only, compares the element type's zero
    value) and returns no error."

   Readings fixed here (each one makes the demand weaker, never stronger):
   - an operand "parses as the element's type" when strconv's reader for that family accepts
     it (base prefixes and underscores for integers; decimal / inf / nan for floats;
     ParseBool's ten words); integers outside the kind's range: nothing is demanded;
     float32 elements take the float64 reading rounded to float32, an overflow there: nothing;
   - `byte` elements: nothing is demanded (is "65" the number or the characters?);
   - a non-nil pointer to a scalar / string / bytes denotes that scalar; a nil one, a pointer
     to a struct or collection, and struct / collection elements themselves with an operand
     other than "nil": nothing is demanded;
   - an unparsable KEY or INDEX segment: the error or "untouched";
   - keys of pointer type cannot be named by a text: treated like an absent key;
   - a path that continues past a scalar, string or bytes position: nothing is demanded. *)
From Coq Require Import List Bool String Ascii ZArith Arith Floats.SpecFloat.
From Verif Require Import Util Ints Strconv Floats Node Value Outcome Nav Cmp.
Import ListNotations.
Local Open Scope string_scope.

Inductive cdemand :=
| DAny                      (* the property is silent *)
| DSet (b : bool)           (* *result = b, no error *)
| DKeep                     (* *result untouched, no error *)
| DErr                      (* an error is returned *)
| DOr (a b : cdemand).

(* ---------- operands ---------- *)
Inductive operand := OpBad | OpRange | OpSilent | OpVal (v : val).

Definition unbounded : Z := 4096.     (* bit size standing for "no bound" in the readers below *)

Definition parse_operand (k : lkind) (s : string) : operand :=
  match k with
  | LBytes => OpVal (VBytes false (bytes_of_string s) 0)
  | LScalar SString => OpVal (VStr s)
  | LScalar SBool => match parse_bool s with Some b => OpVal (VBool b) | None => OpBad end
  | LScalar SByte => OpSilent
  | LScalar (SInt i) =>
    let r := if is_signed i then parse_int s 0 unbounded else parse_uint s 0 (2 ^ unbounded) in
    match r with
    | None => OpBad
    | Some z => if in_range i z then OpVal (VInt z) else OpRange
    end
  | LScalar SF64 => match parse_float s with Some f => OpVal (VFloat f) | None => OpBad end
  | LScalar SF32 =>
    match parse_float s with
    | None => OpBad
    | Some f =>
      match f, to_f32 f with
      | S754_finite _ _ _, S754_infinity _ => OpRange
      | _, g => OpVal (VFloat (to_f64 g))
      end
    end
  end.

(* ---------- Go's comparison operators on two values of one kind ---------- *)
Definition native (op : cop) (a b : val) : option bool :=
  match a, b with
  | VBool x, VBool y =>
    match op with OEq => Some (Bool.eqb x y) | ONq => Some (negb (Bool.eqb x y)) | _ => None end
  | VBytes _ x _, VBytes _ y _ =>
    match op with OEq => Some (bytes_eqb x y) | ONq => Some (negb (bytes_eqb x y)) | _ => None end
  | VInt x, VInt y =>
    match op with
    | OEq => Some (x =? y)%Z | ONq => Some (negb (x =? y)%Z)
    | OGt => Some (x >? y)%Z | OGtq => Some (x >=? y)%Z | OLt => Some (x <? y)%Z | OLtq => Some (x <=? y)%Z
    | _ => None
    end
  | VFloat x, VFloat y =>
    match op with
    | OEq => Some (f64_eqb x y) | ONq => Some (negb (f64_eqb x y))
    | OGt => Some (f64_ltb y x) | OGtq => Some (f64_leb y x) | OLt => Some (f64_ltb x y) | OLtq => Some (f64_leb x y)
    | _ => None
    end
  | VStr x, VStr y =>
    match op with
    | OEq => Some (String.eqb x y) | ONq => Some (negb (String.eqb x y))
    | OGt => Some (String.ltb y x) | OGtq => Some (String.leb y x) | OLt => Some (String.ltb x y) | OLtq => Some (String.leb x y)
    | _ => None
    end
  | _, _ => None
  end.

(* the kind of a scalar, string or bytes element *)
Definition spec_kind (en : node) : option lkind :=
  match n_typ en with
  | typeBasic => match node_skind en with Some k => Some (LScalar k) | None => None end
  | typeSlice => if String.eqb (n_typn en) "[]byte" then Some LBytes else None
  | _ => None
  end.

Definition leaf_demand (k : lkind) (x : val) (op : cop) (right : string) : cdemand :=
  match parse_operand k right with
  | OpBad => DErr
  | OpRange | OpSilent => DAny
  | OpVal r => match native op x r with Some b => DSet b | None => DAny end
  end.

(* the element [ev] of type [en] (pointer flag included) the path denotes *)
Definition elem_demand (en : node) (ev : val) (op : cop) (right : string) : cdemand :=
  if n_ptr en then
    if String.eqb right "nil" then
      match op with
      | OEq => DSet (is_nil_ptr ev)
      | ONq => DSet (negb (is_nil_ptr ev))
      | _ => DAny
      end
    else
      match ev, spec_kind en with
      | VPtr (Some x), Some k => leaf_demand k x op right
      | _, _ => DAny
      end
  else
    match spec_kind en with
    | Some k => leaf_demand k ev op right
    | None => DAny
    end.

Definition dem_of (r : navres) (op : cop) (right : string) : cdemand :=
  match r with
  | NElem en ev => elem_demand en ev op right
  | NNone _ => DKeep
  | NBad => DOr DErr DKeep
  | NUnspec => DAny
  end.

(* ---------- navigation that continues below an absent key with the zero value ---------- *)
Fixpoint navz (n : node) (v : val) (path : list string) {struct n} : navres :=
  match path with
  | [] => NElem n v
  | seg :: rest =>
    match n with
    | Node ty tn tu nm pk pki p chld mk mv sl hb hc =>
      let through (x : val) : navres :=
        match ty with
        | typeStruct =>
          match x with
          | VStruct fs => nav_fields (fun c f => navz c f rest) seg chld fs
          | _ => NUnspec
          end
        | typeMap =>
          match x, mk, mv with
          | VMap _ kvs, Some kn, Some vn =>
            match conv_key kn seg with
            | None => NBad
            | Some k =>
              match (if n_ptr kn then None else map_find kvs k) with
              | Some e => navz vn e rest
              | None => navz vn (zero_val vn) rest
              end
            end
          | _, _, _ => NUnspec
          end
        | typeSlice =>
          if String.eqb tn "[]byte" then NUnspec else
          match x, sl with
          | VSlice _ es _, Some en =>
            match conv_index seg with
            | None => NBad
            | Some i =>
              if ((0 <=? i) && (i <? Z.of_nat (List.length es)))%Z then
                match nth_error es (Z.to_nat i) with
                | Some e => navz en e rest
                | None => NNone WIndexRange
                end
              else NNone WIndexRange
            end
          | _, _ => NUnspec
          end
        | typeBasic => NUnspec
        end in
      if p then match v with
                | VPtr (Some x) => through x
                | _ => NNone WNilPointer
                end
      else through v
    end
  end.

(* ---------- paths that continue past a scalar, string or bytes position (whatever the value):
   the property is silent there ([nav] says so only when it gets that far) ---------- *)
Definition pl_fields (rec : node -> bool) (seg : string) : list node -> bool :=
  fix go (cs : list node) : bool :=
    match cs with [] => false | c :: cr => if String.eqb (n_name c) seg then rec c else go cr end.

Fixpoint past_leaf (n : node) (path : list string) {struct n} : bool :=
  match path with
  | [] => false
  | seg :: rest =>
    match n with
    | Node ty tn tu nm pk pki p chld mk mv sl hb hc =>
      match ty with
      | typeBasic => true
      | typeStruct => pl_fields (fun c => past_leaf c rest) seg chld
      | typeMap => match mv with Some vn => past_leaf vn rest | None => false end
      | typeSlice =>
        if String.eqb tn "[]byte" then true
        else match sl with Some en => past_leaf en rest | None => false end
      end
    end
  end.

(* ---------- the demand ---------- *)
Definition cmp_demand (n : node) (v : val) (path : list string) (op : cop) (right : string) : cdemand :=
  if past_leaf n path then DAny else
  match nav n v path with
  | NNone WAbsentKey | NNone WPointerKey => DOr DKeep (dem_of (navz n v path) op right)
  | r => dem_of r op right
  end.
