(* Spec/SetSpec.v - what C03 demands of Set / SetWithBuffer, written from the property text
   (native navigation of Spec/Nav.v), not from the emitter:

     "After Set ... with a path that denotes an existing scalar, string or bytes element and a value
      convertible to it, reading that path yields the assigned value converted to the element's
      type, with or without an accumulating buffer.  Whatever the path and value ... no element off
      the path changes (containers and entries on the path itself may be created)."

   [conv]      the conversion the text speaks of, on the families where it is unambiguous;
   [subst]     the object with exactly the addressed element replaced;
   [offb E]    the frame condition as a decidable relation between the object before and after:
               off the path everything is what it was; on the path a nil pointer, map or slice
               may have been created (everything off the path inside it zero), an absent map
               entry may have appeared; the element the path ends at is constrained by E only. *)
From Coq Require Import List Bool String Ascii ZArith Arith Lia Floats.SpecFloat.
From Verif Require Import Util Ints Strconv Floats Node Value Outcome Nav.
Import ListNotations.
Local Open Scope string_scope.
Local Open Scope list_scope.

(* ---------- assigned values, as the property sees them ---------- *)
Inductive aval :=
| ABool (b : bool) | AInt (k : ikind) (z : Z) | AF32 (f : spec_float) | AF64 (f : spec_float)
| AStr (t : string) | ABytes (t : string).

(* decimal text of a number *)
Definition dec_text (a : aval) : option string :=
  match a with
  | AInt _ z => Some (Z_to_string z)
  | AF32 f | AF64 f => render_float f
  | _ => None
  end.

Definition elem_ikind (k : skind) : option ikind :=
  match k with SInt i => Some i | SByte => Some KUint8 | _ => None end.

(* The assigned value converted to the element's type.  Some c: the text decides; None: it does
   not (a signed integer into an unsigned element, a float into an integer, numbers into bool,
   text that is not a decimal number of the element's family, empty text into bytes ...). *)
Definition conv_scalar (k : skind) (a : aval) : option val :=
  match k, a with
  | SBool, ABool b => Some (VBool b)
  | SString, AStr t | SString, ABytes t => Some (VStr t)
  | SString, ABool _ => None
  | SString, _ => option_map VStr (dec_text a)
  | SF64, AF32 f | SF64, AF64 f => Some (VFloat f)
  | SF32, AF32 f | SF32, AF64 f => Some (VFloat (to_f64 (to_f32 f)))
  | SF64, AStr t | SF64, ABytes t => option_map VFloat (assign_atof t)
  | SF32, AStr t | SF32, ABytes t => option_map (fun f => VFloat (to_f64 (to_f32 f))) (assign_atof t)
  | _, _ =>
    match elem_ikind k with
    | None => None
    | Some i =>
      match a with
      | AInt k' z => if Bool.eqb (is_signed k') (is_signed i) then Some (VInt (wrap i z)) else None     (* Go conversion *)
      | AStr t | ABytes t =>
        option_map (fun z => VInt (wrap i z)) (if is_signed i then assign_atoi t else assign_atou t)
      | _ => None
      end
    end
  end.

Definition conv_bytes (a : aval) : option val :=
  match a with
  | ABytes t => Some (VBytes false (bytes_of_string t) 0)
  | AStr t => if String.eqb t "" then None else Some (VBytes false (bytes_of_string t) 0)
  | ABool _ => None
  | _ => option_map (fun r => VBytes false (bytes_of_string r) 0) (dec_text a)
  end.

Definition is_leaf_node (n : node) : bool :=
  match n_typ n with typeBasic => true | typeSlice => is_bytes_node n | _ => false end.

Definition conv (en : node) (a : aval) : option val :=
  if is_bytes_node en then conv_bytes a
  else match n_typ en, node_skind en with
       | typeBasic, Some k => conv_scalar k a
       | _, _ => None
       end.

(* ---------- the object with the element at the path replaced ---------- *)
Definition subst_fields (rec : node -> val -> val) (seg : string) : list node -> list val -> list val :=
  fix go (cs : list node) (fs : list val) : list val :=
    match cs, fs with
    | c :: cr, f :: fr => if String.eqb (n_name c) seg then rec c f :: fr else f :: go cr fr
    | _, _ => fs
    end.

Fixpoint kvs_replace (kvs : list (val * val)) (k : val) (f : val -> val) : list (val * val) :=
  match kvs with
  | [] => []
  | (k', x) :: r => if key_eqb k' k then (k', f x) :: r else (k', x) :: kvs_replace r k f
  end.

Fixpoint subst (n : node) (v : val) (path : list string) (c : val) {struct n} : val :=
  match path with
  | [] => c
  | seg :: rest =>
    match n with
    | Node ty tn tu nm pk pki p chld mk mv sl hb hc =>
      let through (x : val) : val :=
        match ty with
        | typeStruct =>
          match x with VStruct fs => VStruct (subst_fields (fun ch f => subst ch f rest c) seg chld fs) | _ => x end
        | typeMap =>
          match x, mk, mv with
          | VMap nl kvs, Some kn, Some vn =>
            match conv_key kn seg with
            | Some k => VMap nl (kvs_replace kvs k (fun e => subst vn e rest c))
            | None => x
            end
          | _, _, _ => x
          end
        | typeSlice =>
          match x, sl with
          | VSlice nl es ex, Some en =>
            match conv_index seg with
            | Some i => match nth_error es (Z.to_nat i) with
                        | Some e => if (0 <=? i)%Z then VSlice nl (upd_nth (Z.to_nat i) (subst en e rest c) es) ex else x
                        | None => x
                        end
            | None => x
            end
          | _, _ => x
          end
        | typeBasic => x
        end in
      if p then match v with VPtr (Some x) => VPtr (Some (through x)) | _ => v end else through v
    end
  end.

(* What the text fixes about the object after Set: Some o = the object must be exactly o (the
   addressed element exists, is a scalar / string / bytes that is not behind a nil pointer, and
   the value converts); None = only the frame condition applies. *)
Definition set_demand (n : node) (v : val) (path : list string) (a : aval) : option val :=
  match path with
  | [] => None
  | _ =>
    match nav n v path with
    | NElem en ev =>
      if is_leaf_node en then
        if n_ptr en then
          match ev with
          | VPtr (Some _) => option_map (fun c => subst n v path (VPtr (Some c))) (conv en a)
          | _ => None
          end
        else option_map (subst n v path) (conv en a)
      else None
    | _ => None
    end
  end.

(* ---------- the frame condition ---------- *)
Definition kvs_eqb (a b : list (val * val)) : bool := val_eqb (VMap false a) (VMap false b).

(* is this entry the one the segment names?  Pointer keys are named through their pointee. *)
(* a NaN key is never found again, every store under it adds an entry: all of them are the
   entries the segment "NaN" names *)
Definition key_same (a b : val) : bool :=
  key_eqb a b || match a, b with VFloat S754_nan, VFloat S754_nan => true | _, _ => false end.
Definition key_match (kn : node) (k : val) (k' : val) : bool :=
  if n_ptr kn then match k' with VPtr (Some y) => key_same y k | _ => false end else key_same k' k.

Definition fields_off (rec : node -> val -> val -> bool) (seg : string) : list node -> list val -> list val -> bool :=
  fix go (cs : list node) (a b : list val) : bool :=
    match cs, a, b with
    | c :: cr, x :: ar, y :: br => (if String.eqb (n_name c) seg then rec c x y else val_eqb x y) && go cr ar br
    | [], [], [] => true
    | _, _, _ => false
    end.

Definition elems_off (rec : val -> val -> bool) (target : option nat) : nat -> list val -> list val -> bool :=
  fix go (i : nat) (a b : list val) : bool :=
    match a, b with
    | x :: ar, y :: br =>
      (match target with
       | Some t => if Nat.eqb i t then rec x y else val_eqb x y
       | None => val_eqb x y
       end) && go (S i) ar br
    | [], [] => true
    | _, _ => false
    end.

Fixpoint offb (E : node -> val -> val -> bool) (n : node) (path : list string) (v v' : val) {struct n} : bool :=
  match path with
  | [] => E n v v'
  | seg :: rest =>
    match n with
    | Node ty tn tu nm pk pki p chld mk mv sl hb hc =>
      let inner (x x' : val) : bool :=
        match ty with
        | typeStruct =>
          match x, x' with
          | VStruct a, VStruct b => fields_off (fun c f f' => offb E c rest f f') seg chld a b
          | _, _ => false
          end
        | typeMap =>
          match x, x', mk, mv with
          | VMap nl kvs, VMap nl' kvs', Some kn, Some vn =>
            (negb nl' || nl) &&
            match conv_key kn seg with
            | None => kvs_eqb kvs kvs'
            | Some k =>
              kvs_eqb (filter (fun kv => negb (key_match kn k (fst kv))) kvs)
                      (filter (fun kv => negb (key_match kn k (fst kv))) kvs') &&
              (n_ptr kn ||
               match map_find kvs k, map_find kvs' k with
               | Some e, Some e' => offb E vn rest e e'
               | None, None => true
               | None, Some e' => offb E vn rest (zero_val vn) e'
               | Some _, None => false
               end)
            end
          | _, _, _, _ => false
          end
        | typeSlice =>
          if String.eqb tn "[]byte" then true else
          match x, x', sl with
          | VSlice nl es _, VSlice nl' es' _, Some en =>
            (negb nl' || nl) &&
            let target := match conv_index seg with
                          | Some i => if ((0 <=? i) && (i <? Z.of_nat (List.length es)))%Z then Some (Z.to_nat i) else None
                          | None => None
                          end in
            elems_off (fun e e' => offb E en rest e e') target 0 es es'
          | _, _, _ => false
          end
        | typeBasic => true
        end in
      if p then
        match v, v' with
        | VPtr None, VPtr None => true
        | VPtr (Some x), VPtr (Some x') => inner x x'
        | VPtr None, VPtr (Some x') => inner (zero_val (Node ty tn tu nm pk pki false chld mk mv sl hb hc)) x'
        | _, _ => false
        end
      else inner v v'
    end
  end.

(* "no element off the path changes": the end of the path is free *)
Definition frame_ok (n : node) (path : list string) (v v' : val) : bool := offb (fun _ _ _ => true) n path v v'.
