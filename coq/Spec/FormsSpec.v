(* Spec/FormsSpec.v - what property C12 demands, written from its text:

     "Every read operation (Get, GetTo, Compare, Loop, Length, Capacity, DeepEqual, Copy's
      source) gives the same answer whether the value is passed by value, by pointer or by
      pointer-to-pointer, and never modifies the value it reads.  Operations that must write
      through their argument (Reset, CopyTo's destination) reject a by-value argument with
      the must-be-pointer error, and an argument of an unrelated type is refused
      (unsupported-type error, false, or no effect) without side effects."

   Nothing here looks at an emitter model. *)
From Coq Require Import List Bool String Ascii ZArith Arith.
From Verif Require Import Util Node Value Outcome Get.
Import ListNotations.
Local Open Scope string_scope.

Inductive opname := OGet | OGetTo | OCompare | OLoop | OLength | OCapacity | ODeepEqual | OCopy | OCopyToSrc | OCopyToDst | OReset.

(* the operations the text lists as read operations *)
Definition reads (o : opname) : bool :=
  match o with OCopyToDst | OReset => false | _ => true end.

(* the operations that must write through their argument *)
Definition must_write (o : opname) : bool := negb (reads o).

(* ---------- the three forms: what "the same answer" means ----------
   For every operation but Get/GetTo the answer is a plain datum (a number, a boolean, the
   calls made on the iterator, a copy) and "the same" is equality.  Get/GetTo answer with a
   reference.  By value the inspector works on a copy of the root object, so the reference
   cannot be to the caller's object where the place lies inside that copy; the text's "same
   answer" is about what the reference finally denotes: the same value at the same access
   path.  A reference that is live by value must be live by pointer. *)
Definition in_root (l : loc) : bool := forallb (fun s => match s with SField _ => true | _ => false end) l.

(* two final denotations (value, access path, is-a-copy): by value / by pointer *)
Definition same_denotation (dv dp : option (val * loc * bool)) : Prop :=
  match dv, dp with
  | None, None => True
  | Some (xv, lv, cv), Some (xp, lp, cp) => xv = xp /\ lv = lp /\ cv = cp || in_root lp
  | _, _ => False
  end.

(* the content of the result buffer: untouched in both forms, or references with the same denotation *)
Definition same_buf (bv bp : option ref) : Prop :=
  bv = bp \/ exists rv rp, bv = Some rv /\ bp = Some rp /\ same_denotation (final rv) (final rp).

Definition same_ref_answer (ov op : out (option ref)) : Prop :=
  match ov, op with
  | Panic k, Panic k' => k = k'
  | Ret bv ev, Ret bp ep => ev = ep /\ same_buf bv bp
  | Fall bv, Fall bp => same_buf bv bp
  | _, _ => False
  end.

(* ---------- GetTo and a result buffer that is not empty ----------
   GetTo answers through a buffer of the caller, and the caller may hand over the buffer that holds the answer of
   an earlier call.  The text gives the buffer no part in the answer ("gives the same answer ...", "never modifies the
   value it reads"): the call either stores its answer in the buffer or leaves the buffer alone, so with a buffer
   that holds [buf] it answers what it answers with an empty buffer, "nothing stored" read as "[buf] is still
   there" - and in particular nothing is stored THROUGH what the buffer holds. *)
Definition rebuf (buf : option ref) (o : out (option ref)) : out (option ref) :=
  match o with
  | Ret None e => Ret buf e
  | Fall None => Fall buf
  | _ => o
  end.

(* ---------- a foreign argument is refused ---------- *)
Inductive refusal :=
| RUnsupported      (* the unsupported-type error *)
| RFalse            (* false *)
| RNoEffect.        (* nil error, every output parameter left as it was, no callback *)

(* which of the three a method's signature can express: DeepEqual returns a boolean only; the
   methods with output parameters can leave them alone; all methods returning an error can
   return the unsupported-type error.  The text does not choose: all expressible ones are accepted. *)
Definition may_refuse (o : opname) : list refusal :=
  match o with
  | ODeepEqual => [RFalse]
  | _ => [RUnsupported; RNoEffect]
  end.

(* ---------- a by-value argument of a writing operation ---------- *)
Definition by_value_error : err := EMustPointer.

(* ---------- the demand on one grouped observation of the stream ----------
   k operations, each run by value, by pointer and by pointer-to-pointer:
   agree=<by value ~ by pointer><by pointer-to-pointer ~ by pointer> per operation; same=<arguments unchanged> per form *)
Definition forms_demand (k : nat) : string := "agree=" ++ String.concat "." (repeat "11" k) ++ ";same=111".

(* ---------- the demand on a grouped HISTORY of read operations ----------
   "never modifies the value it reads": after every step of a history of reads every object the history touches is
   as it was before the first step - whatever caller-owned buffers the steps share - so every step finds the values
   a call alone finds and answers like that call alone, in each of the three forms.  For a GetTo that is handed the
   history's shared result buffer "answers like the call alone" is [rebuf]: the answer of the call alone (fresh
   objects, a fresh buffer) where that call stores one, the buffer exactly as it was where that call stores nothing.
   k steps: alone=<by value><by pointer><by pointer-to-pointer> per step; same=<objects unchanged> per step and form *)
Definition history_demand (k : nat) : string :=
  "alone=" ++ String.concat "." (repeat "111" k) ++ ";same=" ++ String.concat "." (repeat "111" k).

(* ---------- refusals as outcomes ----------
   [before]: the content of the method's output parameter (result buffer, *result, the calls made
   on the iterator so far, "no value") when the call starts. *)
Definition refuses {S : Type} (r : refusal) (before : S) (o : out S) : Prop :=
  match r with
  | RUnsupported => o = Ret before (Some EUnsupported)
  | RNoEffect => o = Ret before None
  | RFalse => False
  end.

Definition refused {S : Type} (op : opname) (before : S) (o : out S) : Prop :=
  exists r, In r (may_refuse op) /\ refuses r before o.

(* DeepEqual answers with a boolean (or panics) *)
Definition refused_bool (op : opname) (o : bool + pkind) : Prop :=
  In RFalse (may_refuse op) /\ o = inl false.
