(* Spec/AssignSpec.v - the canonical conversion table of property C19, written
   from the PROPERTY TEXT (not from assign_builtin.go):

     "Assign/AssignBuf store into a pointer destination the canonical conversion
      of the source: same-family numbers by Go conversion, decimal text (string or
      bytes) parsed into numeric destinations, any scalar rendered as decimal text
      into string and bytes destinations (replacing, not extending, the previous
      content), booleans from bool, from the text "true" or from non-zero numbers;
      value and pointer forms of a source are equivalent.  When no conversion
      applies they return false and leave the destination untouched, and with a
      buffer the produced text lives in the buffer."

   Families: bool | signed integers | unsigned integers | floats | text.
   Decisions taken from the text:
   * numbers convert only inside their family ("same-family numbers"); an int
     source and a uint or float destination, a float source and an int
     destination, a bool source and a numeric destination: "no conversion
     applies" -> false, destination untouched.
   * a typed nil pointer has no value to convert: no conversion applies.
   * bool destination: the stored boolean is true exactly when the source is the
     bool true, the text "true", or a number that is not zero (NaN is not zero);
     every bool, text and number source converts.
   * a text destination takes every source: text as it is, bool as true/false,
     integers in decimal, floats in decimal positional notation ([rf], see below).
   * "decimal text": optional sign and decimal digits for integers (no sign for
     unsigned), and sign? digits [. digits] [e sign? digits] for floats.  Hex,
     underscores, blanks, inf/nan words are not decimal text.

   Where the text is SILENT there are two defensible readings, and both are kept:
     Strict  : a numeral must denote a value of the destination type
               ("300" does not convert to int8; "1e39" not to float32), an unsigned
               numeral carries no sign, a float numeral has a digit after its dot;
     Lenient : the numeral is parsed at 64 bits and then Go-converted like a number
               of that family ("300" -> int8(300) = 44; "1e39" -> float32 +Inf),
               "+5" is an unsigned numeral, "1." is a float numeral.
   [conv Strict] = [conv Lenient] except on those inputs ([silent]); the matrix
   theorem is stated where they agree, and everywhere the code must realise one
   of the two.
   A float32 destination receives the text parsed as float64 (correctly rounded)
   and then converted with Go's float32() - the composition of the two
   conversions the text names; rounding the decimal directly to float32 can
   differ from that in the last bit on rare ties, which this reading ignores.

   [rf] is "the decimal rendering of a float64" (Go: AppendFloat(f,'f',-1,64));
   it is a parameter here and the theorems tie it to Floats.render_float by an
   explicit hypothesis on the exact-decimal domain.

   This file shares with the model only the data types of Model/AssignVal.v and
   the validated slices of Go in Base (wrap = Go's integer conversion,
   to_f32/to_f64 = Go's float conversions, parse_float = the correctly rounded
   float64 a decimal text denotes); it does not import Model/Assign.v. *)
From Coq Require Import ZArith Bool String Ascii List Floats.SpecFloat.
From Verif Require Import Util Ints Strconv Floats AssignVal.
Import ListNotations.
Local Open Scope Z_scope.

Inductive family := FamBool | FamSigned | FamUnsigned | FamFloat | FamText.

Definition family_of (k : skind) : family :=
  match k with
  | KB => FamBool
  | KI k => if is_signed k then FamSigned else FamUnsigned
  | KF32 | KF64 => FamFloat
  | KS | KBy => FamText
  end.

Inductive reading := Strict | Lenient.

(* ---------- decimal numerals ---------- *)
Fixpoint dec_digits (s : string) (acc : Z) : option Z :=
  match s with
  | EmptyString => Some acc
  | String c r => if is_digit c then dec_digits r (acc * 10 + (code c - 48)) else None
  end.

(* one or more decimal digits *)
Definition unsigned_dec (s : string) : option Z :=
  match s with EmptyString => None | _ => dec_digits s 0 end.

Definition is_minus (c : ascii) : bool := code c =? 45.
Definition is_plus (c : ascii) : bool := code c =? 43.
Definition is_dot (c : ascii) : bool := code c =? 46.
Definition is_e (c : ascii) : bool := (code c =? 101) || (code c =? 69).

(* [-+]? digits+ *)
Definition signed_dec (s : string) : option Z :=
  match s with
  | String c r =>
    if is_minus c then option_map Z.opp (unsigned_dec r)
    else if is_plus c then unsigned_dec r
    else unsigned_dec s
  | EmptyString => None
  end.

(* [+]? digits+ *)
Definition plus_unsigned_dec (s : string) : option Z :=
  match s with
  | String c r => if is_plus c then unsigned_dec r else unsigned_dec s
  | EmptyString => None
  end.

Definition wide (k : ikind) : ikind := if is_signed k then KInt64 else KUint64.

Definition text_to_int (rd : reading) (k : ikind) (s : string) : option Z :=
  let num := if is_signed k then signed_dec s
             else match rd with Strict => unsigned_dec s | Lenient => plus_unsigned_dec s end in
  match num with
  | Some z =>
    if in_range k z then Some z
    else match rd with
         | Strict => None
         | Lenient => if in_range (wide k) z then Some (wrap k z) else None
         end
  | None => None
  end.

(* ---------- decimal float text ---------- *)
Fixpoint skip_digits (s : string) : Z * string :=
  match s with
  | String c r => if is_digit c then let '(n, r') := skip_digits r in (n + 1, r') else (0, s)
  | EmptyString => (0, s)
  end.

(* nothing, or e/E sign? digits+ *)
Definition exponent_ok (s : string) : bool :=
  match s with
  | EmptyString => true
  | String c r =>
    is_e c &&
    match r with
    | String c' r' =>
      let d := if is_minus c' || is_plus c' then r' else r in
      match unsigned_dec d with Some _ => true | None => false end
    | EmptyString => false
    end
  end.

Inductive ftclass := FTNo | FTDotEnd | FTYes.

Definition float_text_class (s : string) : ftclass :=
  let body := match s with String c r => if is_minus c || is_plus c then r else s | _ => s end in
  let '(ni, r1) := skip_digits body in
  match r1 with
  | String c r =>
    if is_dot c then
      let '(nf, r2) := skip_digits r in
      if (ni + nf =? 0) || negb (exponent_ok r2) then FTNo
      else if nf =? 0 then FTDotEnd else FTYes
    else if (ni =? 0) || negb (exponent_ok r1) then FTNo else FTYes
  | EmptyString => if ni =? 0 then FTNo else FTYes
  end.

Definition is_inf (f : spec_float) : bool := match f with S754_infinity _ => true | _ => false end.

(* the value a decimal float text denotes: Floats.parse_float is the correctly rounded
   float64 (None when the text denotes nothing float64 can hold) *)
Definition text_to_float (rd : reading) (to32 : bool) (s : string) : option spec_float :=
  let denotes :=
    match float_text_class s with
    | FTYes => true
    | FTDotEnd => match rd with Strict => false | Lenient => true end
    | FTNo => false
    end in
  if denotes then
    match parse_float s with
    | Some f =>
      if to32 then
        let g := to_f32 f in
        if is_inf g && negb (is_inf f)
        then match rd with Strict => None | Lenient => Some g end
        else Some g
      else Some f
    | None => None
    end
  else None.

(* ---------- the table ---------- *)
Definition is_zero (f : spec_float) : bool := match f with S754_zero _ => true | _ => false end.

Section Conv.
Variable rf : spec_float -> string.

Definition text_of (v : sval) : string :=
  match v with
  | VBool b => if b then "true"%string else "false"%string
  | VInt _ z => Z_to_string z
  | VF32 f => rf (to_f64 f)
  | VF64 f => rf f
  | VStr s | VBytes s => s
  end.

Definition truth (v : sval) : bool :=
  match v with
  | VBool b => b
  | VInt _ z => negb (z =? 0)
  | VF32 f | VF64 f => negb (is_zero f)
  | VStr s | VBytes s => (s =? "true")%string
  end.

(* conv rd dk v: what a destination of kind dk holds after assigning v, or None
   when no conversion applies *)
Definition conv (rd : reading) (dk : skind) (v : sval) : option sval :=
  match dk with
  | KB => Some (VBool (truth v))
  | KI k =>
    match v with
    | VInt ks z => if Bool.eqb (is_signed ks) (is_signed k) then Some (VInt k (wrap k z)) else None
    | VStr s | VBytes s => option_map (VInt k) (text_to_int rd k s)
    | _ => None
    end
  | KF32 =>
    match v with
    | VF32 f => Some (VF32 f)
    | VF64 f => Some (VF32 (to_f32 f))
    | VStr s | VBytes s => option_map VF32 (text_to_float rd true s)
    | _ => None
    end
  | KF64 =>
    match v with
    | VF32 f => Some (VF64 (to_f64 f))
    | VF64 f => Some (VF64 f)
    | VStr s | VBytes s => option_map VF64 (text_to_float rd false s)
    | _ => None
    end
  | KS => Some (VStr (text_of v))
  | KBy => Some (VBytes (text_of v))
  end.

(* value and pointer forms are the same source; a nil pointer and a foreign type carry nothing *)
Definition conv_src (rd : reading) (dk : skind) (src : source) : option sval :=
  match src with
  | SVal v | SPtr v => conv rd dk v
  | SNil _ | SForeign => None
  end.

(* (ok, destination afterwards) *)
Definition expect (rd : reading) (dst : dest) (src : source) : bool * dest :=
  match dst with
  | DPtr old =>
    match conv_src rd (kind_of old) src with
    | Some v => (true, DPtr v)
    | None => (false, dst)
    end
  | DForeign => (false, dst)
  end.

End Conv.

(* the property text decides the input: both readings agree *)
Definition sval_eqb (a b : sval) : bool :=
  match a, b with
  | VBool x, VBool y => Bool.eqb x y
  | VInt k x, VInt l y => ikind_eqb k l && (x =? y)
  | VF32 x, VF32 y | VF64 x, VF64 y =>
    match x, y with
    | S754_zero s, S754_zero t | S754_infinity s, S754_infinity t => Bool.eqb s t
    | S754_nan, S754_nan => true
    | S754_finite s m e, S754_finite t n g => Bool.eqb s t && (Zpos m =? Zpos n) && (e =? g)
    | _, _ => false
    end
  | VStr x, VStr y | VBytes x, VBytes y => (x =? y)%string
  | _, _ => false
  end.

(* where the text is silent: a numeral in a numeric destination on which the two readings part *)
Definition silent (dk : skind) (src : source) : bool :=
  match src with
  | SVal (VStr s) | SPtr (VStr s) | SVal (VBytes s) | SPtr (VBytes s) =>
    match dk with
    | KI k => match text_to_int Strict k s, text_to_int Lenient k s with
              | None, None => false
              | Some a, Some b => negb (a =? b)
              | _, _ => true
              end
    | KF32 => match text_to_float Strict true s, text_to_float Lenient true s with
              | None, None => false | Some a, Some b => negb (sval_eqb (VF32 a) (VF32 b)) | _, _ => true end
    | KF64 => match text_to_float Strict false s, text_to_float Lenient false s with
              | None, None => false | Some a, Some b => negb (sval_eqb (VF64 a) (VF64 b)) | _, _ => true end
    | _ => false
    end
  | _ => false
  end.

(* ---------- who owns a stored text ---------- *)
Definition text_kind (k : skind) : bool := match k with KS | KBy => true | _ => false end.

Definition scalar_src (src : source) : bool :=
  match src with
  | SVal v | SPtr v => negb (text_kind (kind_of v))
  | _ => false
  end.

Definition owner_eqb (a b : owner) : bool :=
  match a, b with
  | ONone, ONone | OSrc, OSrc | OOld, OOld | OFresh, OFresh => true
  | OBuf x, OBuf y => Nat.eqb x y
  | _, _ => false
  end.

(* After a successful assign of [src] into a destination of kind [dk] that now holds
   the text [t]: the admissible (owner, buffer afterwards) pairs.
   * non-text destination: no text is stored, the buffer is not involved;
   * a scalar rendered with a buffer: the text is the part of the buffer that
     follows its previous content ("the produced text lives in the buffer");
   * a scalar rendered without a buffer: freshly allocated - not in the source and not in
     place of the old content either, whose array the destination may share with whoever
     supplied it (text is assigned by reference: "leave ... untouched" covers that memory);
   * text into text: nothing is produced; the text is silent on whether the
     destination shares the source's bytes or holds a copy (in the buffer or not). *)
Definition owners_allowed (dk : skind) (src : source) (buf : option string) (t : string)
  : list (owner * option string) :=
  if negb (text_kind dk) then [(ONone, buf)]
  else if scalar_src src then
    match buf with
    | None => [(OFresh, None)]
    | Some pre => [(OBuf (String.length pre), Some (pre ++ t)%string)]
    end
  else
    [(OSrc, buf); (OOld, buf); (OFresh, buf)] ++
    match buf with
    | None => []
    | Some pre => [(OBuf (String.length pre), Some (pre ++ t)%string)]
    end.

(* ---------- the domain of the statements ---------- *)
(* a Go value of type intN/uintN lies in that type's range; a float32 value is a float32
   (converting it to float64 and back gives it again) *)
Definition wf_sval (v : sval) : Prop :=
  match v with
  | VInt k z => in_range k z = true
  | VF32 f => to_f32 (to_f64 f) = f
  | _ => True
  end.

Definition wf_source (src : source) : Prop :=
  match src with SVal v | SPtr v => wf_sval v | _ => True end.

(* the source is not a typed nil pointer *)
Definition not_nil (src : source) : bool :=
  match src with SNil _ => false | _ => true end.

Definition text_dest (dst : dest) : bool :=
  match dst with DPtr (VStr _) | DPtr (VBytes _) => true | _ => false end.

(* [rf] is AppendFloat(f,'f',-1,64) on the float this source holds: the source's float lies
   in the exact-decimal domain of Floats.render_float *)
Definition rendered (rf : spec_float -> string) (src : source) : Prop :=
  match src with
  | SVal (VF32 f) | SPtr (VF32 f) => render_float (to_f64 f) = Some (rf (to_f64 f))
  | SVal (VF64 f) | SPtr (VF64 f) => render_float f = Some (rf f)
  | _ => True
  end.

(* the text a destination holds (empty for the others) *)
Definition stored_text (d : dest) : string :=
  match d with DPtr (VStr s) | DPtr (VBytes s) => s | _ => ""%string end.

(* the value a source carries *)
Definition value_of (src : source) : option sval :=
  match src with SVal v | SPtr v => Some v | _ => None end.
