(* Spec/EmptySpec.v - the notions the texts of C08 and C06 use, written from the
   texts: emptiness, structural identity up to the stated identifications, and
   what makes a value tree a Go value (map keys pairwise different). *)
From Coq Require Import List Bool String Ascii ZArith Arith Floats.SpecFloat.
From Verif Require Import Util Ints Node Value Outcome.
Import ListNotations.
Local Open Scope string_scope.

(* C08: "every scalar zero, every string, byte slice, slice and map of length zero, at
   every depth reachable through non-nil pointers".
   [pz] = true: a non-nil pointer counts as empty when what it points to is empty (C08);
   [pz] = false: only a nil pointer does (C06: a fresh destination). *)
Fixpoint emp (pz : bool) (v : val) {struct v} : bool :=
  match v with
  | VBool b => negb b
  | VInt z => Z.eqb z 0
  | VFloat f => match f with S754_zero false => true | _ => false end
  | VStr s => String.eqb s ""
  | VBytes _ d _ => match d with [] => true | _ => false end
  | VStruct fs => (fix go (l : list val) : bool := match l with [] => true | x :: r => emp pz x && go r end) fs
  | VSlice _ es _ => match es with [] => true | _ => false end
  | VMap _ kvs => match kvs with [] => true | _ => false end
  | VPtr None => true
  | VPtr (Some x) => pz && emp pz x
  end.

Definition is_empty : val -> bool := emp true.     (* C08: what Reset must leave *)
Definition is_blank : val -> bool := emp false.    (* C06: an empty destination holds no pointer *)

(* The normal form under the identifications: nil and empty collections are the same
   (both become nil; capacities are dropped); with [pz], a pointer to an all-empty value
   is the same as a nil pointer. *)
Fixpoint canon (pz : bool) (v : val) {struct v} : val :=
  match v with
  | VBool _ | VInt _ | VFloat _ | VStr _ => v
  | VBytes _ d _ => VBytes (match d with [] => true | _ => false end) d 0
  | VStruct fs => VStruct ((fix go (l : list val) : list val := match l with [] => [] | x :: r => canon pz x :: go r end) fs)
  | VSlice _ es _ =>
    VSlice (match es with [] => true | _ => false end)
           ((fix go (l : list val) : list val := match l with [] => [] | x :: r => canon pz x :: go r end) es) 0
  | VMap _ kvs =>
    VMap (match kvs with [] => true | _ => false end)
         ((fix go (l : list (val * val)) : list (val * val) :=
             match l with [] => [] | (k, x) :: r => (canon pz k, canon pz x) :: go r end) kvs)
  | VPtr None => VPtr None
  | VPtr (Some x) => if pz && emp pz x then VPtr None else VPtr (Some (canon pz x))
  end.

(* C08: "structurally identical ... once nil and all-empty parts are identified (nil versus
   empty collection, nil pointer versus pointer to an all-zero value)".  Map entries are
   compared in the order the trees list them - stronger than the text needs. *)
Definition equiv_nilempty (a b : val) : Prop := canon true a = canon true b.
(* C06: "structurally identical to it up to nil-versus-empty collections" *)
Definition seq_nilempty (a b : val) : Prop := canon false a = canon false b.

(* ---------- Go values ----------
   A tree is a Go value of the node's type when, besides being well typed, the keys of every
   map are pairwise different under Go's ==.  Pointer keys are compared by identity: in a tree
   two non-nil pointer keys are two allocations; only two nil keys would coincide. *)
Definition skey_eqb (kn : node) (a b : val) : bool :=
  if n_ptr kn then (match a, b with VPtr None, VPtr None => true | _, _ => false end)
  else key_eqb a b.

Fixpoint keys_distinct (kn : node) (ks : list val) : bool :=
  match ks with
  | [] => true
  | k :: r => negb (existsb (fun k' => skey_eqb kn k k') r) && keys_distinct kn r
  end.

Fixpoint gov (n : node) (v : val) {struct n} : bool :=
  match n with
  | Node ty tn tu nm pk pki p chld mk mv sl hb hc =>
    let inner (x : val) : bool :=
      match ty with
      | typeBasic => true
      | typeStruct => match x with VStruct fs => forallb2 gov chld fs | _ => true end
      | typeMap =>
        match x, mk, mv with
        | VMap _ kvs, Some kn, Some vn =>
          forallb (fun kv => gov vn (snd kv)) kvs && keys_distinct kn (map fst kvs)
        | _, _, _ => true
        end
      | typeSlice =>
        match x, sl with
        | VSlice _ es _, Some en => forallb (gov en) es
        | _, _ => true
        end
      end in
    if p then match v with VPtr (Some x) => inner x | _ => true end else inner v
  end.
