(* Spec/GetSpec.v - what C01 (and the aliasing clause of C15) demand of Get / GetTo,
   written from the property texts over the native navigation of Spec/Nav.v:

   C01  "Get and GetTo yield with a nil error a reference to (or copy of) exactly the
        element reached by navigating the value natively along the path [...].  When the
        path denotes no element (unknown field, absent key, index outside [0,len), nil
        pointer on the way) they yield no value - or, for an absent map key only, the
        element type's zero value - and never some other part of the object such as the
        enclosing container.  A key or index segment that cannot be parsed for its type
        yields an error."   Paths that continue past a scalar, string or bytes element
        are unspecified.
   C15  "The reference GetTo returns for a path made only of struct fields, non-nil
        pointers and struct-slice indices is the address of the live element."

   What is compared is what the returned reference finally denotes after following
   pointers (pointer levels are not part of the property). *)
From Coq Require Import List Bool String Ascii ZArith Arith.
From Verif Require Import Util Ints Node Value Outcome Nav LCSpec Get.
Import ListNotations.
Local Open Scope string_scope.
Local Open Scope list_scope.

(* the value an element denotes once pointers are followed; None = a nil pointer *)
Fixpoint fin (v : val) : option val :=
  match v with VPtr None => None | VPtr (Some y) => fin y | _ => Some v end.

(* one acceptable answer *)
Inductive want :=
| WVal (x : val)     (* nil error, the reference finally denotes x *)
| WNil               (* nil error, the reference is / leads to a nil pointer *)
| WNone              (* nil error, nothing was stored *)
| WErr.              (* the parse error *)

(* the element itself.  An element that is a nil pointer finally denotes nothing: a
   reference to that nil pointer and no reference at all are both accepted. *)
Definition elem_wants (e : val) : list want :=
  match fin e with Some x => [WVal x] | None => [WNil; WNone] end.

(* the answers a navigation result admits; [az] = the zero-value answers of an absent key *)
Definition wants_of (r : navres) (az : list want) : list want :=
  match r with
  | NElem _ e => elem_wants e
  | NNone WAbsentKey | NNone WPointerKey => WNone :: az
  | NNone _ => [WNone]
  | NBad => [WErr]
  | NUnspec => []
  end.

(* "for an absent map key only, the element type's zero value": what native Go navigation
   (m[k] without comma-ok) reaches when it continues from the zero value of the map's
   element type along the rest of the path.  The function walks like [nav] to the first
   absent key.  (A pointer-typed key can never be named by a text: absent.) *)
Definition az_fields (rec : node -> val -> list want) (seg : string) : list node -> list val -> list want :=
  fix go (chs : list node) (fs : list val) : list want :=
    match chs, fs with
    | c :: cr, f :: fr => if String.eqb (n_name c) seg then rec c f else go cr fr
    | _, _ => []
    end.

Fixpoint absent_zero (n : node) (v : val) (path : list string) {struct n} : list want :=
  match path with
  | [] => []
  | seg :: rest =>
    match n with
    | Node ty tn tu nm pk pki p chld mk mv sl hb hc =>
      let through (x : val) : list want :=
        match ty with
        | typeStruct =>
          match x with
          | VStruct fs => az_fields (fun c f => absent_zero c f rest) seg chld fs
          | _ => []
          end
        | typeMap =>
          match x, mk, mv with
          | VMap _ kvs, Some kn, Some vn =>
            let zero := wants_of (nav vn (zero_val vn) rest) (absent_zero vn (zero_val vn) rest) in
            match conv_key kn seg with
            | None => []
            | Some k =>
              if n_ptr kn then zero
              else match map_find kvs k with
                   | Some e => absent_zero vn e rest
                   | None => zero
                   end
            end
          | _, _, _ => []
          end
        | typeSlice =>
          if String.eqb tn "[]byte" then [] else
          match x, sl with
          | VSlice _ es _, Some en =>
            match conv_index seg with
            | None => []
            | Some i =>
              if ((0 <=? i) && (i <? Z.of_nat (List.length es)))%Z then
                match nth_error es (Z.to_nat i) with
                | Some e => absent_zero en e rest
                | None => []
                end
              else []
            end
          | _, _ => []
          end
        | typeBasic => []
        end in
      if p then match v with VPtr (Some x) => through x | _ => [] end else through v
    end
  end.

(* does the path, followed through the types, continue past a scalar, string or bytes
   element?  (Unspecified whatever the value: also when a nil pointer or an absent key
   sits in front of it.) *)
Fixpoint past_leaf (n : node) (path : list string) {struct n} : bool :=
  match path with
  | [] => false
  | seg :: rest =>
    match n with
    | Node ty tn tu nm pk pki p chld mk mv sl hb hc =>
      match ty with
      | typeBasic => true
      | typeStruct => tb_fields (fun c => past_leaf c rest) seg chld
      | typeMap => match mv with Some vn => past_leaf vn rest | None => false end
      | typeSlice =>
        if String.eqb tn "[]byte" then true
        else match sl with Some en => past_leaf en rest | None => false end
      end
    end
  end.

(* the demand: None = the property is silent.  Where the path denotes no element and some
   key or index segment cannot be parsed for the type at its position ([type_bad]) the parse
   error is accepted too (navigation may already have ended when the segment is met). *)
Definition get_demand (n : node) (v : val) (path : list string) : option (list want) :=
  if past_leaf n path then None else
  match nav n v path with
  | NUnspec => None
  | NNone w => Some (wants_of (NNone w) (absent_zero n v path) ++ (if type_bad n path then [WErr] else []))
  | r => Some (wants_of r [])
  end.

(* an outcome answers a want *)
Definition want_ok (w : want) (e : option err) (g : gobs) : Prop :=
  match w, e, g with
  | WErr, Some EParse, _ => True
  | WVal x, None, BVal y _ => y = x
  | WNil, None, BNil => True
  | WNone, None, BNone => True
  | _, _, _ => False
  end.

Definition meets (o : out (option ref)) (d : option (list want)) : Prop :=
  match d with
  | None => True
  | Some ws =>
    match o with
    | Ret b e => exists w, In w ws /\ want_ok w e (obs_of_buf b)
    | _ => False
    end
  end.

(* ---------- C15: the live element ---------- *)
(* [live_loc n v path]: the path is made only of struct fields, non-nil pointers and indices of
   slices of structs, and resolves; the result is the access path, from v, of the object the
   element finally denotes (pointers followed).  Slices of structs whose elements the emitter
   binds by address: element type not spelled like a builtin. *)
Definition ll_fields (rec : nat -> node -> val -> option loc) (seg : string)
  : list node -> list val -> nat -> option loc :=
  fix go (chs : list node) (fs : list val) (idx : nat) : option loc :=
    match chs, fs with
    | c :: cr, f :: fr => if String.eqb (n_name c) seg then rec idx c f else go cr fr (S idx)
    | _, _ => None
    end.

Fixpoint live_loc (n : node) (v : val) (path : list string) {struct n} : option loc :=
  match n with
  | Node ty tn tu nm pk pki p chld mk mv sl hb hc =>
    let through (x : val) : option loc :=
      match path with
      | [] => Some []
      | seg :: rest =>
        match ty with
        | typeStruct =>
          match x with
          | VStruct fs => ll_fields (fun idx c f => option_map (cons (SField idx)) (live_loc c f rest)) seg chld fs 0
          | _ => None
          end
        | typeSlice =>
          if String.eqb tn "[]byte" then None else
          match x, sl with
          | VSlice _ es _, Some en =>
            if (match n_typ en with typeStruct => true | _ => false end) && (n_ptr en || negb (is_builtin (n_typn en))) then
              match conv_index seg with
              | None => None
              | Some i =>
                if ((0 <=? i) && (i <? Z.of_nat (List.length es)))%Z then
                  match nth_error es (Z.to_nat i) with
                  | Some e => option_map (cons (SIdx (Z.to_nat i))) (live_loc en e rest)
                  | None => None
                  end
                else None
              end
            else None
          | _, _ => None
          end
        | _ => None
        end
      end in
    if p then match v with VPtr (Some x) => option_map (cons SDeref) (through x) | _ => None end
    else through v
  end.

(* the access path, from v, of the object the element of ANY resolving path finally denotes
   (pointers followed); None when the path does not resolve to a non-nil object.  Used by the
   correspondence stream to predict the address-identity bit. *)
Definition el_fields (rec : nat -> node -> val -> option loc) := ll_fields rec.

Fixpoint elem_loc (n : node) (v : val) (path : list string) {struct n} : option loc :=
  match n with
  | Node ty tn tu nm pk pki p chld mk mv sl hb hc =>
    let through (x : val) : option loc :=
      match path with
      | [] => Some []
      | seg :: rest =>
        match ty with
        | typeStruct =>
          match x with
          | VStruct fs => el_fields (fun idx c f => option_map (cons (SField idx)) (elem_loc c f rest)) seg chld fs 0
          | _ => None
          end
        | typeMap =>
          match x, mk, mv with
          | VMap _ kvs, Some kn, Some vn =>
            if n_ptr kn then None else
            match conv_key kn seg with
            | None => None
            | Some k => match map_find kvs k with
                        | Some e => option_map (cons (SKey k)) (elem_loc vn e rest)
                        | None => None
                        end
            end
          | _, _, _ => None
          end
        | typeSlice =>
          if String.eqb tn "[]byte" then None else
          match x, sl with
          | VSlice _ es _, Some en =>
            match conv_index seg with
            | None => None
            | Some i =>
              if ((0 <=? i) && (i <? Z.of_nat (List.length es)))%Z then
                match nth_error es (Z.to_nat i) with
                | Some e => option_map (cons (SIdx (Z.to_nat i))) (elem_loc en e rest)
                | None => None
                end
              else None
            end
          | _, _ => None
          end
        | typeBasic => None
        end
      end in
    if p then match v with VPtr (Some x) => option_map (cons SDeref) (through x) | _ => None end
    else through v
  end.

Definition step_eqb (a b : step) : bool :=
  match a, b with
  | SField i, SField j | SIdx i, SIdx j => Nat.eqb i j
  | SKey k, SKey k' => val_eqb k k'
  | SDeref, SDeref => true
  | _, _ => false
  end.
Fixpoint loc_eqb (a b : loc) : bool :=
  match a, b with
  | [], [] => true
  | x :: r, y :: s => step_eqb x y && loc_eqb r s
  | _, _ => false
  end.

(* the value at an access path *)
Fixpoint val_at (v : val) (l : loc) : option val :=
  match l with
  | [] => Some v
  | s :: r =>
    match s, v with
    | SField i, VStruct fs => match nth_error fs i with Some f => val_at f r | None => None end
    | SIdx i, VSlice _ es _ => match nth_error es i with Some e => val_at e r | None => None end
    | SKey k, VMap _ kvs => match map_find kvs k with Some e => val_at e r | None => None end
    | SDeref, VPtr (Some x) => val_at x r
    | _, _ => None
    end
  end.
