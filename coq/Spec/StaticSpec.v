(* Spec/StaticSpec.v - what property C16 demands, written from the property
   text.  Only the vocabulary (values, arguments, operators) and the parsers of
   Base are shared with the model; nothing here looks at static.go.

   "Static inspector treats scalars, strings and bytes like the native values":
   - an argument passed by value or by pointer denotes a value;
   - Compare = the native comparison of that value with the operand parsed for
     its kind (ParseInt for signed, ParseUint for unsigned, ParseFloat for
     floats - a float32 is widened exactly, as Go does when widths are mixed -,
     ParseBool for booleans, the text itself for strings and byte slices);
     booleans and byte slices have no native order, so only == and != can hold;
   - DeepEqual within a family = equality of the denoted values: integers as
     numbers, floats equal or within the tolerance, text by content;
   - Copy: same value, no shared bytes;  Length/Capacity: len/cap (a string's
     capacity is its length);  Reset through a pointer: the zero value. *)
From Coq Require Import ZArith Bool String Ascii List Lia Floats.SpecFloat.
From Verif Require Import Util Ints Strconv Floats Static.
Import ListNotations.
Local Open Scope Z_scope.

(* ---------- what an argument denotes ---------- *)
Definition denotes (a : sarg) : option sval :=
  match a with AVal v => Some v | APtr v => Some v | ANil _ => None end.
(* passed by value or by (non-nil) pointer *)
Definition passed (a : sarg) : bool := match a with ANil _ => false | _ => true end.

Inductive family := FamBool | FamSigned | FamUnsigned | FamFloat | FamText | FamOther.
Definition family_of (v : sval) : family :=
  match v with
  | VBool _ => FamBool
  | VInt k _ => if is_signed k then FamSigned else FamUnsigned
  | VF32 _ | VF64 _ => FamFloat
  | VStr _ _ | VBytes _ _ _ => FamText
  | VOther _ => FamOther
  end.
Definition arg_family (a : sarg) : family :=
  match a with
  | AVal v | APtr v => family_of v
  | ANil k => match k with
              | KBool => FamBool | KI k => if is_signed k then FamSigned else FamUnsigned
              | KF32 | KF64 => FamFloat | KStr | KBytes => FamText | KOther => FamOther
              end
  end.

(* well-formed Go values: integers within their type, len <= cap *)
Definition wf_val (v : sval) : Prop :=
  match v with
  | VInt k z => in_range k z = true
  | VBytes _ d c => Z.of_nat (String.length d) <= c
  | _ => True
  end.
Definition wf_arg (a : sarg) : Prop := match a with AVal v | APtr v => wf_val v | ANil _ => True end.

(* ---------- native comparison ---------- *)
(* the six comparison operators read off a three-way comparison (None: unordered, i.e. NaN);
   anything that is not a comparison operator is false *)
Definition by_cmp (c : option comparison) (op : sop) : bool :=
  match op with
  | OpEq => match c with Some Eq => true | _ => false end
  | OpNq => match c with Some Eq => false | _ => true end
  | OpGt => match c with Some Gt => true | _ => false end
  | OpGtq => match c with Some Gt | Some Eq => true | _ => false end
  | OpLt => match c with Some Lt => true | _ => false end
  | OpLtq => match c with Some Lt | Some Eq => true | _ => false end
  | _ => false
  end.
(* kinds without a native order *)
Definition by_eq (e : bool) (op : sop) : bool :=
  match op with OpEq => e | OpNq => negb e | _ => false end.

Definition widen (v : sval) : spec_float :=
  match v with VF32 f => to_f64 f | VF64 f => f | _ => S754_zero false end.
Definition text_of (v : sval) : string :=
  match v with VStr _ s => s | VBytes _ d _ => d | _ => EmptyString end.

Definition max_uint64 : Z := 18446744073709551615.

(* None: the operand does not parse for that kind - there is no native comparison *)
Definition spec_compare (v : sval) (op : sop) (right : string) : option bool :=
  match v with
  | VBool b => match parse_bool right with Some r => Some (by_eq (Bool.eqb b r) op) | None => None end
  | VInt k z =>
    if is_signed k
    then match parse_int right 0 64 with Some r => Some (by_cmp (Some (z ?= r)) op) | None => None end
    else match parse_uint right 0 max_uint64 with Some r => Some (by_cmp (Some (z ?= r)) op) | None => None end
  | VF32 _ | VF64 _ =>
    match parse_float right with Some r => Some (by_cmp (SFcompare (widen v) r) op) | None => None end
  | VStr _ s => Some (by_cmp (Some (String.compare s right)) op)
  | VBytes _ d _ => Some (by_eq (String.eqb d right) op)
  | VOther _ => Some false
  end.

(* ---------- equality within a family ---------- *)
Definition spec_tolerance : spec_float := f64_of_decimal false 1 (-3).      (* 1e-3 *)
Definition float_equal (x y : spec_float) : bool :=
  SFeqb x y || SFleb (SFabs (SFsub 53 1024 x y)) spec_tolerance.

(* None: the operands are not of one family - only symmetry is demanded there *)
Definition spec_equal (a b : sval) : option bool :=
  match family_of a, family_of b with
  | FamBool, FamBool =>
    match a, b with VBool x, VBool y => Some (Bool.eqb x y) | _, _ => None end
  | FamSigned, FamSigned | FamUnsigned, FamUnsigned =>
    match a, b with VInt _ x, VInt _ y => Some (x =? y) | _, _ => None end
  | FamFloat, FamFloat => Some (float_equal (widen a) (widen b))
  | FamText, FamText => Some (String.eqb (text_of a) (text_of b))
  | _, _ => None
  end.

(* ---------- Copy ---------- *)
(* the backing array of a value that has bytes at all *)
Definition array_of (v : sval) : option Z :=
  match v with
  | VStr aid s => match s with EmptyString => None | _ => Some aid end
  | VBytes aid _ c => if c =? 0 then None else Some aid
  | _ => None
  end.
Definition shares (v w : sval) : bool :=
  match array_of v, array_of w with Some i, Some j => i =? j | _, _ => false end.
(* same kind, same value; for text: same content *)
Definition same_value (v w : sval) : bool :=
  match v, w with
  | VBool x, VBool y => Bool.eqb x y
  | VInt k x, VInt k' y => ikind_eqb k k' && (x =? y)
  | VF32 x, VF32 y | VF64 x, VF64 y =>
    match x, y with
    | S754_zero s, S754_zero s' | S754_infinity s, S754_infinity s' => Bool.eqb s s'
    | S754_nan, S754_nan => true
    | S754_finite s m e, S754_finite s' m' e' => Bool.eqb s s' && Pos.eqb m m' && (e =? e')
    | _, _ => false
    end
  | VStr _ x, VStr _ y => String.eqb x y
  | VBytes _ x _, VBytes _ y _ => String.eqb x y
  | _, _ => false
  end.

(* ---------- Length / Capacity ---------- *)
Definition spec_len (v : sval) : option Z :=
  match v with VStr _ s => Some (Z.of_nat (String.length s)) | VBytes _ d _ => Some (Z.of_nat (String.length d)) | _ => None end.
Definition spec_cap (v : sval) : option Z :=
  match v with VStr _ s => Some (Z.of_nat (String.length s)) | VBytes _ _ c => Some c | _ => None end.

(* ---------- Reset ---------- *)
Definition same_kind (v w : sval) : bool :=
  match v, w with
  | VBool _, VBool _ | VF32 _, VF32 _ | VF64 _, VF64 _ | VStr _ _, VStr _ _ | VBytes _ _ _, VBytes _ _ _ => true
  | VInt k _, VInt k' _ => ikind_eqb k k'
  | _, _ => false
  end.
Definition is_zero (v : sval) : bool :=
  match v with
  | VBool b => negb b
  | VInt _ z => z =? 0
  | VF32 f | VF64 f => match f with S754_zero false => true | _ => false end
  | VStr _ s => match s with EmptyString => true | _ => false end
  | VBytes _ d _ => match d with EmptyString => true | _ => false end
  | VOther _ => false
  end.
