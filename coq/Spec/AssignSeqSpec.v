(* Spec/AssignSeqSpec.v - what property C19 demands of a HISTORY of Assign /
   AssignBuf calls, written from the property text:

     "Assign/AssignBuf store into a pointer destination the canonical conversion
      of the source ... When no conversion applies they return false and leave
      the destination untouched, and with a buffer the produced text lives in
      the buffer."

   The text speaks of the source and the destination of THE call: every call
   of a history is judged on the values its source and its destination hold at
   that call, whatever was converted before, and whether the source object,
   the destination object or the buffer are new or were used by an earlier
   call (a []byte rewritten in place, a *string pointed at other text, a *int
   holding another number, a destination variable assigned again).  So a
   history is admissible when every step is an admissible single call
   ([step_allowed]: [AssignSpec.expect] in either reading where the text is
   silent, with every admissible buffer content), the reused destination of a
   step holding what the step before stored (or kept) and the buffer what the
   step before left.

   This file shares with the model only the data types (Model/AssignVal.v,
   Model/AssignSeqVal.v); it does not import Model/Assign.v. *)
From Coq Require Import ZArith Bool String List Floats.SpecFloat.
From Verif Require Import AssignVal AssignSeqVal AssignSpec.
Import ListNotations.

(* (ok, destination afterwards, buffer afterwards) *)
Definition triple := (bool * dest * option string)%type.

Section SeqSpec.
Variable rf : spec_float -> string.

(* the admissible results of one call *)
Definition step_allowed (dst : dest) (src : source) (buf : option string) : list triple :=
  flat_map (fun rd : reading =>
    let '(ok, d') := expect rf rd dst src in
    if ok then
      match d' with
      | DPtr v => map (fun ob : owner * option string => (true, d', snd ob))
                      (owners_allowed (kind_of v) src buf (stored_text d'))
      | DForeign => []
      end
    else [(false, dst, buf)]) [Strict; Lenient].

(* the admissible histories *)
Fixpoint seq_allowed (dm : dmode) (cur : option dest) (buf : option string) (l : list hstep) : list (list triple) :=
  match l with
  | [] => [[]]
  | st :: r =>
    flat_map (fun t : triple =>
      let '(ok, d, b) := t in
      map (cons t) (seq_allowed dm (Some d) b r))
      (step_allowed (step_dest dm cur st) (h_src st) buf)
  end.

End SeqSpec.

(* the domain of the statements: every step's source is a well-formed, non-nil
   source whose float (if it is one) lies in the rendering domain *)
Definition step_ok (rf : spec_float -> string) (st : hstep) : Prop :=
  wf_source (h_src st) /\ not_nil (h_src st) = true /\ rendered rf (h_src st).
