(* Spec/StrAnyMapStore.v - what property C18 demands when nested maps are
   SHARED: the same text as Spec/StrAnyMapSpec.v, read with Go's meaning of "a
   map": a reference to a map object.

   "... Set creates or replaces exactly the addressed leaf (creating
    intermediate maps as needed) with strings and bytes copied into the buffer.
    Copy/CopyTo yield a tree equal to the source whose nested maps, strings and
    byte slices are fresh, and Reset empties the map in place."

   A store is a list of map objects; a node is a leaf or a map object in one of
   the three holding forms.  Several nodes may denote the same object: a nested
   map obtained with Get is the very object the tree holds, and Set stores a
   map it is given as it is.  Every operation is addressed at ONE object:
     Reset empties the object its argument holds - and no other object;
     Set writes one entry of the object the path leads to (linking a chain of
       new objects below it where keys are absent) - and no other object;
     CopyTo replaces the entries of the destination's object by fresh copies
       of the source's; Copy allocates everything it returns.
   What a holder sees is its [view]: the tree obtained by following the
   references.  Written from the property text; no reference to stranymap.go. *)
From Coq Require Import ZArith NArith List String Ascii Bool.
From Verif Require Import Util Ints StrAnyMapSpec.
Import ListNotations.
Local Open Scope string_scope.

Inductive snode :=
| SLeaf (l : leaf)
| SMap (h : hold) (m : nat).              (* map object number m, held as map / *map / **map *)

Definition sentries := list (string * snode).
Definition store := list sentries.

Definition obj (st : store) (m : nat) : sentries := nth m st [].
Definition put (st : store) (m : nat) (es : sentries) : store := upd_nth m es st.
Definition alloc (st : store) (es : sentries) : store * nat := ((st ++ [es])%list, List.length st).

Fixpoint slookup (k : string) (es : sentries) : option snode :=
  match es with
  | [] => None
  | (k', v) :: r => if String.eqb k k' then Some v else slookup k r
  end.

Fixpoint supsert (k : string) (v : snode) (es : sentries) : sentries :=
  match es with
  | [] => [(k, v)]
  | (k', v') :: r => if String.eqb k k' then (k, v) :: r else (k', v') :: supsert k v r
  end.

(* ---------- what a holder sees ---------- *)
(* [fuel] bounds the nesting depth that is followed; in a store without cycles
   the number of objects is enough *)
Fixpoint view (fuel : nat) (st : store) (x : snode) : tree :=
  match fuel with
  | O => match x with SLeaf l => TLeaf l | SMap h _ => TMap h [] end
  | S f =>
    match x with
    | SLeaf l => TLeaf l
    | SMap h m => TMap h (map (fun kv => (fst kv, view f st (snd kv))) (obj st m))
    end
  end.

(* does following references from x lead to object a - or out of the store? *)
Fixpoint reaches (fuel : nat) (st : store) (x : snode) (a : nat) : bool :=
  match fuel with
  | O => false
  | S f =>
    match x with
    | SLeaf _ => false
    | SMap _ m => Nat.eqb m a || negb (Nat.ltb m (List.length st)) ||
                  existsb (fun kv => reaches f st (snd kv) a) (obj st m)
    end
  end.

(* ---------- following a key path: the node reached is the stored node itself ---------- *)
Inductive snav := SFound (n : snode) | SAbsent | SNonMap.

Fixpoint s_nav (st : store) (x : snode) (path : list string) : snav :=
  match path with
  | [] => SFound x
  | k :: rest =>
    match x with
    | SLeaf _ => SNonMap
    | SMap _ m =>
      match slookup k (obj st m) with
      | None => SAbsent
      | Some c => s_nav st c rest
      end
    end
  end.

(* the object a Set along the path writes to: the map the last key is looked
   up in, or the deepest existing map when keys are absent before the end *)
Fixpoint s_target (st : store) (x : snode) (path : list string) : option nat :=
  match path with
  | [] => None
  | k :: rest =>
    match x with
    | SLeaf _ => None
    | SMap _ m =>
      match rest with
      | [] => Some m
      | _ :: _ =>
        match slookup k (obj st m) with
        | Some c => s_target st c rest
        | None => Some m
        end
      end
    end
  end.

(* ---------- Reset: empties the map in place ---------- *)
Definition s_reset (st : store) (x : snode) : store :=
  match x with SMap _ m => put st m [] | SLeaf _ => st end.

(* ---------- Set ---------- *)
(* strings and bytes copied into the buffer; any other value is stored as it is
   (a map stays the object it was) *)
Definition sstored (v : snode) : snode :=
  match v with SLeaf (LBytes d _) => SLeaf (LBytes d 0) | _ => v end.

(* fill the new, empty object m so that the keys lead to v: one new map per further key *)
Fixpoint s_chain (st : store) (m : nat) (path : list string) (v : snode) : store :=
  match path with
  | [] => st
  | k :: rest =>
    match rest with
    | [] => put st m [(k, v)]
    | _ :: _ => let '(st1, id) := alloc st [] in s_chain (put st1 m [(k, SMap HVal id)]) id rest v
    end
  end.

Inductive ssetres := SSetOk (st : store) | SSetNonMap.

(* defined for non-empty paths *)
Fixpoint s_set (st : store) (x : snode) (path : list string) (v : snode) : ssetres :=
  match path with
  | [] => SSetOk st
  | k :: rest =>
    match x with
    | SLeaf _ => SSetNonMap
    | SMap _ m =>
      match rest with
      | [] => SSetOk (put st m (supsert k v (obj st m)))        (* replaces whatever was there *)
      | _ :: _ =>
        match slookup k (obj st m) with
        | Some c => s_set st c rest v
        | None =>
          let '(st1, id) := alloc st [] in
          SSetOk (s_chain (put st1 m (supsert k (SMap HVal id) (obj st1 m))) id rest v)
        end
      end
    end
  end.

(* ---------- Copy / CopyTo ---------- *)
(* a tree built from fresh objects only *)
Fixpoint mat (st : store) (t : tree) : store * snode :=
  match t with
  | TLeaf l => (st, SLeaf l)
  | TMap h es =>
    let '(st1, es1) :=
      (fix go (l : tentries) (st : store) : store * sentries :=
         match l with
         | [] => (st, [])
         | (k, v) :: r =>
           let '(st', n) := mat st v in
           let '(st'', r') := go r st' in (st'', (k, n) :: r')
         end) es st in
    let '(st2, m) := alloc st1 es1 in (st2, SMap h m)
  end.

Fixpoint mat_es (st : store) (es : tentries) : store * sentries :=
  match es with
  | [] => (st, [])
  | (k, v) :: r =>
    let '(st', n) := mat st v in
    let '(st'', r') := mat_es st' r in (st'', (k, n) :: r')
  end.

Definition view_fuel (st : store) : nat := S (List.length st).

(* the entries of a tree equal to the source (spare capacity is not part of equality) *)
Definition copied_entries (st : store) (src : snode) : tentries :=
  root_entries (strip (view (view_fuel st) st src)).

(* Copy: a new map equal to the source, nothing shared *)
Definition s_copy (st : store) (src : snode) : store * snode :=
  let '(st1, es) := mat_es st (copied_entries st src) in
  let '(st2, m) := alloc st1 es in (st2, SMap HVal m).

(* CopyTo: the destination's object gets exactly the copied entries *)
Definition s_copy_to (st : store) (src : snode) (md : nat) : store :=
  let '(st1, es) := mat_es st (copied_entries st src) in put st1 md es.
