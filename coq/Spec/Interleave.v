(* Spec/Interleave.v - the interleaving argument of C20 on an abstract machine.
   A state maps object ids to values; an operation has a footprint (objects it may
   read, objects it may write) and a deterministic effect that depends only on
   its footprint and changes only the objects it writes.  If no other goroutine
   writes an object a goroutine touches, that goroutine computes, under EVERY
   interleaving with any number of others, what it computes when run alone. *)
From Coq Require Import List Bool Arith Lia.
Import ListNotations.

Section Machine.
Variables (V R : Type).
Definition state := nat -> V.

Record op := {
  reads : list nat;
  writes : list nat;
  run : state -> state * R;
  (* locality: the result and the new values of written objects depend only on the footprint *)
  run_local : forall s s', (forall o, In o reads \/ In o writes -> s o = s' o) ->
              snd (run s) = snd (run s') /\ (forall o, In o writes -> fst (run s) o = fst (run s') o);
  (* frame: nothing outside the write set changes *)
  run_frame : forall s o, ~ In o writes -> fst (run s) o = s o
}.

Definition touches (a : op) (o : nat) : Prop := In o (reads a) \/ In o (writes a).
Definition foot (t : list op) (o : nat) : Prop := exists a, In a t /\ touches a o.

(* a goroutine = a list of ops; running it alone from s, collecting its results *)
Fixpoint run_alone (t : list op) (s : state) : list R :=
  match t with
  | [] => []
  | a :: r => snd (run a s) :: run_alone r (fst (run a s))
  end.

(* an interleaving: the ops of the goroutine under consideration (tag true, in program
   order) merged in any way with the ops of all other goroutines (tag false) *)
Fixpoint mine (l : list (bool * op)) : list op :=
  match l with [] => [] | (true, a) :: r => a :: mine r | (false, _) :: r => mine r end.
Fixpoint theirs (l : list (bool * op)) : list op :=
  match l with [] => [] | (false, b) :: r => b :: theirs r | (true, _) :: r => theirs r end.

(* running the merged sequence, collecting the results of my ops *)
Fixpoint run_merged (l : list (bool * op)) (s : state) : list R :=
  match l with
  | [] => []
  | (true, a) :: r => snd (run a s) :: run_merged r (fst (run a s))
  | (false, b) :: r => run_merged r (fst (run b s))
  end.

Lemma merged_as_alone (t : list op) : forall l sm s1,
  (forall a, In a (mine l) -> In a t) ->
  (forall b o, In b (theirs l) -> In o (writes b) -> ~ foot t o) ->
  (forall o, foot t o -> sm o = s1 o) ->
  run_merged l sm = run_alone (mine l) s1.
Proof.
  induction l as [|[[|] a] r IH]; intros sm s1 HM HT AG; simpl; [reflexivity| |].
  - (* one of my ops *)
    assert (Ia : In a t) by (apply HM; left; reflexivity).
    assert (L : forall o, In o (reads a) \/ In o (writes a) -> sm o = s1 o).
    { intros o T. apply AG. exists a. split; [exact Ia|exact T]. }
    destruct (run_local a sm s1 L) as (RX & RW). rewrite RX. f_equal.
    apply IH.
    + intros b Hb. apply HM. right. exact Hb.
    + intros b o Hb. apply HT. exact Hb.
    + intros o Fo. destruct (in_dec Nat.eq_dec o (writes a)) as [W|W].
      * apply RW. exact W.
      * rewrite (run_frame a sm o W), (run_frame a s1 o W). apply AG. exact Fo.
  - (* an op of somebody else: it writes nothing I touch *)
    apply IH.
    + intros b Hb. apply HM. exact Hb.
    + intros b o Hb. apply HT. right. exact Hb.
    + intros o Fo. rewrite (run_frame a sm o); [apply AG; exact Fo|].
      intros W. apply (HT a o (or_introl eq_refl) W Fo).
Qed.

(* Every interleaving: if nobody else writes what I touch, each of my calls returns what it
   returns when my goroutine runs alone. *)
Theorem interleaving_transparent : forall l s,
  (forall b o, In b (theirs l) -> In o (writes b) -> ~ foot (mine l) o) ->
  run_merged l s = run_alone (mine l) s.
Proof.
  intros l s H. apply merged_as_alone with (t := mine l); auto.
Qed.

End Machine.
