(* Spec/LoopSpec.v - what C09 demands of Loop, written from the property text:

     Loop over a path that denotes a slice or map calls the iterator exactly once per
     element - slices in index order with keys "0".."n-1", maps once per key in any
     order - handing over a key text that parses back to the element's key, a value
     equal to the element, and an inspector that can read that value (the element
     type's own inspector for struct elements).  Iteration stops right after the
     callback that returns Break, Continue behaves like proceeding, keys are produced
     only when the iterator asks for them, and a path none of whose prefixes denotes a
     collection produces no callbacks.

   The demand is stated on ABSTRACT traces: a key text is replaced by what it parses
   back to (for maps; for slices the text itself is demanded), a handed value by the
   value it denotes once pointers are followed.  Navigation is Spec/Nav.v. *)
From Coq Require Import List Bool String Ascii ZArith Arith Sorting.Permutation.
From Verif Require Import Util Ints Strconv Node Value Outcome Nav Loop.
Import ListNotations.
Local Open Scope string_scope.
Local Open Scope list_scope.

Inductive sevent :=
| SRequireKey (ans : bool)
| SKey (k : option val) (ins : string)       (* what the key text parses back to *)
| SVal (x : option val) (ins : string)       (* what the handed value denotes; None = a nil pointer *)
| SIterate (c : ctl).

(* the element's key as a text can name it: the pointee for pointer keys *)
Definition named_key (k : val) : val := match k with VPtr (Some x) => x | _ => k end.

(* the inspector that must come with an element: the element type's own for structs; for
   everything else the library has only the static inspector *)
Definition spec_ins (en : node) : string :=
  match n_typ en with typeStruct => n_typn en | _ => "static" end.

(* one callback round for the i-th visited element *)
Definition spec_round (sc : script) (i : nat) (key elem : val) (ins : string) : list sevent :=
  SRequireKey (wants sc i) ::
  (if wants sc i then [SKey (Some key) "static"] else []) ++
  [SVal (strip_ptrs 3 elem) ins; SIterate (ctls sc i)].

(* once per element in the given order, stopping right after the round that answers Break;
   Continue and None both proceed *)
Fixpoint spec_rounds (sc : script) (ins : string) (i : nat) (items : list (val * val)) : list sevent :=
  match items with
  | [] => []
  | (k, e) :: r =>
    spec_round sc i k e ins ++
    match ctls sc i with CBrk => [] | _ => spec_rounds sc ins (S i) r end
  end.

(* slices: keys "0".."n-1" in index order *)
Fixpoint index_items (i : nat) (es : list val) : list (val * val) :=
  match es with [] => [] | e :: r => (VStr (Z_to_string (Z.of_nat i)), e) :: index_items (S i) r end.

Definition entry_items (kvs : list (val * val)) : list (val * val) :=
  map (fun kv => (named_key (fst kv), snd kv)) kvs.

(* ---------- what a path denotes ---------- *)
Inductive ldemand :=
| LSlice (en : node) (es : list val)                    (* a slice with these elements, element node en *)
| LMap (kn vn : node) (kvs : list (val * val))          (* a map with these entries *)
| LNone                                                 (* no callbacks *)
| LAny.                                                 (* the property is silent *)

(* the collection an element is, if it is one ([]byte is a scalar for the inspectors);
   a nil pointer to a collection has no elements *)
Definition coll_of (en : node) (ev : val) : ldemand :=
  match cur_of en ev with
  | CVal x =>
    match n_typ en with
    | typeSlice =>
      if String.eqb (n_typn en) "[]byte" then LNone else
      match x, n_slct en with VSlice _ es _, Some el => LSlice el es | _, _ => LNone end
    | typeMap =>
      match x, n_mapk en, n_mapv en with VMap _ kvs, Some kn, Some vn => LMap kn vn kvs | _, _, _ => LNone end
    | _ => LNone
    end
  | _ => LNone
  end.

Definition is_coll (d : ldemand) : bool := match d with LSlice _ _ | LMap _ _ _ => true | _ => false end.

Definition denoted (n : node) (v : val) (path : list string) : ldemand :=
  match nav n v path with
  | NElem en ev => coll_of en ev
  | _ => LNone
  end.

Fixpoint proper_prefixes {A} (l : list A) : list (list A) :=
  match l with [] => [] | x :: r => [] :: map (cons x) (proper_prefixes r) end.

Definition has_collection_prefix (n : node) (v : val) (path : list string) : bool :=
  existsb (fun p => is_coll (denoted n v p)) (proper_prefixes path).

(* the demand for a path: the denoted collection; no callbacks when no prefix denotes a
   collection; silent about paths that run past a collection without denoting one *)
Definition loop_demand (n : node) (v : val) (path : list string) : ldemand :=
  match denoted n v path with
  | LNone => if has_collection_prefix n v path then LAny else LNone
  | d => d
  end.

(* ---------- abstraction of a concrete trace ---------- *)
Definition abstract (kabs : string -> option val) (tr : trace) : list sevent :=
  map (fun e => match e with
                | ERequireKey b => SRequireKey b
                | ESetKey t ins => SKey (kabs t) ins
                | ESetVal v ins => SVal (strip_ptrs 3 v) ins
                | EIterate c => SIterate c
                end) tr.

Definition slice_kabs (t : string) : option val := Some (VStr t).
Definition map_kabs (kn : node) (t : string) : option val := conv_key kn t.

(* an outcome meets a demand *)
Definition meets (sc : script) (o : out trace) (d : ldemand) : Prop :=
  match d with
  | LAny => True
  | LNone => o = Ret [] None \/ o = Ret [] (Some EParse)
  | LSlice el es =>
    exists tr, o = Ret tr None /\ abstract slice_kabs tr = spec_rounds sc (spec_ins el) 0 (index_items 0 es)
  | LMap kn vn kvs =>
    exists tr order, o = Ret tr None /\ Permutation order kvs /\
      abstract (map_kabs kn) tr = spec_rounds sc (spec_ins vn) 0 (entry_items order)
  end.
