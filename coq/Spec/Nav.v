(* Spec/Nav.v - native navigation of a value along a path, written from the
   property texts (C01, C04, C10), not from the emitters: struct field by name,
   map entry by the key parsed from the segment, slice element by the parsed
   index, through non-nil pointers. *)
From Coq Require Import List Bool String Ascii ZArith Arith Lia.
From Verif Require Import Util Ints Strconv Floats Node Value Outcome.
Import ListNotations.
Local Open Scope string_scope.

Inductive why := WUnknownField | WAbsentKey | WIndexRange | WNilPointer | WPointerKey.

Inductive navres :=
| NElem (n : node) (v : val)     (* the element, with the node describing its type (pointer flag included) *)
| NNone (w : why)                (* the path denotes no element *)
| NBad                           (* a key or index segment cannot be parsed for its type *)
| NUnspec.                       (* the path continues past a scalar, string or bytes element *)

Fixpoint find_child (chs : list node) (fs : list val) (name : string) : option (node * val) :=
  match chs, fs with
  | c :: cr, f :: fr => if String.eqb (n_name c) name then Some (c, f) else find_child cr fr name
  | _, _ => None
  end.

Definition nav_fields (rec : node -> val -> navres) (seg : string) : list node -> list val -> navres :=
  fix go (chs : list node) (fs : list val) : navres :=
    match chs, fs with
    | c :: cr, f :: fr => if String.eqb (n_name c) seg then rec c f else go cr fr
    | _, _ => NNone WUnknownField
    end.

(* [nav n v path]: v is a value of the Go type n describes (pointer flag included) *)
Fixpoint nav (n : node) (v : val) (path : list string) {struct n} : navres :=
  match path with
  | [] => NElem n v
  | seg :: rest =>
    match n with
    | Node ty tn tu nm pk pki p chld mk mv sl hb hc =>
      let through (x : val) : navres :=
        match ty with
        | typeStruct =>
          match x with
          | VStruct fs =>
            nav_fields (fun c f => nav c f rest) seg chld fs
          | _ => NUnspec
          end
        | typeMap =>
          match x, mk, mv with
          | VMap _ kvs, Some kn, Some vn =>
            if n_ptr kn then NNone WPointerKey       (* keys with identity cannot be named by a text *)
            else match conv_key kn seg with
                 | None => NBad
                 | Some k => match map_find kvs k with
                             | Some e => nav vn e rest
                             | None => NNone WAbsentKey
                             end
                 end
          | _, _, _ => NUnspec
          end
        | typeSlice =>
          if String.eqb tn "[]byte" then NUnspec else
          match x, sl with
          | VSlice _ es _, Some en =>
            match conv_index seg with
            | None => NBad
            | Some i =>
              if ((0 <=? i) && (i <? Z.of_nat (List.length es)))%Z then
                match nth_error es (Z.to_nat i) with
                | Some e => nav en e rest
                | None => NNone WIndexRange
                end
              else NNone WIndexRange
            end
          | _, _ => NUnspec
          end
        | typeBasic => NUnspec
        end in
      if p then match v with
                | VPtr (Some x) => through x
                | _ => NNone WNilPointer
                end
      else through v
    end
  end.

(* the value an element denotes once pointers are followed; None = a nil pointer *)
Fixpoint strip_ptrs (fuel : nat) (v : val) : option val :=
  match v with
  | VPtr None => None
  | VPtr (Some x) => match fuel with O => Some x | S f => strip_ptrs f x end
  | _ => Some v
  end.
