From Coq Require Import Extraction ExtrOcamlBasic ExtrOcamlString.
From Verif Require Import GenC08.
Extraction Language OCaml.
Extraction "gen_c08.ml" GenC08.cases.
