From Coq Require Import Extraction ExtrOcamlBasic ExtrOcamlString.
From Verif Require Import GenStrconv.
Extraction Language OCaml.
Extraction "gen_strconv.ml" GenStrconv.cases.
