From Coq Require Import Extraction ExtrOcamlBasic ExtrOcamlString.
From Verif Require Import GenC03all.
Extraction Language OCaml.
Extraction "gen_c03.ml" GenC03all.cases_all.
