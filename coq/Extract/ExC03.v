From Coq Require Import Extraction ExtrOcamlBasic ExtrOcamlString.
From Verif Require Import GenC03.
Extraction Language OCaml.
Extraction "gen_c03.ml" GenC03.cases.
