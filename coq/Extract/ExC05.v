From Coq Require Import Extraction ExtrOcamlBasic ExtrOcamlString.
From Verif Require Import GenC05.
Extraction Language OCaml.
Extraction "gen_c05.ml" GenC05.cases.
