From Coq Require Import Extraction ExtrOcamlBasic ExtrOcamlString.
From Verif Require Import GenC02ship.
Extraction Language OCaml.
Extraction "gen_c02ship.ml" GenC02ship.cases.
