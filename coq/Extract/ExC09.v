From Coq Require Import Extraction ExtrOcamlBasic ExtrOcamlString.
From Verif Require Import GenC09.
Extraction Language OCaml.
Extraction "gen_c09.ml" GenC09.cases.
