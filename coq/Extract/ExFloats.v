From Coq Require Import Extraction ExtrOcamlBasic ExtrOcamlString.
From Verif Require Import GenFloats.
Extraction Language OCaml.
Extraction "gen_floats.ml" GenFloats.cases.
