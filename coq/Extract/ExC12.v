From Coq Require Import Extraction ExtrOcamlBasic ExtrOcamlString.
From Verif Require Import GenC12.
Extraction Language OCaml.
Extraction "gen_c12.ml" GenC12.cases.
