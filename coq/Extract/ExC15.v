From Coq Require Import Extraction ExtrOcamlBasic ExtrOcamlString.
From Verif Require Import GenC15.
Extraction Language OCaml.
Extraction "gen_c15.ml" GenC15.cases.
