(* Extraction of the C17 case generator.  Only the standard library's
   ExtrOcamlBasic and ExtrOcamlString directives are used. *)
From Coq Require Import Extraction ExtrOcamlBasic ExtrOcamlString.
From Verif Require Import GenC17.
Extraction Language OCaml.
Extraction "gen_c17.ml" GenC17.cases.
