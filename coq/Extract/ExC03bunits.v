From Coq Require Import Extraction ExtrOcamlBasic ExtrOcamlString.
From Verif Require Import GenC03b.
Extraction Language OCaml.
Extraction "gen_c03bunits.ml" GenC03b.emit_cases.
