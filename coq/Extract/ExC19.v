(* Extraction of the C19 case generator.  Only the standard library's
   ExtrOcamlBasic and ExtrOcamlString directives are used. *)
From Coq Require Import Extraction ExtrOcamlBasic ExtrOcamlString.
From Verif Require Import GenC19.
Extraction Language OCaml.
Extraction "gen_c19.ml" GenC19.cases.
