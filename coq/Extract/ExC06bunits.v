From Coq Require Import Extraction ExtrOcamlBasic ExtrOcamlString.
From Verif Require Import GenC06b.
Extraction Language OCaml.
Extraction "gen_c06bunits.ml" GenC06b.emit_cases.
