(* Extraction of the C16 case generator.  Only the standard library's
   ExtrOcamlBasic and ExtrOcamlString directives are used. *)
From Coq Require Import Extraction ExtrOcamlBasic ExtrOcamlString.
From Verif Require Import GenC16.
Extraction Language OCaml.
Extraction "gen_c16.ml" GenC16.cases.
