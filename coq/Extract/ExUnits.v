From Coq Require Import Extraction ExtrOcamlBasic ExtrOcamlString.
From Verif Require Import GenUnits.
Extraction Language OCaml.
Extraction "gen_units.ml" GenUnits.cases.
