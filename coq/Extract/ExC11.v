From Coq Require Import Extraction ExtrOcamlBasic ExtrOcamlString.
From Verif Require Import GenC11.
Extraction Language OCaml.
Extraction "gen_c11.ml" GenC11.cases.
