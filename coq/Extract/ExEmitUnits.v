From Coq Require Import Extraction ExtrOcamlBasic ExtrOcamlString.
From Verif Require Import GenUnits.
Extraction Language OCaml.
Extraction "gen_emitunits.ml" GenUnits.emit_cases.
