From Coq Require Import Extraction ExtrOcamlBasic ExtrOcamlString.
From Verif Require Import GenC06.
Extraction Language OCaml.
Extraction "gen_c06.ml" GenC06.cases.
