From Coq Require Import Extraction ExtrOcamlBasic ExtrOcamlString.
From Verif Require Import GenC03x.
Extraction Language OCaml.
Extraction "gen_c03x.ml" GenC03x.cases.
