From Coq Require Import Extraction ExtrOcamlBasic ExtrOcamlString.
From Verif Require Import GenC04.
Extraction Language OCaml.
Extraction "gen_c04.ml" GenC04.cases.
