From Coq Require Import Extraction ExtrOcamlBasic ExtrOcamlString.
From Verif Require Import GenC03x.
Extraction Language OCaml.
Extraction "gen_c03xunits.ml" GenC03x.emit_cases.
