From Coq Require Import Extraction ExtrOcamlBasic ExtrOcamlString.
From Verif Require Import GenC01.
Extraction Language OCaml.
Extraction "gen_c01.ml" GenC01.cases.
