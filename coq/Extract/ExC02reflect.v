From Coq Require Import Extraction ExtrOcamlBasic ExtrOcamlString.
From Verif Require Import GenC02reflect.
Extraction Language OCaml.
Extraction "gen_c02reflect.ml" GenC02reflect.cases.
