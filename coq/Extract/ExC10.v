From Coq Require Import Extraction ExtrOcamlBasic ExtrOcamlString.
From Verif Require Import GenC10.
Extraction Language OCaml.
Extraction "gen_c10.ml" GenC10.cases.
