(* Extraction of the C07 case generator.  Only the standard library's
   ExtrOcamlBasic and ExtrOcamlString directives are used. *)
From Coq Require Import Extraction ExtrOcamlBasic ExtrOcamlString.
From Verif Require Import GenC07.
Extraction Language OCaml.
Extraction "gen_c07.ml" GenC07.cases.
