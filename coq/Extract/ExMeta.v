From Coq Require Import Extraction ExtrOcamlBasic ExtrOcamlString.
From Verif Require Import GenMeta.
Extraction Language OCaml.
Extraction "gen_meta.ml" GenMeta.cases.
