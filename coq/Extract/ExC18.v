(* Extraction of the C18 case generator.  Only the standard library's
   ExtrOcamlBasic and ExtrOcamlString directives are used. *)
From Coq Require Import Extraction ExtrOcamlBasic ExtrOcamlString.
From Verif Require Import GenC18.
Extraction Language OCaml.
Extraction "gen_c18.ml" GenC18.cases.
