From Coq Require Import Extraction ExtrOcamlBasic ExtrOcamlString.
From Verif Require Import GenC03b.
Extraction Language OCaml.
Extraction "gen_c03b.ml" GenC03b.cases.
