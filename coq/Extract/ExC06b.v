From Coq Require Import Extraction ExtrOcamlBasic ExtrOcamlString.
From Verif Require Import GenC06b.
Extraction Language OCaml.
Extraction "gen_c06b.ml" GenC06b.cases.
