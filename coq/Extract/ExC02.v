From Coq Require Import Extraction ExtrOcamlBasic ExtrOcamlString.
From Verif Require Import GenC02.
Extraction Language OCaml.
Extraction "gen_c02.ml" GenC02.cases.
