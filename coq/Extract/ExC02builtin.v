From Coq Require Import Extraction ExtrOcamlBasic ExtrOcamlString.
From Verif Require Import GenC02builtin.
Extraction Language OCaml.
Extraction "gen_c02builtin.ml" GenC02builtin.cases.
