(* Model/GoSrc.v - declared types printed as Go source (what is handed to the
   real generator), well-formedness of declaration sets, nesting depth. *)
From Coq Require Import List Bool String Ascii Arith.
From Verif Require Import Util Ints Node.
Import ListNotations.
Local Open Scope string_scope.

Fixpoint go_type (t : ty) : string :=
  match t with
  | TScalar k => skind_name k
  | TPtr t' => "*" ++ go_type t'
  | TSlice e => "[]" ++ go_type e
  | TMap k v => "map[" ++ go_type k ++ "]" ++ go_type v
  | TStruct fs =>
    "struct {" ++ nl ++
    (fix go (l : list (string * ty)) : string :=
       match l with [] => "" | (f, ft) :: r => tabc ++ f ++ " " ++ go_type ft ++ nl ++ go r end) fs ++ "}"
  | TNamed n _ => n
  end.

(* every named type mentioned in t, definitions first, no duplicates by name *)
Definition add_decl (d : string * ty) (acc : list (string * ty)) : list (string * ty) :=
  if existsb (fun x => String.eqb (fst x) (fst d)) acc then acc else (acc ++ [d])%list.

Fixpoint named_in (t : ty) (acc : list (string * ty)) {struct t} : list (string * ty) :=
  match t with
  | TScalar _ => acc
  | TPtr t' => named_in t' acc
  | TSlice e => named_in e acc
  | TMap k v => named_in v (named_in k acc)
  | TStruct fs =>
    (fix go (l : list (string * ty)) (acc : list (string * ty)) : list (string * ty) :=
       match l with [] => acc | (_, ft) :: r => go r (named_in ft acc) end) fs acc
  | TNamed n body => add_decl (n, body) (named_in body acc)
  end.

(* a declaration set: top-level type specs in file order *)
Definition declset := list (string * ty).

Definition decls_of_root (name : string) (body : ty) : declset :=
  add_decl (name, body) (named_in body []).

Definition go_decl (d : string * ty) : string := "type " ++ fst d ++ " " ++ go_type (snd d) ++ nl.

Definition go_file (pkg : string) (ds : declset) : string :=
  "package " ++ pkg ++ nl ++ nl ++ concat "" (map (fun d => go_decl d ++ nl) ds).

(* the same declarations as one parenthesised group: type ( A ...; B ... ) *)
Definition go_file_grouped (pkg : string) (ds : declset) : string :=
  "package " ++ pkg ++ nl ++ nl ++ "type (" ++ nl ++
  concat "" (map (fun d : string * ty => fst d ++ " " ++ go_type (snd d) ++ nl ++ nl) ds) ++ ")" ++ nl.

(* nesting depth: collections and pointers-to-collections nest, names do not *)
Fixpoint depth (t : ty) : nat :=
  match t with
  | TScalar _ => 0
  | TPtr t' => depth t'
  | TSlice (TScalar SByte) => 1
  | TSlice e => S (depth e)
  | TMap k v => S (Nat.max (depth k) (depth v))
  | TStruct fs =>
    S ((fix go (l : list (string * ty)) : nat :=
          match l with [] => 0 | (_, ft) :: r => Nat.max (depth ft) (go r) end) fs)
  | TNamed _ b => depth b
  end.
