(* Model/Snippets.v - the string-conversion table of the generator (inspector.go init + default_snippets.go) as the models
   read it: which conversion a scalar kind gets, the Go text of that conversion, and what the text computes.
   The Go text is compared with what the library itself answers (Gen/SourceFacts.v, regenerated from /repo on every run);
   the reading of the text - strconv.ParseInt(x, 0, 0) then T(t) is [snippet_int], and so on - is the part that stays
   trusted, and is what the strconv / floats correspondence streams validate. *)
From Coq Require Import List Bool String Ascii ZArith.
From Verif Require Import Util Ints Strconv Floats Node Value Outcome Cmp.
Import ListNotations.
Local Open Scope string_scope.

Inductive conv := CvBool | CvInt | CvUint | CvFloat | CvByte | CvBytes | CvStr.

Definition conv_of_skind (k : skind) : conv :=
  match k with
  | SBool => CvBool
  | SInt i => if is_signed i then CvInt else CvUint
  | SByte => CvByte
  | SF32 | SF64 => CvFloat
  | SString => CvStr
  end.

(* the lines StrConvSnippet("ARG", ty, ty, "VAR") yields, temporaries numbered N *)
Definition parse_lines (call ty : string) : list string :=
  ["tN, errN := strconv." ++ call; "if errN != nil { return errN }"; "VAR = " ++ ty ++ "(tN)"].

Definition snippet_lines (c : conv) (ty : string) : list string :=
  match c with
  | CvBool => parse_lines "ParseBool(ARG)" ty
  | CvInt => parse_lines "ParseInt(ARG, 0, 0)" ty
  | CvUint => parse_lines "ParseUint(ARG, 0, 0)" ty
  | CvFloat => parse_lines "ParseFloat(ARG, 0)" ty
  | CvByte => ["tN := byteconv.S2B(ARG)"; "if len(tN) > 0{ VAR = tN[0] }"]
  | CvBytes => ["VAR = byteconv.S2B(ARG)"]
  | CvStr => ["VAR = ARG"]
  end.

(* what the conversion computes for a text; None = the emitted code returns the parser's error *)
Definition run_conv (c : conv) (k : skind) (s : string) : option val :=
  match c, k with
  | CvBool, _ => option_map VBool (parse_bool s)
  | CvInt, SInt i => option_map VInt (snippet_int i s)
  | CvUint, SInt i => option_map VInt (snippet_uint i s)
  | CvFloat, SF32 => option_map (fun f => VFloat (to_f64 (to_f32 f))) (parse_float s)
  | CvFloat, _ => option_map VFloat (parse_float s)
  | CvByte, _ => Some (VInt (first_byte s))
  | CvStr, _ => Some (VStr s)
  | _, _ => None
  end.

Definition all_skinds : list skind := [SBool] ++ map SInt all_ikinds ++ [SByte; SF32; SF64; SString].

Fixpoint assoc_str {A} (k : string) (l : list (string * A)) : option A :=
  match l with [] => None | (k', v) :: r => if String.eqb k k' then Some v else assoc_str k r end.

Fixpoint lines_eqb (a b : list string) : bool :=
  match a, b with
  | [], [] => true
  | x :: r, y :: r' => String.eqb x y && lines_eqb r r'
  | _, _ => false
  end.

(* the table agrees with what the library answers *)
Definition table_matches (facts : list (string * list string)) : bool :=
  forallb (fun k => match assoc_str (skind_name k) facts with
                    | Some ls => lines_eqb ls (snippet_lines (conv_of_skind k) (skind_name k))
                    | None => false
                    end) all_skinds &&
  match assoc_str "[]byte" facts with Some ls => lines_eqb ls (snippet_lines CvBytes "[]byte") | None => false end.
