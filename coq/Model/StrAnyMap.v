(* Model/StrAnyMap.v - executable model of StringAnyMapInspector (/repo/stranymap.go)
   and of the slice of StaticInspector.Compare it delegates to (static.go:39-157).
   Definitions only.

   Values.  [any] is what an interface value of a map[string]any tree can hold
   in the domain of C18: nil, bool, the ten integer kinds, string, []byte (with
   its spare capacity), a non-nil map in one of the three holding forms
   (map[string]any, *map[string]any, **map[string]any) with its entries as an
   association list (keys pairwise distinct - the NoDup invariant [wf]), and the
   six ways such a holder can be nil.  Floats, *string and *[]byte are left
   out: the corresponding arms of the type switches in stranymap.go are not
   reachable from these values and are not modelled.

   Memory.  Maps are reference types and pointers alias, but the values the
   harness builds are trees (no map is reachable twice), so an in-place update
   of a nested map is the functional update of the enclosing tree (histories
   in which nested maps ARE shared between trees and holders run on the store
   of map objects of Model/StrAnyMapHeap.v).  The one
   place where the real code relies on storing back is kept: SetWithBuffer
   re-assigns buf_[path[0]] = x after the recursive call - for an existing
   nested map that is the same (already mutated) map, for a freshly made
   intermediate map it is what links it into the tree, after an error it stores
   the unchanged child.  Every string / byte slice / map carries an [origin]:
   who allocated its memory.  Inputs are [OCaller]; what BufferizeString /
   Bufferize hand out is [OBuf]; what make() returns is [OMake]; [OOther] is
   caller memory of a second value (the destination passed to CopyTo).  No
   method looks at an origin, so running it on the source relabelled to
   [OCaller] everywhere ([to_caller]) gives the same result, and freshness of a
   copy = no [OCaller] memory reachable from it.

   Versions.  [fx = true] is the code after the "fix:" commits recorded
   in KNOWN_FINDINGS (nil guards in indir1/indir2, Capacity recursing into
   Capacity, Reset accepting a map held by value, and CopyTo / SetWithBuffer
   working through the pointer indir2 hands out: a nil source empties the
   destination, a nil map behind a non-nil pointer is made and stored through
   it); [fx = false] is the pinned commit. *)
From Coq Require Import ZArith NArith List String Ascii Bool.
From Verif Require Import Util Ints Strconv.
Import ListNotations.
Local Open Scope string_scope.

(* ---------- values ---------- *)
Inductive origin := OCaller | OBuf | OMake | OOther.
Inductive form := FVal | FPtr | FPtr2.
(* nil holders: nil map; nil *map; *map -> nil map; nil **map; **map -> nil *map; **map -> *map -> nil map *)
Inductive nilform := NMap | NPtr | NPtrMap | NPtr2 | NPtr2Ptr | NPtr2PtrMap.

Inductive any :=
| ANil
| ABool (b : bool)
| AInt (k : ikind) (z : Z)
| AStr (o : origin) (s : string)
| ABytes (o : origin) (d : string) (extra : N)      (* cap = len d + extra *)
| AMap (o : origin) (f : form) (es : list (string * any))
| ANilMap (nf : nilform).

Definition entries := list (string * any).

(* ---------- outcomes ---------- *)
Inductive err := EUnsupported | EMustPointer.
Inductive pkind := PNilDeref.
Inductive res (A : Type) := Ok (a : A) | Err (e : err) | Panic (p : pkind).
Arguments Ok {A} a. Arguments Err {A} e. Arguments Panic {A} p.

(* ---------- Go map operations on association lists ---------- *)
Fixpoint lookup (k : string) (es : entries) : option any :=
  match es with
  | [] => None
  | (k', v) :: r => if String.eqb k k' then Some v else lookup k r
  end.

(* m[k] = v : replace in place when present, else a new entry *)
Fixpoint upsert (k : string) (v : any) (es : entries) : entries :=
  match es with
  | [] => [(k, v)]
  | (k', v') :: r => if String.eqb k k' then (k, v) :: r else (k', v') :: upsert k v r
  end.

Definition nil_is_pointer (nf : nilform) : bool :=
  match nf with NPtr | NPtr2 | NPtr2Ptr => true | _ => false end.

Definition form_of_nil (nf : nilform) : form :=
  match nf with NMap => FVal | NPtr | NPtrMap => FPtr | _ => FPtr2 end.

(* a non-nil *map / **map -> *map that ends in a nil map: there is a pointer to store a map through *)
Definition nil_storable (nf : nilform) : bool :=
  match nf with NPtrMap | NPtr2PtrMap => true | _ => false end.

(* ---------- indir1 / indir2 / indir (stranymap.go:234-265) ----------
   Result: the map the value holds; [None] is a nil map.  The pinned code
   evaluates the pointer dereferences unguarded. *)
Definition indir1 (fx : bool) (x : any) : res (option entries) :=
  match x with
  | AMap _ _ es => Ok (Some es)
  | ANilMap nf => if nil_is_pointer nf then (if fx then Ok None else Panic PNilDeref) else Ok None
  | _ => Err EUnsupported
  end.

Definition indir2 (fx : bool) (x : any) : res (option entries) :=
  match x with
  | AMap _ FVal _ => Err EMustPointer
  | ANilMap NMap => Err EMustPointer
  | AMap _ _ es => Ok (Some es)
  | ANilMap nf => if nil_is_pointer nf then (if fx then Ok None else Panic PNilDeref) else Ok None
  | _ => Err EUnsupported
  end.

Definition indir := indir1.

(* After the last fix indir2 hands out the POINTER to the map (nil for a nil
   *map / **map and for a **map holding a nil *map); its callers dereference it
   and, finding a nil map, do  *p = make(map[string]any)  .  [indir2] above
   stays the map behind that pointer; [made] is the holder after the store
   through it - [None] when there is no pointer to store through (a nil
   pointer; in SetWithBuffer also a nil map passed by value, for which indir2
   answers ErrMustPointerType) and in the pinned code, which never stores. *)
Definition made (fx : bool) (x : any) : option any :=
  match x with
  | ANilMap nf => if fx && nil_storable nf then Some (AMap OMake (form_of_nil nf) []) else None
  | _ => None
  end.

(* the same holder around an updated map *)
Definition with_entries (x : any) (es : entries) : any :=
  match x with AMap o f _ => AMap o f es | _ => x end.

(* ---------- Get / GetTo (15-35) ---------- *)
Fixpoint get_to (fx : bool) (path : list string) (src : any) : res (option any) :=
  match path with
  | [] => Ok (Some src)                       (* *buf = src *)
  | k :: rest =>
    match indir fx src with
    | Err e => Err e
    | Panic p => Panic p
    | Ok None => Ok None                      (* read of a nil map: !ok *)
    | Ok (Some es) =>
      match lookup k es with
      | None => Ok None
      | Some x => get_to fx rest x
      end
    end
  end.
Definition get := get_to.

(* ---------- Set / SetWithBuffer (37-72) ---------- *)
(* what the type switch at 58-69 stores for [value] *)
Definition bufferized (v : any) : any :=
  match v with
  | AStr _ s => AStr OBuf s
  | ABytes _ d _ => ABytes OBuf d 0
  | _ => v
  end.

Fixpoint set_wb (fx : bool) (path : list string) (dst value : any) : any * res unit :=
  match path with
  | [] => (dst, Ok tt)
  | k :: rest =>
    match indir1 fx dst with
    | Err e => (dst, Err e)
    | Panic p => (dst, Panic p)
    | Ok m =>
      (* buf_ == nil: the pinned code returns nil; the fixed code makes the map
         when it can store it through a pointer, and returns nil when it cannot *)
      match (match m with Some _ => Some dst | None => made fx dst end) with
      | None => (dst, Ok tt)
      | Some d =>
        let es := match m with Some es => es | None => [] end in
        match rest with
        | [] => (with_entries d (upsert k (bufferized value) es), Ok tt)
        | _ :: _ =>
          let x := match lookup k es with Some x => x | None => AMap OMake FVal [] end in
          let '(x', r) := set_wb fx rest x value in
          match r with
          | Panic p => (d, Panic p)           (* unwinds before buf_[path[0]] = x *)
          | _ => (with_entries d (upsert k x' es), r)
          end
        end
      end
    end
  end.
Definition set := set_wb.

(* ---------- StaticInspector.Compare on the leaf kinds (static.go:39-249) ---------- *)
Inductive cop := OpUnk | OpEq | OpNq | OpGt | OpGtq | OpLt | OpLtq | OpInc | OpDec.

Definition cmp_z (c : cop) (l r : Z) : bool :=
  match c with
  | OpEq => Z.eqb l r | OpNq => negb (Z.eqb l r)
  | OpGt => Z.ltb r l | OpGtq => Z.leb r l | OpLt => Z.ltb l r | OpLtq => Z.leb l r
  | _ => false
  end.
Definition cmp_str (c : cop) (l r : string) : bool :=
  match c with
  | OpEq => String.eqb l r | OpNq => negb (String.eqb l r)
  | OpGt => String.ltb r l | OpGtq => String.leb r l | OpLt => String.ltb l r | OpLtq => String.leb l r
  | _ => false
  end.
Definition cmp_eqonly {A} (eqb : A -> A -> bool) (c : cop) (l r : A) : bool :=
  match c with OpEq => eqb l r | OpNq => negb (eqb l r) | _ => false end.

(* [None]: *result is not written (the operand does not parse) *)
Definition static_compare (x : any) (c : cop) (right : string) : option bool :=
  match x with
  | AInt k z =>
    if is_signed k
    then match parse_int right 0 64 with Some r => Some (cmp_z c z r) | None => None end
    else match parse_uint right 0 (2 ^ 64 - 1) with Some r => Some (cmp_z c z r) | None => None end
  | ABool b => match parse_bool right with Some r => Some (cmp_eqonly Bool.eqb c b r) | None => None end
  | ABytes _ d _ => Some (cmp_eqonly String.eqb c d right)
  | AStr _ s => Some (cmp_str c s right)
  | _ => Some false                           (* default: *result = false *)
  end.

(* ---------- Compare (74-93) ---------- *)
Fixpoint compare (fx : bool) (path : list string) (src : any) (c : cop) (right : string) : res (option bool) :=
  match path with
  | [] => Ok None
  | k :: rest =>
    match indir1 fx src with
    | Err e => Err e
    | Panic p => Panic p
    | Ok None => Ok None
    | Ok (Some es) =>
      match lookup k es with
      | None => Ok None
      | Some x =>
        match rest with
        | [] => Ok (static_compare x c right)
        | _ :: _ => compare fx rest x c right
        end
      end
    end
  end.

(* ---------- Loop (95-126) ----------
   The iterator is the list of its answers; [range] order is the order of the
   association list (the harness compares as a sorted set).  Result: the
   (key, value) pairs handed to SetKey/SetVal. *)
Inductive lctl := CtlNone | CtlBrk | CtlCnt.

Fixpoint visit (es : entries) (ctl : list lctl) : entries :=
  match es with
  | [] => []
  | e :: r =>
    match ctl with
    | CtlBrk :: _ => [e]
    | _ :: ctl' => e :: visit r ctl'
    | [] => e :: visit r []
    end
  end.

Fixpoint loop (fx : bool) (path : list string) (src : any) (ctl : list lctl) : res entries :=
  match path with
  | [] =>
    match indir fx src with
    | Err e => Err e
    | Panic p => Panic p
    | Ok None => Ok []
    | Ok (Some es) => Ok (visit es ctl)
    end
  | k :: rest =>
    match indir fx src with
    | Err e => Err e
    | Panic p => Panic p
    | Ok None => Ok []
    | Ok (Some es) =>
      match lookup k es with
      | None => Ok []
      | Some x => loop fx rest x ctl
      end
    end
  end.

(* ---------- DeepEqual (128-136): "todo implement me" ---------- *)
Definition deep_equal_with_options (l r : any) : bool := false.
Definition deep_equal (l r : any) : bool := deep_equal_with_options l r.

(* ---------- Length / Capacity (172-221) ---------- *)
Definition slen (s : string) : Z := Z.of_nat (String.length s).

(* [None]: *result is not written *)
Definition length_here (fx : bool) (x : any) : res (option Z) :=
  match indir fx x with
  | Ok None => Ok (Some 0%Z)
  | Ok (Some es) => Ok (Some (Z.of_nat (List.length es)))
  | Panic p => Panic p
  | Err _ =>
    match x with
    | AStr _ s => Ok (Some (slen s))
    | ABytes _ d _ => Ok (Some (slen d))
    | _ => Ok None
    end
  end.

Fixpoint length (fx : bool) (path : list string) (x : any) : res (option Z) :=
  match path with
  | [] => length_here fx x
  | k :: rest =>
    match indir fx x with
    | Err e => Err e
    | Panic p => Panic p
    | Ok None => Ok None
    | Ok (Some es) =>
      match lookup k es with
      | None => Ok None
      | Some x1 => length fx rest x1
      end
    end
  end.

Definition capacity_here (x : any) : res (option Z) :=
  match x with
  | ABytes _ d extra => Ok (Some (slen d + Z.of_N extra)%Z)
  | _ => Ok None
  end.

(* the pinned code ends in "return i.Length(x1, result, path[1:]...)" *)
Fixpoint capacity (fx : bool) (path : list string) (x : any) : res (option Z) :=
  match path with
  | [] => capacity_here x
  | k :: rest =>
    match indir fx x with
    | Err e => Err e
    | Panic p => Panic p
    | Ok None => Ok None
    | Ok (Some es) =>
      match lookup k es with
      | None => Ok None
      | Some x1 => if fx then capacity fx rest x1 else length fx rest x1
      end
    end
  end.

(* ---------- Reset (223-232) ----------
   pinned: indir2 (a map held by value is ErrMustPointerType), every error is
   swallowed; fixed: indir1. *)
Definition reset (fx : bool) (x : any) : any * res unit :=
  match (if fx then indir1 fx x else indir2 fx x) with
  | Err _ => (x, Ok tt)
  | Panic p => (x, Panic p)
  | Ok None => (x, Ok tt)
  | Ok (Some _) => (with_entries x [], Ok tt)
  end.

(* ---------- cpy / CopyTo / Copy (149-170, 267-302) ---------- *)
(* cpy writes every entry of src into the (emptied or fresh) destination map;
   with pairwise distinct keys that is one entry per source entry. *)
Fixpoint cpy_val (x : any) : any :=
  match x with
  | AMap _ f es =>
    AMap OMake f ((fix cpy (l : entries) : entries :=
                     match l with [] => [] | (k, v) :: r => (k, cpy_val v) :: cpy r end) es)
  | ANilMap nf => AMap OMake (form_of_nil nf) []     (* m == nil: m1 := make(..., 0), stored in x's form *)
  | AStr _ s => AStr OBuf s
  | ABytes _ d _ => ABytes OBuf d 0
  | _ => x
  end.
Definition cpy (es : entries) : entries := map (fun kv => (fst kv, cpy_val (snd kv))) es.

(* does cpy of the pinned code evaluate *x of a nil pointer somewhere below? *)
Fixpoint has_nil_pointer (x : any) : bool :=
  match x with
  | AMap _ _ es => (fix go (l : entries) : bool :=
                      match l with [] => false | (_, v) :: r => has_nil_pointer v || go r end) es
  | ANilMap nf => nil_is_pointer nf
  | _ => false
  end.
Definition has_nil_pointer_es (es : entries) : bool := existsb (fun kv => has_nil_pointer (snd kv)) es.

(* pinned: "|| msrc == nil" returns before the destination is looked at and
   "|| mdst == nil" before anything is copied; fixed: a nil source is ranged
   over like an empty one, only a nil POINTER to the destination map returns
   (nil error), a nil map behind the pointer is made first *)
Definition copy_to (fx : bool) (src dst : any) : any * res unit :=
  match indir1 fx src with
  | Err e => (dst, Err e)
  | Panic p => (dst, Panic p)
  | Ok msrc =>
    if negb fx && match msrc with None => true | Some _ => false end
    then (dst, Ok tt)                         (* pinned, msrc == nil: dst is left as it is *)
    else
    match indir2 fx dst with
    | Err e => (dst, Err e)
    | Panic p => (dst, Panic p)
    | Ok mdst =>
      match (match mdst with Some _ => Some dst | None => made fx dst end) with
      | None => (dst, Ok tt)                  (* pinned, mdst == nil / fixed, pdst == nil: nothing is copied *)
      | Some d =>
        let es := match msrc with Some es => es | None => [] end in
        if negb fx && has_nil_pointer_es es then (dst, Panic PNilDeref)
        else (with_entries d (cpy es), Ok tt)
      end
    end
  end.

(* x_ := make(map[string]any); CopyTo(x, &x_, &buf); dst = x_ *)
Definition copy (fx : bool) (x : any) : any * res unit :=
  let '(d, r) := copy_to fx x (AMap OMake FPtr []) in
  (match d with AMap o _ es => AMap o FVal es | _ => d end, r).

(* ---------- predicates on values used by statements and generators ---------- *)
Fixpoint keys_nodup (ks : list string) : bool :=
  match ks with [] => true | k :: r => negb (existsb (String.eqb k) r) && keys_nodup r end.

(* keys pairwise distinct in every map *)
Fixpoint wf (x : any) : bool :=
  match x with
  | AMap _ _ es => keys_nodup (map fst es) &&
                   (fix go (l : entries) : bool := match l with [] => true | (_, v) :: r => wf v && go r end) es
  | _ => true
  end.

(* no nil holder anywhere *)
Fixpoint nonil (x : any) : bool :=
  match x with
  | AMap _ _ es => (fix go (l : entries) : bool := match l with [] => true | (_, v) :: r => nonil v && go r end) es
  | ANilMap _ => false
  | _ => true
  end.

(* every nil holder is one Set can store a map through (a pointer to a nil map) *)
Fixpoint settable (x : any) : bool :=
  match x with
  | AMap _ _ es => (fix go (l : entries) : bool := match l with [] => true | (_, v) :: r => settable v && go r end) es
  | ANilMap nf => nil_storable nf
  | _ => true
  end.

(* what CopyTo can fill: a map held by pointer, or a pointer to a nil map *)
Definition fillable (d : any) : bool :=
  match d with
  | AMap _ f _ => match f with FVal => false | _ => true end
  | ANilMap nf => nil_storable nf
  | _ => false
  end.

(* no caller-owned string / byte / map memory reachable *)
Fixpoint fresh (x : any) : bool :=
  match x with
  | AStr o _ | ABytes o _ _ => match o with OCaller => false | _ => true end
  | AMap o _ es => match o with OCaller => false | _ => true end &&
                   (fix go (l : entries) : bool := match l with [] => true | (_, v) :: r => fresh v && go r end) es
  | _ => true
  end.

(* every piece of memory of x relabelled as the caller's *)
Fixpoint to_caller (x : any) : any :=
  match x with
  | AStr _ s => AStr OCaller s
  | ABytes _ d e => ABytes OCaller d e
  | AMap _ f es => AMap OCaller f ((fix go (l : entries) : entries :=
                                     match l with [] => [] | (k, v) :: r => (k, to_caller v) :: go r end) es)
  | _ => x
  end.

Definition is_map (x : any) : bool := match x with AMap _ _ _ | ANilMap _ => true | _ => false end.
