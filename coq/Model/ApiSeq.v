(* Model/ApiSeq.v - HISTORIES of calls of generated methods on a store of objects.

   Model/Api.v puts one call on one argument under the signature
        exec n call arg = (answer, the argument afterwards).
   A caller makes many calls: on the same object, on other objects, handing the same
   caller-owned buffers (Loop's key buffer, a pointer to a byte slice) from call to call.  A history is a list
   of steps, each a call on one object of a store; [run] threads the store through the steps
   and keeps, per step, the answer and the store afterwards.

   The caller's key buffer is not a component of the state: every key rendering of the
   emitted Loop body starts from the empty prefix of the buffer (it appends to buf[:0]) and the models
   (Model/Loop.v) therefore never look at its content - the trace of a Loop is a function of
   the object alone.  That the real code neither reads old buffer content nor lets the buffer
   share memory with an object is what the history cases of the c12 stream observe (one buffer
   handed to every Loop of a history; dump of every object after every step). *)
From Coq Require Import List Bool String Ascii ZArith Arith.
From Verif Require Import Util Node Value Outcome Api.
Import ListNotations.

Definition obj := (node * arg)%type.
Definition store := list obj.
Definition step := (nat * call)%type.        (* which object of the store, which call *)

Fixpoint put {A} (l : list A) (i : nat) (x : A) : list A :=
  match l, i with
  | [], _ => []
  | _ :: r, O => x :: r
  | y :: r, S k => y :: put r k x
  end.

(* one step: the call on the object it names; a step that names no object does nothing *)
Definition exec_at (s : store) (st : step) : option answer * store :=
  match nth_error s (fst st) with
  | None => (None, s)
  | Some (n, a) => let r := exec n (snd st) a in (Some (fst r), put s (fst st) (n, snd r))
  end.

(* per step: the answer and the store after it *)
Fixpoint run (s : store) (h : list step) : list (option answer * store) :=
  match h with
  | [] => []
  | st :: r => let x := exec_at s st in x :: run (snd x) r
  end.

(* the step alone, on the store the history started from *)
Definition alone (s : store) (st : step) : option answer := fst (exec_at s st).

Definition reads_only (h : list step) : bool := forallb (fun st => is_read (snd st)) h.
