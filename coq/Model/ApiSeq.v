(* Model/ApiSeq.v - HISTORIES of calls of generated methods on a store of objects.

   Model/Api.v puts one call on one argument under the signature
        exec n call arg = (answer, the argument afterwards).
   A caller makes many calls: on the same object, on other objects, handing the same
   caller-owned buffers (Loop's key buffer, a pointer to a byte slice) from call to call.  A history is a list
   of steps, each a call on one object of a store; [run] threads the store through the steps
   and keeps, per step, the answer and the store afterwards.

   The caller's key buffer is not a component of the state: every key rendering of the
   emitted Loop body starts from the empty prefix of the buffer (it appends to buf[:0]) and the models
   (Model/Loop.v) therefore never look at its content - the trace of a Loop is a function of
   the object alone.  That the real code neither reads old buffer content nor lets the buffer
   share memory with an object is what the history cases of the c12 stream observe (one buffer
   handed to every Loop of a history; dump of every object after every step).

   The caller's RESULT buffer (the *any handed to GetTo) is different: what GetTo answers IS the
   content of that buffer after the call, and a call that stores nothing leaves in it what the
   caller had there - the answer of an earlier call.  The second half of this file ([brun]) threads
   that buffer through a history next to the store: a step is a call with buffers of its own
   ([HCall], all there is in [run]) or a GetTo with the history's result buffer ([HGetTo]). *)
From Coq Require Import List Bool String Ascii ZArith Arith.
From Verif Require Import Util Node Value Outcome Get Api.
Import ListNotations.

Definition obj := (node * arg)%type.
Definition store := list obj.
Definition step := (nat * call)%type.        (* which object of the store, which call *)

Fixpoint put {A} (l : list A) (i : nat) (x : A) : list A :=
  match l, i with
  | [], _ => []
  | _ :: r, O => x :: r
  | y :: r, S k => y :: put r k x
  end.

(* one step: the call on the object it names; a step that names no object does nothing *)
Definition exec_at (s : store) (st : step) : option answer * store :=
  match nth_error s (fst st) with
  | None => (None, s)
  | Some (n, a) => let r := exec n (snd st) a in (Some (fst r), put s (fst st) (n, snd r))
  end.

(* per step: the answer and the store after it *)
Fixpoint run (s : store) (h : list step) : list (option answer * store) :=
  match h with
  | [] => []
  | st :: r => let x := exec_at s st in x :: run (snd x) r
  end.

(* the step alone, on the store the history started from *)
Definition alone (s : store) (st : step) : option answer := fst (exec_at s st).

Definition reads_only (h : list step) : bool := forallb (fun st => is_read (snd st)) h.

(* ---------- histories that share ONE caller-owned result buffer ----------
   The buffer holds what Model/Get.v calls the content of *buf: nothing yet (None), or a reference
   (for the stream: the caller's sentinel, or what an earlier GetTo of the history stored - a
   reference into an object of the store, or to a local copy).  A reference records the value of
   its place when it was made: faithful as long as no step of the history writes, which is what the
   theorems about read histories establish and the only histories the stream runs. *)
Inductive hcall :=
| HCall (c : call)                 (* a call whose buffers are its own (a fresh result buffer per GetTo) *)
| HGetTo (path : list string).     (* GetTo(object, rb, path...) with rb the result buffer of the history *)

Definition bstep := (nat * hcall)%type.

Definition call_of (rb : option ref) (hc : hcall) : call :=
  match hc with HCall c => c | HGetTo path => KGetTo path rb end.

(* the result buffer after the step: GetTo's answer is the content of the buffer; a call that dies
   on the way has stored nothing *)
Definition rbuf_after (rb : option ref) (hc : hcall) (a : option answer) : option ref :=
  match hc, a with
  | HGetTo _, Some (AnsRef (Ret b _)) => b
  | HGetTo _, Some (AnsRef (Fall b)) => b
  | _, _ => rb
  end.

Definition bexec_at (s : store) (rb : option ref) (st : bstep) : option answer * store :=
  exec_at s (fst st, call_of rb (snd st)).

(* per step: the answer, the store and the result buffer after it *)
Fixpoint brun (s : store) (rb : option ref) (h : list bstep) : list (option answer * store * option ref) :=
  match h with
  | [] => []
  | st :: r =>
    let x := bexec_at s rb st in
    let rb' := rbuf_after rb (snd st) (fst x) in
    (fst x, snd x, rb') :: brun (snd x) rb' r
  end.

(* the step alone on the store [s], handed a result buffer with the content [rb] *)
Definition balone (s : store) (rb : option ref) (st : bstep) : option answer := fst (bexec_at s rb st).

(* every step alone on the store the history started from, the result buffer handed on from step to step *)
Fixpoint btrace (s : store) (rb : option ref) (h : list bstep) : list (option answer * store * option ref) :=
  match h with
  | [] => []
  | st :: r =>
    let a := balone s rb st in
    let rb' := rbuf_after rb (snd st) a in
    (a, s, rb') :: btrace s rb' r
  end.

Definition hcall_read (hc : hcall) : bool := match hc with HCall c => is_read c | HGetTo _ => true end.
Definition breads_only (h : list bstep) : bool := forallb (fun st => hcall_read (snd st)) h.

(* a history of [run] is a history of [brun] that never hands the shared result buffer over *)
Definition own_buffers (h : list step) : list bstep := map (fun st => (fst st, HCall (snd st))) h.
