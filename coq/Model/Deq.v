(* Model/Deq.v - what the code emitted by writeNodeDEQ (/repo/compiler.go) computes:
   the body of DeepEqualWithOptions, statement by statement, the DeepEqual /
   DeepEqualWithOptions header (funcHeaderEqual), options.go (DEQMustCheck) and
   equal.go (EqualFloat64/32).

   This is the model of the emitter AFTER two fix: commits (findings/C05.txt, C11.txt):
   the pinned emitter tested the nil-ness of a pointer-to-scalar FIELD on the parent
   variable (and then dereferenced the nil field), and compared the nil-ness of a
   pointer field before consulting the options.

   The only effect of the emitted body is `return false`, so a block is modelled by a
   boolean: false = the block returned false, true = it fell through (the method ends
   with `return true`).  After the header both operands are non-nil and every
   dereference is guarded, so the body cannot panic; neither can the header since the nil **T fix (/repo f853f49, see header_x). *)
From Coq Require Import List Bool String Ascii ZArith Arith Lia Floats.SpecFloat.
From Verif Require Import Util Ints Strconv Floats Node Value Outcome.
Import ListNotations.
Local Open Scope string_scope.

(* ---------- options.go ---------- *)
Record deqopts := DeqOpts { o_prec : spec_float; o_excl : list string; o_filt : list string }.

Definition mem (s : string) (l : list string) : bool := existsb (String.eqb s) l.

(* DEQMustCheck(path, options); the Go maps are sets of strings: lists, `len(m) > 0` = non-empty *)
Definition deq_must_check (path : string) (o : option deqopts) : bool :=
  match o with
  | None => true
  | Some o =>
    match o_excl o with
    | _ :: _ => negb (mem path (o_excl o))
    | [] => match o_filt o with
            | _ :: _ => mem path (o_filt o)
            | [] => true
            end
    end
  end.

(* ---------- equal.go ---------- *)
(* prec := FloatPrecision; if opts != nil && opts.Precision > 0 { prec = opts.Precision } *)
Definition eff_prec (o : option deqopts) : spec_float :=
  match o with
  | Some o => if SFltb (S754_zero false) (o_prec o) then o_prec o else float_precision
  | None => float_precision
  end.
(* EqualFloat64(a, b, opts); EqualFloat32 converts both operands to float64 first, which is
   exact - float32 values are stored as the float64 they convert to *)
Definition equal_float (a b : spec_float) (o : option deqopts) : bool := equal_float64 a b (eff_prec o).

(* ---------- the dotted option path of a node (first lines of writeNodeDEQ) ---------- *)
Definition is_dot (c : ascii) : bool := Ascii.eqb c "."%char.
Fixpoint ltrim_dots (s : string) : string :=
  match s with String c r => if is_dot c then ltrim_dots r else s | EmptyString => EmptyString end.
Fixpoint rtrim_dots (s : string) : string :=
  match s with
  | EmptyString => EmptyString
  | String c r => let r' := rtrim_dots r in
                  if is_dot c && (match r' with EmptyString => true | _ => false end) then EmptyString else String c r'
  end.
(* strings.Trim(path, ".") *)
Definition trim_dots (s : string) : string := rtrim_dots (ltrim_dots s).
Definition nonempty (s : string) : bool := match s with EmptyString => false | _ => true end.

(*  path = strings.Trim(path, ".")
    if len(path) > 0 && len(node.name) > 0 { path += "." }
    if depth > 0 { path += node.name }                                   *)
Definition deq_path (path name : string) (depth : nat) : string :=
  let p := trim_dots path in
  let p := if nonempty p && nonempty name then p ++ "." else p in
  if Nat.eqb depth 0 then p else p ++ name.

(* ---------- leaf comparisons ---------- *)
(* Go's != on scalars and strings (floats: IEEE ==) is the negation of [key_eqb] *)
Definition go_eqb (a b : val) : bool := key_eqb a b.
(* bytes.Equal: contents only, nil and empty are equal *)
Definition bytes_eqb (d e : list ascii) : bool := forallb2 Ascii.eqb d e.

Definition is_float_name (tu : string) : bool := String.eqb tu "float32" || String.eqb tu "float64".

(* deqMustSkipByType: the parent exists and is neither a map nor a slice *)
Definition par_struct (par : option typ) : bool :=
  match par with Some typeMap | Some typeSlice | None => false | Some _ => true end.

(* the children of a struct node, in declaration order; [rec ch f g] = the code emitted for child ch *)
Definition deq_fields (rec : node -> val -> val -> bool) : list node -> list val -> list val -> bool :=
  fix go (chs : list node) (fs gs : list val) {struct chs} : bool :=
    match chs with
    | [] => true
    | ch :: cr =>
      match fs, gs with
      | f :: fr, g :: gr => rec ch f g && go cr fr gr
      | _, _ => false
      end
    end.

(* `for k := range l { lv := l[k]; rv, ok := r[k]; if !ok {return false}; <value code> }`
   The loop body either returns false or continues, so the visiting order cannot matter
   (deq_map_perm in Proofs/DeqSound.v). *)
Definition deq_entries (rec : val -> val -> bool) (lk rk : list (val * val)) : bool :=
  forallb (fun kv => match map_find rk (fst kv) with
                     | None => false
                     | Some rv => rec (snd kv) rv
                     end) lk.

(* Pointer keys compare by identity.  Values are trees: two different trees share no
   pointer, so no key of the left map is found in the right one; when both operands are
   the very same object ([sh]) every key finds its own entry. *)
Definition deq_entries_ptr (sh : bool) (rec : val -> val -> bool) (lk rk : list (val * val)) : bool :=
  if sh then forallb2 (fun a b => rec (snd a) (snd b)) lk rk
  else match lk with [] => true | _ => false end.

(* [deq sh o n par path depth l r]:
     n      the node being compiled, par the type of its parent node (None at the root),
     path   the dotted path handed down by the parent, depth as in the emitter,
     l, r   the two values stored where the node says (pointer flag included),
     sh     both operands are the same object (DeepEqual(p, p)). *)
Fixpoint deq (sh : bool) (o : option deqopts) (n : node) (par : option typ) (path : string) (depth : nat)
             (l r : val) {struct n} : bool :=
  match n with
  | Node ty tn tu nm pk pki p chld mk mv sl hb hc =>
    let path := deq_path path nm depth in
    (* deqMustSkipByType *)
    let pstruct := par_struct par in
    let isbytes := match ty with typeSlice => String.eqb tn "[]byte" | _ => false end in
    let leaf := match ty with typeBasic => true | _ => isbytes end in
    (* deqMustSkipByTypeAndPath, for struct / map / slice nodes: `if DEQMustCheck(path, opts) {` around everything *)
    let wrap := pstruct && nonempty path && negb leaf in
    if wrap && negb (deq_must_check path o) then true else
    let body (x y : val) : bool :=
      match ty with
      | typeStruct =>
        match x, y with
        | VStruct fs, VStruct gs =>
          deq_fields (fun ch f g => deq sh o ch (Some typeStruct) path (S depth) f g) chld fs gs
        | _, _ => false
        end
      | typeMap =>
        match x, y, mk, mv with
        | VMap _ lk, VMap _ rk, Some kn, Some vn =>
          Nat.eqb (List.length lk) (List.length rk) &&
          (if n_ptr kn then deq_entries_ptr sh (fun a b => deq sh o vn (Some typeMap) path (S depth) a b) lk rk
           else deq_entries (fun a b => deq sh o vn (Some typeMap) path (S depth) a b) lk rk)
        | _, _, _, _ => false
        end
      | typeSlice =>
        if String.eqb tn "[]byte" then
          (* if !bytes.Equal(l, r) && DEQMustCheck(path, opts) { return false } - always option-guarded *)
          (match x, y with VBytes _ d _, VBytes _ e _ => bytes_eqb d e | _, _ => false end) || negb (deq_must_check path o)
        else
          match x, y, sl with
          | VSlice _ le _, VSlice _ re _, Some en =>
            Nat.eqb (List.length le) (List.length re) &&
            forallb2 (fun a b => deq sh o en (Some typeSlice) path (S depth) a b) le re
          | _, _, _ => false
          end
      | typeBasic =>
        if pstruct then
          (if is_float_name tu
           then match x, y with VFloat a, VFloat b => equal_float a b o | _, _ => go_eqb x y (* ill-typed: not reached *) end
           else go_eqb x y) || negb (deq_must_check path o)
        else go_eqb x y
      end in
    if p then
      (* if (l == nil && r != nil) || (l != nil && r == nil) [&& DEQMustCheck(path, opts)] { return false }
         if l != nil && r != nil { ... } *)
      match l, r with
      | VPtr None, VPtr None => true
      | VPtr (Some x), VPtr (Some y) => body x y
      | _, _ => if isbytes || (match ty with typeBasic => pstruct | _ => false end)
                then negb (deq_must_check path o) else false
      end
    else body l r
  end.

(* ---------- the method: header + body ---------- *)
(* funcHeaderEqual: both type switches (l first), `if !leq || !req { return false }`,
   both nil -> true, one nil -> false.  A nil **T leaves lx nil (header_x), so a nil **T operand
   equals a nil *T one. *)
Definition deep_equal_with_options (n : node) (sh : bool) (la ra : arg) (o : option deqopts) : bool + pkind :=
  match header_x la with
  | inr k => inr k
  | inl lx =>
    match header_x ra with
    | inr k => inr k
    | inl rx =>
      match lx, rx with
      | Some lc, Some rc =>
        match lc, rc with
        | CVal a, CVal b => inl (deq sh o n None "" 0 a b)
        | CVal _, _ | _, CVal _ => inl false
        | _, _ => inl true
        end
      | _, _ => inl false
      end
    end
  end.

(* DeepEqual(l, r) = DeepEqualWithOptions(l, r, nil) *)
Definition deep_equal (n : node) (sh : bool) (la ra : arg) : bool + pkind := deep_equal_with_options n sh la ra None.
