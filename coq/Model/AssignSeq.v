(* Model/AssignSeq.v - histories of Assign / AssignBuf calls (definitions only).

   A caller seldom converts once: it converts in a loop, and in that loop the
   SAME objects come back - one []byte that is rewritten in place between the
   calls, one *string pointed at other text, one *int holding another number,
   one destination variable that receives value after value, one accumulating
   buffer.  The model of a single call (Model/Assign.v) is a function of the
   VALUES the source and the destination hold at the moment of the call and of
   the buffer's content: it has no other state.  A history is therefore the
   single call iterated,

     - the source of step i is the value the source object holds at step i
       (whether that object is new or the one of the step before does not
       enter: this is the claim the correspondence stream tests),
     - the destination of step i is the one the step names ([DstFresh]) or
       the destination object of the step before with what that step left in
       it ([DstReuse]; the first step names it),
     - the buffer of step i holds what step i-1 left in it.

   What is observed of a step is (ok, destination, buffer content) - the
   ownership class of a stored text is observed in the single-call matrix only
   (with reused objects the old destination's capacity is not a function of
   the history's values; [sout_of] forgets the class, and the destination
   capacity, which only the class depends on, is 0 here: AssignSeqThms
   cap_irrelevant).  A panic ends the history. *)
From Coq Require Import ZArith Bool String List.
From Verif Require Import AssignVal Assign AssignSeqVal.
Import ListNotations.

(* what is observed of one step *)
Inductive sout :=
| SDone (ok : bool) (d : dest) (b : option string)
| SPanicked (k : pkind)
| SOutOfModel.

Definition sout_of (o : outcome) : sout :=
  match o with
  | Done ok d _ b => SDone ok d b
  | Panicked k => SPanicked k
  | OutOfModel => SOutOfModel
  end.

Section Seq.
Variable strfix : bool.
Variable dm : dmode.

(* [cur]: the reused destination as the previous step left it (None before the first step) *)
Fixpoint run_seq (cur : option dest) (buf : option string) (l : list hstep) : list sout :=
  match l with
  | [] => []
  | st :: r =>
    let o := sout_of (assign strfix 0%Z buf (step_dest dm cur st) (h_src st)) in
    match o with
    | SDone _ d' b' => o :: run_seq (Some d') b' r
    | _ => [o]
    end
  end.

End Seq.
