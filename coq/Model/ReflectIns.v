(* Model/ReflectIns.v - ReflectInspector.Get (/repo/reflect.go), the only method of that
   inspector that does anything with its argument (Compare, Set, Loop, Copy, CopyTo, Length,
   Capacity, Reset are empty stubs that return nil; DeepEqual is reflect.DeepEqual; Unmarshal is
   encoding/json).

     func (i ReflectInspector) Get(src any, path ...string) (any, error) {
         r = src
         for c, k = range path { r = i.inspect(r, k) }
         return r, nil }

   [inspect] looks at the dynamic value: an invalid value (nil interface) gives nil; a pointer is
   followed (a nil pointer gives nil); a map is searched for the key whose `%v` text is the
   segment; a struct for the exported field of that name; a []byte is handed back whatever the
   segment; any other slice is indexed with strconv.Atoi(segment) - [fx = false]: `v.Index(idx)`
   unguarded (the pinned code: an index outside [0, len) panics), [fx = true]: with the bounds
   test of the fix: commit.  Every other kind gives nil.

   A dynamic value is a value tree together with the node describing its Go type. *)
From Coq Require Import List Bool String Ascii ZArith Arith Lia.
From Verif Require Import Util Ints Strconv Floats Node Value Outcome Nav.
Import ListNotations.
Local Open Scope string_scope.

Inductive rdyn :=
| RNone                        (* the nil interface *)
| RNilPtr                      (* a typed nil pointer argument *)
| RDyn (n : node) (v : val).   (* a value of the Go type n describes (pointer flag included) *)

Inductive rout :=
| ROk (d : rdyn)
| RPanic (k : pkind)
| RUnknown.                    (* a float-keyed map was searched: `%v` of a float is not modelled *)

(* fmt.Sprintf("%v", key) for the key kinds with a modelled rendering *)
Definition fmt_v (kn : node) (k : val) : option string :=
  match node_skind kn, k with
  | Some SString, VStr s => Some s
  | Some (SInt _), VInt z | Some SByte, VInt z => Some (Z_to_string z)
  | Some SBool, VBool b => Some (if b then "true" else "false")
  | _, _ => None
  end.

Definition float_key (kn : node) : bool :=
  match node_skind kn with Some (SF32 | SF64) => true | _ => false end.

Fixpoint rfind (kn : node) (kvs : list (val * val)) (key : string) : option val :=
  match kvs with
  | [] => None
  | (k, e) :: r => match fmt_v kn k with
                   | Some t => if String.eqb t key then Some e else rfind kn r key
                   | None => rfind kn r key
                   end
  end.

(* node.([]byte): a type assertion, so it goes by type IDENTITY - the unnamed slice type, spelled
   []byte or []uint8.  A defined type with that underlying type (type Blob []byte), or a slice of a
   defined byte type (type Octet uint8; []Octet), is not a []byte: it is indexed like any slice. *)
Definition is_byte_slice (n : node) : bool :=
  match n_typ n with
  | typeSlice => String.eqb (n_typn n) "[]byte" || String.eqb (n_typn n) "[]uint8"
  | _ => false
  end.

Definition rinspect (fx : bool) (d : rdyn) (key : string) : rout :=
  match d with
  | RNone | RNilPtr => ROk RNone
  | RDyn n v =>
    let n' := set_ptr n false in
    match (if n_ptr n then match v with VPtr (Some x) => Some x | _ => None end else Some v) with
    | None => ROk RNone                                  (* nil pointer: Elem() is invalid *)
    | Some x =>
      match n_typ n with
      | typeStruct =>
        match x with
        | VStruct fs => match find_child (n_chld n) fs key with
                        | Some (c, f) => ROk (RDyn c f)
                        | None => ROk RNone
                        end
        | _ => ROk RNone
        end
      | typeMap =>
        match x, n_mapk n, n_mapv n with
        | VMap _ kvs, Some kn, Some vn =>
          if n_ptr kn then ROk RNone                     (* `%v` of a pointer key is its address *)
          else if float_key kn then (match kvs with [] => ROk RNone | _ => RUnknown end)
          else match rfind kn kvs key with
               | Some e => ROk (RDyn vn e)
               | None => ROk RNone
               end
        | _, _, _ => ROk RNone
        end
      | typeSlice =>
        if is_byte_slice n then ROk (RDyn n' x)          (* return bytes *)
        else
          match x, n_slct n with
          | VSlice _ es _, Some en =>
            match atoi key with
            | None => ROk RNone
            | Some i =>
              if ((0 <=? i) && (i <? Z.of_nat (List.length es)))%Z then
                match nth_error es (Z.to_nat i) with
                | Some e => ROk (RDyn en e)
                | None => ROk RNone
                end
              else if fx then ROk RNone else RPanic PIndex
            end
          | _, _ => ROk RNone
          end
      | typeBasic => ROk RNone
      end
    end
  end.

Fixpoint rwalk (fx : bool) (d : rdyn) (path : list string) : rout :=
  match path with
  | [] => ROk d
  | k :: rest => match rinspect fx d k with
                 | ROk d' => rwalk fx d' rest
                 | o => o
                 end
  end.

(* what the argument is as a dynamic value; None: a foreign type (not modelled) *)
Definition rstart (n : node) (a : arg) : option rdyn :=
  match a with
  | AVal v | APtr (Some v) | APtrPtr (Some (Some v)) => Some (RDyn n v)
  | APtr None | APtrPtr (Some None) | APtrPtr None => Some RNilPtr
  | ANil => Some RNone
  | AForeign => None
  end.

Definition rget (fx : bool) (n : node) (a : arg) (path : list string) : option rout :=
  option_map (fun d => rwalk fx d path) (rstart n a).

(* GetTo stores what Get returns *)
Definition rget_to (fx : bool) (n : node) (a : arg) (path : list string) : option rout := rget fx n a path.

(* the empty stubs: Compare, Set, SetWithBuffer, Loop, Copy, CopyTo, Length, Capacity, Reset
   ignore their arguments and return nil *)
Definition rstub : rout := ROk RNone.

(* what the returned interface finally denotes (harness: DumpDeref) *)
Definition rfinal (d : rdyn) : string :=
  match d with
  | RNone => "none"
  | RNilPtr => "nil"
  | RDyn n v => match v with
                | VPtr None => "nil"
                | VPtr (Some x) => dump x
                | _ => dump v
                end
  end.
