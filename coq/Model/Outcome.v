(* Model/Outcome.v - outcomes of emitted code, cursors, and the run-time helpers
   shared by all emitter models (key conversion, map lookup, lengths). *)
From Coq Require Import List Bool String Ascii ZArith Arith Lia Floats.SpecFloat.
From Verif Require Import Util Ints Strconv Floats Node Value.
Import ListNotations.
Local Open Scope string_scope.

Inductive pkind := PNilDeref | PIndex | PNilMap | PTypeAssert.
Inductive err := EParse | EUnsupported | EMustPointer | EOther.

(* what a block of emitted statements does: fall through to the next statement,
   return from the method (with or without error), or panic *)
Inductive out (S : Type) := Fall (s : S) | Ret (s : S) (e : option err) | Panic (p : pkind).
Arguments Fall {S}. Arguments Ret {S}. Arguments Panic {S}.

Definition bind {S} (o : out S) (f : S -> out S) : out S :=
  match o with Fall s => f s | Ret s e => Ret s e | Panic p => Panic p end.

Definition pr_pkind (p : pkind) : string :=
  match p with PNilDeref => "nilderef" | PIndex => "index" | PNilMap => "nilmap" | PTypeAssert => "typeassert" end.
Definition pr_err (e : option err) : string :=
  match e with
  | None => "nil" | Some EParse => "parse" | Some EUnsupported => "unsupported"
  | Some EMustPointer => "mustpointer" | Some EOther => "other"
  end.

(* The Go expression an emitter calls `v`:
     CVal x   evaluates to (a pointer to / a copy of) the value x of the node's type,
     CNil     evaluates to a nil pointer,
     CPoison  cannot be evaluated at all: it is a selector on a nil pointer (x.F with x nil). *)
Inductive cur := CVal (v : val) | CNil | CPoison.

(* the cursor for a value stored where the node says (pointer flag included) *)
Definition cur_of (n : node) (v : val) : cur :=
  if n_ptr n then match v with VPtr (Some x) => CVal x | _ => CNil end else CVal v.

(* selecting field [idx] of the struct the cursor designates *)
Definition cur_field (c : cur) (ch : node) (idx : nat) : cur :=
  match c with
  | CVal (VStruct fs) => match nth_error fs idx with Some fv => cur_of ch fv | None => CPoison end
  | _ => CPoison
  end.

(* ---------- lengths ---------- *)
Definition v_len (v : val) : Z :=
  match v with
  | VStr s => Z.of_nat (String.length s)
  | VBytes _ d _ => Z.of_nat (List.length d)
  | VSlice _ es _ => Z.of_nat (List.length es)
  | VMap _ kvs => Z.of_nat (List.length kvs)
  | _ => 0
  end.
Definition v_cap (v : val) : Z :=
  match v with
  | VBytes _ d e => Z.of_nat (List.length d + e)
  | VSlice _ es e => Z.of_nat (List.length es + e)
  | _ => 0
  end.

(* ---------- path segment -> map key (StrConvSnippet of the key node) ----------
   None = the snippet returns its error; keys of kinds without a registered
   snippet do not occur in the supported fragment. *)
Definition conv_key (kn : node) (seg : string) : option val :=
  match node_skind kn with
  | Some (SInt k) => if is_signed k then option_map VInt (snippet_int k seg) else option_map VInt (snippet_uint k seg)
  | Some SF64 => option_map VFloat (parse_float seg)
  | Some SF32 => option_map (fun f => VFloat (to_f64 (to_f32 f))) (parse_float seg)
  | Some SString => Some (VStr seg)
  | Some SBool => option_map VBool (parse_bool seg)
  | _ => None
  end.

(* Go's == on map keys *)
Definition key_eqb (a b : val) : bool :=
  match a, b with
  | VInt x, VInt y => Z.eqb x y
  | VStr x, VStr y => String.eqb x y
  | VBool x, VBool y => Bool.eqb x y
  | VFloat x, VFloat y => f64_eqb x y
  | _, _ => false
  end.

Fixpoint map_find (kvs : list (val * val)) (k : val) : option val :=
  match kvs with
  | [] => None
  | (k', v) :: r => if key_eqb k' k then Some v else map_find r k
  end.

(* m[key] in emitted code. Pointer-typed keys are looked up as the address of a fresh
   local: never found. *)
Definition lookup (kn : node) (kvs : list (val * val)) (k : val) : option val :=
  if n_ptr kn then None else map_find kvs k.

(* the slice index snippet: strconv.ParseInt(seg, 0, 0) then int(t) *)
Definition conv_index (seg : string) : option Z := snippet_int KInt seg.

Definition is_string_key (kn : node) : bool := String.eqb (n_typn kn) "string".

(* c.isBuiltin *)
Definition is_builtin (tn : string) : bool :=
  match skind_of_name tn with Some _ => true | None => String.eqb tn "[]byte" end.

(* ---------- how a value reaches a method: the argument forms of the generated headers ---------- *)
(* how the argument reaches the method (Api forms) *)
Inductive arg :=
| AVal (v : val)            (* T *)
| APtr (o : option val)     (* *T, possibly a typed nil *)
| APtrPtr (o : option (option val))   (* **T: None = nil **T; Some None = pointer to a nil *T *)
| ANil                      (* untyped nil interface *)
| AForeign.                 (* a value of an unrelated type *)

(* x after the type switch of the header: None = the header returned by itself.
   A nil **T leaves x nil (`if p != nil { x = *p }`, fix: commits 1a38871, 9e61cd0): no header
   dereferences it any more, the [inr] alternative is kept for the shape of the callers.  The
   path methods return on a nil x right after the switch (see their models). *)
Definition header_x (a : arg) : option cur + pkind :=
  match a with
  | AVal v => inl (Some (CVal v))
  | APtr (Some v) => inl (Some (CVal v))
  | APtr None => inl (Some CNil)
  | APtrPtr (Some (Some v)) => inl (Some (CVal v))
  | APtrPtr (Some None) => inl (Some CNil)
  | APtrPtr None => inl (Some CNil)              (* p nil: x stays nil *)
  | ANil | AForeign => inl None
  end.


(* the argument forms a value v can be passed in, with the names the harness uses *)
Definition arg_of_form (form : string) (v : val) : arg :=
  if String.eqb form "v" then AVal v
  else if String.eqb form "p" then APtr (Some v)
  else if String.eqb form "pp" then APtrPtr (Some (Some v))
  else if String.eqb form "np" then APtr None
  else if String.eqb form "npp" then APtrPtr (Some None)
  else if String.eqb form "nilpp" then APtrPtr None
  else if String.eqb form "nil" then ANil
  else AForeign.
Definition value_forms : list string := ["v"; "p"; "pp"].
Definition hostile_forms : list string := ["np"; "npp"; "nilpp"; "nil"; "foreign"].
