(* Model/Api.v - the generated methods as calls on ONE argument, with the state of
   that argument made explicit.

   The emitter models (LC, Get, Cmp, Loop, Deq, InsCopy, InsReset, SetEmit) are functions
   of the value tree the argument designates: a read operation has no way to hand a
   changed tree back.  [exec] puts all methods under one signature

        exec n call arg = (answer, the argument afterwards)

   so that "read operations never write" is a statement about something: the writers
   (Reset, CopyTo's destination, Set) return the argument with the tree their model
   computed stored behind the pointer that was handed over ([upd_arg]); every other
   call returns the argument it was given.  An argument passed by value is a copy: no
   call can change it ([upd_arg] of [AVal]).  That the real generated code behaves like
   this is what the correspondence stream observes (dump of every argument before and
   after every call). *)
From Coq Require Import List Bool String Ascii ZArith Arith.
From Verif Require Import Util Ints Strconv Floats Node Value Outcome LC Get Cmp Loop Deq InsReset InsCopy SetEmit.
Import ListNotations.
Local Open Scope string_scope.

Inductive call :=
| KGet (path : list string)
| KGetTo (path : list string) (buf : option ref)
| KCompare (op : cop) (rgt : string) (path : list string) (res0 : bool)
| KLoop (sc : script) (ord : list (val * val) -> list (val * val)) (path : list string)
| KLength (path : list string) (res0 : Z)
| KCapacity (path : list string) (res0 : Z)
| KDeepEqualL (sh : bool) (o : option deqopts) (r : arg)      (* the argument is the left operand *)
| KDeepEqualR (sh : bool) (o : option deqopts) (l : arg)      (* the argument is the right operand *)
| KCopy
| KCopyToSrc (dst : arg)                                      (* the argument is CopyTo's source *)
| KCopyToDst (src : arg)                                      (* the argument is CopyTo's destination *)
| KReset
| KSet (path : list string) (s : src) (buf : bool).

Inductive answer :=
| AnsRef (o : out (option ref))
| AnsBool (o : out bool)
| AnsTrace (o : out trace)
| AnsInt (o : out Z)
| AnsDeq (o : bool + pkind)
| AnsVal (o : out (option val))
| AnsSet (o : option (out val)).

(* the operations the property calls read operations (for CopyTo: of its source) *)
Definition is_read (c : call) : bool :=
  match c with
  | KCopyToDst _ | KReset | KSet _ _ _ => false
  | _ => true
  end.

(* storing a tree behind the pointer handed over; by value there is no such pointer *)
Definition upd_arg (a : arg) (v' : val) : arg :=
  match a with
  | APtr (Some _) => APtr (Some v')
  | APtrPtr (Some (Some _)) => APtrPtr (Some (Some v'))
  | _ => a
  end.

Definition written (a : arg) (o : out (option val)) : arg :=
  match o with
  | Ret (Some v') _ | Fall (Some v') => upd_arg a v'
  | _ => a
  end.

Definition exec (n : node) (c : call) (a : arg) : answer * arg :=
  match c with
  | KGet path => (AnsRef (get false n a path), a)
  | KGetTo path buf => (AnsRef (get_to false n a path buf), a)
  | KCompare op rgt path res0 => (AnsBool (compare n a op rgt path res0), a)
  | KLoop sc ord path => (AnsTrace (loop_method sc ord n a path), a)
  | KLength path res0 => (AnsInt (length_capacity FLen n a path res0), a)
  | KCapacity path res0 => (AnsInt (length_capacity FCap n a path res0), a)
  | KDeepEqualL sh o r => (AnsDeq (deep_equal_with_options n sh a r o), a)
  | KDeepEqualR sh o l => (AnsDeq (deep_equal_with_options n sh l a o), a)
  | KCopy => (AnsVal (copy_method n a), a)
  | KCopyToSrc dst => (AnsVal (copyto_method n a dst), a)
  | KCopyToDst src => let o := copyto_method n src a in (AnsVal o, written a o)
  | KReset => let o := reset_method n a in (AnsVal o, written a o)
  | KSet path s buf =>
    let o := set_with_buffer n a path s buf in
    (AnsSet o, match o with Some (Ret v' _) | Some (Fall v') => upd_arg a v' | _ => a end)
  end.
