(* Model/Footprint.v - reachability over the call graph extracted from /repo
   (Gen/FootprintFacts.v, regenerated on every run) and the closed-set argument
   behind C20: no function reachable from a run-time API root stores to a
   package-level variable.  Second part: the extracted "a result may be derived
   from parameter p" facts and the check that named functions never hand out
   memory of a given parameter. *)
From Coq Require Import List Bool String NArith Lia.
Import ListNotations.

Definition fn_rec := (N * string * list N * list string)%type.
Definition fn_id (f : fn_rec) : N := fst (fst (fst f)).
Definition fn_name (f : fn_rec) : string := snd (fst (fst f)).
Definition fn_calls (f : fn_rec) : list N := snd (fst f).
Definition fn_writes (f : fn_rec) : list string := snd f.

Section Graph.
Variable fns : list fn_rec.

Definition lookup_fn (i : N) : option fn_rec := find (fun f => N.eqb (fn_id f) i) fns.
Definition calls_of (i : N) : list N := match lookup_fn i with Some f => fn_calls f | None => [] end.
Definition writes_of (i : N) : list string := match lookup_fn i with Some f => fn_writes f | None => [] end.

(* reachability in the extracted graph *)
Inductive Reach (roots : list N) : N -> Prop :=
| ReachRoot : forall r, In r roots -> Reach roots r
| ReachStep : forall i j, Reach roots i -> In j (calls_of i) -> Reach roots j.

Definition memN (x : N) (l : list N) : bool := existsb (N.eqb x) l.

(* an (unverified) worklist closure, used only to PRODUCE a candidate set *)
Fixpoint closure (fuel : nat) (work seen : list N) : list N :=
  match fuel with
  | O => seen
  | S f =>
    match work with
    | [] => seen
    | i :: rest =>
      if memN i seen then closure f rest seen
      else closure f (calls_of i ++ rest) (i :: seen)
    end
  end.

(* the checked property of a candidate set: it contains the roots and is closed under calls *)
Definition closed (roots s : list N) : bool :=
  forallb (fun r => memN r s) roots && forallb (fun i => forallb (fun j => memN j s) (calls_of i)) s.

Lemma memN_In x l : memN x l = true <-> In x l.
Proof.
  unfold memN. rewrite existsb_exists. split.
  - intros (y & Hy & E). apply N.eqb_eq in E. subst. exact Hy.
  - intros H. exists x. split; [exact H|apply N.eqb_refl].
Qed.

Lemma closed_contains_reach roots s : closed roots s = true -> forall i, Reach roots i -> In i s.
Proof.
  unfold closed. intros C. apply andb_true_iff in C. destruct C as (CR & CC).
  rewrite forallb_forall in CR, CC.
  induction 1 as [r Hr|i j _ IH Hj].
  - apply memN_In. apply CR. exact Hr.
  - specialize (CC i IH). rewrite forallb_forall in CC. apply memN_In. apply CC. exact Hj.
Qed.

Definition no_writes (s : list N) : bool :=
  forallb (fun i => match writes_of i with [] => true | _ => false end) s.

Theorem no_global_write roots s :
  closed roots s = true -> no_writes s = true -> forall i, Reach roots i -> writes_of i = [].
Proof.
  intros C W i R. pose proof (closed_contains_reach _ _ C i R) as I.
  unfold no_writes in W. rewrite forallb_forall in W. specialize (W i I).
  destruct (writes_of i); [reflexivity|discriminate].
Qed.

End Graph.

(* ---- which parameters the results of a function may be derived from (fp_result_from):
   the parameter itself, a slice or reinterpretation of it, memory loaded through it.
   A function whose results are derived from its buffer only hands out memory that
   belongs to the owner of the buffer, whatever its other arguments were. *)
Definition result_from (rf : list (N * list N)) (i : N) : list N :=
  match find (fun e => N.eqb (fst e) i) rf with Some e => snd e | None => [] end.

Definition str_mem (s : string) (l : list string) : bool := existsb (String.eqb s) l.

Lemma str_mem_In s l : str_mem s l = true <-> In s l.
Proof.
  unfold str_mem. rewrite existsb_exists. split.
  - intros (y & Hy & E). apply String.eqb_eq in E. subst. exact Hy.
  - intros H. exists s. split; [exact H|apply String.eqb_refl].
Qed.

(* the checked property: no function whose name is in prims has parameter p among the
   parameters its results may be derived from *)
Definition never_from (fns : list fn_rec) (rf : list (N * list N)) (prims : list string) (p : N) : bool :=
  forallb (fun f => if str_mem (fn_name f) prims then negb (memN p (result_from rf (fn_id f))) else true) fns.

Theorem never_from_sound fns rf prims p :
  never_from fns rf prims p = true ->
  forall f, In f fns -> In (fn_name f) prims -> ~ In p (result_from rf (fn_id f)).
Proof.
  unfold never_from. intros H f Hf Hn Hp. rewrite forallb_forall in H. specialize (H f Hf).
  apply str_mem_In in Hn. rewrite Hn in H. apply memN_In in Hp. rewrite Hp in H. discriminate.
Qed.

(* not vacuous: every named function is in the graph and its results ARE derived from parameter q *)
Definition all_from (fns : list fn_rec) (rf : list (N * list N)) (prims : list string) (q : N) : bool :=
  forallb (fun n => existsb (fun f => String.eqb (fn_name f) n && memN q (result_from rf (fn_id f))) fns) prims.

(* ---- through which parameters a function may WRITE, and what it stores there (fp_store_from):
   (t, from) = the function may write memory reached through parameter t - a store through a
   pointer derived from t, a map update, an append or copy into a slice derived from t, a call
   that does -, and the values it stores there may be derived from the parameters in from (the
   relation of fp_result_from; scalars, copies and fresh memory are derived from nothing). *)
Definition store_facts := list (N * list (N * list N)).

Definition stores_of (sf : store_facts) (i : N) : list (N * list N) :=
  match find (fun e => N.eqb (fst e) i) sf with Some e => snd e | None => [] end.

Definition ends_with (suf s : string) : bool :=
  let n := String.length s in
  let m := String.length suf in
  if Nat.leb m n then String.eqb (substring (n - m) m s) suf else false.

(* the functions a statement speaks about are named by the end of their name: "Inspector).Loop" *)
Definition named (sufs : list string) (f : fn_rec) : bool := existsb (fun suf => ends_with suf (fn_name f)) sufs.

(* checked: no function named so writes through a parameter in ps *)
Definition never_through (fns : list fn_rec) (sf : store_facts) (sufs : list string) (ps : list N) : bool :=
  forallb (fun f => if named sufs f then forallb (fun e => negb (memN (fst e) ps)) (stores_of sf (fn_id f)) else true) fns.

Theorem never_through_sound fns sf sufs ps :
  never_through fns sf sufs ps = true ->
  forall f, In f fns -> named sufs f = true ->
  forall t from, In (t, from) (stores_of sf (fn_id f)) -> ~ In t ps.
Proof.
  unfold never_through. intros H f Hf Hn t from Hin Hp. rewrite forallb_forall in H. specialize (H f Hf).
  rewrite Hn in H. rewrite forallb_forall in H. specialize (H _ Hin). cbn in H.
  apply memN_In in Hp. rewrite Hp in H. discriminate.
Qed.

(* checked: whatever a function named so stores through parameter t is derived from parameters in allowed only *)
Definition stored_only_from (fns : list fn_rec) (sf : store_facts) (sufs : list string) (t : N) (allowed : list N) : bool :=
  forallb (fun f => if named sufs f
                    then forallb (fun e => if N.eqb (fst e) t then forallb (fun q => memN q allowed) (snd e) else true) (stores_of sf (fn_id f))
                    else true) fns.

Theorem stored_only_from_sound fns sf sufs t allowed :
  stored_only_from fns sf sufs t allowed = true ->
  forall f, In f fns -> named sufs f = true ->
  forall from, In (t, from) (stores_of sf (fn_id f)) -> forall q, In q from -> In q allowed.
Proof.
  unfold stored_only_from. intros H f Hf Hn from Hin q Hq. rewrite forallb_forall in H. specialize (H f Hf).
  rewrite Hn in H. rewrite forallb_forall in H. specialize (H _ Hin). cbn in H.
  rewrite N.eqb_refl in H. rewrite forallb_forall in H. apply memN_In. apply H. exact Hq.
Qed.

(* not vacuous: how many functions named so do store through t something derived from q *)
Definition count_storing (fns : list fn_rec) (sf : store_facts) (sufs : list string) (t q : N) : nat :=
  List.length (filter (fun f => named sufs f && existsb (fun e => N.eqb (fst e) t && memN q (snd e)) (stores_of sf (fn_id f))) fns).

Definition count_named (fns : list fn_rec) (sufs : list string) : nat := List.length (filter (named sufs) fns).

(* ---- the same two checks for a set of functions given by any selector (a package and the end of
   the name: the cpy / CopyTo / Copy of the GENERATED inspectors) *)
Definition contains (sub s : string) : bool := match index 0 sub s with Some _ => true | None => false end.

Definition in_package (pkg : string) (sufs : list string) (f : fn_rec) : bool := contains pkg (fn_name f) && named sufs f.

Definition stored_only_from_sel (fns : list fn_rec) (sf : store_facts) (sel : fn_rec -> bool) (t : N) (allowed : list N) : bool :=
  forallb (fun f => if sel f
                    then forallb (fun e => if N.eqb (fst e) t then forallb (fun q => memN q allowed) (snd e) else true) (stores_of sf (fn_id f))
                    else true) fns.

Theorem stored_only_from_sel_sound fns sf sel t allowed :
  stored_only_from_sel fns sf sel t allowed = true ->
  forall f, In f fns -> sel f = true ->
  forall from, In (t, from) (stores_of sf (fn_id f)) -> forall q, In q from -> In q allowed.
Proof.
  unfold stored_only_from_sel. intros H f Hf Hn from Hin q Hq. rewrite forallb_forall in H. specialize (H f Hf).
  rewrite Hn in H. rewrite forallb_forall in H. specialize (H _ Hin). cbn in H.
  rewrite N.eqb_refl in H. rewrite forallb_forall in H. apply memN_In. apply H. exact Hq.
Qed.

Definition never_from_sel (fns : list fn_rec) (rf : list (N * list N)) (sel : fn_rec -> bool) (p : N) : bool :=
  forallb (fun f => if sel f then negb (memN p (result_from rf (fn_id f))) else true) fns.

Theorem never_from_sel_sound fns rf sel p :
  never_from_sel fns rf sel p = true ->
  forall f, In f fns -> sel f = true -> ~ In p (result_from rf (fn_id f)).
Proof.
  unfold never_from_sel. intros H f Hf Hn Hp. rewrite forallb_forall in H. specialize (H f Hf).
  rewrite Hn in H. apply memN_In in Hp. rewrite Hp in H. discriminate.
Qed.

(* not vacuous: how many selected functions there are, and how many of them do store through t something derived from q *)
Definition count_sel (fns : list fn_rec) (sel : fn_rec -> bool) : nat := List.length (filter sel fns).
Definition count_storing_sel (fns : list fn_rec) (sf : store_facts) (sel : fn_rec -> bool) (t q : N) : nat :=
  List.length (filter (fun f => sel f && existsb (fun e => N.eqb (fst e) t && memN q (snd e)) (stores_of sf (fn_id f))) fns).

(* ---- into which parameters' byte arrays a function may write text IN PLACE (fp_text_into):
   p is listed when the function may write bytes into an existing byte array derived from parameter
   p - an append to a []byte derived from p (into its spare capacity), a copy into it, a store to
   an element of it, a call that does.  Text is assigned by reference (Set hands the bytes of its
   source to the destination), so the bytes a value holds may be another value's: an operation
   that rewrites them where they lie writes that other value. *)
Definition text_into (ti : list (N * list N)) (i : N) : list N := result_from ti i.

(* checked: every selected function writes text in place into the byte arrays of the allowed parameters only *)
Definition only_into (fns : list fn_rec) (ti : list (N * list N)) (sel : fn_rec -> bool) (allowed : list N) : bool :=
  forallb (fun f => if sel f then forallb (fun q => memN q allowed) (text_into ti (fn_id f)) else true) fns.

Theorem only_into_sound fns ti sel allowed :
  only_into fns ti sel allowed = true ->
  forall f, In f fns -> sel f = true -> forall q, In q (text_into ti (fn_id f)) -> In q allowed.
Proof.
  unfold only_into. intros H f Hf Hs q Hq. rewrite forallb_forall in H. specialize (H f Hf).
  rewrite Hs in H. rewrite forallb_forall in H. apply memN_In. apply H. exact Hq.
Qed.

(* not vacuous: how many selected functions do write text in place into parameter q *)
Definition count_into (fns : list fn_rec) (ti : list (N * list N)) (sel : fn_rec -> bool) (q : N) : nat :=
  List.length (filter (fun f => sel f && memN q (text_into ti (fn_id f))) fns).
