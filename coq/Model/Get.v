(* Model/Get.v - what the code emitted by writeNode(..., modeGet) and the GetTo/Get
   header of writeRootNode (/repo/compiler.go) computes: the bodies of GetTo and Get,
   statement by statement.

   The value stored into *buf is modelled as a reference to a PLACE: the value the
   place holds, the access path of the place from the root object, and whether the
   place is a local copy (x1 := m[k], x1 := s[i] for builtin / pointer elements,
   x = &v for an argument passed by value) or the live storage of the object
   (&x.F, &x0.F, &s[i]).  Pointer levels are not modelled: `*buf = &x1` with
   x1 := &s[i] and `*buf = x1` are both "a reference to the place s[i]".

   [legacy = true] is the emitter as pinned: the assignment `*buf = [&]vsrc|v` of
   a struct / map / slice node was emitted AFTER the nested `if len(path) > depth`
   block and ran whenever that block did not return, overwriting the result with the
   enclosing container.  [legacy = false] is the emitter after the fix: commit
   (the assignment is the else branch of the length check).  The theorems are about
   [legacy = false]; [legacy = true] is kept to show what the defect was. *)
From Coq Require Import List Bool String Ascii ZArith Arith Lia.
From Verif Require Import Util Ints Strconv Floats Node Value Outcome.
Import ListNotations.
Local Open Scope string_scope.
Local Open Scope list_scope.

(* ---------- places and references ---------- *)
Inductive step := SField (i : nat) | SIdx (i : nat) | SKey (k : val) | SDeref.
Definition loc := list step.

Record ref := Ref { r_val : val; r_loc : loc; r_copy : bool }.

(* the Go variable `v` of writeNode at run time: a place of the node's type (pointer
   flag included), or the nil root pointer x of a typed-nil argument *)
Inductive gslot := GS (sv : val) (l : loc) (cp : bool) | GNilRoot.

(* the object `v` designates once the node's own pointer is followed *)
Inductive gobj := OVal (x : val) (l : loc) (cp : bool) | ONil.

Definition obj_of (p : bool) (s : gslot) : gobj :=
  match s with
  | GNilRoot => ONil
  | GS sv l cp =>
    if p then match sv with VPtr (Some y) => OVal y (l ++ [SDeref]) false | _ => ONil end
    else OVal sv l cp
  end.

Definition ref_of (s : gslot) : ref :=
  match s with GS sv l cp => Ref sv l cp | GNilRoot => Ref (VPtr None) [] false end.

(* what a reference finally denotes after following pointers: the value, where it
   lives, and whether that is a copy; None = a nil pointer *)
Fixpoint follow (v : val) (l : loc) (cp : bool) {struct v} : option (val * loc * bool) :=
  match v with
  | VPtr None => None
  | VPtr (Some y) => follow y (l ++ [SDeref]) false
  | _ => Some (v, l, cp)
  end.
Definition final (r : ref) : option (val * loc * bool) := follow (r_val r) (r_loc r) (r_copy r).

(* ---------- struct fields ---------- *)
(* isBasic of the struct case: handled by the parent with `*buf = &v.F; return` *)
Definition is_basic_child (ch : node) : bool :=
  match n_typ ch with
  | typeBasic => true
  | typeSlice => String.eqb (n_typn ch) "[]byte"
  | _ => false
  end.

(* evaluating v.F: None = nil dereference *)
Definition field_slot (o : gobj) (idx : nat) : option gslot :=
  match o with
  | OVal (VStruct fs) l cp =>
    match nth_error fs idx with Some fv => Some (GS fv (l ++ [SField idx]) cp) | None => None end
  | _ => None
  end.

Definition finish (o : out (option ref)) : out (option ref) :=
  match o with Fall b => Ret b None | r => r end.

(* the chain of `if path[depth] == "<name>" { ... return }`; [rec] compiles a non-basic child *)
Definition gwalk (rec : node -> gslot -> out (option ref)) (o : gobj) (oseg : option string) (buf : option ref)
  : list node -> nat -> out (option ref) :=
  fix walk (chs : list node) (idx : nat) {struct chs} : out (option ref) :=
    match chs with
    | [] => Fall buf
    | ch :: rest =>
      match oseg with
      | None => Panic PIndex
      | Some seg =>
        if String.eqb seg (n_name ch) then
          match field_slot o idx with
          | None => Panic PNilDeref
          | Some s =>
            if is_basic_child ch then Ret (Some (ref_of s)) None     (* *buf = &v.F; return *)
            else finish (rec ch s)                                   (* xD := [&]v.F; <child>; return *)
          end
        else walk rest (S idx)
      end
    end.

Section Get.
Variable legacy : bool.

(* [get_node n o self depth path buf]: n the node being compiled, o the object its variable
   `v` designates, self the reference `*buf = [&]vsrc|v` / `*buf = &v` stores, buf the
   current content of *buf. *)
Fixpoint get_node (n : node) (o : gobj) (self : ref) (depth : nat) (path : list string) (buf : option ref)
  {struct n} : out (option ref) :=
  match n with
  | Node ty tn tu nm pk pki p chld mk mv sl hb hc =>
    (* if v == nil { return } *)
    let nilchk (k : out (option ref)) : out (option ref) :=
      if p then match o with ONil => Ret buf None | OVal _ _ _ => k end else k in
    let enter (ch : node) (s : gslot) : out (option ref) :=
      get_node ch (obj_of (n_ptr ch) s) (ref_of s) (S depth) path buf in
    match ty with
    | typeBasic => nilchk (Ret (Some self) None)                    (* *buf = &v; return *)
    | _ =>
      let inner : out (option ref) :=
        nilchk
          match ty with
          | typeStruct => gwalk enter o (nth_error path depth) buf chld 0
          | typeMap =>
            match mk, mv with
            | Some kn, Some vn =>
              match nth_error path depth with
              | None => Panic PIndex
              | Some seg =>
                (* xD := m[k] is a local copy of the entry *)
                let cont (k xv : val) (l : loc) := enter vn (GS xv (l ++ [SKey k]) true) in
                if is_string_key kn then
                  match o with
                  | ONil => Panic PNilDeref
                  | OVal (VMap _ kvs) l _ =>
                    match lookup kn kvs (VStr seg) with
                    | Some xv => cont (VStr seg) xv l
                    | None => Fall buf
                    end
                  | OVal _ _ _ => Panic PTypeAssert
                  end
                else
                  match conv_key kn seg with
                  | None => Ret buf (Some EParse)
                  | Some k =>
                    match o with
                    | ONil => Panic PNilDeref
                    | OVal (VMap _ kvs) l _ =>
                      cont k (match lookup kn kvs k with Some x => x | None => zero_val vn end) l
                    | OVal _ _ _ => Panic PTypeAssert
                    end
                  end
              end
            | _, _ => Fall buf
            end
          | typeSlice =>
            if String.eqb tn "[]byte" then Ret (Some self) None      (* *buf = &v; return *)
            else
              match sl with
              | None => Fall buf
              | Some en =>
                match nth_error path depth with
                | None => Panic PIndex
                | Some seg =>
                  match conv_index seg with
                  | None => Ret buf (Some EParse)
                  | Some i =>
                    match o with
                    | ONil => Panic PNilDeref
                    | OVal (VSlice _ es _) l _ =>
                      if ((0 <=? i) && (i <? Z.of_nat (List.length es)))%Z then
                        match nth_error es (Z.to_nat i) with
                        | None => Panic PIndex
                        | Some ev =>
                          (* xD := s[i] for pointer / builtin elements, xD := &s[i] otherwise *)
                          enter en (GS ev (l ++ [SIdx (Z.to_nat i)]) (n_ptr en || is_builtin (n_typn en)))
                        end
                      else Fall buf
                    | OVal _ _ _ => Panic PTypeAssert
                    end
                  end
                end
              end
          | typeBasic => Fall buf
          end in
      (* `v != "x"`: only the root call has v = x *)
      let trailing (b : option ref) : option ref := if Nat.eqb depth 0 then b else Some self in
      if legacy then
        bind (if Nat.ltb depth (List.length path) then inner else Fall buf) (fun b => Fall (trailing b))
      else
        if Nat.ltb depth (List.length path) then inner else Fall (trailing buf)
    end
  end.

(* ---------- GetTo / Get ---------- *)
(* x after the type switch of the header; an argument passed by value is copied (x = &v).
   A nil pointer argument (typed-nil *T, **T to a nil *T, nil **T) leaves x nil and the header
   returns (`if x == nil { return }`, fix: commit 1a38871): [GNilRoot] is not produced any more. *)
Definition root_slot (a : arg) : option gslot + pkind :=
  match a with
  | AVal v => inl (Some (GS v [] true))
  | APtr (Some v) => inl (Some (GS v [] false))
  | APtrPtr (Some (Some v)) => inl (Some (GS v [] false))
  | APtr None | APtrPtr (Some None) | APtrPtr None => inl None
  | ANil | AForeign => inl None
  end.

Definition get_to (n : node) (a : arg) (path : list string) (buf : option ref) : out (option ref) :=
  match root_slot a with
  | inr k => Panic k
  | inl None => Ret buf None
  | inl (Some s) =>
    match path with
    | [] => Ret (Some (ref_of s)) None                        (* *buf = &( *x); return *)
    | _ => finish (get_node n (obj_of (n_ptr n) s) (ref_of s) 0 path buf)
    end
  end.

(* Get: var buf any; err := GetTo(src, &buf, path...); return buf, err *)
Definition get (n : node) (a : arg) (path : list string) : out (option ref) := get_to n a path None.

End Get.

(* ---------- observation ---------- *)
Inductive gobs := BNone | BNil | BVal (x : val) (live : bool).

Definition obs_of_buf (b : option ref) : gobs :=
  match b with
  | None => BNone
  | Some r => match final r with None => BNil | Some (x, _, cp) => BVal x (negb cp) end
  end.
