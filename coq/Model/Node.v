(* Model/Node.v - the declared-type grammar G, the generator's internal type
   tree (`node`, /repo/node.go), the two parsers (/repo/parser_ast.go for the
   directory/file targets, /repo/parser_loader.go for the package target) as
   functions from declared types to nodes, and the XML dump (node.write). *)
From Coq Require Import List Bool String Ascii ZArith Lia.
From Verif Require Import Util Ints.
Import ListNotations.
Local Open Scope string_scope.

(* ---------- declared types ---------- *)
Inductive skind := SBool | SInt (k : ikind) | SByte | SF32 | SF64 | SString.

Definition skind_name (k : skind) : string :=
  match k with
  | SBool => "bool" | SInt i => ikind_name i | SByte => "byte"
  | SF32 => "float32" | SF64 => "float64" | SString => "string"
  end.

(* Named references carry their definition inline: G has no recursive types
   (parseAstExpr would not terminate on one). [TStruct] occurs only directly
   under [TNamed]; []byte is [TSlice (TScalar SByte)]. *)
Inductive ty :=
| TScalar (k : skind)
| TPtr (t : ty)
| TSlice (e : ty)
| TMap (k v : ty)
| TStruct (fs : list (string * ty))
| TNamed (n : string) (body : ty).

(* ---------- node ---------- *)
Inductive typ := typeStruct | typeMap | typeSlice | typeBasic.

Inductive node := Node {
  n_typ : typ; n_typn : string; n_typu : string; n_name : string;
  n_pkg : string; n_pkgi : string; n_ptr : bool;
  n_chld : list node; n_mapk : option node; n_mapv : option node; n_slct : option node;
  n_hasb : bool; n_hasc : bool }.

Section NodeInd.
  Variable P : node -> Prop.
  Hypothesis H : forall ty tn tu nm pk pki p chld mk mv sl hb hc,
    Forall P chld ->
    (forall k, mk = Some k -> P k) -> (forall k, mv = Some k -> P k) ->
    (forall k, sl = Some k -> P k) ->
    P (Node ty tn tu nm pk pki p chld mk mv sl hb hc).
  Fixpoint node_ind' (n : node) : P n :=
    match n with
    | Node ty tn tu nm pk pki p chld mk mv sl hb hc =>
      let opt (o : option node) : forall k, o = Some k -> P k :=
        fun k => match o as o' return o' = Some k -> P k with
                 | Some k' => fun e =>
                     match e in _ = s return match s with Some z => P z | None => True end
                     with eq_refl => node_ind' k' end
                 | None => fun e => match e with end
                 end in
      H ty tn tu nm pk pki p chld mk mv sl hb hc
        ((fix go (l : list node) : Forall P l :=
            match l with [] => Forall_nil _
                       | x :: r => Forall_cons _ (node_ind' x) (go r) end) chld)
        (opt mk) (opt mv) (opt sl)
    end.
End NodeInd.

Definition set_name (n : node) (s : string) : node :=
  match n with Node a b c _ e f g h i j k l m => Node a b c s e f g h i j k l m end.
Definition set_typn (n : node) (s : string) : node :=
  match n with Node a _ c d e f g h i j k l m => Node a s c d e f g h i j k l m end.
Definition set_ptr (n : node) (p : bool) : node :=
  match n with Node a b c d e f _ h i j k l m => Node a b c d e f p h i j k l m end.
Definition set_pkg (n : node) (pk pki : string) : node :=
  match n with Node a b c d _ _ g h i j k l m => Node a b c d pk pki g h i j k l m end.

Definition opt_hasb (o : option node) : bool := match o with Some n => n_hasb n | None => false end.
Definition star (p : bool) : string := if p then "*" else "".

(* composeAstTypeName *)
Definition compose_name (n : node) : string :=
  match n_typ n with
  | typeMap =>
    match n_mapk n, n_mapv n with
    | Some k, Some v => "map[" ++ star (n_ptr k) ++ n_typn k ++ "]" ++ star (n_ptr v) ++ n_typn v
    | _, _ => ""
    end
  | typeSlice =>
    match n_slct n with Some e => "[]" ++ star (n_ptr e) ++ n_typn e | None => "" end
  | _ => ""
  end.

Section Parsers.
Variable pkgname : string.   (* package name, e.g. "testobj" *)
Variable pkgpath : string.   (* import path, e.g. "github.com/koykov/inspector/testobj" *)

(* ---------- parser_ast.go: parseAstExpr ----------
   [pa id top t]: [id] = the identifier passed along (Some name for a type spec
   or a struct field), [top] = (depth == 0). *)
Fixpoint pa (id : option string) (top : bool) (t : ty) {struct t} : node :=
  let nm := match id with Some s => s | None => "" end in
  let tn0 := if top then nm else "" in
  let pk0 := if top then pkgname else "" in
  let pki0 := if top then pkgpath else "" in
  match t with
  | TScalar k =>
    Node typeBasic (skind_name k) (skind_name k) nm pk0 pki0 false [] None None None
         (match k with SString => true | _ => false end) (match k with SString => true | _ => false end)
  | TPtr t' => set_ptr (pa None false t') true
  | TSlice e' =>
    let e := pa None false e' in
    let n0 := Node typeSlice tn0 "" nm pk0 pki0 false [] None None (Some e) false true in
    let tn := if top then tn0 else compose_name n0 in
    Node typeSlice tn "" nm pk0 pki0 false [] None None (Some e) (String.eqb tn "[]byte" || n_hasb e) true
  | TMap k' v' =>
    let k := pa None false k' in
    let v := pa None false v' in
    let n0 := Node typeMap tn0 "" nm pk0 pki0 false [] (Some k) (Some v) None false true in
    let tn := if top then tn0 else compose_name n0 in
    Node typeMap tn "" nm pk0 pki0 false [] (Some k) (Some v) None (n_hasb k || n_hasb v) true
  | TStruct fs =>
    let chld := (fix go (l : list (string * ty)) : list node :=
                   match l with
                   | [] => []
                   | (fnm, ft) :: r =>
                     let ch := pa (Some fnm) false ft in
                     let ch := set_name ch fnm in
                     let ch := if String.eqb (n_typn ch) "" then set_typn ch (compose_name ch) else ch in
                     ch :: go r
                   end) fs in
    Node typeStruct nm "" nm pkgname pkgpath false chld None None None
         (existsb n_hasb chld) (existsb n_hasc chld)
  | TNamed n body =>
    (* *ast.Ident with Obj.Decl a TypeSpec of the same file: parse the definition
       with the spec's name, then node.name = "", typn = name, pkg, pkgi *)
    let d := pa (Some n) false body in
    set_pkg (set_typn (set_name d "") n) pkgname pkgpath
  end.

(* a top-level type spec `type n body` *)
Definition parse_ast_decl (n : string) (body : ty) : node := pa (Some n) true body.

(* ---------- parser_loader.go: parsePkgType ----------
   go/types prints the type; the package qualifier is removed once only. *)
Fixpoint type_string (t : ty) : string :=
  match t with
  | TScalar k => skind_name k
  | TPtr t' => "*" ++ type_string t'
  | TSlice e => "[]" ++ type_string e
  | TMap k v => "map[" ++ type_string k ++ "]" ++ type_string v
  | TStruct _ => "struct{...}"
  | TNamed n _ => pkgpath ++ "." ++ n
  end.

(* strings.Replace(s, old, "", 1) *)
Fixpoint remove_first (fuel : nat) (old s : string) : string :=
  match fuel with
  | O => s
  | S f =>
    if String.prefix old s then String.substring (String.length old) (String.length s - String.length old) s
    else match s with
         | EmptyString => EmptyString
         | String c r => String c (remove_first f old r)
         end
  end.
Definition strip_pkg (s : string) : string :=
  if String.eqb pkgpath "" then s else remove_first (S (String.length s)) (pkgpath ++ ".") s.

Fixpoint underlying (t : ty) : ty := match t with TNamed _ b => underlying b | _ => t end.

Fixpoint plg (und : bool) (t : ty) {struct t} : node :=
  let pl := plg false in let plu := plg true in
  let tn := strip_pkg (type_string t) in
  match t with
  | TScalar k =>
    Node typeBasic tn (skind_name k) "" "" "" false [] None None None
         (match k with SString => true | _ => false end) (match k with SString => true | _ => false end)
  | TPtr e' =>
    (* parse the UNDERLYING type of the element, mark it pointer; a named element gives its name *)
    let un := set_ptr (plu e') true in
    match e' with
    | TNamed n _ => set_pkg (set_typn un n) pkgname pkgpath
    | _ => un
    end
  | TSlice e' =>
    let e := pl e' in
    Node typeSlice tn "" "" "" "" false [] None None (Some e) (String.eqb tn "[]byte" || n_hasb e) true
  | TMap k' v' =>
    let k := pl k' in let v := pl v' in
    Node typeMap tn "" "" "" "" false [] (Some k) (Some v) None (n_hasb k || n_hasb v) true
  | TStruct fs =>
    let chld := (fix go (l : list (string * ty)) : list node :=
                   match l with
                   | [] => []
                   | (fnm, ft) :: r =>
                     let ch := set_name (pl ft) fnm in
                     let ch := if n_ptr ch
                               then set_typn ch (remove_first (S (String.length (type_string ft))) "*" (strip_pkg (type_string ft)))
                               else ch in
                     ch :: go r
                   end) fs in
    Node typeStruct tn "" "" "" "" false chld None None None (existsb n_hasb chld) (existsb n_hasc chld)
  | TNamed n body =>
    (* [und]: parsePkgType applied to t.Underlying() - skip the name.
       Otherwise the same walk over the underlying type, but node.typn = n from the start,
       so a named []byte does not get hasb from its name *)
    if und then plu body else
    let d := plu body in
    let d := match d with
             | Node typeSlice a b c e f g h i j (Some el) _ m => Node typeSlice a b c e f g h i j (Some el) (n_hasb el) m
             | _ => d
             end in
    set_pkg (set_typn d n) pkgname pkgpath
  end.
Definition pl := plg false.

Definition parse_loader_decl (n : string) (body : ty) : node :=
  let d := pl (TNamed n body) in
  let d := match n_typ d with typeStruct => set_typn d n | _ => d end in
  set_name (set_pkg d pkgname (n_pkgi d)) n.

End Parsers.

(* ---------- eligibility (parseAstFile / parsePkg) ---------- *)
Definition starts_with (p s : string) : bool := String.prefix p s.
(* reMap = `map\[[^]]+].*` and reSlc = `\[].*` are unanchored: they match anywhere in the name *)
Fixpoint contains (fuel : nat) (p s : string) : bool :=
  match fuel with
  | O => false
  | S f => String.prefix p s || match s with EmptyString => false | String _ r => contains f p r end
  end.
Definition looks_unnamed (tn : string) : bool :=
  contains (S (String.length tn)) "map[" tn || contains (S (String.length tn)) "[]" tn.
Definition eligible (n : node) : bool :=
  match n_typ n with typeBasic => false | _ => negb (looks_unnamed (n_typn n)) end.

(* ---------- node.write ---------- *)
Definition typ_string (t : typ) : string :=
  match t with typeBasic => "basic" | typeStruct => "struct" | typeMap => "map" | typeSlice => "slice" end.

Definition nl : string := String (ascii_of_nat 10) "".
Definition tabc : string := String (ascii_of_nat 9) "".
Fixpoint pad (n : nat) : string := match n with O => "" | S k => tabc ++ pad k end.

Definition attr (k v : string) : string := if String.eqb v "" then "" else " " ++ k ++ "=""" ++ v ++ """".
Definition flag (k : string) (b : bool) : string := if b then " " ++ k ++ "=""true""" else "".

Fixpoint xml_ (tag : string) (n : node) (depth : nat) {struct n} : string :=
  match n with
  | Node ty tn tu nm pk pki p chld mk mv sl hb hc =>
    let open := pad depth ++ "<" ++ tag ++ " type=""" ++ typ_string ty ++ """" ++
                attr "name" nm ++ attr "typeName" tn ++ attr "underlyingName" tu ++
                attr "package" pk ++ attr "packageImport" pki ++
                flag "pointer" p ++ flag "hasBytes" hb ++ flag "hasLC" hc in
    let hasNL := match mk, mv, sl, chld with None, None, None, [] => false | _, _, _, _ => true end in
    if hasNL then
      open ++ ">" ++ nl ++
      match mk with Some k => xml_ "mapKey" k (S depth) | None => "" end ++
      match mv with Some v => xml_ "mapValue" v (S depth) | None => "" end ++
      match sl with Some e => xml_ "slice" e (S depth) | None => "" end ++
      match chld with
      | [] => ""
      | _ => pad (S depth) ++ "<nodes>" ++ nl ++
             (fix go (l : list node) : string :=
                match l with [] => "" | c :: r => xml_ "node" c (S (S depth)) ++ go r end) chld ++
             pad (S depth) ++ "</nodes>" ++ nl
      end ++
      pad depth ++ "</" ++ tag ++ ">" ++ nl
    else open ++ "/>" ++ nl
  end.

Definition xml (n : node) : string :=
  "<?xml version=""1.0"" encoding=""UTF-8""?>" ++ nl ++ xml_ "node" n 0.
