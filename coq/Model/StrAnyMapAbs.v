(* Model/StrAnyMapAbs.v - the abstraction from the concrete values of
   Model/StrAnyMap.v to the abstract trees of Spec/StrAnyMapSpec.v, the
   structural induction principle for [any], and the operation histories.
   Definitions only (plus the induction principle). *)
From Coq Require Import ZArith NArith List String Ascii Bool.
From Verif Require Import Util Ints StrAnyMap StrAnyMapSpec.
Import ListNotations.
Local Open Scope string_scope.

(* ---------- induction over the nested [list (string * any)] ---------- *)
Section AnyInd.
  Variable P : any -> Prop.
  Hypothesis Hnil : P ANil.
  Hypothesis Hbool : forall b, P (ABool b).
  Hypothesis Hint : forall k z, P (AInt k z).
  Hypothesis Hstr : forall o s, P (AStr o s).
  Hypothesis Hbytes : forall o d e, P (ABytes o d e).
  Hypothesis Hmap : forall o f es, Forall (fun kv => P (snd kv)) es -> P (AMap o f es).
  Hypothesis Hnilmap : forall nf, P (ANilMap nf).
  Fixpoint any_ind' (x : any) : P x :=
    match x with
    | ANil => Hnil
    | ABool b => Hbool b
    | AInt k z => Hint k z
    | AStr o s => Hstr o s
    | ABytes o d e => Hbytes o d e
    | AMap o f es =>
      Hmap o f es
        ((fix go (l : entries) : Forall (fun kv => P (snd kv)) l :=
            match l with
            | [] => Forall_nil _
            | kv :: r => Forall_cons kv (any_ind' (snd kv)) (go r)
            end) es)
    | ANilMap nf => Hnilmap nf
    end.
End AnyInd.

(* ---------- abstraction ---------- *)
Definition hold_of (f : form) : hold := match f with FVal => HVal | FPtr => HPtr | FPtr2 => HPtr2 end.

(* a nil map, and (in the fixed code) a nil pointer to a map, is a map without entries *)
Fixpoint abs (x : any) : tree :=
  match x with
  | ANil => TLeaf LNil
  | ABool b => TLeaf (LBool b)
  | AInt k z => TLeaf (LInt k z)
  | AStr _ s => TLeaf (LStr s)
  | ABytes _ d e => TLeaf (LBytes d e)
  | AMap _ f es => TMap (hold_of f) ((fix go (l : entries) : tentries :=
                                       match l with [] => [] | (k, v) :: r => (k, abs v) :: go r end) es)
  | ANilMap nf => TMap (hold_of (form_of_nil nf)) []
  end.
Definition abs_es (es : entries) : tentries := map (fun kv => (fst kv, abs (snd kv))) es.

Definition cop_num (c : cop) : Z :=
  match c with
  | OpUnk => 0 | OpEq => 1 | OpNq => 2 | OpGt => 3 | OpGtq => 4 | OpLt => 5 | OpLtq => 6 | OpInc => 7 | OpDec => 8
  end%Z.

(* Loop with Break after the iteration whose answer is Break *)
Fixpoint tvisit (es : tentries) (ctl : list lctl) : tentries :=
  match es with
  | [] => []
  | e :: r =>
    match ctl with
    | CtlBrk :: _ => [e]
    | _ :: ctl' => e :: tvisit r ctl'
    | [] => e :: tvisit r []
    end
  end.

(* ---------- histories ---------- *)
Inductive op :=
| OSet (p : list string) (v : any)
| OGet (p : list string)
| OLen (p : list string)
| OCap (p : list string)
| OCmp (p : list string) (c : cop) (right : string)
| OLoop (p : list string) (ctl : list lctl)
| OCopy                                         (* go on with the copy *)
| OReset.

(* the state after one operation of the real inspector (errors leave it as the code leaves it) *)
Definition step (fx : bool) (x : any) (o : op) : any :=
  match o with
  | OSet p v => fst (set fx p x v)
  | OCopy => fst (copy fx x)
  | OReset => fst (reset fx x)
  | _ => x
  end.

(* the same operation on the abstract tree, from the specification *)
Definition tstep (t : tree) (o : op) : tree :=
  match o with
  | OSet [] _ => t
  | OSet p v => match tset t p (stored (abs v)) with SetOk t' => t' | SetNonMap => t end
  | OCopy => strip (TMap HVal (root_entries t))
  | OReset => treset t
  | _ => t
  end.

Definition op_ok (o : op) : bool := match o with OSet _ v => settable v | _ => true end.
