(* Model/Cmp.v - what the code emitted by writeNode(..., modeCmp) and writeCmp
   (/repo/compiler.go) computes: the body of Compare, statement by statement.

   This is the model of the emitter AFTER four fix: commits (findings/C04.txt):
     - pointer-typed leaves used to get the "nil" operand test only (no comparison at all);
     - the nil guard of pointer elements of maps / slices preceded the "nil" test;
     - the "nil" test of a pointer field ignored the length of the path;
     - pointer-to-struct / collection elements of maps and slices got no "nil" test.

   Emission order for a node (cmp mode), [v] the Go variable, [depth] its depth:
     [A] node.ptr and not basic:   if len(path) == depth { <"nil" test of writeCmp> }
     [B] not basic:                if len(path) > depth {
     [C] node.ptr and not basic:     if v == nil { return }
         struct:  per child  if path[depth] == name { leaf: writeCmp; return | x := [&]v.F; <child> }
         map:     string key: if x, ok := m[path[depth]]; ok { <value> }     (comma-ok)
                  other key:  snippet (returns its error); x := m[k]; <value> (plain lookup: zero value)
         slice:   []byte: writeCmp; return
                  other:  index snippet (returns its error); if i >= 0 && len(s) > i { x := [&]s[i]; <element> }
         basic:   writeCmp; return                                            (not under [B])
     writeCmp(left, leftVar):
         left.ptr:  if right == "nil" { *result = leftVar ==/!= nil (anything but OpEq is "!="); return }
                    containers: nothing more;  leaves: if leftVar == nil { return }, then as below on *leftVar
         conversion snippet of the kind (returns its error), then
         []byte, bool:  if cond == OpEq { == } else { != }
         others:        switch cond { six cases, no default }   (OpUnk/OpInc/OpDec leave *result alone)
   The conversion snippet is looked up by typn, then typu, and the two-way branch is chosen by
   typn; for the nodes both parsers produce, a builtin typn equals typu (and a named bool, whose
   six-way switch would not compile, is outside the supported fragment), so the model reads the
   kind from typu and []byte from typ + typn. *)
From Coq Require Import List Bool String Ascii ZArith Arith Lia Floats.SpecFloat.
From Verif Require Import Util Ints Strconv Floats Node Value Outcome.
Import ListNotations.
Local Open Scope string_scope.

(* inspector.Op *)
Inductive cop := OUnk | OEq | ONq | OGt | OGtq | OLt | OLtq | OInc | ODec.

Definition cop_num (o : cop) : Z :=
  match o with OUnk => 0 | OEq => 1 | ONq => 2 | OGt => 3 | OGtq => 4 | OLt => 5 | OLtq => 6 | OInc => 7 | ODec => 8 end.

(* ---------- leaves ---------- *)
Inductive lkind := LScalar (k : skind) | LBytes.

(* the []byte node: typeSlice with typn "[]byte" *)
Definition bytes_node (n : node) : bool :=
  match n_typ n with typeSlice => String.eqb (n_typn n) "[]byte" | _ => false end.

(* c.isBasic of a struct child / the node kinds that end in writeCmp *)
Definition is_leaf (n : node) : bool :=
  match n_typ n with typeBasic => true | _ => bytes_node n end.

(* which snippet StrConvSnippet("right", typn, typu) finds *)
Definition leaf_kind (n : node) : option lkind :=
  if bytes_node n then Some LBytes
  else match node_skind n with Some k => Some (LScalar k) | None => None end.

Definition first_byte (s : string) : Z :=
  match s with EmptyString => 0%Z | String c _ => Z.of_N (N_of_ascii c) end.

(* the StrConvSnippet for `right`: None = the snippet returns its error *)
Definition conv_operand (k : lkind) (right : string) : option val :=
  match k with
  | LBytes => Some (VBytes false (bytes_of_string right) 0)
  | LScalar (SInt i) =>
    if is_signed i then option_map VInt (snippet_int i right) else option_map VInt (snippet_uint i right)
  | LScalar SByte => Some (VInt (first_byte right))
  | LScalar SF64 => option_map VFloat (parse_float right)
  | LScalar SF32 => option_map (fun f => VFloat (to_f64 (to_f32 f))) (parse_float right)
  | LScalar SString => Some (VStr right)
  | LScalar SBool => option_map VBool (parse_bool right)
  end.

(* Go's ==, <, <= on the values of one leaf kind (bytes.Equal for []byte) *)
Definition bytes_eqb (a b : list ascii) : bool := String.eqb (string_of_bytes a) (string_of_bytes b).

Definition v_eqb (a b : val) : bool :=
  match a, b with
  | VBool x, VBool y => Bool.eqb x y
  | VInt x, VInt y => Z.eqb x y
  | VFloat x, VFloat y => f64_eqb x y
  | VStr x, VStr y => String.eqb x y
  | VBytes _ x _, VBytes _ y _ => bytes_eqb x y
  | _, _ => false
  end.
Definition v_ltb (a b : val) : bool :=
  match a, b with
  | VInt x, VInt y => Z.ltb x y
  | VFloat x, VFloat y => f64_ltb x y
  | VStr x, VStr y => String.ltb x y
  | _, _ => false
  end.
Definition v_leb (a b : val) : bool :=
  match a, b with
  | VInt x, VInt y => Z.leb x y
  | VFloat x, VFloat y => f64_leb x y
  | VStr x, VStr y => String.leb x y
  | _, _ => false
  end.

(* switch cond { ... } without default *)
Definition switch6 (op : cop) (a b : val) (res : bool) : bool :=
  match op with
  | OEq => v_eqb a b
  | ONq => negb (v_eqb a b)
  | OGt => v_ltb b a
  | OGtq => v_leb b a
  | OLt => v_ltb a b
  | OLtq => v_leb a b
  | OUnk | OInc | ODec => res
  end.

(* if cond == OpEq { == } else { != } *)
Definition branch2 (op : cop) (a b : val) : bool :=
  match op with OEq => v_eqb a b | _ => negb (v_eqb a b) end.

(* the conversion + comparison part of writeCmp on the (dereferenced) value x *)
Definition cmp_leaf (left : node) (x : val) (op : cop) (right : string) (res : bool) : out bool :=
  match leaf_kind left with
  | None => Fall res
  | Some k =>
    match conv_operand k right with
    | None => Ret res (Some EParse)
    | Some r =>
      match k with
      | LBytes | LScalar SBool => Fall (branch2 op x r)       (* switch left.typn { case "[]byte": ... case "bool": ... *)
      | _ => Fall (switch6 op x r res)
      end
    end
  end.

Definition cur_is_nil (c : cur) : bool := match c with CNil => true | _ => false end.

(* writeCmp(left, leftVar) with c the cursor of leftVar *)
Definition wcmp (left : node) (c : cur) (op : cop) (right : string) (res : bool) : out bool :=
  if n_ptr left then
    if String.eqb right "nil" then
      match c with
      | CPoison => Panic PNilDeref
      | _ => Ret (match op with OEq => cur_is_nil c | _ => negb (cur_is_nil c) end) None
      end
    else if is_leaf left then
      match c with
      | CPoison => Panic PNilDeref
      | CNil => Ret res None
      | CVal x => cmp_leaf left x op right res
      end
    else Fall res
  else
    match c with
    | CVal x => cmp_leaf left x op right res
    | _ => Panic PNilDeref
    end.

Definition ret_fall (o : out bool) : out bool := bind o (fun r => Ret r None).

(* `*v` / `len(v)` / `v[k]` on a cursor *)
Definition ceval (c : cur) : val + pkind :=
  match c with CVal v => inl v | _ => inr PNilDeref end.

(* ---------- the field dispatch of a struct node; [rec] compiles a non-leaf child at depth+1 ---------- *)
Definition cwalk (rec : node -> cur -> bool -> out bool) (c : cur) (seg : string)
                 (op : cop) (right : string) : list node -> nat -> bool -> out bool :=
  fix walk (chs : list node) (idx : nat) (res : bool) {struct chs} : out bool :=
    match chs with
    | [] => Fall res
    | ch :: rest =>
      if String.eqb seg (n_name ch) then
        match cur_field c ch idx with
        | CPoison => Panic PNilDeref                    (* v.F with v nil *)
        | cc =>
          if is_leaf ch then ret_fall (wcmp ch cc op right res)
          else bind (rec ch cc res) (walk rest (S idx))
        end
      else walk rest (S idx) res
    end.

(* [cmp n c depth path op right res]: n the node being compiled, c the cursor of `v`,
   res the current content of *result *)
Fixpoint cmp (n : node) (c : cur) (depth : nat) (path : list string) (op : cop) (right : string) (res : bool)
  {struct n} : out bool :=
  match n with
  | Node ty tn tu nm pk pki p chld mk mv sl hb hc =>
    match ty with
    | typeBasic => ret_fall (wcmp n c op right res)
    | _ =>
      (* [A] *)
      let pre : out bool :=
        if p && Nat.eqb (List.length path) depth then wcmp n c op right res else Fall res in
      bind pre (fun res =>
      (* [B] *)
      match nth_error path depth with
      | None => Fall res
      | Some seg =>
        (* [C] *)
        let guard : option (out bool) :=
          if p then match c with CNil => Some (Ret res None) | CPoison => Some (Panic PNilDeref) | CVal _ => None end
          else None in
        match guard with
        | Some o => o
        | None =>
          match ty with
          | typeStruct =>
            cwalk (fun ch cc r => cmp ch cc (S depth) path op right r) c seg op right chld 0 res
          | typeMap =>
            match mk, mv with
            | Some kn, Some vn =>
              if is_string_key kn then
                match ceval c with
                | inr k => Panic k
                | inl (VMap _ kvs) =>
                  match lookup kn kvs (VStr seg) with
                  | None => Fall res
                  | Some xv => cmp vn (cur_of vn xv) (S depth) path op right res
                  end
                | inl _ => Panic PTypeAssert
                end
              else
                match conv_key kn seg with
                | None => Ret res (Some EParse)
                | Some k =>
                  match ceval c with
                  | inr pk' => Panic pk'
                  | inl (VMap _ kvs) =>
                    let xv := match lookup kn kvs k with Some x => x | None => zero_val vn end in
                    cmp vn (cur_of vn xv) (S depth) path op right res
                  | inl _ => Panic PTypeAssert
                  end
                end
            | _, _ => Fall res
            end
          | typeSlice =>
            if String.eqb tn "[]byte" then ret_fall (wcmp n c op right res)
            else
              match sl with
              | None => Fall res
              | Some en =>
                match conv_index seg with
                | None => Ret res (Some EParse)
                | Some i =>
                  match ceval c with
                  | inr k => Panic k
                  | inl (VSlice _ es _) =>
                    if ((0 <=? i) && (i <? Z.of_nat (List.length es)))%Z then
                      match nth_error es (Z.to_nat i) with
                      | None => Panic PIndex
                      | Some ev => cmp en (cur_of en ev) (S depth) path op right res
                      end
                    else Fall res
                  | inl _ => Panic PTypeAssert
                  end
                end
              end
          | typeBasic => Fall res
          end
        end
      end)
    end
  end.

(* ---------- the method: funcHeader + body ---------- *)
Definition compare (n : node) (a : arg) (op : cop) (right : string) (path : list string) (res0 : bool) : out bool :=
  match path with
  | [] => Ret res0 None                       (* if len(path) == 0 { return } *)
  | _ =>
    match a with
    | ANil | AForeign => Ret res0 None
    | _ =>
      match header_x a with
      | inr k => Panic k
      | inl None => Ret res0 None
      | inl (Some CNil) => Ret res0 None               (* if x == nil { return } (fix: 1a38871) *)
      | inl (Some c) =>
        match cmp n c 0 path op right res0 with
        | Fall r => Ret r None
        | o => o
        end
      end
    end
  end.
