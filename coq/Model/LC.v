(* Model/LC.v - what the code emitted by writeNodeLC (/repo/compiler.go) computes:
   the bodies of Length and Capacity, statement by statement, including the
   pruning by hasc and the root map's sticky pointer flag.  (The pinned commit
   had five defects here - negative index, slices of elements without length,
   collection-valued map entries, paths ending at a nested struct, the empty
   path on root maps/slices; they were repaired by fix: commits, see
   KNOWN_FINDINGS, and this is the model of the repaired emitter.) *)
From Coq Require Import List Bool String Ascii ZArith Arith Lia.
From Verif Require Import Util Ints Strconv Floats Node Value Outcome.
Import ListNotations.
Local Open Scope string_scope.

Inductive lcfn := FLen | FCap.

Definition require_len_check (n : node) : bool :=
  match n_typ n with
  | typeStruct | typeMap => true
  | typeSlice => negb (String.eqb (n_typu n) "[]byte")     (* typu of a []byte node is empty: always true *)
  | typeBasic => false
  end.

Definition measure (fn : lcfn) (v : val) : Z := match fn with FLen => v_len v | FCap => v_cap v end.

(* `*v` / `len(v)` on a cursor: the value, or the panic evaluating it raises *)
Definition eval (c : cur) : val + pkind :=
  match c with CVal v => inl v | CNil => inr PNilDeref | CPoison => inr PNilDeref end.

Definition path_len (p : list string) : nat := List.length p.

(* the field dispatch of a struct node; [rec] compiles a child at depth+1 *)
Definition skip_child (ch : node) : bool :=
  (match n_typ ch with typeBasic => negb (String.eqb (n_typu ch) "string") | _ => false end) || negb (n_hasc ch).

Definition walk_gen (rec : node -> cur -> Z -> out Z) (c : cur) (oseg : option string)
  : list node -> nat -> Z -> out Z :=
  fix walk (chs : list node) (idx : nat) (res : Z) {struct chs} : out Z :=
    match chs with
    | [] => Fall res
    | ch :: rest =>
      if skip_child ch then walk rest (S idx) res
      else
        match oseg with
        | None => Panic PIndex                          (* path[depth] out of range *)
        | Some seg =>
          if String.eqb seg (n_name ch) then
            let cc := cur_field c ch idx in
            let chPtr := n_ptr ch && match n_typ ch with typeBasic => false | _ => true end in
            let o :=
              if chPtr then
                match cc with
                | CPoison => Panic PNilDeref
                | CNil => Fall res
                | CVal _ => rec ch cc res
                end
              else rec ch cc res in
            bind o (walk rest (S idx))
          else walk rest (S idx) res
        end
    end.

(* [lc fn n rootptr c depth path res]:
     n        the node being compiled, c the cursor of the expression `v`,
     rootptr  node.ptr as the emitter sees it (the root map flips it to true),
     res      the current content of *result. *)
Fixpoint lc (fn : lcfn) (n : node) (c : cur) (depth : nat) (path : list string) (res : Z) {struct n} : out Z :=
  let res := if Nat.eqb depth 0 then 0%Z else res in
  match n with
  | Node ty tn tu nm pk pki p chld mk mv sl hb hc =>
    (* if v == nil { return nil } *)
    let nilchk : option (out Z) :=
      if p then match c with CNil => Some (Ret res None) | CPoison => Some (Panic PNilDeref) | CVal _ => None end
      else None in
    match nilchk with
    | Some o => o
    | None =>
      if Nat.eqb depth 0 && (match ty with typeStruct => true | _ => false end) && Nat.eqb (path_len path) 0 then Ret res None else
      match ty with
      | typeStruct =>
        if negb (Nat.eqb depth 0) && Nat.ltb (path_len path) (S depth) then Ret res None else
        walk_gen (fun ch cc r => lc fn ch cc (S depth) path r) c (nth_error path depth) chld 0 res
      | typeMap =>
        match mk, mv with
        | Some kn, Some vn =>
          (* at depth 0 the emitter sets node.ptr = true: the map is reached through *x *)
          let derefd := p || Nat.eqb depth 0 in
          let lenblock : out Z :=
            match fn with
            | FLen => if Nat.eqb (path_len path) depth
                      then match eval c with inl v => Ret (v_len v) None | inr k => Panic k end
                      else Fall res
            | FCap => Fall res
            end in
          bind lenblock (fun res =>
          if negb (n_hasc vn) then Fall res else
          if Nat.ltb (path_len path) (S depth) then Ret res None else
          match nth_error path depth with
          | None => Panic PIndex
          | Some seg =>
            let after (found : option val) : out Z :=
              (* found = the value bound to the local x<depth> *)
              match found with
              | None => Fall res
              | Some xv =>
                if (match n_typ vn with typeStruct => true | _ => false end) && Nat.ltb (path_len path) (S (S depth)) then Ret res None
                else lc fn vn (cur_of vn xv) (S depth) path res
              end in
            if is_string_key kn then
              match eval c with
              | inr k => Panic k
              | inl (VMap _ kvs) => after (lookup kn kvs (VStr seg))
              | inl _ => Panic PTypeAssert
              end
            else
              match conv_key kn seg with
              | None => Ret res (Some EParse)
              | Some k =>
                match eval c with
                | inr pk' => Panic pk'
                | inl (VMap _ kvs) =>
                  after (Some (match lookup kn kvs k with Some x => x | None => zero_val vn end))
                | inl _ => Panic PTypeAssert
                end
              end
          end)
        | _, _ => Fall res
        end
      | typeSlice =>
        if String.eqb tn "[]byte" then
          match eval c with inl v => Ret (measure fn v) None | inr k => Panic k end
        else
          match sl with
          | None => Fall res
          | Some en =>
            if Nat.eqb (path_len path) depth then
              match eval c with inl v => Ret (measure fn v) None | inr k => Panic k end
            else if negb (n_hasc en) then Fall res
            else if Nat.ltb (path_len path) (S depth) then Ret res None else
            match nth_error path depth with
            | None => Panic PIndex
            | Some seg =>
              match conv_index seg with
              | None => Ret res (Some EParse)
              | Some i =>
                match eval c with
                | inr k => Panic k
                | inl (VSlice _ es _) =>
                  if ((0 <=? i) && (i <? Z.of_nat (List.length es)))%Z then
                    match nth_error es (Z.to_nat i) with
                    | None => Panic PIndex
                    | Some ev =>
                      if (match n_typ en with typeStruct => true | _ => false end) && Nat.ltb (path_len path) (S (S depth)) then Ret res None
                      else lc fn en (cur_of en ev) (S depth) path res
                    end
                  else Fall res
                | inl _ => Panic PTypeAssert
                end
              end
            end
          end
      | typeBasic =>
        if String.eqb tu "string" && (match fn with FLen => true | FCap => false end) then
          match eval c with inl v => Ret (v_len v) None | inr k => Panic k end
        else Fall res
      end
    end
  end.

(* ---------- the method: header + body ---------- *)
(* The root map node keeps ptr = true after Length was emitted when its values have no
   hasc (the emitter returns before restoring it): Capacity then starts with a nil check. *)
Definition root_for (fn : lcfn) (n : node) : node :=
  match fn, n_typ n, n_mapv n with
  | FCap, typeMap, Some vn => if negb (n_hasc vn) then set_ptr n true else n
  | _, _, _ => n
  end.

Definition length_capacity (fn : lcfn) (n : node) (a : arg) (path : list string) (res0 : Z) : out Z :=
  match a with
  | ANil => Ret res0 None
  | AForeign => Ret res0 (Some EUnsupported)
  | _ =>
    match header_x a with
    | inr k => Panic k
    | inl None => Ret res0 None
    | inl (Some CNil) => Ret res0 None                 (* if x == nil { return nil } (fix: 1a38871) *)
    | inl (Some c) =>
      match lc fn (root_for fn n) c 0 path res0 with
      | Fall r => Ret r None
      | o => o
      end
    end
  end.
