(* Model/SetHist.v - HISTORIES of Set / SetWithBuffer calls on one object.

   A client assigns several elements of one object, one call after the other, and hands the same
   accumulating buffer (inspector.ByteBuffer) to every buffered call.  The buffered conversion of a
   scalar into a string or []byte element (AssignToStr / AssignToBytes, assign_builtin.go) renders
   the text BEHIND what the buffer holds already (AcquireBytes, append, ReleaseBytes) and stores a
   view of the new region in the element: the texts of the earlier steps live in the same memory.

   The model of a history is the Set model of Model/SetEmit.v iterated on the object: no step
   looks at the buffer's content, and the buffer only accumulates - a region handed out is never
   written again (Model/Buffer.v, ops OAssignStr / OAssignBytes; Proofs/BufferInv.v
   content_stable; instantiated for conversion sequences in Proofs/ConvTexts.v), whatever the buffer
   held before the history began (a zero ByteBuffer, NewByteBuffer(n) with spare capacity, a used
   buffer, a used and Reset buffer).  Theorems: Proofs/SetHistSound.v. *)
From Coq Require Import List Bool String Ascii ZArith Arith.
From Verif Require Import Util Node Value Outcome SetEmit.
Import ListNotations.

(* one call: Set (buffered = false) or SetWithBuffer with the history's buffer *)
Record hstep := mk_hstep { hs_path : list string; hs_src : src; hs_buf : bool }.

Definition hstep_run (n : node) (v : val) (st : hstep) : out val :=
  set_method n v (hs_path st) (hs_src st) (hs_buf st).

(* the outcome of every call, each one run on the object the previous call left (a panic ends
   the history) *)
Fixpoint run_hist (n : node) (v : val) (steps : list hstep) {struct steps} : list (out val) :=
  match steps with
  | [] => []
  | st :: r =>
    let o := hstep_run n v st in
    o :: match o with
         | Ret v' _ | Fall v' => run_hist n v' r
         | Panic _ => []
         end
  end.

(* the object after the whole history (None: some call panicked) *)
Fixpoint hist_final (n : node) (v : val) (steps : list hstep) {struct steps} : option val :=
  match steps with
  | [] => Some v
  | st :: r =>
    match hstep_run n v st with
    | Ret v' _ | Fall v' => hist_final n v' r
    | Panic _ => None
    end
  end.
