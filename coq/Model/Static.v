(* Model/Static.v - executable model of /repo/static.go (StaticInspector), every
   method, as the code is today.  Definitions only.

   A Go interface value reaching a method is an [sarg]: a value of one of the
   kinds the type switches know (bool, ten integer kinds, float32, float64,
   string, []byte) or of any other type, held directly, behind a non-nil
   pointer, or as a typed nil pointer.  [dyn_of] is the dynamic type the Go type
   switch sees; every switch of static.go is transcribed as one [match] over
   [dyn] with the cases in the order of the source.

   Four places of static.go were repaired by "fix:" commits; a [rev] record says
   which repairs the modelled code contains.  [cur] (all four) is the code as it
   is today, [pinned] the code before them.  The pre-fix branches are kept so
   that the refuted statements of Properties/C16.v talk about a model, not about
   a memory.

   amd64: int/uint are 64 bit; float -> integer conversion is the CVTTSD2SQ
   based sequence the gc compiler emits (out-of-range and NaN give 2^63 as bit
   pattern), validated by the c16 stream. *)
From Coq Require Import ZArith Bool String Ascii List Lia Floats.SpecFloat.
From Verif Require Import Util Ints Strconv Floats.
Import ListNotations.
Local Open Scope Z_scope.

(* ---------- outcomes ---------- *)
Inductive pkind := NilDeref | IndexRange | NilMapWrite | TypeAssert.
Inductive out (A : Type) : Type := Ret (a : A) | Panic (k : pkind) | Diverge.
Arguments Ret {A} a.
Arguments Panic {A} k.
Arguments Diverge {A}.
Definition bind {A B} (x : out A) (f : A -> out B) : out B :=
  match x with Ret a => f a | Panic k => Panic k | Diverge => Diverge end.
Notation "x <- e ;; f" := (bind e (fun x => f)) (at level 61, e at next level, right associativity).

Inductive serr := EUnsupported | EMustPointer | EUnknownEncoding.

(* ---------- values ----------
   Text carries the identity of its backing array ([aid]); the functional
   results never depend on it, Copy/CopyTo's "shares no bytes" does. *)
Inductive sval :=
| VBool (b : bool)
| VInt (k : ikind) (z : Z)
| VF32 (f : spec_float)            (* a binary32 value *)
| VF64 (f : spec_float)
| VStr (aid : Z) (s : string)
| VBytes (aid : Z) (d : string) (cap : Z)
| VOther (tag : Z).                (* any other Go type; the tag only tells the harness which one *)

Inductive skind := KBool | KI (k : ikind) | KF32 | KF64 | KStr | KBytes | KOther.

Inductive sarg :=
| AVal (v : sval)                  (* T *)
| APtr (v : sval)                  (* non-nil *T *)
| ANil (k : skind).                (* a typed nil pointer *)

Definition kind_of (v : sval) : skind :=
  match v with
  | VBool _ => KBool | VInt k _ => KI k | VF32 _ => KF32 | VF64 _ => KF64
  | VStr _ _ => KStr | VBytes _ _ _ => KBytes | VOther _ => KOther
  end.

(* the dynamic types the switches of static.go distinguish *)
Inductive dyn :=
| DBool | DPBool
| DInt | DPInt | DInt8 | DPInt8 | DInt16 | DPInt16 | DInt32 | DPInt32 | DInt64 | DPInt64
| DUint | DPUint | DUint8 | DPUint8 | DUint16 | DPUint16 | DUint32 | DPUint32 | DUint64 | DPUint64
| DF32 | DPF32 | DF64 | DPF64
| DBytes | DPBytes | DStr | DPStr
| DOther.

Definition dyn_kind (k : skind) (p : bool) : dyn :=
  match k with
  | KBool => if p then DPBool else DBool
  | KI KInt => if p then DPInt else DInt
  | KI KInt8 => if p then DPInt8 else DInt8
  | KI KInt16 => if p then DPInt16 else DInt16
  | KI KInt32 => if p then DPInt32 else DInt32
  | KI KInt64 => if p then DPInt64 else DInt64
  | KI KUint => if p then DPUint else DUint
  | KI KUint8 => if p then DPUint8 else DUint8
  | KI KUint16 => if p then DPUint16 else DUint16
  | KI KUint32 => if p then DPUint32 else DUint32
  | KI KUint64 => if p then DPUint64 else DUint64
  | KF32 => if p then DPF32 else DF32
  | KF64 => if p then DPF64 else DF64
  | KBytes => if p then DPBytes else DBytes
  | KStr => if p then DPStr else DStr
  | KOther => DOther
  end.

Definition dyn_of (a : sarg) : dyn :=
  match a with
  | AVal v => dyn_kind (kind_of v) false
  | APtr v => dyn_kind (kind_of v) true
  | ANil k => dyn_kind k true
  end.

(* the type assertion x.(T) of a value case, the dereference of x.(pointer to T) of a pointer case *)
Definition ld (a : sarg) : out sval :=
  match a with AVal v => Ret v | APtr v => Ret v | ANil _ => Panic NilDeref end.

Definition bof (v : sval) : bool := match v with VBool b => b | _ => false end.
Definition zof (v : sval) : Z := match v with VInt _ z => z | _ => 0 end.
Definition fof (v : sval) : spec_float := match v with VF32 f | VF64 f => f | _ => S754_zero false end.
Definition sof (v : sval) : string := match v with VStr _ s => s | VBytes _ d _ => d | _ => EmptyString end.
Definition slen (s : string) : Z := Z.of_nat (String.length s).

(* ---------- which repairs the modelled code contains ---------- *)
Record rev := { fx_text : bool;    (* indString / indBytes handle the four text forms themselves *)
                fx_reset : bool;   (* Reset writes through *string / *[]byte *)
                fx_mixed : bool;   (* DeepEqual puts a float operand on the left *)
                fx_inf : bool }.   (* eqlf64: a == b || ... *)
Definition cur : rev := {| fx_text := true; fx_reset := true; fx_mixed := true; fx_inf := true |}.
Definition pinned : rev := {| fx_text := false; fx_reset := false; fx_mixed := false; fx_inf := false |}.

(* ---------- const.go ---------- *)
Inductive sop := OpUnk | OpEq | OpNq | OpGt | OpGtq | OpLt | OpLtq | OpInc | OpDec.

(* ---------- TypeName, Get, GetTo, Set, SetWithBuffer, Loop ---------- *)
Definition s_typename : string := "static"%string.
(* Get returns the interface value it was given (a pointer stays that pointer), error nil *)
Definition s_get (src : sarg) : out (sarg * option serr) := Ret (src, None).
(* GetTo stores it in *buf (non-nil by the signature's premise), error nil *)
Definition s_getto (src : sarg) : out (sarg * option serr) := Ret (src, None).
(* Set, SetWithBuffer, Loop: no effect, error nil; the result is the untouched first argument *)
Definition s_set (dst value : sarg) : out (sarg * option serr) := Ret (dst, None).
Definition s_setwithbuffer (dst value : sarg) : out (sarg * option serr) := Ret (dst, None).
Definition s_loop (src : sarg) : out (sarg * option serr) := Ret (src, None).

(* ---------- Compare ---------- *)
Definition cmp_int (l : Z) (op : sop) (r : Z) : bool :=
  match op with
  | OpEq => l =? r | OpNq => negb (l =? r)
  | OpGt => r <? l | OpGtq => r <=? l | OpLt => l <? r | OpLtq => l <=? r
  | _ => false
  end.
Definition cmp_uint (l : Z) (op : sop) (r : Z) : bool :=
  match op with
  | OpEq => l =? r | OpNq => negb (l =? r)
  | OpGt => r <? l | OpGtq => r <=? l | OpLt => l <? r | OpLtq => l <=? r
  | _ => false
  end.
Definition cmp_float (l : spec_float) (op : sop) (r : spec_float) : bool :=
  match op with
  | OpEq => SFeqb l r | OpNq => negb (SFeqb l r)
  | OpGt => SFltb r l | OpGtq => SFleb r l | OpLt => SFltb l r | OpLtq => SFleb l r
  | _ => false
  end.
Definition cmp_str (l : string) (op : sop) (r : string) : bool :=
  match op with
  | OpEq => String.eqb l r | OpNq => negb (String.eqb l r)
  | OpGt => String.ltb r l | OpGtq => String.leb r l | OpLt => String.ltb l r | OpLtq => String.leb l r
  | _ => false
  end.
Definition cmp_bytes (l : string) (op : sop) (r : string) : bool :=
  match op with OpEq => String.eqb l r | OpNq => negb (String.eqb l r) | _ => false end.
Definition cmp_bool (l : bool) (op : sop) (r : bool) : bool :=
  match op with OpEq => Bool.eqb l r | OpNq => negb (Bool.eqb l r) | _ => false end.

Definition zid (z : Z) : Z := z.
Definition fid (f : spec_float) : spec_float := f.

(* "if r, err := strconv.ParseInt(right, 0, 0); err == nil { *result = i.cmpInt(conv(load), cond, r) }":
   the operand is parsed first; only when it parses is the source loaded, and
   only then is *result written - otherwise it keeps its previous content [res0]. *)
Definition c_int (conv : Z -> Z) (a : sarg) (op : sop) (right : string) (res0 : bool) : out bool :=
  match parse_int right 0 64 with
  | Some r => v <- ld a ;; Ret (cmp_int (conv (zof v)) op r)
  | None => Ret res0
  end.
Definition c_uint (conv : Z -> Z) (a : sarg) (op : sop) (right : string) (res0 : bool) : out bool :=
  match parse_uint right 0 18446744073709551615 with
  | Some r => v <- ld a ;; Ret (cmp_uint (conv (zof v)) op r)
  | None => Ret res0
  end.
Definition c_float (conv : spec_float -> spec_float) (a : sarg) (op : sop) (right : string) (res0 : bool) : out bool :=
  match parse_float right with
  | Some r => v <- ld a ;; Ret (cmp_float (conv (fof v)) op r)
  | None => Ret res0
  end.
Definition c_bool (a : sarg) (op : sop) (right : string) (res0 : bool) : out bool :=
  match parse_bool right with
  | Some r => v <- ld a ;; Ret (cmp_bool (bof v) op r)
  | None => Ret res0
  end.
Definition c_bytes (a : sarg) (op : sop) (right : string) : out bool :=
  v <- ld a ;; Ret (cmp_bytes (sof v) op right).
Definition c_str (a : sarg) (op : sop) (right : string) : out bool :=
  v <- ld a ;; Ret (cmp_str (sof v) op right).

Definition i64 : Z -> Z := wrap KInt64.     (* int64(x) *)
Definition u64 : Z -> Z := wrap KUint64.    (* uint64(x) *)

(* the result is the content of *result afterwards; the returned error is always nil *)
Definition s_compare (src : sarg) (op : sop) (right : string) (res0 : bool) : out bool :=
  match dyn_of src with
  | DInt => c_int i64 src op right res0
  | DPInt => c_int i64 src op right res0
  | DInt8 => c_int i64 src op right res0
  | DPInt8 => c_int i64 src op right res0
  | DInt16 => c_int i64 src op right res0
  | DPInt16 => c_int i64 src op right res0
  | DInt32 => c_int i64 src op right res0
  | DPInt32 => c_int i64 src op right res0
  | DInt64 => c_int zid src op right res0
  | DPInt64 => c_int zid src op right res0
  | DUint => c_uint u64 src op right res0
  | DPUint => c_uint u64 src op right res0
  | DUint8 => c_uint u64 src op right res0
  | DPUint8 => c_uint u64 src op right res0
  | DUint16 => c_uint u64 src op right res0
  | DPUint16 => c_uint u64 src op right res0
  | DUint32 => c_uint u64 src op right res0
  | DPUint32 => c_uint u64 src op right res0
  | DUint64 => c_uint zid src op right res0
  | DPUint64 => c_uint zid src op right res0
  | DF32 => c_float to_f64 src op right res0
  | DPF32 => c_float to_f64 src op right res0
  | DF64 => c_float fid src op right res0
  | DPF64 => c_float fid src op right res0
  | DBool => c_bool src op right res0
  | DPBool => c_bool src op right res0
  | DBytes => c_bytes src op right
  | DPBytes => c_bytes src op right
  | DStr => c_str src op right
  | DPStr => c_str src op right
  | DOther => Ret false
  end.

(* ---------- float64 -> int64 / uint64 as compiled for amd64 ---------- *)
Definition two63 : Z := 9223372036854775808.
Definition two64 : Z := 18446744073709551616.
(* truncation toward zero of a finite value *)
Definition ftrunc (f : spec_float) : option Z :=
  match f with
  | S754_zero _ => Some 0
  | S754_finite s m e =>
    let a := if 0 <=? e then Zpos m * 2 ^ e else Zpos m / 2 ^ (- e) in
    Some (if s then - a else a)
  | _ => None
  end.
(* CVTTSD2SQ: the "integer indefinite" value when the truncation does not fit *)
Definition f2i64 (f : spec_float) : Z :=
  match ftrunc f with
  | Some t => if (- two63 <=? t) && (t <? two63) then t else - two63
  | None => - two63
  end.
(* x < 2^63 ? uint64(cvt(x)) : uint64(cvt(x - 2^63)) | 1<<63 *)
Definition f2u64 (f : spec_float) : Z :=
  match ftrunc f with
  | Some t => if t <? two63 then u64 (if - two63 <=? t then t else - two63)
              else if t <? two64 then t else two63
  | None => two63
  end.

(* ---------- the ind* helpers of DeepEqual: (value, ok) ---------- *)
Definition ind_bool (x : sarg) : out (bool * bool) :=
  match dyn_of x with
  | DBool => v <- ld x ;; Ret (bof v, true)
  | DPBool => v <- ld x ;; Ret (bof v, true)
  | _ => Ret (false, false)
  end.

Definition ii (conv : Z -> Z) (x : sarg) : out (Z * bool) := v <- ld x ;; Ret (conv (zof v), true).
Definition iif (conv : spec_float -> Z) (x : sarg) : out (Z * bool) := v <- ld x ;; Ret (conv (fof v), true).

Definition ind_int (x : sarg) : out (Z * bool) :=
  match dyn_of x with
  | DInt => ii i64 x
  | DPInt => ii i64 x
  | DInt8 => ii i64 x
  | DPInt8 => ii i64 x
  | DInt16 => ii i64 x
  | DPInt16 => ii i64 x
  | DInt32 => ii i64 x
  | DPInt32 => ii i64 x
  | DInt64 => ii zid x
  | DPInt64 => ii zid x
  | DF32 => iif (fun f => f2i64 (to_f64 f)) x
  | DPF32 => iif (fun f => f2i64 (to_f64 f)) x
  | DF64 => iif f2i64 x
  | DPF64 => iif f2i64 x
  | _ => Ret (0, false)
  end.

Definition ind_uint (x : sarg) : out (Z * bool) :=
  match dyn_of x with
  | DUint => ii u64 x
  | DPUint => ii u64 x
  | DUint8 => ii u64 x
  | DPUint8 => ii u64 x
  | DUint16 => ii u64 x
  | DPUint16 => ii u64 x
  | DUint32 => ii u64 x
  | DPUint32 => ii u64 x
  | DUint64 => ii zid x
  | DPUint64 => ii zid x
  | DF32 => iif (fun f => f2u64 (to_f64 f)) x
  | DPF32 => iif (fun f => f2u64 (to_f64 f)) x
  | DF64 => iif f2u64 x
  | DPF64 => iif f2u64 x
  | _ => Ret (0, false)
  end.

Definition ff (conv : spec_float -> spec_float) (x : sarg) : out (spec_float * bool) :=
  v <- ld x ;; Ret (conv (fof v), true).
Definition fz (x : sarg) : out (spec_float * bool) := v <- ld x ;; Ret (f64_of_Z (zof v), true).

Definition ind_float (x : sarg) : out (spec_float * bool) :=
  match dyn_of x with
  | DF32 => ff to_f64 x
  | DPF32 => ff to_f64 x
  | DF64 => ff fid x
  | DPF64 => ff fid x
  | d =>
    (* default: the nested switch over the integer kinds *)
    match d with
    | DInt => fz x
    | DPInt => fz x
    | DInt8 => fz x
    | DPInt8 => fz x
    | DInt16 => fz x
    | DPInt16 => fz x
    | DInt32 => fz x
    | DPInt32 => fz x
    | DInt64 => fz x
    | DPInt64 => fz x
    | DUint => fz x
    | DPUint => fz x
    | DUint8 => fz x
    | DPUint8 => fz x
    | DUint16 => fz x
    | DPUint16 => fz x
    | DUint32 => fz x
    | DPUint32 => fz x
    | DUint64 => fz x
    | DPUint64 => fz x
    | _ => Ret (S754_zero false, false)
    end
  end.

Definition st (x : sarg) : out (string * bool) := v <- ld x ;; Ret (sof v, true).

(* indString and indBytes.  Before the repair each fell back on the other when
   the operand was not of its own two forms: explicit fuel, [Diverge] when it
   runs out.  After the repair neither calls anything. *)
Fixpoint ind_string (v : rev) (fuel : nat) (x : sarg) {struct fuel} : out (string * bool) :=
  match dyn_of x with
  | DStr => st x
  | DPStr => st x
  | d =>
    if fx_text v then
      match d with
      | DBytes => st x
      | DPBytes => st x
      | _ => Ret (EmptyString, false)
      end
    else
      match fuel with
      | O => Diverge
      | S f => r <- ind_bytes v f x ;; (if snd r then Ret (fst r, true) else Ret (EmptyString, false))
      end
  end
with ind_bytes (v : rev) (fuel : nat) (x : sarg) {struct fuel} : out (string * bool) :=
  match dyn_of x with
  | DBytes => st x
  | DPBytes => st x
  | d =>
    if fx_text v then
      match d with
      | DStr => st x
      | DPStr => st x
      | _ => Ret (EmptyString, false)
      end
    else
      match fuel with
      | O => Diverge
      | S f => r <- ind_string v f x ;; (if snd r then Ret (fst r, true) else Ret (EmptyString, false))
      end
  end.

Definition is_float (x : sarg) : bool :=
  match dyn_of x with DF32 | DPF32 | DF64 | DPF64 => true | _ => false end.

(* eqlf64 *)
Definition eqlf64 (v : rev) (a b : spec_float) : bool :=
  (fx_inf v && f64_eqb a b) || equal_float64 a b float_precision.

Definition d_bool (l r : sarg) : out bool :=
  p <- ind_bool r ;; (if snd p then lv <- ld l ;; Ret (Bool.eqb (fst p) (bof lv)) else Ret false).
Definition d_int (conv : Z -> Z) (l r : sarg) : out bool :=
  p <- ind_int r ;; (if snd p then lv <- ld l ;; Ret (fst p =? conv (zof lv)) else Ret false).
Definition d_uint (conv : Z -> Z) (l r : sarg) : out bool :=
  p <- ind_uint r ;; (if snd p then lv <- ld l ;; Ret (fst p =? conv (zof lv)) else Ret false).
Definition d_float (v : rev) (conv : spec_float -> spec_float) (l r : sarg) : out bool :=
  p <- ind_float r ;; (if snd p then lv <- ld l ;; Ret (eqlf64 v (fst p) (conv (fof lv))) else Ret false).
Definition d_bytes (v : rev) (fuel : nat) (l r : sarg) : out bool :=
  p <- ind_bytes v fuel r ;; (if snd p then lv <- ld l ;; Ret (String.eqb (fst p) (sof lv)) else Ret false).
Definition d_str (v : rev) (fuel : nat) (l r : sarg) : out bool :=
  p <- ind_string v fuel r ;; (if snd p then lv <- ld l ;; Ret (String.eqb (fst p) (sof lv)) else Ret false).

(* DeepEqualWithOptions (the options are ignored); DeepEqual passes nil *)
Definition s_deq_switch (v : rev) (fuel : nat) (l r : sarg) : out bool :=
  match dyn_of l with
  | DBool => d_bool l r
  | DPBool => d_bool l r
  | DInt => d_int i64 l r
  | DPInt => d_int i64 l r
  | DInt8 => d_int i64 l r
  | DPInt8 => d_int i64 l r
  | DInt16 => d_int i64 l r
  | DPInt16 => d_int i64 l r
  | DInt32 => d_int i64 l r
  | DPInt32 => d_int i64 l r
  | DInt64 => d_int zid l r
  | DPInt64 => d_int zid l r
  | DUint => d_uint u64 l r
  | DPUint => d_uint u64 l r
  | DUint8 => d_uint u64 l r
  | DPUint8 => d_uint u64 l r
  | DUint16 => d_uint u64 l r
  | DPUint16 => d_uint u64 l r
  | DUint32 => d_uint u64 l r
  | DPUint32 => d_uint u64 l r
  | DUint64 => d_uint zid l r
  | DPUint64 => d_uint zid l r
  | DF32 => d_float v to_f64 l r
  | DPF32 => d_float v to_f64 l r
  | DF64 => d_float v fid l r
  | DPF64 => d_float v fid l r
  | DBytes => d_bytes v fuel l r
  | DPBytes => d_bytes v fuel l r
  | DStr => d_str v fuel l r
  | DPStr => d_str v fuel l r
  | DOther => Ret false
  end.

Definition s_deq_opts (v : rev) (fuel : nat) (l r : sarg) : out bool :=
  if fx_mixed v && is_float r && negb (is_float l)
  then s_deq_switch v fuel r l
  else s_deq_switch v fuel l r.
Definition s_deq (v : rev) (fuel : nat) (l r : sarg) : out bool := s_deq_opts v fuel l r.

(* ---------- Unmarshal: the encoding switch; encoding/json is an oracle ---------- *)
Definition s_unmarshal {J : Type} (json : string -> J * option serr) (p : string) (typ : Z) : option J * option serr :=
  if typ =? 0 then let r := json p in (Some (fst r), snd r) else (None, Some EUnknownEncoding).

(* ---------- Copy ----------
   append([]byte(nil), origin...) : nil for an empty origin, otherwise a fresh
   array [fresh] whose capacity is Go's choice (oracle [extra] >= 0). *)
Definition fresh_bytes (fresh extra : Z) (d : string) : sval :=
  match d with
  | EmptyString => VBytes 0 EmptyString 0
  | _ => VBytes fresh d (slen d + extra)
  end.
Definition fresh_str (fresh : Z) (s : string) : sval := VStr fresh s.

Definition cp_same (x : sarg) : out (option sval * option serr) := v <- ld x ;; Ret (Some v, None).
Definition cp_bytes (fresh extra : Z) (x : sarg) : out (option sval * option serr) :=
  v <- ld x ;; Ret (Some (fresh_bytes fresh extra (sof v)), None).
Definition cp_str (fresh : Z) (x : sarg) : out (option sval * option serr) :=
  v <- ld x ;; Ret (Some (fresh_str fresh (sof v)), None).

Definition s_copy (fresh extra : Z) (x : sarg) : out (option sval * option serr) :=
  match dyn_of x with
  | DBool => cp_same x
  | DPBool => cp_same x
  | DInt => cp_same x
  | DPInt => cp_same x
  | DInt8 => cp_same x
  | DPInt8 => cp_same x
  | DInt16 => cp_same x
  | DPInt16 => cp_same x
  | DInt32 => cp_same x
  | DPInt32 => cp_same x
  | DInt64 => cp_same x
  | DPInt64 => cp_same x
  | DUint => cp_same x
  | DPUint => cp_same x
  | DUint8 => cp_same x
  | DPUint8 => cp_same x
  | DUint16 => cp_same x
  | DPUint16 => cp_same x
  | DUint32 => cp_same x
  | DPUint32 => cp_same x
  | DUint64 => cp_same x
  | DPUint64 => cp_same x
  | DF32 => cp_same x
  | DPF32 => cp_same x
  | DF64 => cp_same x
  | DPF64 => cp_same x
  | DBytes => cp_bytes fresh extra x
  | DPBytes => cp_bytes fresh extra x
  | DStr => cp_str fresh x
  | DPStr => cp_str fresh x
  | DOther => Ret (None, Some EUnsupported)
  end.

(* ---------- CopyTo ----------
   The accumulating buffer: array identity, content, capacity.  append stays in
   the array when the data fits and moves to the array [fresh] otherwise. *)
Record sbuf := { b_aid : Z; b_data : string; b_cap : Z }.
Definition buf_append (fresh extra : Z) (b : sbuf) (d : string) : sbuf :=
  if slen (b_data b) + slen d <=? b_cap b
  then {| b_aid := b_aid b; b_data := (b_data b ++ d)%string; b_cap := b_cap b |}
  else {| b_aid := fresh; b_data := (b_data b ++ d)%string; b_cap := slen (b_data b) + slen d + extra |}.
(* Bufferize: b.b[off:len:len] ; BufferizeString: B2S(b.b[off:]) *)
Definition bufferize (fresh extra : Z) (b : sbuf) (d : string) : sbuf * sval :=
  let b' := buf_append fresh extra b d in (b', VBytes (b_aid b') d (slen d)).
Definition bufferize_string (fresh extra : Z) (b : sbuf) (s : string) : sbuf * sval :=
  let b' := buf_append fresh extra b s in (b', VStr (b_aid b') s).

(* result: error, the destination argument afterwards, the buffer afterwards *)
Definition cto_res : Type := option serr * sarg * sbuf.

(* "if _, ok := dst.( *T ); !ok { return ErrMustPointerType }; *dst.( *T ) = load(src)" *)
Definition ct_scalar (want : dyn) (src dst : sarg) (b : sbuf) : out cto_res :=
  if match dyn_of dst, want with
     | DPBool, DPBool | DPInt, DPInt | DPInt8, DPInt8 | DPInt16, DPInt16 | DPInt32, DPInt32 | DPInt64, DPInt64
     | DPUint, DPUint | DPUint8, DPUint8 | DPUint16, DPUint16 | DPUint32, DPUint32 | DPUint64, DPUint64
     | DPF32, DPF32 | DPF64, DPF64 | DPBytes, DPBytes | DPStr, DPStr => true
     | _, _ => false
     end
  then v <- ld src ;;
       match dst with
       | APtr _ => Ret (None, APtr v, b)
       | _ => Panic NilDeref
       end
  else Ret (Some EMustPointer, dst, b).

Definition ct_bytes (fresh extra : Z) (src dst : sarg) (b : sbuf) : out cto_res :=
  match dyn_of dst with
  | DPBytes =>
    v <- ld src ;;
    let r := bufferize fresh extra b (sof v) in
    match dst with
    | APtr _ => Ret (None, APtr (snd r), fst r)
    | _ => Panic NilDeref
    end
  | _ => Ret (Some EMustPointer, dst, b)
  end.
Definition ct_str (fresh extra : Z) (src dst : sarg) (b : sbuf) : out cto_res :=
  match dyn_of dst with
  | DPStr =>
    v <- ld src ;;
    let r := bufferize_string fresh extra b (sof v) in
    match dst with
    | APtr _ => Ret (None, APtr (snd r), fst r)
    | _ => Panic NilDeref
    end
  | _ => Ret (Some EMustPointer, dst, b)
  end.

Definition s_copyto (fresh extra : Z) (src dst : sarg) (b : sbuf) : out cto_res :=
  match dyn_of src with
  | DBool => ct_scalar DPBool src dst b
  | DPBool => ct_scalar DPBool src dst b
  | DInt => ct_scalar DPInt src dst b
  | DPInt => ct_scalar DPInt src dst b
  | DInt8 => ct_scalar DPInt8 src dst b
  | DPInt8 => ct_scalar DPInt8 src dst b
  | DInt16 => ct_scalar DPInt16 src dst b
  | DPInt16 => ct_scalar DPInt16 src dst b
  | DInt32 => ct_scalar DPInt32 src dst b
  | DPInt32 => ct_scalar DPInt32 src dst b
  | DInt64 => ct_scalar DPInt64 src dst b
  | DPInt64 => ct_scalar DPInt64 src dst b
  | DUint => ct_scalar DPUint src dst b
  | DPUint => ct_scalar DPUint src dst b
  | DUint8 => ct_scalar DPUint8 src dst b
  | DPUint8 => ct_scalar DPUint8 src dst b
  | DUint16 => ct_scalar DPUint16 src dst b
  | DPUint16 => ct_scalar DPUint16 src dst b
  | DUint32 => ct_scalar DPUint32 src dst b
  | DPUint32 => ct_scalar DPUint32 src dst b
  | DUint64 => ct_scalar DPUint64 src dst b
  | DPUint64 => ct_scalar DPUint64 src dst b
  | DF32 => ct_scalar DPF32 src dst b
  | DPF32 => ct_scalar DPF32 src dst b
  | DF64 => ct_scalar DPF64 src dst b
  | DPF64 => ct_scalar DPF64 src dst b
  | DBytes => ct_bytes fresh extra src dst b
  | DPBytes => ct_bytes fresh extra src dst b
  | DStr => ct_str fresh extra src dst b
  | DPStr => ct_str fresh extra src dst b
  | DOther => Ret (Some EUnsupported, dst, b)
  end.

(* ---------- Length / Capacity ---------- *)
Definition lc_bytes (x : sarg) : out (Z * Z) :=
  v <- ld x ;; Ret (slen (sof v), match v with VBytes _ _ c => c | _ => 0 end).
Definition lc_str (x : sarg) : out (Z * Z) := v <- ld x ;; Ret (slen (sof v), slen (sof v)).
Definition s_lc (x : sarg) : out (Z * Z) :=
  match dyn_of x with
  | DBytes => lc_bytes x
  | DPBytes => lc_bytes x
  | DStr => lc_str x
  | DPStr => lc_str x
  | _ => Ret (0, 0)
  end.
(* *result afterwards; error nil *)
Definition s_length (x : sarg) : out Z := p <- s_lc x ;; Ret (fst p).
Definition s_capacity (x : sarg) : out Z := p <- s_lc x ;; Ret (snd p).

(* ---------- Reset ----------
   The result is what the caller's argument denotes afterwards; error nil.
   A value case assigns to the local interface variable only. *)
Definition rs_local (x : sarg) : out sarg := Ret x.
Definition rs_store (zero : sval) (x : sarg) : out sarg :=
  match x with APtr _ => Ret (APtr zero) | _ => Panic NilDeref end.
Definition f_zero : spec_float := S754_zero false.

Definition s_reset (v : rev) (x : sarg) : out sarg :=
  match dyn_of x with
  | DBool => rs_local x
  | DPBool => rs_store (VBool false) x
  | DInt => rs_local x
  | DPInt => rs_store (VInt KInt 0) x
  | DPInt8 => rs_store (VInt KInt8 0) x
  | DInt8 => rs_local x
  | DPInt16 => rs_store (VInt KInt16 0) x
  | DInt16 => rs_local x
  | DPInt32 => rs_store (VInt KInt32 0) x
  | DInt32 => rs_local x
  | DPInt64 => rs_store (VInt KInt64 0) x
  | DInt64 => rs_local x
  | DPUint => rs_store (VInt KUint 0) x
  | DUint => rs_local x
  | DPUint8 => rs_store (VInt KUint8 0) x
  | DUint8 => rs_local x
  | DPUint16 => rs_store (VInt KUint16 0) x
  | DUint16 => rs_local x
  | DPUint32 => rs_store (VInt KUint32 0) x
  | DUint32 => rs_local x
  | DPUint64 => rs_store (VInt KUint64 0) x
  | DUint64 => rs_local x
  | DPF32 => rs_store (VF32 f_zero) x
  | DF32 => rs_local x
  | DPF64 => rs_store (VF64 f_zero) x
  | DF64 => rs_local x
  | DBytes => rs_local x                     (* p := x.([]byte); x = p[:0] *)
  | DPBytes =>
    if fx_reset v
    then (* p := x.( *[]byte ); *p = ( *p )[:0] *)
      match x with
      | APtr (VBytes aid _ c) => Ret (APtr (VBytes aid EmptyString c))
      | APtr w => Ret (APtr w)
      | _ => Panic NilDeref
      end
    else (* p := *x.( *[]byte ); p = p[:0]; x = &p *)
      w <- ld x ;; Ret x
  | DStr => rs_local x
  | DPStr =>
    if fx_reset v
    then rs_store (VStr 0 EmptyString) x     (* *x.( *string ) = "" *)
    else Ret x                               (* var s string; x = &s : no dereference at all *)
  | DOther => Ret x
  end.
