(* Model/Strings.v - executable model of StringsInspector (/repo/strings.go),
   every method, statement order as in the source.  Definitions only.

   Values.  A Go value of type []string or [][]byte is a header (nil or not,
   capacity) over elements; an element is its bytes, the identity of the
   allocation the bytes live in ([e_id]; two elements share bytes only if they
   have the same id - byte ranges handed out by ByteBuffer.Bufferize* never
   overlap, that is property C07) and, for [][]byte, its capacity.  The outer
   capacity is [None] once Go's append had to grow the slice: the new capacity
   is the runtime's business and is never compared.

   Argument forms.  [AVal] = the slice by value, [APtr] = pointer to it,
   [ANilPtr] = typed nil pointer, [AForeign] = any other dynamic type (the
   `default:` of every type switch; an untyped nil interface lands there too).

   Versions.  [ver] selects, per defect, the code of the pinned commit or the
   code after the corresponding "fix:" commit:
     v_set_empty  strings.go SetWithBuffer: `if txt {` (fixed) / `if len(p) > 0 {` (pinned)
     v_deq_empty  DeepEqualWithOptions: first case `ssLn+ppLn == 0 && ssRn+ppRn == 0` (fixed) / absent
     v_cmp_guard  Compare: `default: return nil` in the element switch (fixed) / absent
     v_nil_ptr    sp(), Reset, CopyTo's destination, Set's *string / *[]byte value: the pointer is tested
                  against nil before it is dereferenced (fixed) / dereferenced at once
   [before_nilfix] is the code after the first three commits and before the fourth. *)
From Coq Require Import ZArith NArith List Bool Ascii String Lia.
From Verif Require Import Util Strconv.
Import ListNotations.
Local Open Scope Z_scope.

Definition bytes := list ascii.

Record ver := { v_set_empty : bool; v_deq_empty : bool; v_cmp_guard : bool; v_nil_ptr : bool }.
Definition fixed : ver := {| v_set_empty := true; v_deq_empty := true; v_cmp_guard := true; v_nil_ptr := true |}.
Definition pinned : ver := {| v_set_empty := false; v_deq_empty := false; v_cmp_guard := false; v_nil_ptr := false |}.
Definition before_nilfix : ver := {| v_set_empty := true; v_deq_empty := true; v_cmp_guard := true; v_nil_ptr := false |}.

Inductive rep := SS | PP.
Record elem := { e_id : Z; e_data : bytes; e_cap : Z }.
Record sq := { q_rep : rep; q_nil : bool; q_elems : list elem; q_cap : option Z }.
Inductive arg := AVal (s : sq) | APtr (s : sq) | ANilPtr (r : rep) | AForeign.

Inductive pkind := NilDeref | IndexRange.
Inductive err := EAtoi | EUnsupported | EMustPointer.
Inductive out (A : Type) := Ret (a : A) (e : option err) | Panic (k : pkind).
Arguments Ret {A} a e.
Arguments Panic {A} k.

Definition zlen {A} (l : list A) : Z := Z.of_nat (List.length l).
(* s[i] for an int i *)
Definition znth {A} (l : list A) (i : Z) : option A :=
  if i <? 0 then None else nth_error l (Z.to_nat i).

(* ---------- sp: (ss, pp, ok) ---------- *)
Inductive spr := SpOk (ss pp : list elem) | SpNotOk | SpPanic.
Definition sp (w : ver) (x : arg) : spr :=
  match x with
  | AVal s | APtr s => match q_rep s with SS => SpOk (q_elems s) [] | PP => SpOk [] (q_elems s) end
  | ANilPtr _ => if v_nil_ptr w then SpOk [] []     (* if p := x.( *[]string); p != nil { ss = *p }: no sequence *)
                 else SpPanic                       (* *(x.( *[]string)) *)
  | AForeign => SpNotOk
  end.

(* the slice elements are shared with the caller in both forms: ss[idx] = ... is seen by it *)
Definition put_elems (x : arg) (l : list elem) : arg :=
  let upd s := {| q_rep := q_rep s; q_nil := q_nil s; q_elems := l; q_cap := q_cap s |} in
  match x with AVal s => AVal (upd s) | APtr s => APtr (upd s) | o => o end.

(* ---------- Get / GetTo ---------- *)
(* what lands in *buf: &ss[i] or &pp[i] *)
Inductive gref := RStr (i : Z) | RBytes (i : Z).

Definition si_get_to (w : ver) (x : arg) (path : list string) : out (option gref) :=
  match path with
  | [p] =>
    match sp w x with
    | SpPanic => Panic NilDeref
    | SpNotOk => Ret None None
    | SpOk ss pp =>
      match atoi p with
      | None => Ret None (Some EAtoi)
      | Some idx =>
        if idx <? 0 then Ret None None
        else if (0 <? zlen ss) && (idx <? zlen ss) then Ret (Some (RStr idx)) None
        else if (0 <? zlen pp) && (idx <? zlen pp) then Ret (Some (RBytes idx)) None
        else Ret None None
      end
    end
  | _ => Ret None None
  end.
(* Get: var x any; err := GetTo(src, &x, path...); return x, err *)
Definition si_get := si_get_to.

(* ---------- Set / SetWithBuffer ---------- *)
Record text := { t_id : Z; t_data : bytes }.
Inductive tval :=
| TString (t : text) | TStringPtr (t : option text)
| TBytes (t : text) | TBytesPtr (t : option text)
| TOther.

Inductive sel := SelText (p : bytes) | SelNone | SelPanic.
(* switch value.(type) { case string: ... case *string: ... } *)
Definition sel_ss (w : ver) (v : tval) : sel :=
  match v with
  | TString t => SelText (t_data t)
  | TStringPtr (Some t) => SelText (t_data t)
  | TStringPtr None => if v_nil_ptr w then SelNone else SelPanic     (* if x := value.( *string); x != nil { ... } *)
  | _ => SelNone
  end.
Definition sel_pp (w : ver) (v : tval) : sel :=
  match v with
  | TBytes t => SelText (t_data t)
  | TBytesPtr (Some t) => SelText (t_data t)
  | TBytesPtr None => if v_nil_ptr w then SelNone else SelPanic
  | _ => SelNone
  end.

(* buf.Bufferize(p): a fresh byte range with cap = len *)
Definition buffered (nid : Z) (p : bytes) : elem := {| e_id := nid; e_data := p; e_cap := zlen p |}.

Definition store (w : ver) (x : arg) (l : list elem) (idx : Z) (s : sel) (nid : Z) : out (arg * Z) :=
  match s with
  | SelPanic => Panic NilDeref
  | SelNone => Ret (x, nid) None
  | SelText p =>
    if (if v_set_empty w then true else 0 <? zlen p)
    then Ret (put_elems x (upd_nth (Z.to_nat idx) (buffered nid p) l), nid + 1) None
    else Ret (x, nid) None
  end.

Definition si_set_with_buffer (w : ver) (x : arg) (v : tval) (path : list string) (nid : Z) : out (arg * Z) :=
  match path with
  | [p] =>
    match sp w x with
    | SpPanic => Panic NilDeref
    | SpNotOk => Ret (x, nid) None
    | SpOk ss pp =>
      match atoi p with
      | None => Ret (x, nid) (Some EAtoi)
      | Some idx =>
        if idx <? 0 then Ret (x, nid) None
        else if (0 <? zlen ss) && (idx <? zlen ss) then store w x ss idx (sel_ss w v) nid
        else if (0 <? zlen pp) && (idx <? zlen pp) then store w x pp idx (sel_pp w v) nid
        else Ret (x, nid) None
      end
    end
  | _ => Ret (x, nid) None
  end.
(* Set: var buf ByteBuffer; return SetWithBuffer(dst, value, &buf, path...) *)
Definition si_set := si_set_with_buffer.

(* ---------- Compare ---------- *)
Inductive op := OpUnk | OpEq | OpNq | OpGt | OpGtq | OpLt | OpLtq | OpInc | OpDec.

(* Go's comparison of strings: byte-wise, lexicographic *)
Fixpoint bcmp (a b : bytes) : comparison :=
  match a, b with
  | [], [] => Eq
  | [], _ :: _ => Lt
  | _ :: _, [] => Gt
  | x :: a', y :: b' =>
    match N.compare (N_of_ascii x) (N_of_ascii y) with Eq => bcmp a' b' | c => c end
  end.

(* switch cond { ... } without default: Some b = *result written *)
Definition cmp_op (o : op) (s r : bytes) : option bool :=
  let c := bcmp s r in
  match o with
  | OpNq => Some (match c with Eq => false | _ => true end)
  | OpEq => Some (match c with Eq => true | _ => false end)
  | OpGt => Some (match c with Gt => true | _ => false end)
  | OpGtq => Some (match c with Lt => false | _ => true end)
  | OpLt => Some (match c with Lt => true | _ => false end)
  | OpLtq => Some (match c with Gt => false | _ => true end)
  | OpUnk | OpInc | OpDec => None
  end.

(* ss[idx] under the guard just evaluated *)
Definition index_data {A} (l : list elem) (idx : Z) (k : bytes -> out A) : out A :=
  match znth l idx with Some e => k (e_data e) | None => Panic IndexRange end.

Definition si_compare (w : ver) (x : arg) (o : op) (right : bytes) (path : list string) : out (option bool) :=
  match path with
  | [p] =>
    match sp w x with
    | SpPanic => Panic NilDeref
    | SpNotOk => Ret None None
    | SpOk ss pp =>
      match atoi p with
      | None => Ret None (Some EAtoi)
      | Some idx =>
        if idx <? 0 then Ret None None
        else if (0 <? zlen ss) && (idx <? zlen ss) then index_data ss idx (fun s => Ret (cmp_op o s right) None)
        else if (0 <? zlen pp) && (idx <? zlen pp) then index_data pp idx (fun s => Ret (cmp_op o s right) None)
        else if v_cmp_guard w then Ret None None
        else Ret (cmp_op o [] right) None          (* var s string stays "" *)
      end
    end
  | _ => Ret None None
  end.

(* ---------- Loop ---------- *)
Inductive lctl := CtlNone | CtlBrk | CtlCnt.
(* the iterator as a script: answers of the j-th RequireKey() and Iterate() call *)
Record iter := { it_want : nat -> bool; it_ctl : nat -> lctl }.
(* one round: SetKey(decimal text) if required, SetVal(&ss[j]), Iterate() *)
Record visit := { vi_key : option string; vi_val : gref }.

Fixpoint loop_from (mk : Z -> gref) (it : iter) (j n : nat) : list visit :=
  match n with
  | O => []
  | S n' =>
    let v := {| vi_key := if it_want it j then Some (Z_to_string (Z.of_nat j)) else None;   (* strconv.AppendInt(buf[:0], int64(j), 10) *)
                vi_val := mk (Z.of_nat j) |} in
    match it_ctl it j with
    | CtlBrk => [v]
    | _ => v :: loop_from mk it (S j) n'
    end
  end.

Definition si_loop (w : ver) (x : arg) (it : iter) (path : list string) : out (list visit) :=
  match path with
  | _ :: _ => Ret [] None
  | [] =>
    match sp w x with
    | SpPanic => Panic NilDeref
    | SpNotOk => Ret [] None
    | SpOk ss pp =>
      if 0 <? zlen ss then Ret (loop_from RStr it 0 (List.length ss)) None
      else if 0 <? zlen pp then Ret (loop_from RBytes it 0 (List.length pp)) None
      else Ret [] None
    end
  end.

(* ---------- DeepEqual / DeepEqualWithOptions (options ignored) ---------- *)
Fixpoint bytes_eqb (a b : bytes) : bool :=
  match a, b with
  | [], [] => true
  | x :: a', y :: b' => Ascii.eqb x y && bytes_eqb a' b'
  | _, _ => false
  end.

(* for j := 0; j < n; j++ { if L[j] != R[j] { return false } }; return true   (lengths equal) *)
Fixpoint all_eq (l r : list elem) : bool :=
  match l, r with
  | x :: l', y :: r' => if bytes_eqb (e_data x) (e_data y) then all_eq l' r' else false
  | _, _ => true
  end.

Definition si_deep_equal (w : ver) (l r : arg) : out bool :=
  match sp w l with
  | SpPanic => Panic NilDeref
  | SpNotOk => Ret false None
  | SpOk ssL ppL =>
    match sp w r with
    | SpPanic => Panic NilDeref
    | SpNotOk => Ret false None
    | SpOk ssR ppR =>
      let ssLn := zlen ssL in let ssRn := zlen ssR in let ppLn := zlen ppL in let ppRn := zlen ppR in
      if v_deq_empty w && (ssLn + ppLn =? 0) && (ssRn + ppRn =? 0) then Ret true None
      else if (0 <? ssLn) && (0 <? ssRn) && (ssLn =? ssRn) then Ret (all_eq ssL ssR) None
      else if (0 <? ssLn) && (0 <? ppRn) && (ssLn =? ppRn) then Ret (all_eq ssL ppR) None
      else if (0 <? ppLn) && (0 <? ssRn) && (ppLn =? ssRn) then Ret (all_eq ppL ssR) None
      else if (0 <? ppLn) && (0 <? ppRn) && (ppLn =? ppRn) then Ret (all_eq ppL ppR) None
      else Ret false None
    end
  end.
Definition si_deep_equal_with_options := si_deep_equal.

(* ---------- Copy / CopyTo ---------- *)
(* cpy := buf.BufferizeString(ssR[j]) / buf.Bufferize(ppR[j]); byteconv.S2B gives cap = len *)
Fixpoint copies (l : list elem) (nid : Z) : list elem :=
  match l with
  | [] => []
  | e :: r => buffered nid (e_data e) :: copies r (nid + 1)
  end.

(* *dst = append( *dst, c) for every c of cs *)
Definition append_all (d : sq) (cs : list elem) : sq :=
  match cs with
  | [] => d
  | _ :: _ =>
    {| q_rep := q_rep d; q_nil := false; q_elems := q_elems d ++ cs;
       q_cap := match q_cap d with
                | Some c => if zlen (q_elems d) + zlen cs <=? c then Some c else None
                | None => None
                end |}
  end.

Definition si_copy_to (w : ver) (src dst : arg) (nid : Z) : out (arg * Z) :=
  match sp w src with
  | SpPanic => Panic NilDeref
  | SpNotOk => Ret (dst, nid) (Some EUnsupported)
  | SpOk ssR ppR =>
    (* both destination cases run the same two-way switch on the source *)
    let picked := if 0 <? zlen ssR then ssR else if 0 <? zlen ppR then ppR else [] in
    match dst with
    | AVal _ => Ret (dst, nid) (Some EMustPointer)
    | APtr d =>
      match q_rep d with
      | SS => Ret (APtr (append_all d (copies picked nid)), nid + zlen picked) None
      | PP => Ret (APtr (append_all d (copies picked nid)), nid + zlen picked) None
      end
    | ANilPtr _ =>
      if v_nil_ptr w then Ret (dst, nid) (Some EUnsupported)    (* if ss = dst.( *[]string); ss == nil { return ErrUnsupportedType } *)
      else match picked with
           | [] => Ret (dst, nid) None
           | _ :: _ => Panic NilDeref                    (* *ss = append( *ss, cpy) *)
           end
    | AForeign => Ret (dst, nid) (Some EUnsupported)
    end
  end.

Definition nil_sq (r : rep) : sq := {| q_rep := r; q_nil := true; q_elems := []; q_cap := Some 0 |}.

(* Copy: var buf ByteBuffer; var dst []string; err := CopyTo(x, &dst, &buf); return dst, err *)
Definition si_copy (w : ver) (x : arg) (nid : Z) : out (sq * Z) :=
  match si_copy_to w x (APtr (nil_sq SS)) nid with
  | Ret (APtr d, n) e => Ret (d, n) e
  | Ret (_, n) e => Ret (nil_sq SS, n) e
  | Panic k => Panic k
  end.

(* ---------- Length / Capacity ---------- *)
(* what happened to *result *)
Inductive wr := NotWritten | Wrote (z : Z) | WroteUnknown.

Definition si_length (w : ver) (x : arg) (path : list string) : out wr :=
  match sp w x with
  | SpPanic => Panic NilDeref
  | SpNotOk => Ret NotWritten None
  | SpOk ss pp =>
    match path with
    | [p] =>
      match atoi p with
      | None => Ret NotWritten (Some EAtoi)
      | Some idx =>
        if (0 <? zlen ss) && (0 <=? idx) && (idx <? zlen ss) then index_data ss idx (fun s => Ret (Wrote (zlen s)) None)
        else if (0 <? zlen pp) && (0 <=? idx) && (idx <? zlen pp) then index_data pp idx (fun s => Ret (Wrote (zlen s)) None)
        else Ret NotWritten None
      end
    | _ =>
      (* if len(ss) > 0 { *result = len(ss) }; if len(pp) > 0 { *result = len(pp) } *)
      let r1 := if 0 <? zlen ss then Wrote (zlen ss) else NotWritten in
      let r2 := if 0 <? zlen pp then Wrote (zlen pp) else r1 in
      Ret r2 None
    end
  end.

Definition outer_cap (x : arg) : wr :=
  match x with
  | AVal s | APtr s => match q_cap s with Some c => Wrote c | None => WroteUnknown end
  | _ => NotWritten
  end.

Definition si_capacity (w : ver) (x : arg) (path : list string) : out wr :=
  match sp w x with
  | SpPanic => Panic NilDeref
  | SpNotOk => Ret NotWritten None
  | SpOk _ pp =>
    match path with
    | [p] =>
      match atoi p with
      | None => Ret NotWritten (Some EAtoi)
      | Some idx =>
        if (0 <? zlen pp) && (0 <=? idx) && (idx <? zlen pp)
        then match znth pp idx with Some e => Ret (Wrote (e_cap e)) None | None => Panic IndexRange end
        else Ret NotWritten None
      end
    | _ => if 0 <? zlen pp then Ret (outer_cap x) None else Ret NotWritten None
    end
  end.

(* ---------- Reset ---------- *)
Definition si_reset (w : ver) (x : arg) : out arg :=
  match x with
  | AVal _ => Ret x (Some EMustPointer)
  | APtr s => Ret (APtr {| q_rep := q_rep s; q_nil := q_nil s; q_elems := []; q_cap := q_cap s |}) None   (* ( *ss)[:0] *)
  | ANilPtr _ => if v_nil_ptr w then Ret x (Some EUnsupported)     (* if ss == nil { return ErrUnsupportedType } *)
                 else Panic NilDeref                               (* *ss = ( *ss)[:0] *)
  | AForeign => Ret x None
  end.

(* ---------- histories over one value ---------- *)
(* text handed to Set in the representation of the sequence itself, by value or pointer *)
Definition own_text (r : rep) (ptr : bool) (t : text) : tval :=
  match r, ptr with
  | SS, false => TString t | SS, true => TStringPtr (Some t)
  | PP, false => TBytes t | PP, true => TBytesPtr (Some t)
  end.

Definition rep_of (x : arg) : rep :=
  match x with AVal s | APtr s => q_rep s | ANilPtr r => r | AForeign => SS end.
Definition elems_of (x : arg) : list elem :=
  match x with AVal s | APtr s => q_elems s | _ => [] end.

Inductive hop :=
| HSet (ptr : bool) (t : bytes) (i : string)        (* Set/SetWithBuffer(v, text, i); the text is a fresh allocation *)
| HGet (i : string)
| HCompare (o : op) (right : bytes) (i : string)
| HLength (path : list string)
| HCapacity (path : list string)
| HLoop
| HDeepEqual (other : arg)
| HCopyFrom (src : arg)                              (* CopyTo(src, v, buf) *)
| HCopyOut (r : rep)                                 (* var d []string / [][]byte; CopyTo(v, &d, buf) *)
| HReset.

Inductive obs :=
| ODone (e : option err)
| OGet (r : option gref) (e : option err)
| OCmp (r : option bool) (e : option err)
| OWr (r : wr) (e : option err)
| OLoop (vs : list visit)
| OBool (b : bool)
| OCopy (d : arg) (e : option err)
| OPanic (k : pkind).

Record hst := { h_arg : arg; h_nid : Z }.

(* the all-keys, never-break iterator *)
Definition it_all : iter := {| it_want := fun _ => true; it_ctl := fun _ => CtlNone |}.

Definition hstep (w : ver) (st : hst) (o : hop) : hst * obs :=
  let x := h_arg st in let nid := h_nid st in
  match o with
  | HSet ptr t i =>
    (* the given text occupies allocation nid, the buffered copy nid+1 *)
    match si_set_with_buffer w x (own_text (rep_of x) ptr {| t_id := nid; t_data := t |}) [i] (nid + 1) with
    | Ret (x', n') e => ({| h_arg := x'; h_nid := n' |}, ODone e)
    | Panic k => (st, OPanic k)
    end
  | HGet i =>
    match si_get_to w x [i] with Ret r e => (st, OGet r e) | Panic k => (st, OPanic k) end
  | HCompare c r i =>
    match si_compare w x c r [i] with Ret b e => (st, OCmp b e) | Panic k => (st, OPanic k) end
  | HLength p =>
    match si_length w x p with Ret r e => (st, OWr r e) | Panic k => (st, OPanic k) end
  | HCapacity p =>
    match si_capacity w x p with Ret r e => (st, OWr r e) | Panic k => (st, OPanic k) end
  | HLoop =>
    match si_loop w x it_all [] with Ret vs _ => (st, OLoop vs) | Panic k => (st, OPanic k) end
  | HDeepEqual y =>
    match si_deep_equal w x y with Ret b _ => (st, OBool b) | Panic k => (st, OPanic k) end
  | HCopyFrom src =>
    match si_copy_to w src x nid with
    | Ret (x', n') e => ({| h_arg := x'; h_nid := n' |}, ODone e)
    | Panic k => (st, OPanic k)
    end
  | HCopyOut r =>
    match si_copy_to w x (APtr (nil_sq r)) nid with
    | Ret (d, n') e => ({| h_arg := x; h_nid := n' |}, OCopy d e)
    | Panic k => (st, OPanic k)
    end
  | HReset =>
    match si_reset w x with
    | Ret x' e => ({| h_arg := x'; h_nid := nid |}, ODone e)
    | Panic k => (st, OPanic k)
    end
  end.

Definition hrun (w : ver) (ops : list hop) (st : hst) : hst := fold_left (fun s o => fst (hstep w s o)) ops st.

(* the observations along a history *)
Fixpoint htrace (w : ver) (ops : list hop) (st : hst) : list obs :=
  match ops with
  | [] => []
  | o :: r => let '(st', ob) := hstep w st o in ob :: htrace w r st'
  end.
